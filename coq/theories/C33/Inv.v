(** C33/Inv.v — the refinement invariant between the node tree and the abstract resolver, and its consequences
    for lookups.  The ghost function [addr] gives every node id its path from the root. *)
From EV Require Import C33.Model C33.Spec C33.Lemmas.
Local Open Scope N_scope.

Definition prefix (P Q : list str) : Prop := exists R, Q = P ++ R.
Definition nonempty_opt (l : list N) : option (list N) := if is_nil l then None else Some l.
Definition at_addr (a : astate) (P : list str) : list aentry := filter (fun e => strs_eqb (parts_of e) P) a.
Definition named (a : astate) (name : str) : list aentry := filter (fun e => str_eqb (name_of e) name) a.

Definition info_rel (i : minfo) (e : aentry) : Prop :=
  i_file i = a_file e /\ i_full i = full_of e /\ i_name i = name_of e /\ i_ws i = a_ws e /\ i_hidden i = a_hidden e.

Definition opt_rel {A B} (R : A -> B -> Prop) (x : option A) (y : option B) : Prop :=
  match x, y with
  | Some u, Some v => R u v
  | None, None => True
  | _, _ => False
  end.

Record Inv (c : cfg) (s : midx) (a : astate) (addr : N -> list str) : Prop := mkInv {
  I_root : exists nd, ngetN ROOT (m_nodes s) = Some nd;
  I_addr_root : addr ROOT = [];
  I_child : forall n nd k ch, ngetN n (m_nodes s) = Some nd -> sget k (n_children nd) = Some ch ->
      (exists cd, ngetN ch (m_nodes s) = Some cd /\ n_parent cd = Some n) /\ addr ch = addr n ++ [k];
  I_ckeys : forall n nd, ngetN n (m_nodes s) = Some nd -> NoDup (map fst (n_children nd));
  I_parent : forall n nd, ngetN n (m_nodes s) = Some nd -> n <> ROOT ->
      exists p pd k, n_parent nd = Some p /\ ngetN p (m_nodes s) = Some pd /\ sget k (n_children pd) = Some n;
  I_inj : forall n m nd md, ngetN n (m_nodes s) = Some nd -> ngetN m (m_nodes s) = Some md ->
      addr n = addr m -> n = m;
  I_files : forall n nd, ngetN n (m_nodes s) = Some nd -> n_files nd = map a_file (at_addr a (addr n));
  I_live : forall n nd, ngetN n (m_nodes s) = Some nd -> n <> ROOT ->
      exists e, In e a /\ prefix (addr n) (parts_of e);
  I_complete : forall e P, In e a -> prefix P (parts_of e) ->
      exists n nd, ngetN n (m_nodes s) = Some nd /\ addr n = P;
  I_fmap_sound : forall f i, ngetN f (m_files s) = Some i ->
      exists e nd, In e a /\ a_file e = f /\ info_rel i e /\
                   ngetN (i_node i) (m_nodes s) = Some nd /\ addr (i_node i) = parts_of e;
  I_fmap_complete : forall e, In e a -> exists i, ngetN (a_file e) (m_files s) = Some i;
  I_a_nodup : NoDup (map a_file a);
  I_counter : forall n nd, ngetN n (m_nodes s) = Some nd -> n < m_counter s;
  I_fuzzy : if c_fuzzy c
            then forall name, sget name (m_fuzzy s) = nonempty_opt (map a_file (named a name))
            else m_fuzzy s = [];
  I_nodes_nodup : NoDup (map fst (m_nodes s));
  I_fmap_nodup : NoDup (map fst (m_files s));
  I_fuzzy_nodup : NoDup (map fst (m_fuzzy s))
}.

Lemma in_a_unique : forall (a : astate) e e',
  NoDup (map a_file a) -> In e a -> In e' a -> a_file e = a_file e' -> e = e'.
Proof.
  induction a as [|x a IH]; cbn [map]; intros e e' Hnd He He' Hf.
  - destruct He.
  - inversion Hnd as [|? ? Hx Hnd']; subst.
    destruct He as [->|He]; destruct He' as [->|He'].
    + reflexivity.
    + exfalso. apply Hx. rewrite Hf. apply in_map. exact He'.
    + exfalso. apply Hx. rewrite <- Hf. apply in_map. exact He.
    + apply IH; assumption.
Qed.

Lemma prefix_refl : forall P, prefix P P.
Proof. intro P. exists []. symmetry. apply app_nil_r. Qed.

Lemma prefix_app : forall P R, prefix P (P ++ R).
Proof. intros P R. exists R. reflexivity. Qed.

Lemma prefix_trans : forall P Q R, prefix P Q -> prefix Q R -> prefix P R.
Proof. intros P Q R [X ->] [Y ->]. exists (X ++ Y). symmetry. apply app_assoc. Qed.

Section Lookup.
  Variables (c : cfg) (s : midx) (a : astate) (addr : N -> list str).
  Hypothesis HI : Inv c s a addr.

  Lemma walk_sound : forall parts n0 nd0 n,
    ngetN n0 (m_nodes s) = Some nd0 -> walk (m_nodes s) n0 parts = Some n ->
    (exists nd, ngetN n (m_nodes s) = Some nd) /\ addr n = addr n0 ++ parts.
  Proof.
    induction parts as [|k rest IH]; intros n0 nd0 n Hn0 Hw; cbn [walk] in Hw.
    - inversion Hw; subst. split; [eauto | symmetry; apply app_nil_r].
    - rewrite Hn0 in Hw. destruct (sget k (n_children nd0)) as [ch|] eqn:Hk; [|discriminate].
      destruct (I_child _ _ _ _ HI n0 nd0 k ch Hn0 Hk) as [[cd [Hcd _]] Haddr].
      destruct (IH ch cd n Hcd Hw) as [Hex Ha]. split; [exact Hex|].
      rewrite Ha, Haddr, <- app_assoc. reflexivity.
  Qed.

  Lemma not_root_of_addr : forall m x l, addr m = l ++ [x] -> m <> ROOT.
  Proof.
    intros m x l Hm ->. rewrite (I_addr_root _ _ _ _ HI) in Hm. destruct l; discriminate.
  Qed.

  (** the node at address [addr n0 ++ [k]] is the child [k] of [n0] *)
  Lemma child_at : forall n0 nd0 k m1 md1,
    ngetN n0 (m_nodes s) = Some nd0 -> ngetN m1 (m_nodes s) = Some md1 -> addr m1 = addr n0 ++ [k] ->
    sget k (n_children nd0) = Some m1.
  Proof.
    intros n0 nd0 k m1 md1 Hn0 Hm1 Ha.
    assert (Hnr : m1 <> ROOT) by (eapply not_root_of_addr; exact Ha).
    destruct (I_parent _ _ _ _ HI m1 md1 Hm1 Hnr) as [p [pd [k' [_ [Hp Hk']]]]].
    destruct (I_child _ _ _ _ HI p pd k' m1 Hp Hk') as [_ Ha'].
    rewrite Ha in Ha'. apply app_inj_tail in Ha'. destruct Ha' as [Hpp ->].
    assert (p = n0) by (eapply (I_inj _ _ _ _ HI); eauto). subst p.
    rewrite Hn0 in Hp. inversion Hp; subst. exact Hk'.
  Qed.

  Lemma walk_complete : forall parts n0 nd0 m md,
    ngetN n0 (m_nodes s) = Some nd0 -> ngetN m (m_nodes s) = Some md -> addr m = addr n0 ++ parts ->
    walk (m_nodes s) n0 parts = Some m.
  Proof.
    induction parts as [|k rest IH]; intros n0 nd0 m md Hn0 Hm Ha; cbn [walk].
    - rewrite app_nil_r in Ha. f_equal. symmetry. eapply (I_inj _ _ _ _ HI); eauto.
    - rewrite Hn0.
      assert (Hnr : m <> ROOT).
      { intros ->. rewrite (I_addr_root _ _ _ _ HI) in Ha. destruct (addr n0); discriminate. }
      destruct (I_live _ _ _ _ HI m md Hm Hnr) as [e [He Hpre]].
      assert (Hpre1 : prefix (addr n0 ++ [k]) (parts_of e)).
      { eapply prefix_trans; [|exact Hpre]. rewrite Ha. exists rest. rewrite <- app_assoc. reflexivity. }
      destruct (I_complete _ _ _ _ HI e _ He Hpre1) as [m1 [md1 [Hm1 Ha1]]].
      rewrite (child_at n0 nd0 k m1 md1 Hn0 Hm1 Ha1).
      apply (IH m1 md1 m md Hm1 Hm). rewrite Ha1, <- app_assoc. exact Ha.
  Qed.

  (** every entry of [a] has its related record in the file map *)
  Lemma fmap_rel : forall e, In e a -> exists i, ngetN (a_file e) (m_files s) = Some i /\ info_rel i e.
  Proof.
    intros e He. destruct (I_fmap_complete _ _ _ _ HI e He) as [i Hi]. exists i. split; [exact Hi|].
    destruct (I_fmap_sound _ _ _ _ HI _ _ Hi) as [e' [nd [He' [Hf [Hrel _]]]]].
    assert (e' = e) by (eapply in_a_unique; eauto using (I_a_nodup _ _ _ _ HI)). subst. exact Hrel.
  Qed.
End Lookup.

(** ---- the pick loop ---- *)
Fixpoint pick_loop (prefer : bool) (l : list aentry) (first : option aentry) : option aentry :=
  match l with
  | [] => first
  | e :: r =>
      let first' := match first with None => Some e | Some _ => first end in
      if negb prefer || negb (a_hidden e) then Some e else pick_loop prefer r first'
  end.

Lemma pick_loop_true : forall l first,
  pick_loop true l first =
  match find (fun x => negb (a_hidden x)) l with
  | Some x => Some x
  | None => match first with Some f => Some f | None => hd_error l end
  end.
Proof.
  induction l as [|e r IH]; intro first; cbn [pick_loop find hd_error negb orb].
  - destruct first; reflexivity.
  - destruct (a_hidden e); cbn [negb].
    + rewrite IH. destruct (find (fun x => negb (a_hidden x)) r); [reflexivity|].
      destruct first; reflexivity.
    + reflexivity.
Qed.

Lemma pick_loop_pick : forall l, pick_loop (Nat.ltb 1 (length l)) l None = pick l.
Proof.
  intros [|e [|e2 r]].
  - reflexivity.
  - cbn. reflexivity.
  - change (Nat.ltb 1 (length (e :: e2 :: r))) with true. rewrite pick_loop_true.
    unfold pick. destruct (find (fun x => negb (a_hidden x)) (e :: e2 :: r)); reflexivity.
Qed.

Definition Rel (fmap : list (N * minfo)) (l : list aentry) : Prop :=
  Forall (fun e => exists i, ngetN (a_file e) fmap = Some i /\ info_rel i e) l.

Lemma exact_pick_rel : forall fmap prefer l first first',
  Rel fmap l -> opt_rel info_rel first first' ->
  opt_rel info_rel (exact_pick fmap prefer (map a_file l) first) (pick_loop prefer l first').
Proof.
  induction l as [|e r IH]; intros first first' HR Hf; cbn [map exact_pick pick_loop].
  - exact Hf.
  - inversion HR as [|? ? [i [Hi Hrel]] HR']; subst. rewrite Hi.
    assert (Hh : i_hidden i = a_hidden e) by (destruct Hrel as [_ [_ [_ [_ H]]]]; exact H).
    rewrite Hh. destruct (negb prefer || negb (a_hidden e)).
    + exact Hrel.
    + apply IH; [exact HR'|]. destruct first, first'; cbn in Hf |- *; try contradiction; assumption.
Qed.

Lemma min_by_rel : forall A B (R : A -> B -> Prop) (key : A -> N * str) (key' : B -> N * str) l l' b b',
  (forall x y, R x y -> key x = key' y) ->
  Forall2 R l l' -> opt_rel R b b' -> opt_rel R (min_by key l b) (min_by key' l' b').
Proof.
  intros A B R key key' l l' b b' Hk HF. revert b b'.
  induction HF as [|x y l l' Hxy HF IH]; intros b b' Hb; cbn [min_by].
  - exact Hb.
  - destruct b as [u|], b' as [v|]; cbn in Hb; try contradiction.
    + rewrite (Hk _ _ Hxy), (Hk _ _ Hb). destruct (cand_lt (key' y) (key' v)); apply IH; assumption.
    + apply IH. exact Hxy.
Qed.

Lemma fuzzy_cands_rel : forall fmap path l,
  Rel fmap l ->
  Forall2 (fun ki ke => fst ki = fst ke /\ info_rel (snd ki) (snd ke))
          (fuzzy_cands fmap path (map a_file l)) (spec_cands path l).
Proof.
  induction l as [|e r IH]; intro HR; cbn [map fuzzy_cands spec_cands].
  - constructor.
  - inversion HR as [|? ? [i [Hi Hrel]] HR']; subst. rewrite Hi.
    assert (Hfull : i_full i = full_of e) by (destruct Hrel as [_ [H _]]; exact H).
    rewrite Hfull. destruct (leading_count (full_of e) path).
    + constructor; [split; [reflexivity | exact Hrel] | auto].
    + auto.
Qed.

Lemma opt_rel_map_snd : forall (x : option (N * minfo)) (y : option (N * aentry)),
  opt_rel (fun ki ke => fst ki = fst ke /\ info_rel (snd ki) (snd ke)) x y ->
  opt_rel info_rel (option_map snd x) (option_map snd y).
Proof. intros [[? ?]|] [[? ?]|]; cbn; tauto. Qed.

Section Find.
  Variables (c : cfg) (s : midx) (a : astate) (addr : N -> list str).
  Hypothesis HI : Inv c s a addr.

  Lemma rel_sublist : forall l, (forall e, In e l -> In e a) -> Rel (m_files s) l.
  Proof.
    intros l Hl. apply Forall_forall. intros e He. eapply fmap_rel; eauto.
  Qed.

  Lemma find_norm_rel : forall mp, opt_rel info_rel (find_norm s mp) (spec_exact a mp).
  Proof.
    intro mp. unfold find_norm, exact_find, spec_exact.
    destruct (I_root _ _ _ _ HI) as [rd Hrd].
    destruct (walk (m_nodes s) ROOT (split_dot mp)) as [n|] eqn:Hw.
    - destruct (walk_sound _ _ _ _ HI _ _ _ _ Hrd Hw) as [[nd Hnd] Ha].
      rewrite (I_addr_root _ _ _ _ HI) in Ha. cbn [app] in Ha.
      rewrite Hnd, (I_files _ _ _ _ HI n nd Hnd), Ha.
      change (at_addr a (split_dot mp)) with (exact_set a mp).
      rewrite map_length, <- pick_loop_pick.
      apply exact_pick_rel; [|exact I].
      apply rel_sublist. intros e He. apply filter_In in He. tauto.
    - destruct (exact_set a mp) as [|e r] eqn:E; [exact I|]. exfalso.
      assert (He : In e (exact_set a mp)) by (rewrite E; left; reflexivity).
      apply filter_In in He. destruct He as [He Hp]. apply strs_eqb_eq in Hp.
      destruct (I_complete _ _ _ _ HI e (split_dot mp) He) as [m [md [Hm Ham]]].
      { rewrite <- Hp. apply prefix_refl. }
      assert (Hw' : walk (m_nodes s) ROOT (split_dot mp) = Some m).
      { eapply (walk_complete _ _ _ _ HI); eauto. rewrite (I_addr_root _ _ _ _ HI). exact Ham. }
      congruence.
  Qed.

  Lemma fuzzy_find_rel : forall path, c_fuzzy c = true ->
    opt_rel info_rel (fuzzy_find s path (last_part (split_dot path))) (spec_fuzzy a path).
  Proof.
    intros path Hfz. unfold fuzzy_find, spec_fuzzy.
    pose proof (I_fuzzy _ _ _ _ HI) as HF. rewrite Hfz in HF. rewrite HF.
    fold (named a (last_part (split_dot path))).
    set (L := named a (last_part (split_dot path))).
    unfold nonempty_opt. destruct (is_nil (map a_file L)) eqn:En.
    - apply is_nil_true in En. destruct L; [|discriminate]. exact I.
    - apply opt_rel_map_snd. apply min_by_rel with (R := fun ki ke => fst ki = fst ke /\ info_rel (snd ki) (snd ke)).
      + intros [k i] [k' e] [Hk Hrel]. cbn [fst snd] in *. subst.
        destruct Hrel as [_ [H _]]. rewrite H. reflexivity.
      + apply fuzzy_cands_rel. apply rel_sublist. intros e He. apply filter_In in He. tauto.
      + exact I.
  Qed.

  Lemma find_module_rel : forall q, opt_rel info_rel (find_module c s q) (spec_find c a q).
  Proof.
    intro q. unfold find_module, spec_find.
    pose proof (find_norm_rel (normalize q)) as H1.
    destruct (find_norm s (normalize q)) as [i|], (spec_exact a (normalize q)) as [e|]; cbn in H1; try contradiction.
    - exact H1.
    - set (mapped := if c_rw_on c then _ else None).
      destruct mapped as [m|].
      + pose proof (find_norm_rel m) as H2.
        destruct (find_norm s m) as [i|], (spec_exact a m) as [e|]; cbn in H2; try contradiction.
        * exact H2.
        * destruct (c_fuzzy c) eqn:Hfz; [|exact I].
          pose proof (fuzzy_find_rel m Hfz) as H3.
          destruct (fuzzy_find s m (last_part (split_dot m))) as [i|], (spec_fuzzy a m) as [e|]; cbn in H3; try contradiction.
          -- exact H3.
          -- apply fuzzy_find_rel. exact Hfz.
      + destruct (c_fuzzy c) eqn:Hfz; [|exact I]. apply fuzzy_find_rel. exact Hfz.
  Qed.

  Lemma find_module_view : forall q,
    option_map view_i (find_module c s q) = option_map view_a (spec_find c a q).
  Proof.
    intro q. pose proof (find_module_rel q) as H.
    destruct (find_module c s q) as [i|], (spec_find c a q) as [e|]; cbn in H; try contradiction; [|reflexivity].
    destruct H as [H1 [H2 [_ [H4 H5]]]]. cbn [option_map]. unfold view_i, view_a. congruence.
  Qed.
End Find.
