(** C33/Props.v — property theorems only.  Each is closed by [exact] of a lemma of Proofs.v.
    [run c ops] is the real index's state machine (tree of nodes, file map, fuzzy map, id counter) after the history
    [ops] under configuration [c]; [arun c ops] is the abstract resolver's state: the ordered finite set of
    (file, module path, workspace, hidden) entries.  [c] ranges over ALL configurations, including every rewrite
    function [c_rw] standing for the moduleMap regexes. *)
From EV Require Import C33.Model C33.Spec C33.Proofs.
Local Open Scope N_scope.

(** For every configuration, every add/remove/hide/clear history and every require string, the tree index answers
    exactly like the abstract resolver (same file, same full module name, same workspace, same visibility). *)
Theorem find_refines_spec : forall (c : cfg) (ops : list op) (q : str),
  option_map view_i (find_module c (run c ops) q) = option_map view_a (spec_find c (arun c ops) q).
Proof. exact Proofs.find_refines_spec. Qed.

(** If some registered file has exactly the required module path, the answer is an exact match
    (never a fuzzy suffix match, never a moduleMap rewrite). *)
Theorem exact_before_fuzzy : forall (c : cfg) (ops : list op) (q : str) (e : aentry),
  In e (arun c ops) -> a_path e = normalize q ->
  exists i, find_module c (run c ops) q = Some i /\ i_full i = normalize q.
Proof. exact Proofs.exact_before_fuzzy. Qed.

(** The choice among several candidates is a function of the abstract state alone: two histories that register the
    same ordered set of files answer every require identically (node ids, hash-map layout, earlier additions and
    removals do not matter). *)
Theorem fuzzy_choice_deterministic : forall (c : cfg) (ops1 ops2 : list op) (q : str),
  arun c ops1 = arun c ops2 ->
  option_map view_i (find_module c (run c ops1) q) = option_map view_i (find_module c (run c ops2) q).
Proof. exact Proofs.fuzzy_choice_deterministic. Qed.

(** After a file is removed, no require string resolves to it. *)
Theorem removed_unresolvable : forall (c : cfg) (ops : list op) (f : N) (q : str) (i : minfo),
  find_module c (run c (ops ++ [ORemove f])) q = Some i -> i_file i <> f.
Proof. exact Proofs.removed_unresolvable. Qed.

(** The number of tree nodes and of file records is a function of the abstract state: one node per distinct
    prefix of a registered module path (the root included) — nothing accumulates over add/remove cycles. *)
Theorem module_sizes_spec : forall (c : cfg) (ops : list op),
  length (m_nodes (run c ops)) = length (nodup strs_eq_dec (all_prefixes (arun c ops))) /\
  length (m_files (run c ops)) = length (arun c ops).
Proof. exact Proofs.module_sizes_spec. Qed.

(** non-vacuity: a history with a shared module path, a hidden file, a re-registration and a fuzzy tie *)
Example refinement_example :
  option_map i_file (find_module ex_cfg (run ex_cfg ex_ops) [97; 46; 98; 46; 99]) = Some 3 /\
  option_map i_file (find_module ex_cfg (run ex_cfg ex_ops) [98; 46; 99]) = Some 1 /\
  option_map i_file (find_module ex_cfg (run ex_cfg ex_ops) [99]) = Some 2 /\
  option_map i_file (find_module ex_cfg (run ex_cfg (ex_ops ++ [ORemove 2])) [120; 47; 99]) = None /\
  option_map a_file (spec_find ex_cfg (arun ex_cfg ex_ops) [99]) = Some 2 /\
  length (m_nodes (run ex_cfg ex_ops)) = 6%nat /\
  length (m_nodes (run ex_cfg (ex_ops ++ [ORemove 1; ORemove 3]))) = 3%nat.
Proof. exact Proofs.refinement_example. Qed.
