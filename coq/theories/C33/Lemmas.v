(** C33/Lemmas.v — association lists, string equality, split/join. *)
From EV Require Import C33.Model.
Local Open Scope N_scope.

Lemma str_eqb_spec : forall a b, reflect (a = b) (str_eqb a b).
Proof.
  induction a as [|x a IH]; destruct b as [|y b]; cbn [str_eqb]; try (constructor; congruence).
  destruct (N.eqb_spec x y) as [->|Hne]; cbn [andb].
  - destruct (IH b) as [->|Hne]; constructor; congruence.
  - constructor; congruence.
Qed.

Lemma str_eqb_refl : forall a, str_eqb a a = true.
Proof. intro a. destruct (str_eqb_spec a a); congruence. Qed.

Lemma str_eqb_eq : forall a b, str_eqb a b = true <-> a = b.
Proof. intros a b. destruct (str_eqb_spec a b); split; congruence. Qed.

Lemma strs_eqb_spec : forall a b, reflect (a = b) (strs_eqb a b).
Proof.
  induction a as [|x a IH]; destruct b as [|y b]; cbn [strs_eqb]; try (constructor; congruence).
  destruct (str_eqb_spec x y) as [->|Hne]; cbn [andb].
  - destruct (IH b) as [->|Hne]; constructor; congruence.
  - constructor; congruence.
Qed.

Lemma strs_eqb_refl : forall a, strs_eqb a a = true.
Proof. intro a. destruct (strs_eqb_spec a a); congruence. Qed.

Lemma strs_eqb_eq : forall a b, strs_eqb a b = true <-> a = b.
Proof. intros a b. destruct (strs_eqb_spec a b); split; congruence. Qed.

Lemma is_nil_true : forall A (l : list A), is_nil l = true <-> l = [].
Proof. destruct l; cbn; split; congruence. Qed.

(** ---- association lists ---- *)
Section AssocFacts.
  Variables (K V : Type) (eqb : K -> K -> bool).
  Hypothesis eqb_spec : forall a b, reflect (a = b) (eqb a b).

  Lemma aget_aset : forall k k' (v : V) l,
    aget eqb k (aset eqb k' v l) = if eqb k k' then Some v else aget eqb k l.
  Proof.
    induction l as [|[k2 v2] l IH]; cbn [aset aget].
    - reflexivity.
    - destruct (eqb_spec k' k2) as [->|Hne]; cbn [aget].
      + destruct (eqb_spec k k2); reflexivity.
      + destruct (eqb_spec k k2) as [->|Hne2].
        * destruct (eqb_spec k2 k'); congruence.
        * exact IH.
  Qed.

  Lemma aget_adel : forall k k' (l : list (K * V)),
    aget eqb k (adel eqb k' l) = if eqb k k' then None else aget eqb k l.
  Proof.
    induction l as [|[k2 v2] l IH]; cbn [adel aget].
    - destruct (eqb k k'); reflexivity.
    - destruct (eqb_spec k' k2) as [->|Hne].
      + rewrite IH. destruct (eqb_spec k k2); reflexivity.
      + cbn [aget]. destruct (eqb_spec k k2) as [->|Hne2].
        * destruct (eqb_spec k2 k'); congruence.
        * exact IH.
  Qed.

  Lemma aget_app : forall k (l1 l2 : list (K * V)),
    aget eqb k (l1 ++ l2) = match aget eqb k l1 with Some x => Some x | None => aget eqb k l2 end.
  Proof.
    induction l1 as [|[k2 v2] l1 IH]; intros; cbn [app aget].
    - reflexivity.
    - destruct (eqb k k2); [reflexivity | apply IH].
  Qed.

  Lemma aget_In : forall k v (l : list (K * V)), aget eqb k l = Some v -> In (k, v) l.
  Proof.
    induction l as [|[k2 v2] l IH]; cbn [aget]; intro H.
    - discriminate.
    - destruct (eqb_spec k k2) as [->|Hne].
      + inversion H. left. reflexivity.
      + right. auto.
  Qed.

  Lemma aget_None_notin : forall k (l : list (K * V)), aget eqb k l = None -> ~ In k (map fst l).
  Proof.
    induction l as [|[k2 v2] l IH]; cbn [aget map fst]; intros H Hin.
    - exact Hin.
    - destruct (eqb_spec k k2) as [->|Hne]; [discriminate|].
      destruct Hin as [Heq|Hin]; [congruence | exact (IH H Hin)].
  Qed.

  Lemma In_keys_aget : forall k (l : list (K * V)), In k (map fst l) -> exists v, aget eqb k l = Some v.
  Proof.
    induction l as [|[k2 v2] l IH]; cbn [aget map fst]; intro Hin.
    - destruct Hin.
    - destruct (eqb_spec k k2) as [->|Hne]; [eauto|].
      destruct Hin as [Heq|Hin]; [congruence | auto].
  Qed.

  Lemma In_nodup_aget : forall k v (l : list (K * V)),
    NoDup (map fst l) -> In (k, v) l -> aget eqb k l = Some v.
  Proof.
    induction l as [|[k2 v2] l IH]; cbn [aget map fst]; intros Hnd Hin.
    - destruct Hin.
    - inversion Hnd as [|? ? Hnotin Hnd']; subst.
      destruct Hin as [Heq|Hin].
      + inversion Heq; subst. destruct (eqb_spec k k); congruence.
      + destruct (eqb_spec k k2) as [->|Hne].
        * exfalso. apply Hnotin. change k2 with (fst (k2, v)). apply in_map. exact Hin.
        * auto.
  Qed.

  Lemma keys_aset_present : forall k (v v0 : V) l,
    aget eqb k l = Some v0 -> map fst (aset eqb k v l) = map fst l.
  Proof.
    induction l as [|[k2 v2] l IH]; cbn [aget aset map fst]; intro H.
    - discriminate.
    - destruct (eqb_spec k k2) as [->|Hne]; cbn [map fst].
      + reflexivity.
      + f_equal. auto.
  Qed.

  Lemma keys_aset_absent : forall k (v : V) l,
    aget eqb k l = None -> aset eqb k v l = l ++ [(k, v)].
  Proof.
    induction l as [|[k2 v2] l IH]; cbn [aget aset app]; intro H.
    - reflexivity.
    - destruct (eqb_spec k k2) as [->|Hne]; [discriminate|]. f_equal. auto.
  Qed.

  Lemma keys_adel_incl : forall k (l : list (K * V)) x, In x (map fst (adel eqb k l)) -> In x (map fst l).
  Proof.
    induction l as [|[k2 v2] l IH]; cbn [adel map fst]; intros x Hin.
    - exact Hin.
    - destruct (eqb k k2).
      + right. auto.
      + destruct Hin as [Heq|Hin]; [left; exact Heq | right; auto].
  Qed.

  Lemma nodup_adel : forall k (l : list (K * V)), NoDup (map fst l) -> NoDup (map fst (adel eqb k l)).
  Proof.
    induction l as [|[k2 v2] l IH]; cbn [adel map fst]; intro Hnd.
    - constructor.
    - inversion Hnd as [|? ? Hnotin Hnd']; subst.
      destruct (eqb k k2); [auto|].
      cbn [map fst]. constructor; [|auto].
      intro Hin. apply Hnotin. eapply keys_adel_incl. exact Hin.
  Qed.

  Lemma nodup_snoc : forall A (x : A) l, NoDup l -> ~ In x l -> NoDup (l ++ [x]).
  Proof.
    induction l as [|y l IH]; cbn [app]; intros Hnd Hnotin.
    - constructor; [intros [] | constructor].
    - inversion Hnd as [|? ? Hy Hnd']; subst. constructor.
      + intro Hin. apply in_app_or in Hin. destruct Hin as [Hin|[Heq|[]]].
        * exact (Hy Hin).
        * apply Hnotin. left. symmetry; exact Heq.
      + apply IH; [exact Hnd' | intro Hin; apply Hnotin; right; exact Hin].
  Qed.

  Lemma nodup_aset : forall k (v : V) l, NoDup (map fst l) -> NoDup (map fst (aset eqb k v l)).
  Proof.
    intros k v l Hnd. destruct (aget eqb k l) as [v0|] eqn:Hg.
    - rewrite (keys_aset_present _ _ _ _ Hg). exact Hnd.
    - rewrite (keys_aset_absent _ _ _ Hg). rewrite map_app. cbn [map fst].
      apply nodup_snoc; [exact Hnd | apply aget_None_notin; exact Hg].
  Qed.
End AssocFacts.

Arguments aget_aset {K V eqb} eqb_spec k k' v l.
Arguments aget_adel {K V eqb} eqb_spec k k' l.
Arguments aget_app {K V} eqb k l1 l2.
Arguments aget_In {K V eqb} eqb_spec k v l _.
Arguments aget_None_notin {K V eqb} eqb_spec k l _ _.
Arguments In_keys_aget {K V eqb} eqb_spec k l _.
Arguments In_nodup_aget {K V eqb} eqb_spec k v l _ _.
Arguments keys_aset_present {K V eqb} eqb_spec k v v0 l _.
Arguments keys_aset_absent {K V eqb} eqb_spec k v l _.
Arguments nodup_adel {K V} eqb k l _.
Arguments nodup_aset {K V eqb} eqb_spec k v l _.

Definition Neqb_spec := N.eqb_spec.

(** ---- split / join ---- *)
Lemma split_on_nonempty : forall sep s, split_on sep s <> [].
Proof.
  intros sep s. destruct s as [|c r]; cbn [split_on]; [discriminate|].
  destruct (c =? sep); [discriminate|]. destruct (split_on sep r); discriminate.
Qed.

Lemma join_split : forall s, join_dot (split_dot s) = s.
Proof.
  unfold split_dot. induction s as [|c r IH]; cbn [split_on join_dot]; [reflexivity|].
  destruct (N.eqb_spec c DOT) as [->|Hne].
  - pose proof (split_on_nonempty DOT r) as Hn.
    destruct (split_on DOT r) as [|h t] eqn:E; [congruence|].
    cbn [join_dot app]. rewrite <- IH. reflexivity.
  - pose proof (split_on_nonempty DOT r) as Hn.
    destruct (split_on DOT r) as [|h t] eqn:E; [congruence|].
    rewrite <- IH. destruct t as [|h2 t2]; cbn [join_dot app]; reflexivity.
Qed.

Lemma split_dot_nonempty : forall s, split_dot s <> [].
Proof. intro s. apply split_on_nonempty. Qed.
