(** C33/AddInv.v — [add_module_by_module_path], [set_module_visibility], [clear] preserve the invariant. *)
From EV Require Import C33.Model C33.Spec C33.Lemmas C33.Inv C33.Tree C33.Remove C33.Add.
Local Open Scope N_scope.

Lemma live_weaken : forall nodes a addr X, Live nodes a addr None -> Live nodes a addr (Some X).
Proof. intros nodes a addr X H n nd Hn Hr _. exact (H n nd Hn Hr I). Qed.

Lemma filter_app_one : forall A (f : A -> bool) l x,
  filter f (l ++ [x]) = filter f l ++ (if f x then [x] else []).
Proof. intros. rewrite filter_app. cbn [filter]. destruct (f x); reflexivity. Qed.

(** the state on which the insertion proper works: the file is not registered *)
Lemma pre_add : forall c s a addr f, Inv c s a addr ->
  Inv c (if has_file f s then m_remove f s else s) (a_remove f a) addr.
Proof.
  intros c s a addr f HI. unfold has_file. destruct (ngetN f (m_files s)) eqn:E.
  - apply inv_remove. exact HI.
  - rewrite (remove_absent c s a addr f HI E). exact HI.
Qed.

Lemma inv_add : forall c s a addr f mp ws, Inv c s a addr ->
  exists addr', Inv c (m_add c f mp ws s) (a_add f mp ws a) addr'.
Proof.
  intros c s a addr f mp ws HI0. unfold m_add, a_add.
  pose proof (pre_add c s a addr f HI0) as HI.
  set (s1 := if has_file f s then m_remove f s else s) in *.
  set (a1 := a_remove f a) in *.
  assert (Hfresh : forall e, In e a1 -> a_file e <> f).
  { intros e He. apply in_a_remove in He. tauto. }
  set (X := split_dot mp).
  set (enew := mkA f mp ws false).
  destruct (I_root _ _ _ _ HI) as [rd Hrd].
  assert (HX : X = addr ROOT ++ X) by (rewrite (I_addr_root _ _ _ _ HI); reflexivity).
  destruct (ensure_ok X ROOT rd (m_nodes s1) (m_counter s1) addr a1 X
              (inv_tree _ _ _ _ HI) (live_weaken _ _ _ _ (inv_live _ _ _ _ HI)) Hrd HX)
    as [nodes' [cnt' [nid [addr' [He [R1 [R2 [R3 [[ndx Hndx] [R5 R6]]]]]]]]]].
  rewrite He. rewrite Hndx.
  set (ndx' := mkNode (n_parent ndx) (n_children ndx) (n_files ndx ++ [f])).
  set (info := mkInfo f (join_dot X) (last_part X) nid ws false).
  exists addr'.
  assert (Hget : forall n, ngetN n (nsetN nid ndx' nodes') = if n =? nid then Some ndx' else ngetN n nodes').
  { intro n. apply nget_set. }
  assert (Hold : forall n x, ngetN n (nsetN nid ndx' nodes') = Some x ->
            exists x0, ngetN n nodes' = Some x0 /\ n_parent x = n_parent x0 /\ n_children x = n_children x0 /\
                       (n <> nid -> x = x0) /\ (n = nid -> x = ndx')).
  { intros n x H. rewrite Hget in H. destruct (N.eqb_spec n nid) as [->|Hne].
    - inversion H; subst x. exists ndx. repeat split; auto. congruence.
    - exists x. repeat split; auto. congruence. }
  assert (Hnew : forall n x0, ngetN n nodes' = Some x0 ->
            exists x, ngetN n (nsetN nid ndx' nodes') = Some x /\ n_parent x = n_parent x0 /\ n_children x = n_children x0).
  { intros n x0 H. rewrite Hget. destruct (N.eqb_spec n nid) as [->|Hne].
    - rewrite Hndx in H. inversion H; subst x0. exists ndx'. auto.
    - exists x0. auto. }
  assert (Hparts : parts_of enew = X) by reflexivity.
  constructor; cbn [m_nodes m_files m_fuzzy m_counter].
  - destruct (T_root _ _ _ _ R1) as [r0 Hr0]. destruct (Hnew ROOT r0 Hr0) as [x [H _]]. eauto.
  - exact (T_addr_root _ _ _ _ R1).
  - intros n x k ch Hn Hk. destruct (Hold n x Hn) as [x0 [H0 [_ [Hch _]]]]. rewrite Hch in Hk.
    destruct (T_child _ _ _ _ R1 n x0 k ch H0 Hk) as [[cd [Hcd Hpar]] Ha]. split; [|exact Ha].
    destruct (Hnew ch cd Hcd) as [cd' [H1 [H2 _]]]. exists cd'. split; [exact H1 | congruence].
  - intros n x Hn. destruct (Hold n x Hn) as [x0 [H0 [_ [Hch _]]]]. rewrite Hch. eapply (T_ckeys _ _ _ _ R1); exact H0.
  - intros n x Hn Hr. destruct (Hold n x Hn) as [x0 [H0 [Hpar _]]].
    destruct (T_parent _ _ _ _ R1 n x0 H0 Hr) as [p [pd [k [Hp [Hpd Hk]]]]].
    destruct (Hnew p pd Hpd) as [pd' [H1 [_ H3]]].
    exists p, pd', k. split; [congruence|]. split; [exact H1 | congruence].
  - intros n m x y Hn Hm. destruct (Hold n x Hn) as [x0 [H0 _]]. destruct (Hold m y Hm) as [y0 [H1 _]].
    eapply (T_inj _ _ _ _ R1); eauto.
  - intros n x Hn. destruct (Hold n x Hn) as [x0 [H0 [_ [_ [Hne Heq]]]]].
    unfold at_addr. rewrite filter_app_one. rewrite map_app. fold (at_addr a1 (addr' n)).
    destruct (N.eq_dec n nid) as [->|Hnn].
    + rewrite (Heq eq_refl). cbn [n_files ndx']. rewrite (T_files _ _ _ _ R1 nid ndx Hndx).
      rewrite Hparts, R5, strs_eqb_refl. reflexivity.
    + rewrite (Hne Hnn), (T_files _ _ _ _ R1 n x0 H0). rewrite Hparts.
      destruct (strs_eqb_spec X (addr' n)) as [E|_]; [|cbn [map]; rewrite app_nil_r; reflexivity].
      exfalso. apply Hnn. eapply (T_inj _ _ _ _ R1); eauto. congruence.
  - intros n x Hn Hr. destruct (Hold n x Hn) as [x0 [H0 _]].
    destruct (classic_prefix (addr' n) X) as [Hp|Hnp].
    + exists enew. split; [apply in_or_app; right; left; reflexivity | exact Hp].
    + destruct (R2 n x0 H0 Hr Hnp) as [e [He' Hpe]]. exists e. split; [apply in_or_app; left; exact He' | exact Hpe].
  - intros e P He' Hpre. apply in_app_or in He'. destruct He' as [He'|[<-|[]]].
    + destruct (T_complete _ _ _ _ R1 e P He' Hpre) as [n [x0 [H0 Ha]]].
      destruct (Hnew n x0 H0) as [x [H1 _]]. eauto.
    + destruct (R6 P) as [n [x0 [H0 Ha]]].
      { rewrite (I_addr_root _ _ _ _ HI). exists P. reflexivity. }
      { exact Hpre. }
      destruct (Hnew n x0 H0) as [x [H1 _]]. eauto.
  - intros f' i Hi. rewrite nget_set in Hi. destruct (N.eqb_spec f' f) as [->|Hne].
    + inversion Hi; subst i. destruct (Hnew nid ndx Hndx) as [x [H1 _]].
      exists enew, x. split; [apply in_or_app; right; left; reflexivity|]. split; [reflexivity|].
      split; [|split; [exact H1 | exact R5]].
      unfold info_rel, info, enew, full_of, name_of, parts_of. cbn. auto.
    + destruct (I_fmap_sound _ _ _ _ HI _ _ Hi) as [e [x0 [He' [Hf' [Hrel [Hx0 Ha]]]]]].
      destruct (R3 _ x0 Hx0) as [Ha' [x1 [Hx1 _]]]. destruct (Hnew _ x1 Hx1) as [x2 [Hx2 _]].
      exists e, x2. split; [apply in_or_app; left; exact He'|]. split; [exact Hf'|]. split; [exact Hrel|].
      split; [exact Hx2 | congruence].
  - intros e He'. apply in_app_or in He'. destruct He' as [He'|[<-|[]]].
    + destruct (I_fmap_complete _ _ _ _ HI e He') as [i Hi]. exists i. rewrite nget_set.
      destruct (N.eqb_spec (a_file e) f) as [E|_]; [destruct (Hfresh e He' E) | exact Hi].
    + exists info. rewrite nget_set. cbn [a_file enew]. rewrite N.eqb_refl. reflexivity.
  - rewrite map_app. cbn [map a_file enew]. apply nodup_snoc; [exact (I_a_nodup _ _ _ _ HI)|].
    intro Hin. apply in_map_iff in Hin. destruct Hin as [e [Hf' He']]. exact (Hfresh e He' Hf').
  - intros n x Hn. destruct (Hold n x Hn) as [x0 [H0 _]]. eapply (T_counter _ _ _ _ R1); exact H0.
  - pose proof (I_fuzzy _ _ _ _ HI) as HF. destruct (c_fuzzy c); [|exact HF].
    intro name. unfold named. rewrite filter_app_one, map_app. fold (named a1 name).
    change (name_of enew) with (last_part X).
    pose proof (HF (last_part X)) as H0.
    destruct (str_eqb_spec (last_part X) name) as [<-|Hne].
    + cbn [map a_file enew].
      destruct (sget (last_part X) (m_fuzzy s1)) as [l|] eqn:El.
      * rewrite (aget_aset str_eqb_spec), str_eqb_refl.
        unfold nonempty_opt in H0. destruct (is_nil (map a_file (named a1 (last_part X)))); [discriminate|].
        inversion H0; subst l. unfold nonempty_opt.
        destruct (map a_file (named a1 (last_part X)) ++ [f]) eqn:E2; [|reflexivity].
        apply app_eq_nil in E2. destruct E2 as [_ E2]. discriminate.
      * rewrite aget_app, El. cbn [aget]. rewrite str_eqb_refl.
        unfold nonempty_opt in H0. destruct (map a_file (named a1 (last_part X))) eqn:E2; [|discriminate].
        reflexivity.
    + cbn [map]. rewrite app_nil_r.
      destruct (sget (last_part X) (m_fuzzy s1)) as [l|] eqn:El.
      * rewrite (aget_aset str_eqb_spec). destruct (str_eqb_spec name (last_part X)); [congruence | apply HF].
      * rewrite aget_app, (HF name). destruct (nonempty_opt (map a_file (named a1 name))); [reflexivity|].
        cbn [aget]. destruct (str_eqb_spec name (last_part X)); [congruence | reflexivity].
  - apply (nodup_aset N.eqb_spec). exact (T_nodup _ _ _ _ R1).
  - apply (nodup_aset N.eqb_spec). exact (I_fmap_nodup _ _ _ _ HI).
  - pose proof (I_fuzzy_nodup _ _ _ _ HI) as Hnd0. destruct (c_fuzzy c); [|exact Hnd0].
    destruct (sget (last_part X) (m_fuzzy s1)) as [l|] eqn:El.
    + apply (nodup_aset str_eqb_spec). exact Hnd0.
    + rewrite map_app. cbn [map fst]. apply nodup_snoc; [exact Hnd0|].
      apply (aget_None_notin str_eqb_spec). exact El.
Qed.

(** ---- hide ---- *)
Definition hide_e (f : N) (e : aentry) : aentry :=
  if a_file e =? f then mkA (a_file e) (a_path e) (a_ws e) true else e.

Lemma hide_parts : forall f e, parts_of (hide_e f e) = parts_of e.
Proof. intros f e. unfold hide_e. destruct (a_file e =? f); reflexivity. Qed.

Lemma hide_file : forall f e, a_file (hide_e f e) = a_file e.
Proof. intros f e. unfold hide_e. destruct (a_file e =? f); reflexivity. Qed.

Lemma filter_map_hide : forall f (p : aentry -> bool) a,
  (forall e, p (hide_e f e) = p e) -> filter p (map (hide_e f) a) = map (hide_e f) (filter p a).
Proof.
  intros f p a Hp. induction a as [|x a IH]; cbn [map filter]; [reflexivity|].
  rewrite Hp. destruct (p x); cbn [map]; rewrite IH; reflexivity.
Qed.

Lemma map_file_hide : forall f l, map a_file (map (hide_e f) l) = map a_file l.
Proof. intros f l. rewrite map_map. apply map_ext. intro e. apply hide_file. Qed.

Lemma inv_hide : forall c s a addr f, Inv c s a addr -> Inv c (m_hide f s) (a_hide f a) addr.
Proof.
  intros c s a addr f HI. unfold m_hide. change (a_hide f a) with (map (hide_e f) a).
  assert (Hat : forall P, map a_file (at_addr (map (hide_e f) a) P) = map a_file (at_addr a P)).
  { intro P. unfold at_addr. rewrite filter_map_hide; [apply map_file_hide|].
    intro e. rewrite hide_parts. reflexivity. }
  assert (Hnm : forall nm, map a_file (named (map (hide_e f) a) nm) = map a_file (named a nm)).
  { intro nm. unfold named. rewrite filter_map_hide; [apply map_file_hide|].
    intro e. unfold name_of. rewrite hide_parts. reflexivity. }
  assert (Hin : forall e', In e' (map (hide_e f) a) -> exists e, In e a /\ e' = hide_e f e).
  { intros e' H. apply in_map_iff in H. destruct H as [e [H1 H2]]. eauto. }
  assert (Hcommon : Inv c (mkIdx (m_nodes s) (m_files s) (m_fuzzy s) (m_counter s)) a addr) by (destruct s; exact HI).
  destruct (ngetN f (m_files s)) as [i0|] eqn:Ei.
  - constructor; cbn [m_nodes m_files m_fuzzy m_counter].
    + exact (I_root _ _ _ _ HI).
    + exact (I_addr_root _ _ _ _ HI).
    + exact (I_child _ _ _ _ HI).
    + exact (I_ckeys _ _ _ _ HI).
    + exact (I_parent _ _ _ _ HI).
    + exact (I_inj _ _ _ _ HI).
    + intros n nd Hn. rewrite Hat. exact (I_files _ _ _ _ HI n nd Hn).
    + intros n nd Hn Hr. destruct (I_live _ _ _ _ HI n nd Hn Hr) as [e [He Hp]].
      exists (hide_e f e). split; [apply in_map; exact He | rewrite hide_parts; exact Hp].
    + intros e' P He' Hp. destruct (Hin e' He') as [e [He ->]]. rewrite hide_parts in Hp.
      exact (I_complete _ _ _ _ HI e P He Hp).
    + intros f' i Hi. rewrite nget_set in Hi. destruct (N.eqb_spec f' f) as [->|Hne].
      * inversion Hi; subst i. cbn [i_node].
        destruct (I_fmap_sound _ _ _ _ HI _ _ Ei) as [e [nd [He [Hf [Hrel [Hnd Ha]]]]]].
        exists (hide_e f e), nd. split; [apply in_map; exact He|]. split; [rewrite hide_file; exact Hf|].
        split; [|split; [exact Hnd | rewrite hide_parts; exact Ha]].
        destruct Hrel as [H1 [H2 [H3 [H4 H5]]]].
        unfold info_rel, hide_e, full_of, name_of, parts_of in *. rewrite Hf, N.eqb_refl. cbn. repeat split; first [congruence | assumption | exact H3 | reflexivity].
      * destruct (I_fmap_sound _ _ _ _ HI _ _ Hi) as [e [nd [He [Hf [Hrel [Hnd Ha]]]]]].
        exists e, nd. split.
        { apply in_map_iff. exists e. split; [|exact He]. unfold hide_e.
          destruct (N.eqb_spec (a_file e) f); [congruence | reflexivity]. }
        auto.
    + intros e' He'. destruct (Hin e' He') as [e [He ->]]. rewrite hide_file.
      destruct (I_fmap_complete _ _ _ _ HI e He) as [i Hi]. rewrite nget_set.
      destruct (a_file e =? f); eauto.
    + rewrite map_file_hide. exact (I_a_nodup _ _ _ _ HI).
    + exact (I_counter _ _ _ _ HI).
    + pose proof (I_fuzzy _ _ _ _ HI) as HF. destruct (c_fuzzy c); [|exact HF].
      intro name. rewrite Hnm. apply HF.
    + exact (I_nodes_nodup _ _ _ _ HI).
    + apply (nodup_aset N.eqb_spec). exact (I_fmap_nodup _ _ _ _ HI).
    + exact (I_fuzzy_nodup _ _ _ _ HI).
  - (* the file is not registered: nothing changes on either side *)
    assert (Hid : map (hide_e f) a = a).
    { rewrite <- (map_id a) at 2. apply map_ext_in. intros e He. unfold hide_e.
      destruct (N.eqb_spec (a_file e) f) as [E|_]; [|reflexivity].
      destruct (I_fmap_complete _ _ _ _ HI e He) as [i Hi]. congruence. }
    rewrite Hid. exact HI.
Qed.

(** ---- clear / new ---- *)
Lemma inv_fresh : forall c cnt, 0 < cnt ->
  Inv c (mkIdx [(ROOT, root_node)] [] [] cnt) [] (fun _ => []).
Proof.
  intros c cnt Hc.
  assert (Hone : forall n nd, ngetN n [(ROOT, root_node)] = Some nd -> n = ROOT /\ nd = root_node).
  { intros n nd H. cbn [aget] in H. destruct (N.eqb_spec n ROOT); [inversion H; auto | discriminate]. }
  constructor; cbn [m_nodes m_files m_fuzzy m_counter].
  - exists root_node. reflexivity.
  - reflexivity.
  - intros n nd k ch Hn Hk. destruct (Hone n nd Hn) as [_ ->]. cbn in Hk. discriminate.
  - intros n nd Hn. destruct (Hone n nd Hn) as [_ ->]. cbn. constructor.
  - intros n nd Hn Hr. destruct (Hone n nd Hn) as [-> _]. congruence.
  - intros n m nd md Hn Hm _. destruct (Hone n nd Hn) as [-> _]. destruct (Hone m md Hm) as [-> _]. reflexivity.
  - intros n nd Hn. destruct (Hone n nd Hn) as [_ ->]. reflexivity.
  - intros n nd Hn Hr. destruct (Hone n nd Hn) as [-> _]. congruence.
  - intros e P [].
  - intros f i Hi. cbn in Hi. discriminate.
  - intros e [].
  - constructor.
  - intros n nd Hn. destruct (Hone n nd Hn) as [-> _]. exact Hc.
  - destruct (c_fuzzy c); [intro name; reflexivity | reflexivity].
  - cbn. constructor; [intros [] | constructor].
  - constructor.
  - constructor.
Qed.

Lemma inv_init : forall c, Inv c m_init [] (fun _ => []).
Proof. intro c. apply inv_fresh. reflexivity. Qed.

Lemma inv_clear : forall c s a addr, Inv c s a addr -> Inv c (m_clear s) [] (fun _ => []).
Proof.
  intros c s a addr HI. apply inv_fresh.
  destruct (I_root _ _ _ _ HI) as [rd Hrd]. exact (I_counter _ _ _ _ HI ROOT rd Hrd).
Qed.
