(** C33/Corr.v — executable comparison of the real [LuaModuleIndex] (canonical dumps written by the harness
    after every op) with the model. *)
From EV Require Import C33.Model.
Local Open Scope N_scope.

Record obs_node := mkON { on_id : N; on_parent : option N; on_children : list (str * N); on_files : list N }.
Record obs_file := mkOF { of_file : N; of_full : str; of_name : str; of_node : N; of_ws : N; of_hidden : bool }.
Record dump := mkDump {
  d_counter : N; d_nodes : list obs_node; d_files : list obs_file; d_fuzzy : list (str * list N) }.

Inductive cstep :=
| SAddPath (f : N) (path : list str) (ret : option N) (ex : option (str * N)) (d : dump)
| SAddMod (f : N) (mp : str) (ws : N) (d : dump)
| SRemove (f : N) (d : dump)
| SHide (f : N) (d : dump)
| SClear (d : dump)
| SFind (q : str) (ret : option N)
(* a configuration change (update_config + set_module_extract_patterns): new patterns, fuzzy flag, moduleMap (as the
   rewrite function observed on every string it is applied to during this configuration) *)
| SSetCfg (patterns : list str) (fuzzy : bool) (rw_on : bool) (rw : list (str * str)) (d : dump).

Record case := mkCase {
  k_patterns : list str;
  k_workspaces : list workspace;
  k_fuzzy : bool;
  k_rw_on : bool;
  k_rw : list (str * str);               (* the rewrite function, on every string it is applied to *)
  k_mp : list (list str * str * option str);   (* match_pattern observations: patterns installed, path, result *)
  k_steps : list cstep;
  k_sizes : list N                       (* verif_sizes of the final state (first six entries) *)
}.

Fixpoint nlist_eqb (a b : list N) : bool :=
  match a, b with
  | [], [] => true
  | x :: a', y :: b' => (x =? y) && nlist_eqb a' b'
  | _, _ => false
  end.

Definition optN_eqb (a b : option N) : bool :=
  match a, b with
  | Some x, Some y => x =? y
  | None, None => true
  | _, _ => false
  end.

Definition optstr_eqb (a b : option str) : bool :=
  match a, b with
  | Some x, Some y => str_eqb x y
  | None, None => true
  | _, _ => false
  end.

Definition node_matches (nodes : list (N * node)) (o : obs_node) : bool :=
  match ngetN (on_id o) nodes with
  | None => false
  | Some nd =>
      optN_eqb (n_parent nd) (on_parent o)
      && nlist_eqb (n_files nd) (on_files o)
      && Nat.eqb (length (n_children nd)) (length (on_children o))
      && forallb (fun kc => optN_eqb (sget (fst kc) (n_children nd)) (Some (snd kc))) (on_children o)
  end.

Definition file_matches (fmap : list (N * minfo)) (o : obs_file) : bool :=
  match ngetN (of_file o) fmap with
  | None => false
  | Some i =>
      (i_file i =? of_file o) && str_eqb (i_full i) (of_full o) && str_eqb (i_name i) (of_name o)
      && (i_node i =? of_node o) && (i_ws i =? of_ws o) && Bool.eqb (i_hidden i) (of_hidden o)
  end.

Definition fuzzy_matches (fz : list (str * list N)) (o : str * list N) : bool :=
  match sget (fst o) fz with
  | None => false
  | Some l => nlist_eqb l (snd o)
  end.

Definition dump_eqb (s : midx) (d : dump) : bool :=
  (m_counter s =? d_counter d)
  && Nat.eqb (length (m_nodes s)) (length (d_nodes d))
  && forallb (node_matches (m_nodes s)) (d_nodes d)
  && Nat.eqb (length (m_files s)) (length (d_files d))
  && forallb (file_matches (m_files s)) (d_files d)
  && Nat.eqb (length (m_fuzzy s)) (length (d_fuzzy d))
  && forallb (fuzzy_matches (m_fuzzy s)) (d_fuzzy d).

Definition cfg_of (k : case) : cfg :=
  mkCfg (k_patterns k) (k_workspaces k) (k_fuzzy k) (k_rw_on k)
        (fun s => match sget s (k_rw k) with Some o => o | None => s end).

Definition optpair_eqb (a b : option (str * N)) : bool :=
  match a, b with
  | Some (x, n), Some (y, m) => str_eqb x y && (n =? m)
  | None, None => true
  | _, _ => false
  end.

Fixpoint check_steps (c : cfg) (s : midx) (steps : list cstep) : bool :=
  match steps with
  | [] => true
  | st :: r =>
      match st with
      | SAddPath f path ret ex d =>
          let '(s', w) := m_add_path c f path s in
          optN_eqb w ret && optpair_eqb (extract_module_path c path) ex && dump_eqb s' d && check_steps c s' r
      | SAddMod f mp ws d => let s' := m_add c f mp ws s in dump_eqb s' d && check_steps c s' r
      | SRemove f d => let s' := m_remove f s in dump_eqb s' d && check_steps c s' r
      | SHide f d => let s' := m_hide f s in dump_eqb s' d && check_steps c s' r
      | SClear d => let s' := m_clear s in dump_eqb s' d && check_steps c s' r
      | SFind q ret => optN_eqb (option_map i_file (find_module c s q)) ret && check_steps c s r
      | SSetCfg pats fz rwon rw d =>
          dump_eqb s d
          && check_steps (mkCfg pats (c_workspaces c) fz rwon (fun x => match sget x rw with Some o => o | None => x end)) s r
      end
  end.

Definition final_state (c0 : cfg) (steps : list cstep) : midx :=
  snd (fold_left (fun (cs : cfg * midx) st =>
               let '(c, s) := cs in
               match st with
               | SAddPath f path _ _ _ => (c, fst (m_add_path c f path s))
               | SAddMod f mp ws _ => (c, m_add c f mp ws s)
               | SRemove f _ => (c, m_remove f s)
               | SHide f _ => (c, m_hide f s)
               | SClear _ => (c, m_clear s)
               | SFind _ _ => (c, s)
               | SSetCfg pats fz rwon rw _ =>
                   (mkCfg pats (c_workspaces c) fz rwon (fun x => match sget x rw with Some o => o | None => x end), s)
               end) steps (c0, m_init)).

Definition check_case (k : case) : bool :=
  let c := cfg_of k in
  forallb (fun pr => optstr_eqb (match_pattern (compile_patterns (fst (fst pr))) (snd (fst pr))) (snd pr)) (k_mp k)
  && check_steps c m_init (k_steps k)
  && nlist_eqb (m_sizes (final_state c (k_steps k))) (k_sizes k).
