(** C33/Model.v — transcription of [LuaModuleIndex]
    (crates/emmylua_code_analysis/src/db_index/module/mod.rs, module_node.rs, module_info.rs, workspace.rs).
    Executable definitions only.  Strings are lists of code points ([str]); hashbrown maps are association lists
    (every use below is independent of the iteration order); node / file / workspace ids are [N].
    The code modelled is the tree AFTER the fix of [LuaIndex::remove] (leaf node deleted, fuzzy map always cleaned). *)
From EV Require Export Base.Text.
Local Open Scope N_scope.

Definition str := text.

Definition DOT : cp := 46.
Definition SLASH : cp := 47.
Definition BACKSLASH : cp := 92.
Definition QMARK : cp := 63.
Definition LF : cp := 10.

Fixpoint str_eqb (a b : str) : bool :=
  match a, b with
  | [], [] => true
  | x :: a', y :: b' => (x =? y) && str_eqb a' b'
  | _, _ => false
  end.

Fixpoint strs_eqb (a b : list str) : bool :=
  match a, b with
  | [], [] => true
  | x :: a', y :: b' => str_eqb x y && strs_eqb a' b'
  | _, _ => false
  end.

(** [String::cmp] : byte-wise lexicographic = code-point lexicographic (UTF-8 preserves the order) *)
Fixpoint str_cmp (a b : str) : comparison :=
  match a, b with
  | [], [] => Eq
  | [], _ :: _ => Lt
  | _ :: _, [] => Gt
  | x :: a', y :: b' => match x ?= y with Eq => str_cmp a' b' | c => c end
  end.

Definition is_nil {A} (l : list A) : bool := match l with [] => true | _ => false end.

(** ---- association lists as hash maps ---- *)
Section Assoc.
  Variables (K V : Type) (eqb : K -> K -> bool).
  Fixpoint aget (k : K) (l : list (K * V)) : option V :=
    match l with
    | [] => None
    | (k', v) :: r => if eqb k k' then Some v else aget k r
    end.
  Fixpoint adel (k : K) (l : list (K * V)) : list (K * V) :=
    match l with
    | [] => []
    | (k', v) :: r => if eqb k k' then adel k r else (k', v) :: adel k r
    end.
  (** [HashMap::insert] *)
  Fixpoint aset (k : K) (v : V) (l : list (K * V)) : list (K * V) :=
    match l with
    | [] => [(k, v)]
    | (k', v') :: r => if eqb k k' then (k, v) :: r else (k', v') :: aset k v r
    end.
End Assoc.
Arguments aget {K V} eqb k l.
Arguments adel {K V} eqb k l.
Arguments aset {K V} eqb k v l.

Notation ngetN := (aget N.eqb).
Notation ndelN := (adel N.eqb).
Notation nsetN := (aset N.eqb).
Notation sget := (aget str_eqb).
Notation sdel := (adel str_eqb).
Notation sset := (aset str_eqb).

(** ---- string helpers ---- *)

(** [str::split(sep)] : never empty *)
Fixpoint split_on (sep : cp) (s : str) : list str :=
  match s with
  | [] => [[]]
  | c :: r =>
      if c =? sep then [] :: split_on sep r
      else match split_on sep r with
           | h :: t => (c :: h) :: t
           | [] => [[c]]
           end
  end.
Definition split_dot := split_on DOT.

(** [[&str]::join(".")] *)
Fixpoint join_dot (l : list str) : str :=
  match l with
  | [] => []
  | [x] => x
  | x :: r => x ++ DOT :: join_dot r
  end.

(** [path.replace(['\\', '/'], ".")] *)
Definition normalize (s : str) : str :=
  map (fun c => if (c =? BACKSLASH) || (c =? SLASH) then DOT else c) s.

Fixpoint strip_prefix (p s : str) : option str :=
  match p, s with
  | [], _ => Some s
  | x :: p', y :: s' => if x =? y then strip_prefix p' s' else None
  | _ :: _, [] => None
  end.
Definition strip_suffix (s suf : str) : option str :=
  match strip_prefix (rev suf) (rev s) with
  | Some r => Some (rev r)
  | None => None
  end.

Definition last_part (parts : list str) : str := last parts [].

(** ---- the index ---- *)

Record node := mkNode { n_parent : option N; n_children : list (str * N); n_files : list N }.

(** [ModuleInfo]; [visible] is reduced to "is [Hide]", the only thing the index itself looks at *)
Record minfo := mkInfo {
  i_file : N; i_full : str; i_name : str; i_node : N; i_ws : N; i_hidden : bool }.

Record midx := mkIdx {
  m_nodes : list (N * node);        (* module_nodes *)
  m_files : list (N * minfo);       (* file_module_map *)
  m_fuzzy : list (str * list N);    (* module_name_to_file_ids *)
  m_counter : N                     (* id_counter *)
}.

Record workspace := mkWs { w_root : list str; w_pkg : option (list str); w_id : N }.

(** configuration: what [update_config] / [set_module_extract_patterns] / [add_workspace_root] install.
    [c_rw] is [replace_module_path] (the moduleMap regex rewrites) treated as an opaque function;
    [c_rw_on] is [!module_replace_vec.is_empty()]. *)
Record cfg := mkCfg {
  c_patterns : list str;            (* raw patterns as given to set_module_extract_patterns *)
  c_workspaces : list workspace;
  c_fuzzy : bool;
  c_rw_on : bool;
  c_rw : str -> str
}.

Definition ROOT : N := 0.
Definition root_node : node := mkNode None [] [].

(** [LuaModuleIndex::new] *)
Definition m_init : midx := mkIdx [(ROOT, root_node)] [] [] 1.

(** [LuaIndex::clear] : the id counter is NOT reset *)
Definition m_clear (s : midx) : midx := mkIdx [(ROOT, root_node)] [] [] (m_counter s).

Definition drop_file (f : N) (l : list N) : list N := filter (fun x => negb (x =? f)) l.

(** the [while let] loop of [remove]: detach [child] from node [id], and delete [id] too when that emptied it.
    [fuel] only makes the recursion structural; the callers pass the depth of the node, which suffices. *)
Fixpoint prune (fuel : nat) (nodes : list (N * node)) (parent : option N) (child : N) : list (N * node) :=
  match fuel with
  | O => nodes
  | S fuel' =>
      match parent with
      | None => nodes
      | Some id =>
          match ngetN id nodes with
          | None => nodes
          | Some nd =>
              let nd' := mkNode (n_parent nd)
                                (filter (fun kc => negb (snd kc =? child)) (n_children nd))
                                (n_files nd) in
              let nodes1 := nsetN id nd' nodes in
              if id =? ROOT then nodes1
              else if is_nil (n_files nd') && is_nil (n_children nd')
                   then prune fuel' (ndelN id nodes1) (n_parent nd') id
                   else nodes1
          end
      end
  end.

(** [LuaIndex::remove] (fixed) *)
Definition m_remove (f : N) (s : midx) : midx :=
  match ngetN f (m_files s) with
  | None => s
  | Some info =>
      let files' := ndelN f (m_files s) in
      let name := i_name info in
      let fuzzy' :=
        match sget name (m_fuzzy s) with
        | None => m_fuzzy s
        | Some l => let l' := drop_file f l in
                    if is_nil l' then sdel name (m_fuzzy s) else sset name l' (m_fuzzy s)
        end in
      let nid := i_node info in
      let nodes' :=
        match ngetN nid (m_nodes s) with
        | None => m_nodes s
        | Some nd =>
            let nd' := mkNode (n_parent nd) (n_children nd) (drop_file f (n_files nd)) in
            if is_nil (n_files nd') && is_nil (n_children nd') && negb (nid =? ROOT)
            then prune (S (length (split_dot (i_full info)))) (ndelN nid (m_nodes s)) (n_parent nd') nid
            else nsetN nid nd' (m_nodes s)
        end in
      mkIdx nodes' files' fuzzy' (m_counter s)
  end.

(** the [for part in &module_parts] loop of [add_module_by_module_path]; [None] = the [?] early return *)
Fixpoint ensure_path (parts : list str) (parent : N) (nodes : list (N * node)) (counter : N)
  : list (N * node) * N * option N :=
  match parts with
  | [] => (nodes, counter, Some parent)
  | part :: rest =>
      match ngetN parent nodes with
      | None => (nodes, counter, None)
      | Some pn =>
          let '(child, nodes1) :=
            match sget part (n_children pn) with
            | Some id => (id, nodes)
            | None => (counter,
                       nsetN parent (mkNode (n_parent pn) (n_children pn ++ [(part, counter)]) (n_files pn)) nodes)
            end in
          let '(nodes2, counter2) :=
            match ngetN child nodes1 with
            | Some _ => (nodes1, counter)
            | None => (nodes1 ++ [(child, mkNode (Some parent) [] [])], counter + 1)
            end in
          ensure_path rest child nodes2 counter2
      end
  end.

Definition has_file (f : N) (s : midx) : bool :=
  match ngetN f (m_files s) with Some _ => true | None => false end.

(** [add_module_by_module_path] *)
Definition m_add (c : cfg) (f : N) (mp : str) (ws : N) (s0 : midx) : midx :=
  let s := if has_file f s0 then m_remove f s0 else s0 in
  let parts := split_dot mp in
  let '(nodes1, counter1, r) := ensure_path parts ROOT (m_nodes s) (m_counter s) in
  match r with
  | None => mkIdx nodes1 (m_files s) (m_fuzzy s) counter1
  | Some nid =>
      match ngetN nid nodes1 with
      | None => mkIdx nodes1 (m_files s) (m_fuzzy s) counter1
      | Some nd =>
          let nodes2 := nsetN nid (mkNode (n_parent nd) (n_children nd) (n_files nd ++ [f])) nodes1 in
          let name := last_part parts in
          let info := mkInfo f (join_dot parts) name nid ws false in
          let files2 := nsetN f info (m_files s) in
          let fuzzy2 :=
            if c_fuzzy c then
              match sget name (m_fuzzy s) with
              | Some l => sset name (l ++ [f]) (m_fuzzy s)
              | None => m_fuzzy s ++ [(name, [f])]
              end
            else m_fuzzy s in
          mkIdx nodes2 files2 fuzzy2 counter1
      end
  end.

(** [set_module_visibility(file, Hide)] *)
Definition m_hide (f : N) (s : midx) : midx :=
  match ngetN f (m_files s) with
  | None => s
  | Some i => mkIdx (m_nodes s)
                    (nsetN f (mkInfo (i_file i) (i_full i) (i_name i) (i_node i) (i_ws i) true) (m_files s))
                    (m_fuzzy s) (m_counter s)
  end.

(** ---- patterns and workspaces ---- *)

Fixpoint count_q (p : str) : nat :=
  match p with [] => O | c :: r => if c =? QMARK then S (count_q r) else count_q r end.

Fixpoint split_q (p : str) : str * str :=
  match p with
  | [] => ([], [])
  | c :: r => if c =? QMARK then ([], r) else let '(a, b) := split_q r in (c :: a, b)
  end.

(** [insert] of a stable sort by descending byte length ([sort_by_key(Reverse(len))]) *)
Fixpoint ins_desc (p : str) (l : list str) : list str :=
  match l with
  | [] => [p]
  | q :: r => if bytes q <? bytes p then p :: l else q :: ins_desc p r
  end.
Definition sort_desc (l : list str) : list str := fold_right ins_desc [] l.

(** [Vec::dedup] : consecutive duplicates *)
Fixpoint dedup (l : list str) : list str :=
  match l with
  | [] => []
  | x :: r => match r with
              | y :: _ => if str_eqb x y then dedup r else x :: dedup r
              | [] => [x]
              end
  end.

(** [set_module_extract_patterns]: sort, dedup, ['\\'] -> ['/'] (then escape, [?] -> a capture group, anchored) *)
Definition compile_patterns (raw : list str) : list str :=
  map (map (fun c => if c =? BACKSLASH then SLASH else c)) (dedup (sort_desc raw)).

(** one anchored regex "^pre<group>suf$" against [path]; [.] does not match a line feed.
    Patterns without [?] have no group 1; patterns with several [?] are outside the modelled fragment. *)
Definition match_one (pat path : str) : option str :=
  match count_q pat with
  | 1%nat =>
      let '(pre, suf) := split_q pat in
      match strip_prefix pre path with
      | None => None
      | Some r => match strip_suffix r suf with
                  | None => None
                  | Some m => if existsb (fun c => c =? LF) m then None else Some m
                  end
      end
  | _ => None
  end.

(** [match_pattern] : first pattern (in compiled order) that matches *)
Fixpoint match_pattern (pats : list str) (path : str) : option str :=
  match pats with
  | [] => None
  | p :: r => match match_one p path with Some m => Some m | None => match_pattern r path end
  end.

Fixpoint strip_comps (root path : list str) : option (list str) :=
  match root, path with
  | [], _ => Some path
  | x :: r, y :: p => if str_eqb x y then strip_comps r p else None
  | _ :: _, [] => None
  end.

Fixpoint join_slash (l : list str) : str :=
  match l with
  | [] => []
  | [x] => x
  | x :: r => x ++ SLASH :: join_slash r
  end.

(** [Path::file_prefix] of a file name: up to the first ['.'] that is not the first character *)
Fixpoint until_dot (s : str) : str :=
  match s with [] => [] | c :: r => if c =? DOT then [] else c :: until_dot r end.
Definition file_prefix (name : str) : str :=
  if str_eqb name [DOT; DOT] then name
  else match name with [] => [] | c :: r => c :: until_dot r end.

Definition is_main (ws : N) : bool := ws =? 1.

(** the [for workspace in &self.workspaces] loop of [extract_module_path] *)
Fixpoint extract_loop (pats : list str) (wss : list workspace) (path : list str) (acc : option (str * N))
  : option (str * N) :=
  match wss with
  | [] => acc
  | w :: rest =>
      match strip_comps (w_root w) path with
      | None => extract_loop pats rest path acc
      | Some rel =>
          let included := match w_pkg w with
                          | None => true
                          | Some p => match strip_comps p rel with Some _ => true | None => false end
                          end in
          if negb included then extract_loop pats rest path acc
          else
            match (if is_nil rel then match rev (w_root w) with
                                      | nm :: _ => Some (file_prefix nm, w_id w)
                                      | [] => None
                                      end
                   else None) with
            | Some early => Some early
            | None =>
                match match_pattern pats (join_slash rel) with
                | None => extract_loop pats rest path acc
                | Some m =>
                    match acc with
                    | None => extract_loop pats rest path (Some (m, w_id w))
                    | Some (m0, ws0) =>
                        if bytes m <? bytes m0
                        then extract_loop pats rest path (Some (m, if is_main (w_id w) then ws0 else w_id w))
                        else extract_loop pats rest path acc
                    end
                end
            end
      end
  end.

(** [extract_module_path]; paths are absolute, given as their components *)
Definition extract_module_path (c : cfg) (path : list str) : option (str * N) :=
  extract_loop (compile_patterns (c_patterns c)) (c_workspaces c) path None.

(** the module path [add_module_by_path] registers a file under *)
Definition module_path_of (c : cfg) (path : list str) : option (str * N) :=
  match extract_module_path c path with
  | None => None
  | Some (m, ws) =>
      let mp := normalize m in
      Some (if c_rw_on c then c_rw c mp else mp, ws)
  end.

(** [add_module_by_path] *)
Definition m_add_path (c : cfg) (f : N) (path : list str) (s0 : midx) : midx * option N :=
  let s := if has_file f s0 then m_remove f s0 else s0 in
  match module_path_of c path with
  | None => (s, None)
  | Some (mp, ws) => (m_add c f mp ws s, Some ws)
  end.

(** ---- lookup ---- *)

Fixpoint walk (nodes : list (N * node)) (n : N) (parts : list str) : option N :=
  match parts with
  | [] => Some n
  | p :: rest =>
      match ngetN n nodes with
      | None => None
      | Some nd => match sget p (n_children nd) with
                   | None => None
                   | Some c => walk nodes c rest
                   end
      end
  end.

(** the [for file_id in &node.file_ids] loop of [exact_find_module] *)
Fixpoint exact_pick (fmap : list (N * minfo)) (prefer : bool) (files : list N) (first : option minfo)
  : option minfo :=
  match files with
  | [] => first
  | f :: r =>
      match ngetN f fmap with
      | None => None
      | Some i =>
          let first' := match first with None => Some i | Some _ => first end in
          if negb prefer || negb (i_hidden i) then Some i else exact_pick fmap prefer r first'
      end
  end.

Definition exact_find (s : midx) (parts : list str) : option minfo :=
  match walk (m_nodes s) ROOT parts with
  | None => None
  | Some n =>
      match ngetN n (m_nodes s) with
      | None => None
      | Some nd => exact_pick (m_files s) (Nat.ltb 1 (length (n_files nd))) (n_files nd) None
      end
  end.

(** [find_module_by_normalized_path] *)
Definition find_norm (s : midx) (mp : str) : option minfo := exact_find s (split_dot mp).

Definition nonempty_count (l : list str) : N :=
  N.of_nat (length (filter (fun x => negb (is_nil x)) l)).

(** number of leading segments of [full] before the suffix [path] ([None]: not a candidate) *)
Definition leading_count (full path : str) : option N :=
  if str_eqb full path then Some 0
  else match strip_suffix full (DOT :: path) with
       | Some prefix => Some (nonempty_count (split_dot prefix))
       | None => None
       end.

(** key comparison of [min_by]: fewer leading segments, then the smaller full name *)
Definition cand_lt (a b : N * str) : bool :=
  match fst a ?= fst b with
  | Lt => true
  | Gt => false
  | Eq => match str_cmp (snd a) (snd b) with Lt => true | _ => false end
  end.

(** [Iterator::min_by] : the FIRST minimal element *)
Fixpoint min_by {A} (key : A -> N * str) (l : list A) (best : option A) : option A :=
  match l with
  | [] => best
  | x :: r => match best with
              | None => min_by key r (Some x)
              | Some b => if cand_lt (key x) (key b) then min_by key r (Some x) else min_by key r best
              end
  end.

Fixpoint fuzzy_cands (fmap : list (N * minfo)) (path : str) (files : list N) : list (N * minfo) :=
  match files with
  | [] => []
  | f :: r => match ngetN f fmap with
              | None => fuzzy_cands fmap path r
              | Some i => match leading_count (i_full i) path with
                          | Some k => (k, i) :: fuzzy_cands fmap path r
                          | None => fuzzy_cands fmap path r
                          end
              end
  end.

(** [fuzzy_find_module] *)
Definition fuzzy_find (s : midx) (path last_name : str) : option minfo :=
  match sget last_name (m_fuzzy s) with
  | None => None
  | Some files =>
      option_map snd (min_by (fun ki => (fst ki, i_full (snd ki))) (fuzzy_cands (m_files s) path files) None)
  end.

(** [find_module] *)
Definition find_module (c : cfg) (s : midx) (q : str) : option minfo :=
  let mp := normalize q in
  match find_norm s mp with
  | Some i => Some i
  | None =>
      let mapped := if c_rw_on c then (let m := c_rw c mp in if str_eqb m mp then None else Some m) else None in
      match (match mapped with Some m => find_norm s m | None => None end) with
      | Some i => Some i
      | None =>
          if c_fuzzy c then
            match (match mapped with
                   | Some m => fuzzy_find s m (last_part (split_dot m))
                   | None => None
                   end) with
            | Some i => Some i
            | None => fuzzy_find s mp (last_part (split_dot mp))
            end
          else None
      end
  end.

(** ---- histories ---- *)
Inductive op :=
| OAddPath (f : N) (path : list str)
| OAddMod (f : N) (mp : str) (ws : N)
| ORemove (f : N)
| OHide (f : N)
| OClear.

Definition step (c : cfg) (s : midx) (o : op) : midx :=
  match o with
  | OAddPath f path => fst (m_add_path c f path s)
  | OAddMod f mp ws => m_add c f mp ws s
  | ORemove f => m_remove f s
  | OHide f => m_hide f s
  | OClear => m_clear s
  end.

Definition run (c : cfg) (ops : list op) : midx := fold_left (step c) ops m_init.

(** entry counts reported by the H2 hook [verif_sizes] *)
Definition sum_len {A B} (f : A -> list B) (l : list A) : N :=
  fold_right (fun x acc => N.of_nat (length (f x)) + acc) 0 l.
Definition m_sizes (s : midx) : list N :=
  [ N.of_nat (length (m_nodes s));
    sum_len (fun kv => n_children (snd kv)) (m_nodes s);
    sum_len (fun kv => n_files (snd kv)) (m_nodes s);
    N.of_nat (length (m_files s));
    N.of_nat (length (m_fuzzy s));
    sum_len (fun kv => snd kv) (m_fuzzy s) ].
