(** C33/Tree.v — the node-tree part of the invariant, with liveness stated relative to an exempted address
    (nodes on the path that is currently being built or pruned), and the two loops: [prune] and [ensure_path]. *)
From EV Require Import C33.Model C33.Spec C33.Lemmas C33.Inv.
Local Open Scope N_scope.

Record Tree (nodes : list (N * node)) (a : astate) (addr : N -> list str) (cnt : N) : Prop := mkTree {
  T_root : exists nd, ngetN ROOT nodes = Some nd;
  T_addr_root : addr ROOT = [];
  T_child : forall n nd k ch, ngetN n nodes = Some nd -> sget k (n_children nd) = Some ch ->
      (exists cd, ngetN ch nodes = Some cd /\ n_parent cd = Some n) /\ addr ch = addr n ++ [k];
  T_ckeys : forall n nd, ngetN n nodes = Some nd -> NoDup (map fst (n_children nd));
  T_parent : forall n nd, ngetN n nodes = Some nd -> n <> ROOT ->
      exists p pd k, n_parent nd = Some p /\ ngetN p nodes = Some pd /\ sget k (n_children pd) = Some n;
  T_inj : forall n m nd md, ngetN n nodes = Some nd -> ngetN m nodes = Some md -> addr n = addr m -> n = m;
  T_files : forall n nd, ngetN n nodes = Some nd -> n_files nd = map a_file (at_addr a (addr n));
  T_complete : forall e P, In e a -> prefix P (parts_of e) -> exists n nd, ngetN n nodes = Some nd /\ addr n = P;
  T_counter : forall n nd, ngetN n nodes = Some nd -> n < cnt;
  T_nodup : NoDup (map fst nodes)
}.

(** every node other than the root, and other than those whose address is a prefix of [X], lies on the path
    to some registered file *)
Definition Live (nodes : list (N * node)) (a : astate) (addr : N -> list str) (X : option (list str)) : Prop :=
  forall n nd, ngetN n nodes = Some nd -> n <> ROOT ->
    (match X with Some x => ~ prefix (addr n) x | None => True end) ->
    exists e, In e a /\ prefix (addr n) (parts_of e).

Lemma inv_tree : forall c s a addr, Inv c s a addr -> Tree (m_nodes s) a addr (m_counter s).
Proof. intros c s a addr H. destruct H. constructor; assumption. Qed.

Lemma inv_live : forall c s a addr, Inv c s a addr -> Live (m_nodes s) a addr None.
Proof. intros c s a addr H n nd Hn Hr _. eapply (I_live _ _ _ _ H); eauto. Qed.

(** ---- small list facts ---- *)
Lemma exists_last_or_nil : forall A (l : list A), l = [] \/ exists l' x, l = l' ++ [x].
Proof. intros A l. induction l using rev_ind; [left; reflexivity | right; eauto]. Qed.

Fixpoint prefixb (P Q : list str) : bool :=
  match P, Q with
  | [], _ => true
  | x :: P', y :: Q' => str_eqb x y && prefixb P' Q'
  | _ :: _, [] => false
  end.

Lemma prefixb_spec : forall P Q, prefixb P Q = true <-> prefix P Q.
Proof.
  induction P as [|x P IH]; intros Q; cbn [prefixb].
  - split; [intros _; exists Q; reflexivity | reflexivity].
  - destruct Q as [|y Q].
    + split; [discriminate | intros [R HR]; discriminate].
    + destruct (str_eqb_spec x y) as [->|Hne]; cbn [andb].
      * rewrite IH. split; intros [R HR]; exists R; cbn [app] in *; congruence.
      * split; [discriminate | intros [R HR]; cbn [app] in HR; congruence].
Qed.

Lemma classic_prefix : forall P Q, prefix P Q \/ ~ prefix P Q.
Proof.
  intros P Q. destruct (prefixb P Q) eqn:E.
  - left. apply prefixb_spec. exact E.
  - right. intro H. apply prefixb_spec in H. congruence.
Qed.

Lemma prefix_snoc : forall (Q P : list str) k, prefix Q (P ++ [k]) -> Q = P ++ [k] \/ prefix Q P.
Proof.
  intros Q P k [R HR]. destruct (exists_last_or_nil _ R) as [->|[R' [x ->]]].
  - left. rewrite app_nil_r in HR. symmetry. exact HR.
  - right. rewrite app_assoc in HR. apply app_inj_tail in HR. destruct HR as [HR _]. exists R'. exact HR.
Qed.

Lemma prefix_nil : forall Q : list str, prefix Q [] -> Q = [].
Proof. intros Q [R HR]. symmetry in HR. apply app_eq_nil in HR. tauto. Qed.

Lemma prefix_length : forall P Q : list str, prefix P Q -> (length P <= length Q)%nat.
Proof. intros P Q [R ->]. rewrite app_length. lia. Qed.

Lemma not_prefix_snoc : forall (P : list str) k, ~ prefix (P ++ [k]) P.
Proof. intros P k H. apply prefix_length in H. rewrite app_length in H. cbn in H. lia. Qed.

Lemma sget_filter : forall (l : list (str * N)) k c,
  NoDup (map fst l) ->
  sget k (filter (fun kc => negb (snd kc =? c)) l) =
  match sget k l with Some x => if x =? c then None else Some x | None => None end.
Proof.
  induction l as [|[k2 v2] l IH]; intros k c Hnd; cbn [filter aget snd map fst] in *.
  - reflexivity.
  - inversion Hnd as [|? ? Hnotin Hnd']; subst.
    destruct (N.eqb_spec v2 c) as [->|Hne]; cbn [negb].
    + destruct (str_eqb_spec k k2) as [->|Hk].
      * rewrite N.eqb_refl. rewrite IH by assumption.
        destruct (sget k2 l) as [x|] eqn:E; [|reflexivity].
        exfalso. apply Hnotin. apply (aget_In str_eqb_spec) in E.
        change k2 with (fst (k2, x)). apply in_map. exact E.
      * apply IH. assumption.
    + cbn [aget]. destruct (str_eqb_spec k k2) as [->|Hk].
      * destruct (N.eqb_spec v2 c); congruence.
      * apply IH. assumption.
Qed.

Lemma nodup_keys_filter : forall (l : list (str * N)) (f : str * N -> bool),
  NoDup (map fst l) -> NoDup (map fst (filter f l)).
Proof.
  induction l as [|x l IH]; intros f Hnd; cbn [filter map].
  - constructor.
  - inversion Hnd as [|? ? Hnotin Hnd']; subst. destruct (f x); cbn [map]; [|auto].
    constructor; [|auto]. intro Hin. apply Hnotin.
    apply in_map_iff in Hin. destruct Hin as [y [Hy Hin]]. apply filter_In in Hin.
    apply in_map_iff. exists y. tauto.
Qed.

Lemma sget_nonnil : forall (l : list (str * N)), l <> [] -> exists k c, sget k l = Some c.
Proof.
  intros [|[k c] l] H; [congruence|]. exists k, c. cbn [aget]. rewrite str_eqb_refl. reflexivity.
Qed.

Lemma adel_aset_same : forall (V : Type) k (v : V) l, ndelN k (nsetN k v l) = ndelN k l.
Proof.
  induction l as [|[k2 v2] l IH]; cbn [aset adel].
  - rewrite N.eqb_refl. reflexivity.
  - destruct (N.eqb_spec k k2) as [->|Hne]; cbn [adel].
    + rewrite N.eqb_refl. reflexivity.
    + destruct (N.eqb_spec k k2); [congruence|]. f_equal. exact IH.
Qed.

Notation nget_set := (aget_aset N.eqb_spec).
Notation nget_del := (aget_adel N.eqb_spec).

(** ---- facts that only need the tree ---- *)
Section TreeFacts.
  Variables (nodes : list (N * node)) (a : astate) (addr : N -> list str) (cnt : N).
  Hypothesis HT : Tree nodes a addr cnt.

  Lemma t_not_root : forall m x l, addr m = l ++ [x] -> m <> ROOT.
  Proof. intros m x l Hm ->. rewrite (T_addr_root _ _ _ _ HT) in Hm. destruct l; discriminate. Qed.

  Lemma t_child_at : forall n0 nd0 k m1 md1,
    ngetN n0 nodes = Some nd0 -> ngetN m1 nodes = Some md1 -> addr m1 = addr n0 ++ [k] ->
    sget k (n_children nd0) = Some m1.
  Proof.
    intros n0 nd0 k m1 md1 Hn0 Hm1 Ha.
    assert (Hnr : m1 <> ROOT) by (eapply t_not_root; exact Ha).
    destruct (T_parent _ _ _ _ HT m1 md1 Hm1 Hnr) as [p [pd [k' [_ [Hp Hk']]]]].
    destruct (T_child _ _ _ _ HT p pd k' m1 Hp Hk') as [_ Ha'].
    rewrite Ha in Ha'. apply app_inj_tail in Ha'. destruct Ha' as [Hpp ->].
    assert (p = n0) by (eapply (T_inj _ _ _ _ HT); eauto). subst p.
    rewrite Hn0 in Hp. inversion Hp; subst. exact Hk'.
  Qed.

  (** the parent recorded in a node is the node one step up *)
  Lemma t_parent_addr : forall n nd p, ngetN n nodes = Some nd -> n <> ROOT -> n_parent nd = Some p ->
    exists pd k, ngetN p nodes = Some pd /\ sget k (n_children pd) = Some n /\ addr n = addr p ++ [k].
  Proof.
    intros n nd p Hn Hr Hp.
    destruct (T_parent _ _ _ _ HT n nd Hn Hr) as [p' [pd [k [Hp' [Hpd Hk]]]]].
    rewrite Hp in Hp'. inversion Hp'; subst p'. exists pd, k. split; [exact Hpd|]. split; [exact Hk|].
    apply (T_child _ _ _ _ HT p pd k n Hpd Hk).
  Qed.

  (** a node without files and without children is on no registered path *)
  Lemma t_dead_leaf : forall n nd e, ngetN n nodes = Some nd -> n_files nd = [] -> n_children nd = [] ->
    In e a -> ~ prefix (addr n) (parts_of e).
  Proof.
    intros n nd e Hn Hf Hc He [R HR].
    destruct R as [|x R].
    - rewrite app_nil_r in HR.
      pose proof (T_files _ _ _ _ HT n nd Hn) as Hfiles. rewrite Hf in Hfiles.
      assert (Hin : In e (at_addr a (addr n))).
      { apply filter_In. split; [exact He|]. apply strs_eqb_eq. exact HR. }
      destruct (at_addr a (addr n)); [destruct Hin | discriminate].
    - assert (Hpre : prefix (addr n ++ [x]) (parts_of e)).
      { exists R. rewrite HR, <- app_assoc. reflexivity. }
      destruct (T_complete _ _ _ _ HT e _ He Hpre) as [m [md [Hm Ham]]].
      pose proof (t_child_at n nd x m md Hn Hm Ham) as Hk. rewrite Hc in Hk. discriminate.
  Qed.
End TreeFacts.

(** ---- dropping a dead leaf ---- *)
Section DropLeaf.
  Variables (nodes : list (N * node)) (a : astate) (addr : N -> list str) (cnt : N).
  Variables (c p : N) (cd pd : node).
  Hypothesis HT : Tree nodes a addr cnt.
  Hypothesis HL : Live nodes a addr (Some (addr c)).
  Hypothesis Hc : ngetN c nodes = Some cd.
  Hypothesis Hcf : n_files cd = [].
  Hypothesis Hcc : n_children cd = [].
  Hypothesis Hcr : c <> ROOT.
  Hypothesis Hcp : n_parent cd = Some p.
  Hypothesis Hp : ngetN p nodes = Some pd.

  Let pd' := mkNode (n_parent pd) (filter (fun kc => negb (snd kc =? c)) (n_children pd)) (n_files pd).
  Let nodes' := nsetN p pd' (ndelN c nodes).

  Lemma dl_addr : exists k, sget k (n_children pd) = Some c /\ addr c = addr p ++ [k].
  Proof.
    destruct (t_parent_addr _ _ _ _ HT c cd p Hc Hcr Hcp) as [pd0 [k [Hpd0 [Hk Ha]]]].
    rewrite Hp in Hpd0. inversion Hpd0; subst pd0. eauto.
  Qed.

  Lemma dl_pc : p <> c.
  Proof.
    intro E. destruct dl_addr as [k [_ Ha]]. rewrite E in Ha.
    assert (H : length (addr c) = length (addr c ++ [k])) by (rewrite <- Ha; reflexivity).
    rewrite app_length in H. cbn in H. lia.
  Qed.

  Lemma dl_get : forall n, ngetN n nodes' =
    if n =? p then Some pd' else if n =? c then None else ngetN n nodes.
  Proof. intro n. unfold nodes'. rewrite nget_set, nget_del. reflexivity. Qed.

  Lemma dl_get_p : ngetN p nodes' = Some pd'.
  Proof. rewrite dl_get, N.eqb_refl. reflexivity. Qed.

  Lemma dl_get_c : ngetN c nodes' = None.
  Proof.
    rewrite dl_get. destruct (N.eqb_spec c p) as [E|_]; [symmetry in E; destruct (dl_pc E)|].
    rewrite N.eqb_refl. reflexivity.
  Qed.

  (** a surviving node keeps its parent and files; only [p] loses the child [c] *)
  Lemma dl_old : forall n nd', ngetN n nodes' = Some nd' ->
    exists nd, ngetN n nodes = Some nd /\ n <> c /\ n_parent nd' = n_parent nd /\ n_files nd' = n_files nd /\
               (n <> p -> nd' = nd) /\ (n = p -> nd' = pd').
  Proof.
    intros n nd' H. rewrite dl_get in H.
    destruct (N.eqb_spec n p) as [->|Hnp].
    - inversion H; subst nd'. exists pd. repeat split; auto using dl_pc. congruence.
    - destruct (N.eqb_spec n c) as [->|Hnc]; [discriminate|].
      exists nd'. repeat split; auto. congruence.
  Qed.

  Lemma dl_new : forall n nd, ngetN n nodes = Some nd -> n <> c ->
    exists nd', ngetN n nodes' = Some nd' /\ n_parent nd' = n_parent nd /\ n_files nd' = n_files nd.
  Proof.
    intros n nd H Hnc. rewrite dl_get.
    destruct (N.eqb_spec n p) as [->|Hnp].
    - rewrite Hp in H. inversion H; subst nd. exists pd'. auto.
    - destruct (N.eqb_spec n c); [congruence|]. exists nd. auto.
  Qed.

  Lemma dl_children : forall n nd', ngetN n nodes' = Some nd' -> forall k ch,
    sget k (n_children nd') = Some ch <->
    (exists nd, ngetN n nodes = Some nd /\ sget k (n_children nd) = Some ch /\ ch <> c).
  Proof.
    intros n nd' H k ch.
    destruct (dl_old n nd' H) as [nd [Hnd [Hnc [_ [_ [Hne Heq]]]]]].
    destruct (N.eq_dec n p) as [->|Hnp].
    - rewrite (Heq eq_refl). cbn [n_children pd'].
      rewrite Hp in Hnd. inversion Hnd; subst nd.
      rewrite sget_filter by (eapply (T_ckeys _ _ _ _ HT); exact Hp).
      split.
      + destruct (sget k (n_children pd)) as [x|] eqn:E; [|discriminate].
        destruct (N.eqb_spec x c); [discriminate|]. intro Hx. inversion Hx; subst. exists pd. auto.
      + intros [nd [Hnd' [Hk Hch]]]. rewrite Hp in Hnd'. inversion Hnd'; subst nd. rewrite Hk.
        destruct (N.eqb_spec ch c); congruence.
    - rewrite (Hne Hnp). split.
      + intro Hk. exists nd. repeat split; auto. intros ->.
        destruct (T_child _ _ _ _ HT n nd k c Hnd Hk) as [[cd0 [Hcd0 Hpar]] _].
        rewrite Hc in Hcd0. inversion Hcd0; subst cd0. congruence.
      + intros [nd0 [Hnd0 [Hk _]]]. rewrite Hnd in Hnd0. inversion Hnd0; subst. exact Hk.
  Qed.

  Lemma drop_leaf_tree : Tree nodes' a addr cnt.
  Proof.
    constructor.
    - destruct (T_root _ _ _ _ HT) as [rd Hrd]. destruct (dl_new ROOT rd Hrd (not_eq_sym Hcr)) as [rd' [H _]]. eauto.
    - exact (T_addr_root _ _ _ _ HT).
    - intros n nd' k ch Hn Hk. apply (dl_children n nd' Hn) in Hk. destruct Hk as [nd [Hnd [Hk Hch]]].
      destruct (T_child _ _ _ _ HT n nd k ch Hnd Hk) as [[cd0 [Hcd0 Hpar]] Ha]. split; [|exact Ha].
      destruct (dl_new ch cd0 Hcd0 Hch) as [cd' [H1 [H2 _]]]. exists cd'. split; [exact H1 | congruence].
    - intros n nd' Hn. destruct (dl_old n nd' Hn) as [nd [Hnd [_ [_ [_ [Hne Heq]]]]]].
      destruct (N.eq_dec n p) as [->|Hnp].
      + rewrite (Heq eq_refl). cbn [n_children pd']. apply nodup_keys_filter.
        eapply (T_ckeys _ _ _ _ HT); exact Hp.
      + rewrite (Hne Hnp). eapply (T_ckeys _ _ _ _ HT); exact Hnd.
    - intros n nd' Hn Hr. destruct (dl_old n nd' Hn) as [nd [Hnd [Hnc [Hpar _]]]].
      destruct (T_parent _ _ _ _ HT n nd Hnd Hr) as [p0 [pd0 [k [Hp0 [Hpd0 Hk]]]]].
      assert (Hp0c : p0 <> c).
      { intros ->. rewrite Hc in Hpd0. inversion Hpd0; subst pd0. rewrite Hcc in Hk. discriminate. }
      destruct (dl_new p0 pd0 Hpd0 Hp0c) as [pd0' [H1 _]].
      exists p0, pd0', k. split; [congruence|]. split; [exact H1|].
      apply (dl_children p0 pd0' H1). exists pd0. auto.
    - intros n m nd' md' Hn Hm. destruct (dl_old n nd' Hn) as [nd [Hnd _]]. destruct (dl_old m md' Hm) as [md [Hmd _]].
      eapply (T_inj _ _ _ _ HT); eauto.
    - intros n nd' Hn. destruct (dl_old n nd' Hn) as [nd [Hnd [_ [_ [Hf _]]]]]. rewrite Hf.
      eapply (T_files _ _ _ _ HT); exact Hnd.
    - intros e P He Hpre. destruct (T_complete _ _ _ _ HT e P He Hpre) as [n [nd [Hnd Ha]]].
      assert (Hnc : n <> c).
      { intros ->. apply (t_dead_leaf _ _ _ _ HT c cd e Hc Hcf Hcc He). rewrite Ha. exact Hpre. }
      destruct (dl_new n nd Hnd Hnc) as [nd' [H1 _]]. eauto.
    - intros n nd' Hn. destruct (dl_old n nd' Hn) as [nd [Hnd _]]. eapply (T_counter _ _ _ _ HT); exact Hnd.
    - unfold nodes'. apply (nodup_aset N.eqb_spec). apply nodup_adel. exact (T_nodup _ _ _ _ HT).
  Qed.

  Lemma drop_leaf_live : Live nodes' a addr (Some (addr p)).
  Proof.
    intros n nd' Hn Hr Hx. destruct (dl_old n nd' Hn) as [nd [Hnd [Hnc _]]].
    apply (HL n nd Hnd Hr). intro Hpre.
    destruct dl_addr as [k [_ Ha]]. rewrite Ha in Hpre. apply prefix_snoc in Hpre.
    destruct Hpre as [Heq|Hpre]; [|exact (Hx Hpre)].
    apply Hnc. eapply (T_inj _ _ _ _ HT); eauto. congruence.
  Qed.
End DropLeaf.

(** a node with files or children (or the root) makes its whole path live *)
Lemma live_finish : forall nodes a addr cnt p pd,
  Tree nodes a addr cnt -> Live nodes a addr (Some (addr p)) -> ngetN p nodes = Some pd ->
  (p = ROOT \/ n_files pd <> [] \/ n_children pd <> []) -> Live nodes a addr None.
Proof.
  intros nodes a addr cnt p pd HT HL Hp Hcase n nd Hn Hr _.
  destruct (classic_prefix (addr n) (addr p)) as [Hpre|Hnpre]; [|apply (HL n nd Hn Hr Hnpre)].
  destruct Hcase as [->|[Hf|Hc]].
  - rewrite (T_addr_root _ _ _ _ HT) in Hpre. apply prefix_nil in Hpre. exfalso. apply Hr.
    destruct (T_root _ _ _ _ HT) as [rd Hrd]. eapply (T_inj _ _ _ _ HT); eauto.
    rewrite (T_addr_root _ _ _ _ HT). exact Hpre.
  - rewrite (T_files _ _ _ _ HT p pd Hp) in Hf.
    destruct (at_addr a (addr p)) as [|e r] eqn:E; [cbn in Hf; congruence|].
    assert (He : In e (at_addr a (addr p))) by (rewrite E; left; reflexivity).
    apply filter_In in He. destruct He as [He Hq]. apply strs_eqb_eq in Hq.
    exists e. split; [exact He|]. rewrite Hq. exact Hpre.
  - destruct (sget_nonnil _ Hc) as [k [ch Hk]].
    destruct (T_child _ _ _ _ HT p pd k ch Hp Hk) as [[cd [Hcd _]] Ha].
    assert (Hchr : ch <> ROOT) by (eapply t_not_root; eauto).
    destruct (HL ch cd Hcd Hchr) as [e [He Hpe]].
    { rewrite Ha. apply not_prefix_snoc. }
    exists e. split; [exact He|]. eapply prefix_trans; [exact Hpre|].
    eapply prefix_trans; [|exact Hpe]. rewrite Ha. apply prefix_app.
Qed.
