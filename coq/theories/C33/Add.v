(** C33/Add.v — [add_module_by_module_path] preserves the refinement invariant. *)
From EV Require Import C33.Model C33.Spec C33.Lemmas C33.Inv C33.Tree C33.Remove.
Local Open Scope N_scope.

Lemma prefix_antisym : forall P Q : list str, prefix P Q -> prefix Q P -> P = Q.
Proof.
  intros P Q [R ->] [R' H]. rewrite <- app_assoc in H.
  rewrite <- (app_nil_r P) in H at 1. apply app_inv_head in H.
  symmetry in H. apply app_eq_nil in H. destruct H as [-> _]. symmetry. apply app_nil_r.
Qed.

Lemma prefix_step : forall (A P : list str) k R,
  prefix A P -> prefix P (A ++ k :: R) -> P = A \/ prefix (A ++ [k]) P.
Proof.
  intros A P k R [S ->] [T HT]. rewrite <- app_assoc in HT. apply app_inv_head in HT.
  destruct S as [|x S].
  - left. apply app_nil_r.
  - right. cbn [app] in HT. inversion HT; subst. exists S. rewrite <- app_assoc. reflexivity.
Qed.

(** ---- creating the child [part] of [n0] with the fresh id [cnt] ---- *)
Section Grow.
  Variables (nodes : list (N * node)) (a : astate) (addr : N -> list str) (cnt : N).
  Variables (n0 : N) (nd0 : node) (part : str) (X : list str).
  Hypothesis HT : Tree nodes a addr cnt.
  Hypothesis HL : Live nodes a addr (Some X).
  Hypothesis Hn0 : ngetN n0 nodes = Some nd0.
  Hypothesis Hnone : sget part (n_children nd0) = None.
  Hypothesis HX : prefix (addr n0 ++ [part]) X.

  Let nd0' := mkNode (n_parent nd0) (n_children nd0 ++ [(part, cnt)]) (n_files nd0).
  Let newnode := mkNode (Some n0) [] [].
  Let nodes2 := nsetN n0 nd0' nodes ++ [(cnt, newnode)].
  Let addr1 := fun n => if n =? cnt then addr n0 ++ [part] else addr n.

  Lemma gr_lt : forall n x, ngetN n nodes = Some x -> n <> cnt.
  Proof. intros n x H ->. pose proof (T_counter _ _ _ _ HT cnt x H). lia. Qed.

  Lemma gr_cnt_none : ngetN cnt nodes = None.
  Proof. destruct (ngetN cnt nodes) as [x|] eqn:E; [|reflexivity]. exfalso. eapply gr_lt; eauto. Qed.

  Lemma gr_get : forall n, ngetN n nodes2 =
    if n =? n0 then Some nd0' else if n =? cnt then Some newnode else ngetN n nodes.
  Proof.
    intro n. unfold nodes2. rewrite aget_app, nget_set.
    destruct (N.eqb_spec n n0) as [->|Hne]; [reflexivity|].
    cbn [aget]. destruct (N.eqb_spec n cnt) as [->|Hnc].
    - rewrite gr_cnt_none. reflexivity.
    - destruct (ngetN n nodes); reflexivity.
  Qed.

  Lemma gr_addr_old : forall n x, ngetN n nodes = Some x -> addr1 n = addr n.
  Proof. intros n x H. unfold addr1. destruct (N.eqb_spec n cnt) as [E|_]; [|reflexivity]. exfalso. eapply gr_lt; eauto. Qed.

  Lemma gr_addr_cnt : addr1 cnt = addr n0 ++ [part].
  Proof. unfold addr1. rewrite N.eqb_refl. reflexivity. Qed.

  Lemma gr_new : forall n x, ngetN n nodes = Some x ->
    exists x', ngetN n nodes2 = Some x' /\ n_parent x' = n_parent x /\ n_files x' = n_files x /\
               (forall k ch, sget k (n_children x) = Some ch -> sget k (n_children x') = Some ch).
  Proof.
    intros n x H. rewrite gr_get. destruct (N.eqb_spec n n0) as [->|Hne].
    - rewrite Hn0 in H. inversion H; subst x. exists nd0'. repeat split; auto.
      intros k ch Hk. cbn [n_children nd0']. rewrite aget_app, Hk. reflexivity.
    - destruct (N.eqb_spec n cnt) as [E|_]; [exfalso; eapply gr_lt; eauto|]. exists x. auto.
  Qed.

  Lemma gr_cases : forall n x', ngetN n nodes2 = Some x' ->
    (n = cnt /\ x' = newnode) \/
    (exists x, ngetN n nodes = Some x /\ n_parent x' = n_parent x /\ n_files x' = n_files x /\
               (n <> n0 -> x' = x) /\ (n = n0 -> x' = nd0')).
  Proof.
    intros n x' H. rewrite gr_get in H. destruct (N.eqb_spec n n0) as [->|Hne].
    - inversion H; subst x'. right. exists nd0. repeat split; auto. congruence.
    - destruct (N.eqb_spec n cnt) as [->|Hnc].
      + inversion H; subst. left. auto.
      + right. exists x'. repeat split; auto. congruence.
  Qed.

  Lemma gr_no_node_at : forall m md, ngetN m nodes = Some md -> addr m <> addr n0 ++ [part].
  Proof.
    intros m md Hm Ha. pose proof (t_child_at _ _ _ _ HT n0 nd0 part m md Hn0 Hm Ha) as H. congruence.
  Qed.

  Lemma grow_tree : Tree nodes2 a addr1 (cnt + 1).
  Proof.
    constructor.
    - destruct (T_root _ _ _ _ HT) as [rd Hrd]. destruct (gr_new ROOT rd Hrd) as [x [H _]]. eauto.
    - destruct (T_root _ _ _ _ HT) as [rd Hrd]. rewrite (gr_addr_old ROOT rd Hrd). exact (T_addr_root _ _ _ _ HT).
    - intros n x' k ch Hn Hk. destruct (gr_cases n x' Hn) as [[-> ->]|[x [Hx [_ [_ [Hne Heq]]]]]].
      + cbn in Hk. discriminate.
      + rewrite (gr_addr_old n x Hx).
        destruct (N.eq_dec n n0) as [->|Hnn].
        * rewrite (Heq eq_refl) in Hk. cbn [n_children nd0'] in Hk. rewrite aget_app in Hk.
          rewrite Hn0 in Hx. inversion Hx; subst x.
          destruct (sget k (n_children nd0)) as [c0|] eqn:Ek.
          -- inversion Hk; subst c0.
             destruct (T_child _ _ _ _ HT n0 nd0 k ch Hn0 Ek) as [[cd [Hcd Hpar]] Ha].
             destruct (gr_new ch cd Hcd) as [cd' [H1 [H2 _]]]. rewrite (gr_addr_old ch cd Hcd).
             split; [exists cd'; split; [exact H1 | congruence] | exact Ha].
          -- cbn [aget] in Hk. destruct (str_eqb_spec k part) as [->|]; [|discriminate].
             inversion Hk; subst ch. rewrite gr_addr_cnt. split; [|reflexivity].
             exists newnode. split; [|reflexivity]. rewrite gr_get.
             destruct (N.eqb_spec cnt n0) as [E|_]; [exfalso; eapply gr_lt; eauto|]. rewrite N.eqb_refl. reflexivity.
        * rewrite (Hne Hnn) in Hk.
          destruct (T_child _ _ _ _ HT n x k ch Hx Hk) as [[cd [Hcd Hpar]] Ha].
          destruct (gr_new ch cd Hcd) as [cd' [H1 [H2 _]]]. rewrite (gr_addr_old ch cd Hcd).
          split; [exists cd'; split; [exact H1 | congruence] | exact Ha].
    - intros n x' Hn. destruct (gr_cases n x' Hn) as [[-> ->]|[x [Hx [_ [_ [Hne Heq]]]]]].
      + cbn. constructor.
      + destruct (N.eq_dec n n0) as [->|Hnn].
        * rewrite (Heq eq_refl). cbn [n_children nd0']. rewrite map_app. cbn [map fst].
          apply nodup_snoc; [eapply (T_ckeys _ _ _ _ HT); exact Hn0|].
          apply (aget_None_notin str_eqb_spec). exact Hnone.
        * rewrite (Hne Hnn). eapply (T_ckeys _ _ _ _ HT); exact Hx.
    - intros n x' Hn Hr. destruct (gr_cases n x' Hn) as [[-> ->]|[x [Hx [Hpar _]]]].
      + exists n0, nd0', part. split; [reflexivity|]. split.
        * rewrite gr_get, N.eqb_refl. reflexivity.
        * cbn [n_children nd0']. rewrite aget_app, Hnone. cbn [aget]. rewrite str_eqb_refl. reflexivity.
      + destruct (T_parent _ _ _ _ HT n x Hx Hr) as [p [pd [k [Hp [Hpd Hk]]]]].
        destruct (gr_new p pd Hpd) as [pd' [H1 [_ [_ H4]]]].
        exists p, pd', k. split; [congruence|]. split; [exact H1 | apply H4; exact Hk].
    - intros n m x' y' Hn Hm Ha.
      destruct (gr_cases n x' Hn) as [[-> ->]|[x [Hx _]]]; destruct (gr_cases m y' Hm) as [[-> ->]|[y [Hy _]]].
      + reflexivity.
      + exfalso. rewrite gr_addr_cnt, (gr_addr_old m y Hy) in Ha. eapply gr_no_node_at; eauto.
      + exfalso. rewrite gr_addr_cnt, (gr_addr_old n x Hx) in Ha. eapply gr_no_node_at; eauto.
      + rewrite (gr_addr_old n x Hx), (gr_addr_old m y Hy) in Ha. eapply (T_inj _ _ _ _ HT); eauto.
    - intros n x' Hn. destruct (gr_cases n x' Hn) as [[-> ->]|[x [Hx [_ [Hf _]]]]].
      + rewrite gr_addr_cnt. cbn [n_files newnode].
        destruct (at_addr a (addr n0 ++ [part])) as [|e r] eqn:E; [reflexivity|]. exfalso.
        assert (He : In e (at_addr a (addr n0 ++ [part]))) by (rewrite E; left; reflexivity).
        apply filter_In in He. destruct He as [He Hq]. apply strs_eqb_eq in Hq.
        destruct (T_complete _ _ _ _ HT e (addr n0 ++ [part]) He) as [m [md [Hm Ham]]].
        { rewrite Hq. apply prefix_refl. }
        eapply gr_no_node_at; eauto.
      + rewrite Hf, (gr_addr_old n x Hx). eapply (T_files _ _ _ _ HT); exact Hx.
    - intros e P He Hpre. destruct (T_complete _ _ _ _ HT e P He Hpre) as [n [x [Hx Ha]]].
      destruct (gr_new n x Hx) as [x' [H1 _]]. exists n, x'. split; [exact H1|].
      rewrite (gr_addr_old n x Hx). exact Ha.
    - intros n x' Hn. destruct (gr_cases n x' Hn) as [[-> ->]|[x [Hx _]]]; [lia|].
      pose proof (T_counter _ _ _ _ HT n x Hx). lia.
    - unfold nodes2. rewrite map_app. cbn [map fst]. apply nodup_snoc.
      + apply (nodup_aset N.eqb_spec). exact (T_nodup _ _ _ _ HT).
      + rewrite (keys_aset_present N.eqb_spec n0 nd0' nd0 nodes Hn0).
        apply (aget_None_notin N.eqb_spec). exact gr_cnt_none.
  Qed.

  Lemma grow_live : Live nodes2 a addr1 (Some X).
  Proof.
    intros n x' Hn Hr Hx. destruct (gr_cases n x' Hn) as [[-> ->]|[x [Hx0 _]]].
    - exfalso. apply Hx. rewrite gr_addr_cnt. exact HX.
    - rewrite (gr_addr_old n x Hx0) in *. exact (HL n x Hx0 Hr Hx).
  Qed.

  Lemma grow_cnt : ngetN cnt nodes2 = Some newnode.
  Proof.
    rewrite gr_get. destruct (N.eqb_spec cnt n0) as [E|_]; [exfalso; eapply gr_lt; eauto|].
    rewrite N.eqb_refl. reflexivity.
  Qed.
End Grow.

(** what [ensure_path] guarantees *)
Definition ensured (nodes nodes' : list (N * node)) (a : astate) (addr addr' : N -> list str)
           (cnt' n0 nid : N) (X : list str) : Prop :=
  Tree nodes' a addr' cnt' /\ Live nodes' a addr' (Some X) /\
  (forall n x, ngetN n nodes = Some x ->
     addr' n = addr n /\ exists x', ngetN n nodes' = Some x' /\ n_files x' = n_files x) /\
  (exists ndx, ngetN nid nodes' = Some ndx) /\ addr' nid = X /\
  (forall P, prefix (addr n0) P -> prefix P X -> exists n x, ngetN n nodes' = Some x /\ addr' n = P).

Lemma ensure_ok : forall parts n0 nd0 nodes cnt addr a X,
  Tree nodes a addr cnt -> Live nodes a addr (Some X) ->
  ngetN n0 nodes = Some nd0 -> X = addr n0 ++ parts ->
  exists nodes' cnt' nid addr',
    ensure_path parts n0 nodes cnt = (nodes', cnt', Some nid) /\
    ensured nodes nodes' a addr addr' cnt' n0 nid X.
Proof.
  induction parts as [|part rest IH]; intros n0 nd0 nodes cnt addr a X HT HL Hn0 HX.
  - rewrite app_nil_r in HX. subst X. exists nodes, cnt, n0, addr. split; [reflexivity|].
    split; [exact HT|]. split; [exact HL|]. split; [|split; [eauto|split; [reflexivity|]]].
    + intros n x Hx. split; [reflexivity | eauto].
    + intros P H1 H2. exists n0, nd0. split; [exact Hn0 | apply prefix_antisym; assumption].
  - cbn [ensure_path]. rewrite Hn0.
    destruct (sget part (n_children nd0)) as [id|] eqn:Hk.
    + destruct (T_child _ _ _ _ HT n0 nd0 part id Hn0 Hk) as [[cd [Hcd _]] Ha].
      rewrite Hcd.
      assert (HX' : X = addr id ++ rest) by (rewrite Ha, <- app_assoc; exact HX).
      destruct (IH id cd nodes cnt addr a X HT HL Hcd HX') as [nodes' [cnt' [nid [addr' [He [R1 [R2 [R3 [R4 [R5 R6]]]]]]]]]].
      exists nodes', cnt', nid, addr'. split; [exact He|].
      split; [exact R1|]. split; [exact R2|]. split; [exact R3|]. split; [exact R4|]. split; [exact R5|].
      intros P H1 H2. rewrite HX in H2. destruct (prefix_step _ _ _ _ H1 H2) as [->|H3].
      * destruct (R3 n0 nd0 Hn0) as [Hadd [x' [Hx' _]]]. eauto.
      * apply R6; [rewrite Ha; exact H3 | rewrite HX; exact H2].
    + set (nd0' := mkNode (n_parent nd0) (n_children nd0 ++ [(part, cnt)]) (n_files nd0)).
      assert (HpX : prefix (addr n0 ++ [part]) X).
      { rewrite HX. exists rest. rewrite <- app_assoc. reflexivity. }
      pose proof (grow_tree _ _ _ _ _ _ _ HT Hn0 Hk) as HT2.
      pose proof (grow_live _ _ _ _ _ _ _ _ HT HL Hn0 HpX) as HL2.
      pose proof (grow_cnt nodes a addr cnt n0 nd0 part HT Hn0) as Hc2.
      assert (Hnone : ngetN cnt (nsetN n0 nd0' nodes) = None).
      { rewrite nget_set. destruct (N.eqb_spec cnt n0) as [E|_].
        - exact (False_ind _ (gr_lt _ _ _ _ HT n0 nd0 Hn0 (eq_sym E))).
        - exact (gr_cnt_none _ _ _ _ HT). }
      rewrite Hnone.
      set (addr1 := fun n => if n =? cnt then addr n0 ++ [part] else addr n) in *.
      set (nodes2 := nsetN n0 nd0' nodes ++ [(cnt, mkNode (Some n0) [] [])]) in *.
      assert (HX' : X = addr1 cnt ++ rest).
      { unfold addr1. rewrite N.eqb_refl, <- app_assoc. exact HX. }
      destruct (IH cnt _ nodes2 (cnt + 1) addr1 a X HT2 HL2 Hc2 HX') as [nodes' [cnt' [nid [addr' [He [R1 [R2 [R3 [R4 [R5 R6]]]]]]]]]].
      exists nodes', cnt', nid, addr'. split; [exact He|].
      assert (Hold : forall n x, ngetN n nodes = Some x ->
                       addr' n = addr n /\ exists x', ngetN n nodes' = Some x' /\ n_files x' = n_files x).
      { intros n x Hx. destruct (gr_new nodes a addr cnt n0 nd0 part HT Hn0 n x Hx) as [x1 [H1 [_ [H3 _]]]].
        destruct (R3 n x1 H1) as [Ha1 [x' [Hx' Hf']]]. split.
        - rewrite Ha1. exact (gr_addr_old nodes a addr cnt n0 part HT n x Hx).
        - exists x'. split; [exact Hx' | congruence]. }
      split; [exact R1|]. split; [exact R2|]. split; [exact Hold|]. split; [exact R4|]. split; [exact R5|].
      intros P H1 H2. rewrite HX in H2. destruct (prefix_step _ _ _ _ H1 H2) as [->|H3].
      * destruct (Hold n0 nd0 Hn0) as [Hadd [x' [Hx' _]]]. eauto.
      * apply R6; [unfold addr1; rewrite N.eqb_refl; exact H3 | rewrite HX; exact H2].
Qed.
