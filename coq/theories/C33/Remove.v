(** C33/Remove.v — [LuaIndex::remove] preserves the refinement invariant. *)
From EV Require Import C33.Model C33.Spec C33.Lemmas C33.Inv C33.Tree.
Local Open Scope N_scope.

Definition drop_node (nodes : list (N * node)) (p c : N) (pd : node) : list (N * node) :=
  nsetN p (mkNode (n_parent pd) (filter (fun kc => negb (snd kc =? c)) (n_children pd)) (n_files pd)) (ndelN c nodes).

(** what the pruning loop guarantees *)
Definition pruned (nodes0 R : list (N * node)) (a : astate) (addr : N -> list str) (cnt : N) : Prop :=
  Tree R a addr cnt /\ Live R a addr None /\
  (forall n nd, ngetN n R = Some nd -> exists nd0, ngetN n nodes0 = Some nd0 /\ n_files nd = n_files nd0) /\
  (forall n nd0, ngetN n nodes0 = Some nd0 -> (exists e, In e a /\ prefix (addr n) (parts_of e)) ->
                 exists nd, ngetN n R = Some nd).

Lemma prune_ok : forall fuel nodes0 a addr cnt c cd p,
  Tree nodes0 a addr cnt -> Live nodes0 a addr (Some (addr c)) ->
  ngetN c nodes0 = Some cd -> n_files cd = [] -> n_children cd = [] -> c <> ROOT -> n_parent cd = Some p ->
  (length (addr c) <= fuel)%nat ->
  pruned nodes0 (prune fuel (ndelN c nodes0) (Some p) c) a addr cnt.
Proof.
  induction fuel as [|fuel IH]; intros nodes0 a addr cnt c cd p HT HL Hc Hcf Hcc Hcr Hcp Hfuel.
  - exfalso. destruct (t_parent_addr _ _ _ _ HT c cd p Hc Hcr Hcp) as [pd [k [_ [_ Ha]]]].
    rewrite Ha, app_length in Hfuel. cbn in Hfuel. lia.
  - destruct (t_parent_addr _ _ _ _ HT c cd p Hc Hcr Hcp) as [pd [k [Hp [Hk Ha]]]].
    assert (Hpc : p <> c) by (eapply dl_pc; eauto).
    cbn [prune]. rewrite nget_del. destruct (N.eqb_spec p c) as [E|_]; [contradiction|]. rewrite Hp.
    cbv zeta. fold (drop_node nodes0 p c pd).
    pose proof (drop_leaf_tree _ _ _ _ _ _ _ _ HT Hc Hcf Hcc Hcr Hcp Hp) as HT1.
    pose proof (drop_leaf_live _ _ _ _ _ _ _ _ HT HL Hc Hcr Hcp Hp) as HL1.
    pose proof (dl_get_p nodes0 c p pd) as Hp1.
    fold (drop_node nodes0 p c pd) in HT1, HL1, Hp1.
    set (pd' := mkNode (n_parent pd) (filter (fun kc => negb (snd kc =? c)) (n_children pd)) (n_files pd)) in *.
    assert (Hold : forall n nd, ngetN n (drop_node nodes0 p c pd) = Some nd ->
                     exists nd0, ngetN n nodes0 = Some nd0 /\ n_files nd = n_files nd0).
    { intros n nd Hn. destruct (dl_old _ _ _ _ _ _ _ _ HT Hc Hcr Hcp Hp n nd Hn) as [nd0 [H1 [_ [_ [H2 _]]]]]. eauto. }
    assert (Hnew : forall n nd0, ngetN n nodes0 = Some nd0 -> (exists e, In e a /\ prefix (addr n) (parts_of e)) ->
                     exists nd, ngetN n (drop_node nodes0 p c pd) = Some nd).
    { intros n nd0 Hn [e [He Hpre]].
      assert (Hnc : n <> c).
      { intros ->. exact (t_dead_leaf _ _ _ _ HT c cd e Hc Hcf Hcc He Hpre). }
      destruct (dl_new nodes0 c p pd Hp n nd0 Hn Hnc) as [nd [H1 _]]. eauto. }
    destruct (N.eqb_spec p ROOT) as [Hroot|Hnroot].
    + split; [exact HT1|]. split; [|split; assumption].
      eapply live_finish; eauto.
    + destruct (is_nil (n_files pd') && is_nil (n_children pd')) eqn:Edead.
      * apply andb_prop in Edead. destruct Edead as [Ef Ec]. apply is_nil_true in Ef. apply is_nil_true in Ec.
        destruct (T_parent _ _ _ _ HT1 p pd' Hp1 Hnroot) as [p2 [pd2 [k2 [Hpp2 _]]]].
        rewrite Hpp2.
        assert (Hlen : (length (addr p) <= fuel)%nat).
        { rewrite Ha, app_length in Hfuel. cbn in Hfuel. lia. }
        destruct (IH _ a addr cnt p pd' p2 HT1 HL1 Hp1 Ef Ec Hnroot Hpp2 Hlen) as [R1 [R2 [R3 R4]]].
        split; [exact R1|]. split; [exact R2|]. split.
        -- intros n nd Hn. destruct (R3 n nd Hn) as [nd1 [H1 H2]]. destruct (Hold n nd1 H1) as [nd0 [H3 H4]].
           exists nd0. split; [exact H3 | congruence].
        -- intros n nd0 Hn Hlive. destruct (Hnew n nd0 Hn Hlive) as [nd1 H1]. eapply R4; eauto.
      * split; [exact HT1|]. split; [|split; assumption].
        eapply live_finish; eauto. right.
        apply andb_false_iff in Edead. destruct Edead as [E|E]; [left | right]; intro H0; rewrite H0 in E; discriminate.
Qed.

(** ---- abstract removal ---- *)
Lemma in_a_remove : forall f a e, In e (a_remove f a) <-> In e a /\ a_file e <> f.
Proof.
  intros f a e. unfold a_remove. rewrite filter_In. split; intros [H1 H2]; split; auto.
  - destruct (N.eqb_spec (a_file e) f); [discriminate | assumption].
  - destruct (N.eqb_spec (a_file e) f); [contradiction | reflexivity].
Qed.

Lemma a_remove_id : forall f a, (forall e, In e a -> a_file e <> f) -> a_remove f a = a.
Proof.
  intros f a. unfold a_remove. induction a as [|x a IH]; intro H; cbn [filter]; [reflexivity|].
  destruct (N.eqb_spec (a_file x) f) as [E|_]; cbn [negb].
  - exfalso. apply (H x); [left; reflexivity | exact E].
  - f_equal. apply IH. intros e He. apply H. right. exact He.
Qed.

Lemma nodup_a_remove : forall f a, NoDup (map a_file a) -> NoDup (map a_file (a_remove f a)).
Proof.
  intros f a. unfold a_remove. induction a as [|x a IH]; intro H; cbn [filter map]; [constructor|].
  inversion H as [|? ? Hx Hnd]; subst. destruct (negb (a_file x =? f)); cbn [map]; [|auto].
  constructor; [|auto]. intro Hin. apply Hx. apply in_map_iff in Hin. destruct Hin as [y [Hy Hin]].
  apply filter_In in Hin. apply in_map_iff. exists y. tauto.
Qed.

Lemma filter_filter_comm : forall A (f g : A -> bool) l, filter f (filter g l) = filter g (filter f l).
Proof.
  induction l as [|x l IH]; cbn [filter]; [reflexivity|].
  destruct (f x) eqn:Ef, (g x) eqn:Eg; cbn [filter]; rewrite ?Ef, ?Eg, IH; reflexivity.
Qed.

Lemma map_file_remove : forall f l, map a_file (a_remove f l) = drop_file f (map a_file l).
Proof.
  intros f l. unfold a_remove, drop_file. induction l as [|x l IH]; cbn [filter map]; [reflexivity|].
  destruct (negb (a_file x =? f)); cbn [map]; rewrite IH; reflexivity.
Qed.

Lemma at_addr_remove : forall f a P, at_addr (a_remove f a) P = a_remove f (at_addr a P).
Proof. intros. unfold at_addr, a_remove. apply filter_filter_comm. Qed.

Lemma named_remove : forall f a nm, named (a_remove f a) nm = a_remove f (named a nm).
Proof. intros. unfold named, a_remove. apply filter_filter_comm. Qed.

Section RemoveInv.
  Variables (c : cfg) (s : midx) (a : astate) (addr : N -> list str) (f : N).
  Hypothesis HI : Inv c s a addr.

  Lemma remove_absent : ngetN f (m_files s) = None -> a_remove f a = a.
  Proof.
    intro Hn. apply a_remove_id. intros e He Hf.
    destruct (I_fmap_complete _ _ _ _ HI e He) as [i Hi]. congruence.
  Qed.

  Variables (info : minfo) (e : aentry) (nd : node).
  Hypothesis Hinfo : ngetN f (m_files s) = Some info.
  Hypothesis He : In e a.
  Hypothesis Hef : a_file e = f.
  Hypothesis Hrel : info_rel info e.
  Hypothesis Hnd : ngetN (i_node info) (m_nodes s) = Some nd.
  Hypothesis Haddr : addr (i_node info) = parts_of e.

  Let nid := i_node info.
  Let a' := a_remove f a.
  Let nd' := mkNode (n_parent nd) (n_children nd) (drop_file f (n_files nd)).
  Let nodes0 := nsetN nid nd' (m_nodes s).

  Lemma rm_only : forall e', In e' a -> a_file e' = f -> e' = e.
  Proof. intros e' He' Hf'. eapply in_a_unique; eauto using (I_a_nodup _ _ _ _ HI). congruence. Qed.

  Lemma rm_get0 : forall n, ngetN n nodes0 = if n =? nid then Some nd' else ngetN n (m_nodes s).
  Proof. intro n. unfold nodes0. apply nget_set. Qed.

  Lemma rm_old : forall n x, ngetN n nodes0 = Some x ->
    exists x0, ngetN n (m_nodes s) = Some x0 /\ n_parent x = n_parent x0 /\ n_children x = n_children x0 /\
               (n <> nid -> x = x0) /\ (n = nid -> x = nd').
  Proof.
    intros n x H. rewrite rm_get0 in H. destruct (N.eqb_spec n nid) as [->|Hne].
    - inversion H; subst x. exists nd. repeat split; auto. congruence.
    - exists x. repeat split; auto. congruence.
  Qed.

  Lemma rm_new : forall n x0, ngetN n (m_nodes s) = Some x0 ->
    exists x, ngetN n nodes0 = Some x /\ n_parent x = n_parent x0 /\ n_children x = n_children x0.
  Proof.
    intros n x0 H. rewrite rm_get0. destruct (N.eqb_spec n nid) as [->|Hne].
    - unfold nid in H. rewrite Hnd in H. inversion H; subst x0. exists nd'. auto.
    - exists x0. auto.
  Qed.

  (** entries registered elsewhere are untouched *)
  Lemma rm_at_other : forall P, P <> parts_of e -> at_addr a' P = at_addr a P.
  Proof.
    intros P HP. unfold a'. rewrite at_addr_remove. apply a_remove_id.
    intros e' He' Hf'. apply filter_In in He'. destruct He' as [He' Hq]. apply strs_eqb_eq in Hq.
    assert (e' = e) by (apply rm_only; assumption). subst e'. congruence.
  Qed.

  Lemma rm_tree0 : Tree nodes0 a' addr (m_counter s).
  Proof.
    pose proof (inv_tree _ _ _ _ HI) as HT.
    constructor.
    - destruct (T_root _ _ _ _ HT) as [rd Hrd]. destruct (rm_new ROOT rd Hrd) as [x [H _]]. eauto.
    - exact (T_addr_root _ _ _ _ HT).
    - intros n x k ch Hn Hk. destruct (rm_old n x Hn) as [x0 [H0 [_ [Hch _]]]]. rewrite Hch in Hk.
      destruct (T_child _ _ _ _ HT n x0 k ch H0 Hk) as [[cd [Hcd Hpar]] Ha]. split; [|exact Ha].
      destruct (rm_new ch cd Hcd) as [cd' [H1 [H2 _]]]. exists cd'. split; [exact H1 | congruence].
    - intros n x Hn. destruct (rm_old n x Hn) as [x0 [H0 [_ [Hch _]]]]. rewrite Hch.
      eapply (T_ckeys _ _ _ _ HT); exact H0.
    - intros n x Hn Hr. destruct (rm_old n x Hn) as [x0 [H0 [Hpar _]]].
      destruct (T_parent _ _ _ _ HT n x0 H0 Hr) as [p [pd [k [Hp [Hpd Hk]]]]].
      destruct (rm_new p pd Hpd) as [pd' [H1 [_ H3]]].
      exists p, pd', k. split; [congruence|]. split; [exact H1 | congruence].
    - intros n m x y Hn Hm. destruct (rm_old n x Hn) as [x0 [H0 _]]. destruct (rm_old m y Hm) as [y0 [H1 _]].
      eapply (T_inj _ _ _ _ HT); eauto.
    - intros n x Hn. destruct (rm_old n x Hn) as [x0 [H0 [_ [_ [Hne Heq]]]]].
      destruct (N.eq_dec n nid) as [->|Hnn].
      + rewrite (Heq eq_refl). cbn [n_files nd']. unfold nid in H0. rewrite Hnd in H0. inversion H0; subst x0.
        rewrite (T_files _ _ _ _ HT _ nd Hnd). unfold a'. rewrite at_addr_remove, map_file_remove. reflexivity.
      + rewrite (Hne Hnn). rewrite (T_files _ _ _ _ HT n x0 H0). rewrite rm_at_other; [reflexivity|].
        intro Heq'. apply Hnn. eapply (T_inj _ _ _ _ HT); eauto. unfold nid. congruence.
    - intros e' P He' Hpre. apply in_a_remove in He'. destruct He' as [He' _].
      destruct (T_complete _ _ _ _ HT e' P He' Hpre) as [n [x0 [H0 Ha]]].
      destruct (rm_new n x0 H0) as [x [H1 _]]. eauto.
    - intros n x Hn. destruct (rm_old n x Hn) as [x0 [H0 _]]. eapply (T_counter _ _ _ _ HT); exact H0.
    - unfold nodes0. apply (nodup_aset N.eqb_spec). exact (T_nodup _ _ _ _ HT).
  Qed.

  Lemma rm_live0 : Live nodes0 a' addr (Some (addr nid)).
  Proof.
    intros n x Hn Hr Hx. destruct (rm_old n x Hn) as [x0 [H0 _]].
    destruct (I_live _ _ _ _ HI n x0 H0 Hr) as [e' [He' Hpre]].
    exists e'. split; [|exact Hpre]. apply in_a_remove. split; [exact He'|].
    intro Hf'. assert (e' = e) by (apply rm_only; assumption). subst e'.
    apply Hx. unfold nid. rewrite Haddr. exact Hpre.
  Qed.

  Lemma rm_fuel : (length (addr nid) <= S (length (split_dot (i_full info))))%nat.
  Proof.
    destruct Hrel as [_ [Hfull _]]. rewrite Hfull. unfold full_of, parts_of. rewrite join_split.
    unfold nid. rewrite Haddr. unfold parts_of. lia.
  Qed.

  (** the node map after [remove] *)
  Definition rm_nodes : list (N * node) :=
    if is_nil (n_files nd') && is_nil (n_children nd') && negb (nid =? ROOT)
    then prune (S (length (split_dot (i_full info)))) (ndelN nid (m_nodes s)) (n_parent nd') nid
    else nsetN nid nd' (m_nodes s).

  Lemma rm_pruned : pruned nodes0 rm_nodes a' addr (m_counter s).
  Proof.
    unfold rm_nodes.
    assert (Hn0 : ngetN nid nodes0 = Some nd') by (rewrite rm_get0, N.eqb_refl; reflexivity).
    destruct (is_nil (n_files nd') && is_nil (n_children nd') && negb (nid =? ROOT)) eqn:Edead.
    - apply andb_prop in Edead. destruct Edead as [Edead Er]. apply andb_prop in Edead. destruct Edead as [Ef Ec].
      apply is_nil_true in Ef. apply is_nil_true in Ec.
      destruct (N.eqb_spec nid ROOT) as [|Hr]; [discriminate|].
      destruct (T_parent _ _ _ _ rm_tree0 nid nd' Hn0 Hr) as [p [pd [k [Hp _]]]].
      rewrite Hp. replace (ndelN nid (m_nodes s)) with (ndelN nid nodes0) by (unfold nodes0; apply adel_aset_same).
      eapply prune_ok; eauto using rm_tree0, rm_live0, rm_fuel.
    - fold nodes0. split; [exact rm_tree0|]. split.
      + eapply live_finish; eauto using rm_tree0, rm_live0.
        apply andb_false_iff in Edead. destruct Edead as [Edead|Er].
        * apply andb_false_iff in Edead. right. destruct Edead as [E|E]; [left | right]; intro H0; rewrite H0 in E; discriminate.
        * left. destruct (N.eqb_spec nid ROOT); [assumption | discriminate].
      + split; [intros n x Hn; eauto | intros n x Hn _; eauto].
  Qed.

  Lemma rm_result :
    Tree rm_nodes a' addr (m_counter s) /\ Live rm_nodes a' addr None /\
    (forall n x, ngetN n rm_nodes = Some x -> exists x0, ngetN n (m_nodes s) = Some x0) /\
    (forall n x0, ngetN n (m_nodes s) = Some x0 -> (exists e', In e' a' /\ prefix (addr n) (parts_of e')) ->
                  exists x, ngetN n rm_nodes = Some x).
  Proof.
    destruct rm_pruned as [HT [HL [Hold Hnew]]]. split; [exact HT|]. split; [exact HL|]. split.
    - intros n x Hn. destruct (Hold n x Hn) as [x1 [H1 _]]. destruct (rm_old n x1 H1) as [x0 [H0 _]]. eauto.
    - intros n x0 Hn Hlive. destruct (rm_new n x0 Hn) as [x1 [H1 _]]. eapply Hnew; eauto.
  Qed.
End RemoveInv.

Lemma inv_remove : forall c s a addr f, Inv c s a addr -> Inv c (m_remove f s) (a_remove f a) addr.
Proof.
  intros c s a addr f HI. unfold m_remove.
  destruct (ngetN f (m_files s)) as [info|] eqn:Hinfo; [|rewrite (remove_absent c s a addr f HI Hinfo); exact HI].
  destruct (I_fmap_sound _ _ _ _ HI _ _ Hinfo) as [e [nd [He [Hef [Hrel [Hnd Haddr]]]]]].
  rewrite Hnd. cbv zeta.
  destruct (rm_result c s a addr f HI info e nd He Hef Hrel Hnd Haddr) as [HT [HL [Hold Hnew]]].
  unfold rm_nodes in HT, HL, Hold, Hnew.
  assert (Honly : forall e', In e' a -> a_file e' = f -> e' = e).
  { intros e' He' Hf'. eapply in_a_unique; eauto using (I_a_nodup _ _ _ _ HI). congruence. }
  constructor; cbn [m_nodes m_files m_fuzzy m_counter].
  - exact (T_root _ _ _ _ HT).
  - exact (T_addr_root _ _ _ _ HT).
  - exact (T_child _ _ _ _ HT).
  - exact (T_ckeys _ _ _ _ HT).
  - exact (T_parent _ _ _ _ HT).
  - exact (T_inj _ _ _ _ HT).
  - exact (T_files _ _ _ _ HT).
  - intros n x Hn Hr. exact (HL n x Hn Hr I).
  - exact (T_complete _ _ _ _ HT).
  - intros f' i' Hi'. rewrite nget_del in Hi'. destruct (N.eqb_spec f' f) as [|Hne]; [discriminate|].
    destruct (I_fmap_sound _ _ _ _ HI _ _ Hi') as [e' [x0 [He' [Hf' [Hrel' [Hx0 Ha']]]]]].
    assert (Hin' : In e' (a_remove f a)) by (apply in_a_remove; split; [exact He' | congruence]).
    destruct (Hnew _ x0 Hx0) as [x Hx].
    { exists e'. split; [exact Hin'|]. rewrite Ha'. apply prefix_refl. }
    exists e', x. repeat split; try assumption; apply Hrel'.
  - intros e' He'. apply in_a_remove in He'. destruct He' as [He' Hne].
    destruct (I_fmap_complete _ _ _ _ HI e' He') as [i' Hi']. exists i'. rewrite nget_del.
    destruct (N.eqb_spec (a_file e') f); [contradiction | exact Hi'].
  - apply nodup_a_remove. exact (I_a_nodup _ _ _ _ HI).
  - exact (T_counter _ _ _ _ HT).
  - pose proof (I_fuzzy _ _ _ _ HI) as HF. destruct (c_fuzzy c).
    + assert (Hnm : i_name info = name_of e) by (destruct Hrel as [_ [_ [H _]]]; exact H).
      assert (Hein : In e (named a (name_of e))).
      { apply filter_In. split; [exact He | apply str_eqb_refl]. }
      intro name. rewrite (HF (i_name info)), Hnm. unfold nonempty_opt at 1.
      destruct (map a_file (named a (name_of e))) as [|x l] eqn:El.
      { destruct (named a (name_of e)); [destruct Hein | discriminate]. }
      cbn [is_nil]. rewrite <- El.
      assert (Hl' : drop_file f (map a_file (named a (name_of e))) = map a_file (named (a_remove f a) (name_of e))).
      { rewrite named_remove, map_file_remove. reflexivity. }
      destruct (str_eqb_spec name (name_of e)) as [->|Hne].
      * destruct (is_nil (drop_file f (map a_file (named a (name_of e))))) eqn:En.
        -- rewrite (aget_adel str_eqb_spec), str_eqb_refl. rewrite <- Hl'. unfold nonempty_opt. rewrite En. reflexivity.
        -- rewrite (aget_aset str_eqb_spec), str_eqb_refl. rewrite <- Hl'. unfold nonempty_opt. rewrite En. reflexivity.
      * assert (Hsame : named (a_remove f a) name = named a name).
        { rewrite named_remove. apply a_remove_id. intros e' He' Hf'.
          apply filter_In in He'. destruct He' as [He' Hq]. apply str_eqb_eq in Hq.
          assert (e' = e) by (apply Honly; assumption). subst e'. congruence. }
        rewrite Hsame.
        destruct (is_nil (drop_file f (map a_file (named a (name_of e))))).
        -- rewrite (aget_adel str_eqb_spec). destruct (str_eqb_spec name (name_of e)); [contradiction | apply HF].
        -- rewrite (aget_aset str_eqb_spec). destruct (str_eqb_spec name (name_of e)); [contradiction | apply HF].
    + rewrite HF. cbn [aget]. reflexivity.
  - exact (T_nodup _ _ _ _ HT).
  - apply nodup_adel. exact (I_fmap_nodup _ _ _ _ HI).
  - pose proof (I_fuzzy_nodup _ _ _ _ HI) as Hnd0.
    destruct (sget (i_name info) (m_fuzzy s)) as [l|]; [|exact Hnd0].
    destruct (is_nil (drop_file f l)); [apply nodup_adel | apply (nodup_aset str_eqb_spec)]; exact Hnd0.
Qed.
