(** C33/Proofs.v — the invariant holds after every history; the property theorems. *)
From Coq Require Import Permutation.
From EV Require Import C33.Model C33.Spec C33.Lemmas C33.Inv C33.Tree C33.Remove C33.Add C33.AddInv.
Local Open Scope N_scope.

Lemma a_remove_idem : forall f a, a_remove f (a_remove f a) = a_remove f a.
Proof.
  intros f a. apply a_remove_id. intros e He. apply in_a_remove in He. tauto.
Qed.

Lemma inv_step : forall c s a addr o, Inv c s a addr -> exists addr', Inv c (step c s o) (astep c a o) addr'.
Proof.
  intros c s a addr o HI. destruct o as [f path|f mp ws|f|f|]; cbn [step astep].
  - unfold m_add_path. pose proof (pre_add c s a addr f HI) as H1.
    destruct (module_path_of c path) as [[mp ws]|]; cbn [fst].
    + destruct (inv_add c _ _ addr f mp ws H1) as [addr' H2]. exists addr'.
      unfold a_add in H2. rewrite a_remove_idem in H2. exact H2.
    + exists addr. exact H1.
  - eapply inv_add. exact HI.
  - exists addr. apply inv_remove. exact HI.
  - exists addr. apply inv_hide. exact HI.
  - exists (fun _ => []). eapply inv_clear. exact HI.
Qed.

Lemma inv_fold : forall c ops s a addr, Inv c s a addr ->
  exists addr', Inv c (fold_left (step c) ops s) (fold_left (astep c) ops a) addr'.
Proof.
  induction ops as [|o ops IH]; intros s a addr HI; cbn [fold_left].
  - eauto.
  - destruct (inv_step c s a addr o HI) as [addr1 H1]. eapply IH. exact H1.
Qed.

Lemma inv_run : forall c ops, exists addr, Inv c (run c ops) (arun c ops) addr.
Proof. intros c ops. unfold run, arun. eapply inv_fold. apply inv_init. Qed.

(** ---- find_refines_spec ---- *)
Lemma find_refines_spec : forall (c : cfg) (ops : list op) (q : str),
  option_map view_i (find_module c (run c ops) q) = option_map view_a (spec_find c (arun c ops) q).
Proof.
  intros c ops q. destruct (inv_run c ops) as [addr HI]. eapply find_module_view. exact HI.
Qed.

(** ---- facts about the abstract resolver ---- *)
Lemma pick_In : forall l e, pick l = Some e -> In e l.
Proof.
  intros [|x [|y r]] e H; cbn [pick] in H.
  - discriminate.
  - inversion H. left. reflexivity.
  - destruct (find (fun z => negb (a_hidden z)) (x :: y :: r)) as [z|] eqn:E.
    + inversion H; subst. apply find_some in E. tauto.
    + inversion H. left. reflexivity.
Qed.

Lemma pick_None : forall l, pick l = None -> l = [].
Proof.
  intros [|x [|y r]] H; cbn [pick] in H; [reflexivity | discriminate|].
  destruct (find (fun z => negb (a_hidden z)) (x :: y :: r)); discriminate.
Qed.

Lemma min_by_In : forall A (key : A -> N * str) l b x,
  min_by key l b = Some x -> In x l \/ b = Some x.
Proof.
  induction l as [|y l IH]; intros b x H; cbn [min_by] in H.
  - right. exact H.
  - destruct b as [b0|].
    + destruct (cand_lt (key y) (key b0)).
      * destruct (IH _ _ H) as [Hin|Hb]; [left; right; exact Hin | inversion Hb; left; left; reflexivity].
      * destruct (IH _ _ H) as [Hin|Hb]; [left; right; exact Hin | right; exact Hb].
    + destruct (IH _ _ H) as [Hin|Hb]; [left; right; exact Hin | inversion Hb; left; left; reflexivity].
Qed.

Lemma spec_cands_In : forall path l k e, In (k, e) (spec_cands path l) -> In e l.
Proof.
  induction l as [|x l IH]; intros k e H; cbn [spec_cands] in H.
  - destruct H.
  - destruct (leading_count (full_of x) path).
    + destruct H as [H|H]; [inversion H; left; reflexivity | right; eapply IH; exact H].
    + right. eapply IH. exact H.
Qed.

Lemma spec_exact_In : forall a mp e, spec_exact a mp = Some e -> In e a /\ parts_of e = split_dot mp.
Proof.
  intros a mp e H. apply pick_In in H. apply filter_In in H. destruct H as [H1 H2].
  apply strs_eqb_eq in H2. auto.
Qed.

Lemma spec_fuzzy_In : forall a path e, spec_fuzzy a path = Some e -> In e a.
Proof.
  intros a path e H. unfold spec_fuzzy in H.
  destruct (min_by _ _ None) as [[k e']|] eqn:E; [|discriminate]. cbn in H. inversion H; subst e'.
  apply min_by_In in E. destruct E as [E|E]; [|discriminate].
  apply spec_cands_In in E. apply filter_In in E. tauto.
Qed.

Lemma spec_find_In : forall c a q e, spec_find c a q = Some e -> In e a.
Proof.
  intros c a q e H. unfold spec_find in H.
  destruct (spec_exact a (normalize q)) as [e1|] eqn:E1.
  { inversion H; subst. apply spec_exact_In in E1. tauto. }
  set (mapped := if c_rw_on c then _ else None) in H.
  destruct mapped as [m|].
  - destruct (spec_exact a m) as [e2|] eqn:E2.
    { inversion H; subst. apply spec_exact_In in E2. tauto. }
    destruct (c_fuzzy c); [|discriminate].
    destruct (spec_fuzzy a m) as [e3|] eqn:E3.
    { inversion H; subst. eapply spec_fuzzy_In; eauto. }
    eapply spec_fuzzy_In; eauto.
  - destruct (c_fuzzy c); [|discriminate]. eapply spec_fuzzy_In; eauto.
Qed.

(** ---- exact_before_fuzzy ---- *)
Lemma exact_before_fuzzy : forall (c : cfg) (ops : list op) (q : str) (e : aentry),
  In e (arun c ops) -> a_path e = normalize q ->
  exists i, find_module c (run c ops) q = Some i /\ i_full i = normalize q.
Proof.
  intros c ops q e He Hp. destruct (inv_run c ops) as [addr HI].
  pose proof (find_module_rel c _ _ addr HI q) as Hrel.
  assert (Hex : exists e', spec_find c (arun c ops) q = Some e' /\ parts_of e' = split_dot (normalize q)).
  { unfold spec_find. destruct (spec_exact (arun c ops) (normalize q)) as [e1|] eqn:E1.
    - exists e1. split; [reflexivity|]. apply spec_exact_In in E1. tauto.
    - exfalso. apply pick_None in E1.
      assert (Hin : In e (exact_set (arun c ops) (normalize q))).
      { apply filter_In. split; [exact He|]. apply strs_eqb_eq. unfold parts_of. rewrite Hp. reflexivity. }
      rewrite E1 in Hin. destruct Hin. }
  destruct Hex as [e' [Hs Hparts]]. rewrite Hs in Hrel.
  destruct (find_module c (run c ops) q) as [i|]; cbn in Hrel; [|contradiction].
  exists i. split; [reflexivity|]. destruct Hrel as [_ [Hfull _]]. rewrite Hfull.
  unfold full_of. rewrite Hparts. apply join_split.
Qed.

(** ---- fuzzy_choice_deterministic ---- *)
Lemma fuzzy_choice_deterministic : forall (c : cfg) (ops1 ops2 : list op) (q : str),
  arun c ops1 = arun c ops2 ->
  option_map view_i (find_module c (run c ops1) q) = option_map view_i (find_module c (run c ops2) q).
Proof.
  intros c ops1 ops2 q H. rewrite !find_refines_spec, H. reflexivity.
Qed.

(** ---- removed_unresolvable ---- *)
Lemma removed_unresolvable : forall (c : cfg) (ops : list op) (f : N) (q : str) (i : minfo),
  find_module c (run c (ops ++ [ORemove f])) q = Some i -> i_file i <> f.
Proof.
  intros c ops f q i H. destruct (inv_run c (ops ++ [ORemove f])) as [addr HI].
  pose proof (find_module_rel c _ _ addr HI q) as Hrel. rewrite H in Hrel.
  destruct (spec_find c (arun c (ops ++ [ORemove f])) q) as [e|] eqn:E; cbn in Hrel; [|contradiction].
  apply spec_find_In in E. unfold arun in E. rewrite fold_left_app in E. cbn [fold_left astep] in E.
  apply in_a_remove in E. destruct Hrel as [Hf _]. rewrite Hf. tauto.
Qed.

(** ---- sizes ---- *)
Definition strs_eq_dec : forall x y : list str, {x = y} + {x <> y} :=
  list_eq_dec (list_eq_dec N.eq_dec).

Definition all_prefixes (a : astate) : list (list str) :=
  [] :: flat_map (fun e => prefixes (parts_of e)) a.

Lemma prefixes_In : forall l P, In P (prefixes l) <-> prefix P l.
Proof.
  induction l as [|x l IH]; intro P; cbn [prefixes].
  - split.
    + intros [<-|[]]. apply prefix_refl.
    + intro H. apply prefix_nil in H. left. symmetry. exact H.
  - split.
    + intros [<-|H]; [exists (x :: l); reflexivity|].
      apply in_map_iff in H. destruct H as [Q [<- HQ]]. apply IH in HQ. destruct HQ as [R ->].
      exists R. reflexivity.
    + intros [R HR]. destruct P as [|y P]; [left; reflexivity|]. right.
      cbn [app] in HR. inversion HR; subst. apply in_map. apply IH. exists R. reflexivity.
Qed.

Lemma nodup_map_inj_on : forall A B (g : A -> B) (l : list A),
  NoDup l -> (forall x y, In x l -> In y l -> g x = g y -> x = y) -> NoDup (map g l).
Proof.
  induction l as [|x l IH]; intros Hnd Hinj; cbn [map]; [constructor|].
  inversion Hnd as [|? ? Hx Hnd']; subst. constructor.
  - intro Hin. apply in_map_iff in Hin. destruct Hin as [y [Hy Hin]].
    assert (y = x) by (apply Hinj; [right; exact Hin | left; reflexivity | exact Hy]). subst. contradiction.
  - apply IH; [exact Hnd'|]. intros a b Ha Hb. apply Hinj; right; assumption.
Qed.

Definition str_eq_dec : forall x y : str, {x = y} + {x <> y} := list_eq_dec N.eq_dec.

(** the sizes of the three containers are functions of the abstract state *)
Lemma inv_sizes : forall c s a addr, Inv c s a addr ->
  length (m_nodes s) = length (nodup strs_eq_dec (all_prefixes a)) /\
  length (m_files s) = length a /\
  length (m_fuzzy s) = if c_fuzzy c then length (nodup str_eq_dec (map name_of a)) else 0%nat.
Proof.
  intros c s a addr HI.
  assert (Hkey : forall n, In n (map fst (m_nodes s)) <-> exists nd, ngetN n (m_nodes s) = Some nd).
  { intro n. split.
    - apply (In_keys_aget N.eqb_spec).
    - intros [nd H]. apply (aget_In N.eqb_spec) in H. change n with (fst (n, nd)). apply in_map. exact H. }
  split; [|split].
  - rewrite <- (map_length fst (m_nodes s)), <- (map_length addr (map fst (m_nodes s))).
    apply Permutation_length. apply NoDup_Permutation.
    + apply nodup_map_inj_on; [exact (I_nodes_nodup _ _ _ _ HI)|].
      intros x y Hx Hy Hxy. apply Hkey in Hx. apply Hkey in Hy. destruct Hx as [xd Hx]. destruct Hy as [yd Hy].
      eapply (I_inj _ _ _ _ HI); eauto.
    + apply NoDup_nodup.
    + intro P. rewrite nodup_In. unfold all_prefixes. split.
      * intro H. apply in_map_iff in H. destruct H as [n [<- Hn]]. apply Hkey in Hn. destruct Hn as [nd Hn].
        destruct (N.eq_dec n ROOT) as [->|Hr].
        -- left. symmetry. exact (I_addr_root _ _ _ _ HI).
        -- right. destruct (I_live _ _ _ _ HI n nd Hn Hr) as [e [He Hp]].
           apply in_flat_map. exists e. split; [exact He | apply prefixes_In; exact Hp].
      * intros [<-|H].
        -- apply in_map_iff. exists ROOT. split; [exact (I_addr_root _ _ _ _ HI)|].
           apply Hkey. exact (I_root _ _ _ _ HI).
        -- apply in_flat_map in H. destruct H as [e [He Hp]]. apply prefixes_In in Hp.
           destruct (I_complete _ _ _ _ HI e P He Hp) as [n [nd [Hn Ha]]].
           apply in_map_iff. exists n. split; [exact Ha | apply Hkey; eauto].
  - rewrite <- (map_length fst (m_files s)), <- (map_length a_file a).
    apply Permutation_length. apply NoDup_Permutation.
    + exact (I_fmap_nodup _ _ _ _ HI).
    + exact (I_a_nodup _ _ _ _ HI).
    + intro f. split.
      * intro H. apply (In_keys_aget N.eqb_spec) in H. destruct H as [i Hi].
        destruct (I_fmap_sound _ _ _ _ HI _ _ Hi) as [e [_ [He [Hf _]]]]. rewrite <- Hf. apply in_map. exact He.
      * intro H. apply in_map_iff in H. destruct H as [e [<- He]].
        destruct (I_fmap_complete _ _ _ _ HI e He) as [i Hi].
        apply (aget_In N.eqb_spec) in Hi. change (a_file e) with (fst (a_file e, i)). apply in_map. exact Hi.
  - pose proof (I_fuzzy _ _ _ _ HI) as HF. destruct (c_fuzzy c); [|rewrite HF; reflexivity].
    rewrite <- (map_length fst (m_fuzzy s)).
    apply Permutation_length. apply NoDup_Permutation.
    + exact (I_fuzzy_nodup _ _ _ _ HI).
    + apply NoDup_nodup.
    + intro nm. rewrite nodup_In. split.
      * intro H. apply (In_keys_aget str_eqb_spec) in H. destruct H as [l Hl]. rewrite HF in Hl.
        unfold nonempty_opt in Hl. destruct (map a_file (named a nm)) eqn:E; [discriminate|].
        destruct (named a nm) as [|e r] eqn:E2; [discriminate|].
        assert (He : In e (named a nm)) by (rewrite E2; left; reflexivity).
        apply filter_In in He. destruct He as [He Hq]. apply str_eqb_eq in Hq. rewrite <- Hq. apply in_map. exact He.
      * intro H. apply in_map_iff in H. destruct H as [e [<- He]].
        assert (Hin : In e (named a (name_of e))) by (apply filter_In; split; [exact He | apply str_eqb_refl]).
        pose proof (HF (name_of e)) as Hg. unfold nonempty_opt in Hg.
        destruct (map a_file (named a (name_of e))) as [|x l] eqn:E.
        { destruct (named a (name_of e)); [destruct Hin | discriminate]. }
        cbn [is_nil] in Hg. apply (aget_In str_eqb_spec) in Hg.
        change (name_of e) with (fst (name_of e, x :: l)). apply in_map. exact Hg.
Qed.

Lemma module_sizes_spec : forall (c : cfg) (ops : list op),
  length (m_nodes (run c ops)) = length (nodup strs_eq_dec (all_prefixes (arun c ops))) /\
  length (m_files (run c ops)) = length (arun c ops).
Proof.
  intros c ops. destruct (inv_run c ops) as [addr HI]. destruct (inv_sizes c _ _ addr HI) as [H1 [H2 _]]. auto.
Qed.

(** ---- a concrete history: hypotheses satisfiable, answers as expected ---- *)
Definition ex_cfg : cfg := mkCfg [[63; 46; 108; 117; 97]] [mkWs [[119]] None 1] true false (fun s => s).
(* "a.b.c" = 97 46 98 46 99 ; "x.c" = 120 46 99 ; "c" = 99 ; "b.c" = 98 46 99 *)
Definition ex_ops : list op :=
  [OAddMod 1 [97; 46; 98; 46; 99] 1; OAddMod 2 [120; 46; 99] 1; ORemove 1; OAddMod 1 [97; 46; 98; 46; 99] 1;
   OAddMod 3 [97; 46; 98; 46; 99] 1; OHide 1].

Lemma refinement_example :
  option_map i_file (find_module ex_cfg (run ex_cfg ex_ops) [97; 46; 98; 46; 99]) = Some 3 /\
  option_map i_file (find_module ex_cfg (run ex_cfg ex_ops) [98; 46; 99]) = Some 1 /\
  option_map i_file (find_module ex_cfg (run ex_cfg ex_ops) [99]) = Some 2 /\
  option_map i_file (find_module ex_cfg (run ex_cfg (ex_ops ++ [ORemove 2])) [120; 47; 99]) = None /\
  option_map a_file (spec_find ex_cfg (arun ex_cfg ex_ops) [99]) = Some 2 /\
  length (m_nodes (run ex_cfg ex_ops)) = 6%nat /\
  length (m_nodes (run ex_cfg (ex_ops ++ [ORemove 1; ORemove 3]))) = 3%nat.
Proof. vm_compute. repeat split; reflexivity. Qed.
