(** C33/Spec.v — the abstract resolver: a finite ordered set of (file, module path) pairs.
    Definitions only.  "Ordered" = order of registration; it matters only among files that share one module path
    (the first non-hidden one is the answer) — exactly what the property calls the deterministic choice. *)
From EV Require Export C33.Model.
Local Open Scope N_scope.

Record aentry := mkA { a_file : N; a_path : str; a_ws : N; a_hidden : bool }.
Definition astate := list aentry.

Definition parts_of (e : aentry) : list str := split_dot (a_path e).
Definition full_of (e : aentry) : str := join_dot (parts_of e).
Definition name_of (e : aentry) : str := last_part (parts_of e).

Definition a_remove (f : N) (a : astate) : astate := filter (fun e => negb (a_file e =? f)) a.
Definition a_add (f : N) (mp : str) (ws : N) (a : astate) : astate := a_remove f a ++ [mkA f mp ws false].
Definition a_hide (f : N) (a : astate) : astate :=
  map (fun e => if a_file e =? f then mkA (a_file e) (a_path e) (a_ws e) true else e) a.

Definition astep (c : cfg) (a : astate) (o : op) : astate :=
  match o with
  | OAddPath f path => match module_path_of c path with
                       | None => a_remove f a
                       | Some (mp, ws) => a_add f mp ws a
                       end
  | OAddMod f mp ws => a_add f mp ws a
  | ORemove f => a_remove f a
  | OHide f => a_hide f a
  | OClear => []
  end.

Definition arun (c : cfg) (ops : list op) : astate := fold_left (astep c) ops [].

(** among the files registered under one module path: the first that is not hidden, else the first *)
Definition pick (l : list aentry) : option aentry :=
  match l with
  | [] => None
  | [e] => Some e
  | e :: _ => match find (fun x => negb (a_hidden x)) l with Some x => Some x | None => Some e end
  end.

Definition exact_set (a : astate) (mp : str) : list aentry :=
  filter (fun e => strs_eqb (parts_of e) (split_dot mp)) a.

Definition spec_exact (a : astate) (mp : str) : option aentry := pick (exact_set a mp).

Fixpoint spec_cands (path : str) (l : list aentry) : list (N * aentry) :=
  match l with
  | [] => []
  | e :: r => match leading_count (full_of e) path with
              | Some k => (k, e) :: spec_cands path r
              | None => spec_cands path r
              end
  end.

(** suffix match: candidates end with [.path]; fewest leading segments, then smallest full name, then first registered *)
Definition spec_fuzzy (a : astate) (path : str) : option aentry :=
  option_map snd
    (min_by (fun ke => (fst ke, full_of (snd ke)))
            (spec_cands path (filter (fun e => str_eqb (name_of e) (last_part (split_dot path))) a)) None).

Definition spec_find (c : cfg) (a : astate) (q : str) : option aentry :=
  let mp := normalize q in
  match spec_exact a mp with
  | Some e => Some e
  | None =>
      let mapped := if c_rw_on c then (let m := c_rw c mp in if str_eqb m mp then None else Some m) else None in
      match (match mapped with Some m => spec_exact a m | None => None end) with
      | Some e => Some e
      | None =>
          if c_fuzzy c then
            match (match mapped with Some m => spec_fuzzy a m | None => None end) with
            | Some e => Some e
            | None => spec_fuzzy a mp
            end
          else None
      end
  end.

(** what an answer is compared by: file, full module name, workspace, hidden flag *)
Definition view_i (i : minfo) : N * str * N * bool := (i_file i, i_full i, i_ws i, i_hidden i).
Definition view_a (e : aentry) : N * str * N * bool := (a_file e, full_of e, a_ws e, a_hidden e).

(** sizes of the abstract state: what the six counters of the index must equal *)
Fixpoint prefixes (l : list str) : list (list str) :=
  match l with
  | [] => [[]]
  | x :: r => [] :: map (cons x) (prefixes r)
  end.
