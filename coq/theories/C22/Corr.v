(** C22/Corr.v — executable comparison of implementation observations with the model
    (used by the correspondence check; the harness writes [case] terms). *)
From EV Require Import C22.Model.
Local Open Scope N_scope.

Definition res_eqb {A} (eqb : A -> A -> bool) (x y : res A) : bool :=
  match x, y with
  | Val a, Val b => eqb a b
  | Nothing, Nothing => true
  | Panic, Panic => true
  | _, _ => false
  end.

Definition pair_eqb (x y : N * N) : bool := (fst x =? fst y) && (snd x =? snd y).
Definition opt_pair_eqb (x y : option (N * N)) : bool :=
  match x, y with
  | Some a, Some b => pair_eqb a b
  | None, None => true
  | _, _ => false
  end.

Record case := {
  c_text : text;
  c_lines : N;
  c_lc : list (N * res (N * N));                 (* offset, get_line_col *)
  c_off : list ((N * N) * (res N * res N));      (* (line, col), get_offset, get_col_offset_at_line *)
  c_lr : list (N * option (N * N));              (* line, get_line_range *)
  c_rr : list ((N * N) * (res ((N * N) * (N * N)) * res (N * N)))  (* (a,b), to_lsp_range, to_rowan_range of it *)
}.

Definition check_case (c : case) : bool :=
  let t := c_text c in
  let li := parse t in
  (line_count li =? c_lines c)
  && forallb (fun '(o, r) => res_eqb pair_eqb (get_line_col li t o) r) (c_lc c)
  && forallb (fun '((l, k), (r1, r2)) =>
                res_eqb N.eqb (get_offset li t l k) r1 && res_eqb N.eqb (get_col_offset_at_line li t l k) r2) (c_off c)
  && forallb (fun '(l, r) => opt_pair_eqb (get_line_range li t l) r) (c_lr c)
  && forallb (fun '((a, b), (r1, r2)) =>
                let m1 := to_lsp_range li t a b in
                res_eqb (fun x y => pair_eqb (fst x) (fst y) && pair_eqb (snd x) (snd y)) m1 r1
                && match m1 with
                   | Val (p, q) => res_eqb pair_eqb (to_rowan_range li t p q) r2
                   | _ => true
                   end) (c_rr c).

(** indices of the cases on which model and implementation disagree *)
Fixpoint failing (cs : list case) (i : N) : list N :=
  match cs with
  | [] => []
  | c :: r => if check_case c then failing r (i + 1) else i :: failing r (i + 1)
  end.
