(** C22/Model.v — transcription of [emmylua_parser::LineIndex]
    (crates/emmylua_parser/src/text/line_index.rs) and of the conversions of
    [LuaDocument] (crates/emmylua_code_analysis/src/vfs/document.rs).
    Executable definitions only; offsets are unbounded [N] (Rust: u32/usize, texts < 4 GiB). *)
From EV Require Export Base.Text.
Local Open Scope N_scope.

Definition NL : cp := 10.
Definition CR : cp := 13.

(** a byte ends a line: ['\n'], or ['\r'] not followed by ['\n'] *)
Definition is_break (c : cp) (r : text) : bool :=
  (c =? NL) || ((c =? CR) && negb (match r with c' :: _ => c' =? NL | [] => false end)).

(** the loop of [LineIndex::parse]: [off] is the byte index, [asc] the running
    "line is only ASCII" flag; returns the line starts pushed after the current position and
    the flags of the current and later lines. *)
Fixpoint scan (t : text) (off : N) (asc : bool) : list N * list bool :=
  match t with
  | [] => ([], [asc])
  | c :: r =>
      if is_break c r then
        let '(ss, fs) := scan r (off + blen c) true in
        ((off + blen c) :: ss, asc :: fs)
      else scan r (off + blen c) (asc && (c <? 128))
  end.

Record line_index := { line_offsets : list N; line_ascii : list bool }.

Definition parse (t : text) : line_index :=
  let '(ss, fs) := scan t 0 true in {| line_offsets := 0 :: ss; line_ascii := fs |}.

Definition get_line_offset (li : line_index) (line : N) : option N :=
  nth_error (line_offsets li) (N.to_nat line).

Definition line_count (li : line_index) : N := N.of_nat (length (line_offsets li)).

(** [slice::partition_point(|s| s <= o)] on the (sorted) offsets: length of the prefix that
    satisfies the predicate *)
Fixpoint partition_point_le (l : list N) (o : N) : N :=
  match l with
  | [] => 0
  | s :: r => if s <=? o then 1 + partition_point_le r o else 0
  end.

Definition get_line (li : line_index) (o : N) : option N :=
  let p := partition_point_le (line_offsets li) o in
  if p =? 0 then None else Some (p - 1).

Definition is_ascii_line (li : line_index) (line : N) : bool :=
  nth (N.to_nat line) (line_ascii li) false.

(** [get_line_col] (and [get_col] = its second component) *)
Definition get_line_col (li : line_index) (t : text) (o : N) : res (N * N) :=
  match get_line li o with
  | None => Nothing
  | Some line =>
      match get_line_offset li line with
      | None => Panic (* index out of bounds; unreachable *)
      | Some start =>
          if is_ascii_line li line then Val (line, o - start)
          else match slice t start o with
               | None => Panic
               | Some s => Val (line, u16s s)
               end
      end
  end.

(** end of the addressable part of a line: the offset of its final terminator byte, or the
    end of the text for the last line *)
Definition line_end (li : line_index) (t : text) (line : N) : N :=
  match get_line_offset li (line + 1) with
  | Some next => next - 1
  | None => bytes t
  end.

(** the [for c in ..chars()] loop of [get_offset]: bytes consumed while [col] UTF-16 units
    remain; a column inside a surrogate pair rounds down *)
Fixpoint walk16 (s : text) (col : N) : N :=
  match s with
  | [] => 0
  | c :: r => if col <? u16len c then 0 else blen c + walk16 r (col - u16len c)
  end.

Definition get_col_offset_at_line (li : line_index) (t : text) (line col : N) : res N :=
  match get_line_offset li line with
  | None => Nothing
  | Some start =>
      if col =? 0 then Val 0
      else
        let e := line_end li t line in
        if is_ascii_line li line then Val (N.min col (e - start))
        else match slice t start e with
             | None => Panic
             | Some s => Val (walk16 s col)
             end
  end.

Definition get_offset (li : line_index) (t : text) (line col : N) : res N :=
  match get_line_offset li line with
  | None => Nothing
  | Some start =>
      match get_col_offset_at_line li t line col with
      | Val d => Val (start + d)
      | Nothing => Nothing
      | Panic => Panic
      end
  end.

(** [LuaDocument::get_line_range] *)
Definition get_line_range (li : line_index) (t : text) (line : N) : option (N * N) :=
  match get_line_offset li line with
  | None => None
  | Some start =>
      match get_line_offset li (line + 1) with
      | Some e => Some (start, e)
      | None => if start <? bytes t then Some (start, bytes t) else None
      end
  end.

(** [LuaDocument::to_lsp_range] *)
Definition to_lsp_range (li : line_index) (t : text) (a b : N) : res ((N * N) * (N * N)) :=
  match get_line_col li t a with
  | Val p => match get_line_col li t b with
             | Val q => Val (p, q)
             | Nothing => Nothing
             | Panic => Panic
             end
  | Nothing => Nothing
  | Panic => Panic
  end.

(** [LuaDocument::to_rowan_range] *)
Definition to_rowan_range (li : line_index) (t : text) (p q : N * N) : res (N * N) :=
  match get_offset li t (fst p) (snd p) with
  | Val a => match get_offset li t (fst q) (snd q) with
             | Val b => Val (a, b)
             | Nothing => Nothing
             | Panic => Panic
             end
  | Nothing => Nothing
  | Panic => Panic
  end.
