(** C22/Props.v — property theorems only.  Each is closed by [exact] of a lemma of Proofs.v. *)
From EV Require Import C22.Model C22.Proofs.
Local Open Scope N_scope.

(** Converting any character-boundary offset to a position and back returns the same offset. *)
Theorem offset_pos_roundtrip : forall (t : text) (o : N),
  boundaryb t o = true ->
  exists l c, get_line_col (parse t) t o = Val (l, c) /\ get_offset (parse t) t l c = Val o.
Proof. exact Proofs.offset_pos_roundtrip. Qed.

(** A position whose line does not exist converts to nothing. *)
Theorem missing_line_none : forall (t : text) (line col : N),
  line_count (parse t) <= line -> get_offset (parse t) t line col = Nothing.
Proof. exact Proofs.missing_line_none. Qed.

(** Otherwise (any column, including past the end of the line) it converts to an offset that
    is a character boundary inside the document, on the requested line, clamped to that
    line's end. *)
Theorem clamp_to_line : forall (t : text) (line col : N),
  line < line_count (parse t) ->
  exists o start,
    get_line_offset (parse t) line = Some start /\
    get_offset (parse t) t line col = Val o /\
    start <= o /\ o <= line_end (parse t) t line /\ line_end (parse t) t line <= bytes t /\
    boundaryb t o = true /\
    get_line (parse t) o = Some line.
Proof. exact Proofs.clamp_to_line. Qed.

(** no conversion of a boundary offset or of any position panics (slices stay on boundaries) *)
Theorem conversions_never_panic : forall (t : text) (o line col : N),
  (boundaryb t o = true -> get_line_col (parse t) t o <> Panic) /\
  get_offset (parse t) t line col <> Panic.
Proof. exact Proofs.conversions_never_panic. Qed.

(** ranges: [to_lsp_range] of boundaries [a <= b] is ordered, and [to_rowan_range] gives it back *)
Theorem range_roundtrip : forall (t : text) (a b : N),
  boundaryb t a = true -> boundaryb t b = true -> a <= b ->
  exists p q, to_lsp_range (parse t) t a b = Val (p, q) /\
              (fst p < fst q \/ (fst p = fst q /\ snd p <= snd q)) /\
              to_rowan_range (parse t) t p q = Val (a, b).
Proof. exact Proofs.range_roundtrip. Qed.

(** non-vacuity: a text with CRLF, a lone CR, an astral character and no trailing newline *)
Example roundtrip_example :
  let t := [97; 128512; 98; 13; 10; 99; 100; 13; 101; 10; 233] in
  forallb (fun o => match get_line_col (parse t) t o with
                    | Val (l, c) => match get_offset (parse t) t l c with Val o' => o' =? o | _ => false end
                    | _ => false end) [0; 1; 5; 6; 7; 8; 9; 10; 11; 12; 13; 15] = true
  /\ get_offset (parse t) t 0 100 = Val 7 /\ get_offset (parse t) t 9 0 = Nothing.
Proof. exact Proofs.roundtrip_example. Qed.
