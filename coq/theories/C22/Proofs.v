(** C22/Proofs.v — round-trip, clamping and no-panic properties of the line index, derived
    from its agreement with the LSP specification (C23/Proofs.v) and spec-level lemmas. *)
From EV Require Import Base.TextFacts C22.Model C23.Spec.
From EV Require C23.Proofs.
Local Open Scope N_scope.

Module P := EV.C23.Proofs.

(** * spec-level lemmas *)

Lemma spec_pos_0 : forall t line col, spec_pos t 0 line col = Some (line, col).
Proof. destruct t; reflexivity. Qed.

Lemma spec_off_0_0 : forall t, spec_off t 0 0 = Some 0.
Proof.
  destruct t as [|c r]; cbn [spec_off]; change (0 =? 0) with true; cbv iota; [reflexivity|].
  destruct (lsp_break c r); [reflexivity|].
  pose proof (u16len_pos c) as Hc.
  destruct (N.ltb_spec 0 (u16len c)) as [_|L]; [reflexivity|lia].
Qed.

Lemma spec_roundtrip : forall t o line col l c,
  spec_pos t o line col = Some (l, c) ->
  (l = line /\ col <= c /\ spec_off t 0 (c - col) = Some o) \/
  (line < l /\ spec_off t (l - line) c = Some o).
Proof.
  induction t as [|x r IH]; intros o line col l c H.
  - cbn [spec_pos] in H. destruct (N.eqb_spec o 0) as [E|E]; [|discriminate].
    inversion H; subst. left. split; [reflexivity|]. split; [lia|].
    replace (c - c) with 0 by lia. reflexivity.
  - destruct (N.eqb_spec o 0) as [E|E].
    + subst o. rewrite spec_pos_0 in H. inversion H; subst. left.
      split; [reflexivity|]. split; [lia|].
      replace (c - c) with 0 by lia. apply spec_off_0_0.
    + pose proof (blen_pos x) as Hx.
      cbn [spec_pos] in H.
      destruct (N.eqb_spec o 0) as [E'|_]; [contradiction|].
      destruct (N.ltb_spec o (blen x)) as [L|L]; [discriminate|].
      destruct (lsp_break x r) eqn:B.
      * apply IH in H. right. destruct H as [[H1 [H2 H3]]|[H1 H2]].
        -- subst l. split; [lia|]. cbn [spec_off].
           destruct (N.eqb_spec (line + 1 - line) 0) as [E'|_]; [lia|].
           rewrite B. replace (line + 1 - line - 1) with 0 by lia.
           replace (c - 0) with c in H3 by lia. rewrite H3. cbn [option_map].
           f_equal. lia.
        -- split; [lia|]. cbn [spec_off].
           destruct (N.eqb_spec (l - line) 0) as [E'|_]; [lia|].
           rewrite B. replace (l - line - 1) with (l - (line + 1)) by lia.
           rewrite H2. cbn [option_map]. f_equal. lia.
      * apply IH in H. destruct H as [[H1 [H2 H3]]|[H1 H2]].
        -- left. split; [exact H1|]. split; [pose proof (u16len_pos x); lia|].
           cbn [spec_off]. change (0 =? 0) with true. cbv iota. rewrite B.
           destruct (N.ltb_spec (c - col) (u16len x)) as [L'|_]; [lia|].
           replace (c - col - u16len x) with (c - (col + u16len x)) by lia.
           rewrite H3. cbn [option_map]. f_equal. lia.
        -- right. split; [exact H1|]. cbn [spec_off].
           destruct (N.eqb_spec (l - line) 0) as [E'|_]; [lia|].
           rewrite B. rewrite H2. cbn [option_map]. f_equal. lia.
Qed.

Lemma spec_off_pos : forall t k col o line c0,
  spec_off t k col = Some o -> exists c', spec_pos t o line c0 = Some (line + k, c').
Proof.
  induction t as [|x r IH]; intros k col o line c0 H; cbn [spec_off] in H.
  - destruct (N.eqb_spec k 0) as [E|E]; [|discriminate].
    inversion H; subst. exists c0. cbn [spec_pos]. change (0 =? 0) with true. cbv iota.
    f_equal. f_equal. lia.
  - pose proof (blen_pos x) as Hx.
    destruct (N.eqb_spec k 0) as [E|E].
    + subst k. replace (line + 0) with line by lia.
      destruct (lsp_break x r) eqn:B.
      { inversion H; subst. exists c0. apply spec_pos_0. }
      destruct (N.ltb_spec col (u16len x)) as [L|L].
      { inversion H; subst. exists c0. apply spec_pos_0. }
      destruct (spec_off r 0 (col - u16len x)) as [o'|] eqn:S; [|discriminate].
      cbn [option_map] in H. inversion H; subst o. clear H.
      destruct (IH _ _ _ line (c0 + u16len x) S) as [c' Hc'].
      replace (line + 0) with line in Hc' by lia.
      exists c'. cbn [spec_pos].
      destruct (N.eqb_spec (blen x + o') 0) as [E'|_]; [lia|].
      destruct (N.ltb_spec (blen x + o') (blen x)) as [L'|_]; [lia|].
      rewrite B. replace (blen x + o' - blen x) with o' by lia. exact Hc'.
    + destruct (lsp_break x r) eqn:B.
      * destruct (spec_off r (k - 1) col) as [o'|] eqn:S; [|discriminate].
        cbn [option_map] in H. inversion H; subst o. clear H.
        destruct (IH _ _ _ (line + 1) 0 S) as [c' Hc'].
        exists c'. cbn [spec_pos].
        destruct (N.eqb_spec (blen x + o') 0) as [E'|_]; [lia|].
        destruct (N.ltb_spec (blen x + o') (blen x)) as [L'|_]; [lia|].
        rewrite B. replace (blen x + o' - blen x) with o' by lia.
        rewrite Hc'. f_equal. f_equal. lia.
      * destruct (spec_off r k col) as [o'|] eqn:S; [|discriminate].
        cbn [option_map] in H. inversion H; subst o. clear H.
        destruct (IH _ _ _ line (c0 + u16len x) S) as [c' Hc'].
        exists c'. cbn [spec_pos].
        destruct (N.eqb_spec (blen x + o') 0) as [E'|_]; [lia|].
        destruct (N.ltb_spec (blen x + o') (blen x)) as [L'|_]; [lia|].
        rewrite B. replace (blen x + o' - blen x) with o' by lia. exact Hc'.
Qed.

Lemma spec_pos_ge : forall t o line col l c,
  spec_pos t o line col = Some (l, c) -> line < l \/ (line = l /\ col <= c).
Proof.
  induction t as [|x r IH]; intros o line col l c H; cbn [spec_pos] in H.
  - destruct (N.eqb_spec o 0) as [E|E]; [|discriminate].
    inversion H; subst. right. split; [reflexivity|lia].
  - destruct (N.eqb_spec o 0) as [E|E].
    + inversion H; subst. right. split; [reflexivity|lia].
    + destruct (N.ltb_spec o (blen x)) as [L|L]; [discriminate|].
      destruct (lsp_break x r); apply IH in H; lia.
Qed.

Lemma spec_pos_mono : forall t a b line col la ca lb cb,
  a <= b ->
  spec_pos t a line col = Some (la, ca) -> spec_pos t b line col = Some (lb, cb) ->
  la < lb \/ (la = lb /\ ca <= cb).
Proof.
  induction t as [|x r IH]; intros a b line col la ca lb cb Hab Ha Hb.
  - cbn [spec_pos] in Ha, Hb.
    destruct (N.eqb_spec a 0) as [E|E]; [|discriminate].
    destruct (N.eqb_spec b 0) as [E'|E']; [|discriminate].
    inversion Ha; inversion Hb; subst. right. split; [reflexivity|lia].
  - destruct (N.eqb_spec a 0) as [E|E].
    + subst a. rewrite spec_pos_0 in Ha. inversion Ha; subst.
      apply spec_pos_ge in Hb. exact Hb.
    + cbn [spec_pos] in Ha, Hb.
      destruct (N.eqb_spec a 0) as [E'|_]; [contradiction|].
      destruct (N.eqb_spec b 0) as [E'|_]; [lia|].
      destruct (N.ltb_spec a (blen x)) as [L|L]; [discriminate|].
      destruct (N.ltb_spec b (blen x)) as [L'|L']; [discriminate|].
      destruct (lsp_break x r);
        (eapply IH; [|exact Ha|exact Hb]; lia).
Qed.

(** * model-level helpers *)

Lemma get_line_of_col : forall li t o l c,
  get_line_col li t o = Val (l, c) -> get_line li o = Some l.
Proof.
  intros li t o l c H. unfold get_line_col in H.
  destruct (get_line li o) as [l'|]; [|discriminate].
  destruct (get_line_offset li l') as [st|]; [|discriminate].
  destruct (is_ascii_line li l').
  - inversion H; reflexivity.
  - destruct (slice t st o); inversion H; reflexivity.
Qed.

Lemma roundtrip_core : forall t o,
  boundaryb t o = true ->
  exists p, spec_pos t o 0 0 = Some p /\ get_line_col (parse t) t o = Val p /\
            get_offset (parse t) t (fst p) (snd p) = Val o.
Proof.
  intros t o HB. destruct (P.pos_is_lsp_pos t o HB) as [[l c] [H1 H2]].
  exists (l, c). split; [exact H1|]. split; [exact H2|]. cbn [fst snd].
  rewrite P.off_is_lsp_off.
  destruct (spec_roundtrip _ _ _ _ _ _ H1) as [[E1 [_ E2]]|[_ E2]].
  - subst l. replace (c - 0) with c in E2 by lia. rewrite E2. reflexivity.
  - replace (l - 0) with l in E2 by lia. rewrite E2. reflexivity.
Qed.

(** * the pinned theorems *)

Lemma offset_pos_roundtrip : forall (t : text) (o : N),
  boundaryb t o = true ->
  exists l c, get_line_col (parse t) t o = Val (l, c) /\ get_offset (parse t) t l c = Val o.
Proof.
  intros t o HB. destruct (roundtrip_core t o HB) as [[l c] [_ [H2 H3]]].
  exists l, c. split; [exact H2|exact H3].
Qed.

Lemma missing_line_none : forall (t : text) (line col : N),
  line_count (parse t) <= line -> get_offset (parse t) t line col = Nothing.
Proof.
  intros t line col H. unfold get_offset, get_line_offset.
  unfold line_count in H.
  assert (E : nth_error (line_offsets (parse t)) (N.to_nat line) = None).
  { apply nth_error_None. lia. }
  rewrite E. reflexivity.
Qed.

Lemma clamp_to_line : forall (t : text) (line col : N),
  line < line_count (parse t) ->
  exists o start,
    get_line_offset (parse t) line = Some start /\
    get_offset (parse t) t line col = Val o /\
    start <= o /\ o <= line_end (parse t) t line /\ line_end (parse t) t line <= bytes t /\
    boundaryb t o = true /\
    get_line (parse t) o = Some line.
Proof.
  intros t line col H.
  assert (Hn : exists start, nth_error (0 :: P.starts t 0) (N.to_nat line) = Some start).
  { destruct (nth_error (0 :: P.starts t 0) (N.to_nat line)) as [s|] eqn:E.
    - exists s. reflexivity.
    - apply nth_error_None in E. unfold line_count in H. rewrite P.parse_eq in H.
      cbn [line_offsets] in H. lia. }
  destruct Hn as [start Hn].
  destruct (P.offset_struct t line start Hn) as [p1 [t1 [E1 [E2 [Hle HO]]]]].
  destruct (HO col) as [Hget Hspec].
  destruct (P.body_prefix t1) as [tail Etail].
  assert (Hb1 : bytes t1 = bytes (P.line_body t1) + bytes tail).
  { rewrite Etail at 1. apply bytes_app. }
  destruct (P.walk16_prefix (P.line_body t1) col) as [a [b [Eab Ew]]].
  pose proof (P.walk16_le (P.line_body t1) col) as Hw.
  assert (HB : boundaryb t (start + walk16 (P.line_body t1) col) = true).
  { rewrite Ew, E2, <- bytes_app.
    replace t with ((p1 ++ a) ++ (b ++ tail)); [apply boundaryb_app|].
    rewrite E1. rewrite Etail at 1. rewrite Eab. rewrite <- !app_assoc. reflexivity. }
  exists (start + walk16 (P.line_body t1) col), start.
  split. { unfold get_line_offset. rewrite P.parse_eq. exact Hn. }
  split; [exact Hget|]. split; [lia|]. split; [rewrite Hle; lia|].
  split. { rewrite Hle. rewrite E1. rewrite bytes_app. lia. }
  split; [exact HB|].
  destruct (spec_off_pos _ _ _ _ 0 0 Hspec) as [c' Hc'].
  destruct (P.pos_is_lsp_pos _ _ HB) as [p [Hp1 Hp2]].
  rewrite Hc' in Hp1. inversion Hp1; subst p.
  replace (0 + line) with line in Hp2 by lia.
  eapply get_line_of_col. exact Hp2.
Qed.

Lemma conversions_never_panic : forall (t : text) (o line col : N),
  (boundaryb t o = true -> get_line_col (parse t) t o <> Panic) /\
  get_offset (parse t) t line col <> Panic.
Proof.
  intros t o line col. split.
  - intros HB. destruct (P.pos_is_lsp_pos t o HB) as [p [_ H]]. rewrite H. discriminate.
  - rewrite P.off_is_lsp_off. destruct (spec_off t line col); discriminate.
Qed.

Lemma range_roundtrip : forall (t : text) (a b : N),
  boundaryb t a = true -> boundaryb t b = true -> a <= b ->
  exists p q, to_lsp_range (parse t) t a b = Val (p, q) /\
              (fst p < fst q \/ (fst p = fst q /\ snd p <= snd q)) /\
              to_rowan_range (parse t) t p q = Val (a, b).
Proof.
  intros t a b Ha Hb Hab.
  destruct (roundtrip_core t a Ha) as [[la ca] [A1 [A2 A3]]].
  destruct (roundtrip_core t b Hb) as [[lb cb] [B1 [B2 B3]]].
  exists (la, ca), (lb, cb).
  split. { unfold to_lsp_range. rewrite A2, B2. reflexivity. }
  split. { cbn [fst snd]. exact (spec_pos_mono _ _ _ _ _ _ _ _ _ Hab A1 B1). }
  unfold to_rowan_range. rewrite A3, B3. reflexivity.
Qed.

Lemma roundtrip_example :
  let t := [97; 128512; 98; 13; 10; 99; 100; 13; 101; 10; 233] in
  forallb (fun o => match get_line_col (parse t) t o with
                    | Val (l, c) => match get_offset (parse t) t l c with Val o' => o' =? o | _ => false end
                    | _ => false end) [0; 1; 5; 6; 7; 8; 9; 10; 11; 12; 13; 15] = true
  /\ get_offset (parse t) t 0 100 = Val 7 /\ get_offset (parse t) t 9 0 = Nothing.
Proof. vm_compute. split; [reflexivity|]. split; reflexivity. Qed.
