(** C28/Proofs.v — lemmas for the property theorems of C28/Props.v *)
From Coq Require Import List Arith Bool PeanoNat Lia String.
From EV Require Import Base.LocksLTS C28.Model.
Import ListNotations.

(* ------------------------------------------------------------------------------------------ *)
(** * Part 1: a rank exists iff the relation is acyclic iff [acyclicb] *)

Lemma path_trans : forall E a b c, path E a b -> path E b c -> path E a c.
Proof.
  intros E a b c H; revert c. induction H; intros c' Hc.
  - eapply pathS; eauto.
  - eapply pathS; eauto.
Qed.

Lemma ranked_path : forall r E a b, ranked r E -> path E a b -> r a < r b.
Proof.
  intros r E a b Hr H. induction H.
  - apply Hr; assumption.
  - apply Hr in H. lia.
Qed.

Lemma ranked_acyclic : forall r E, ranked r E -> acyclic E.
Proof.
  intros r E Hr a Hp. apply (ranked_path r E a a Hr) in Hp. lia.
Qed.

Lemma in_bypass : forall v E a b, In (a, b) (bypass v E) ->
  (In (a, b) E /\ a <> v /\ b <> v) \/ (In (a, v) E /\ In (v, b) E).
Proof.
  intros v E a b H. unfold bypass in H. apply nodup_In in H. apply in_app_or in H. destruct H as [H | H].
  - apply filter_In in H. destruct H as [H1 H2]. left. split; [assumption|].
    unfold touches in H2. cbn [fst snd] in H2.
    apply negb_true_iff in H2. apply orb_false_iff in H2. destruct H2 as [H2 H3].
    apply Nat.eqb_neq in H2. apply Nat.eqb_neq in H3. split; assumption.
  - right. apply in_flat_map in H. destruct H as [[p1 p2] [Hp Hs]].
    apply filter_In in Hp. destruct Hp as [Hp1 Hp2]. cbn [fst snd] in *.
    apply Nat.eqb_eq in Hp2. subst p2.
    apply in_map_iff in Hs. destruct Hs as [[s1 s2] [Heq Hs]].
    apply filter_In in Hs. destruct Hs as [Hs1 Hs2]. cbn [fst snd] in *.
    apply Nat.eqb_eq in Hs2. subst s1. inversion Heq; subst. split; assumption.
Qed.

Lemma bypass_keep : forall v E a b, In (a, b) E -> a <> v -> b <> v -> In (a, b) (bypass v E).
Proof.
  intros v E a b H Ha Hb. unfold bypass. apply nodup_In. apply in_or_app. left. apply filter_In. split; [assumption|].
  unfold touches. cbn [fst snd]. apply negb_true_iff. apply orb_false_iff.
  split; apply Nat.eqb_neq; assumption.
Qed.

Lemma bypass_link : forall v E a b, In (a, v) E -> In (v, b) E -> In (a, b) (bypass v E).
Proof.
  intros v E a b Ha Hb. unfold bypass. apply nodup_In. apply in_or_app. right. apply in_flat_map.
  exists (a, v). split.
  - apply filter_In. split; [assumption|]. cbn [snd]. apply Nat.eqb_refl.
  - cbn [fst]. apply in_map_iff. exists (v, b). split; [reflexivity|].
    apply filter_In. split; [assumption|]. cbn [fst]. apply Nat.eqb_refl.
Qed.

Lemma bypass_path : forall v E a b, path (bypass v E) a b -> path E a b.
Proof.
  intros v E a b H. induction H.
  - apply in_bypass in H. destruct H as [[H _] | [H1 H2]].
    + apply path1; assumption.
    + eapply pathS; [eassumption|]. apply path1; assumption.
  - apply in_bypass in H. destruct H as [[H _] | [H1 H2]].
    + eapply pathS; eassumption.
    + eapply pathS; [eassumption|]. eapply pathS; eassumption.
Qed.

Lemma selfloop_true : forall v E, selfloop v E = true -> In (v, v) E.
Proof.
  intros v E H. unfold selfloop in H. apply existsb_exists in H. destruct H as [[a b] [Hin H]].
  cbn [fst snd] in H. apply andb_true_iff in H. destruct H as [H1 H2].
  apply Nat.eqb_eq in H1. apply Nat.eqb_eq in H2. subst. assumption.
Qed.

Lemma selfloop_false : forall v E, selfloop v E = false -> ~ In (v, v) E.
Proof.
  intros v E H Hin. assert (selfloop v E = true); [|congruence].
  unfold selfloop. apply existsb_exists. exists (v, v). split; [assumption|].
  cbn [fst snd]. rewrite Nat.eqb_refl. reflexivity.
Qed.

Lemma acyclic_elim : forall V E, acyclic E -> elim V E = true.
Proof.
  induction V as [|v V IH]; intros E Hac; [reflexivity|].
  cbn [elim]. apply andb_true_iff. split.
  - apply negb_true_iff. destruct (selfloop v E) eqn:Hs; [|reflexivity].
    apply selfloop_true in Hs. exfalso. apply (Hac v). apply path1. assumption.
  - apply IH. intros a Hp. apply (Hac a). eapply bypass_path. eassumption.
Qed.

Lemma list_max_in : forall l x, In x l -> x <= list_max l.
Proof.
  intros l x H. assert (Hf : Forall (fun k => k <= list_max l) l) by (apply list_max_le; lia).
  rewrite Forall_forall in Hf. apply Hf. assumption.
Qed.

Lemma list_max_bound : forall l n, (forall x, In x l -> x <= n) -> list_max l <= n.
Proof.
  intros l n H. apply list_max_le. apply Forall_forall. assumption.
Qed.

Lemma rank_step_ranked : forall v E r',
  ~ In (v, v) E -> ranked r' (bypass v E) -> ranked (rank_step v E r') E.
Proof.
  intros v E r' Hself Hr a b Hab. unfold rank_step.
  destruct (Nat.eqb_spec a v) as [Ha | Ha]; destruct (Nat.eqb_spec b v) as [Hb | Hb].
  - subst. contradiction.
  - (* v -> b *) subst a.
    set (mp := list_max (map (fun e => S (r' (fst e))) (filter (fun e => Nat.eqb (snd e) v) E))).
    assert (mp <= r' b); [|lia].
    apply list_max_bound. intros x Hx. apply in_map_iff in Hx. destruct Hx as [[p1 p2] [Hx Hp]].
    apply filter_In in Hp. destruct Hp as [Hp1 Hp2]. cbn [fst snd] in *. apply Nat.eqb_eq in Hp2. subst p2 x.
    assert (r' p1 < r' b); [|lia]. apply Hr. apply bypass_link; assumption.
  - (* a -> v *) subst b.
    set (mp := list_max (map (fun e => S (r' (fst e))) (filter (fun e => Nat.eqb (snd e) v) E))).
    assert (S (r' a) <= mp); [|lia].
    apply list_max_in. apply in_map_iff. exists (a, v). split; [reflexivity|].
    apply filter_In. split; [assumption|]. cbn [snd]. apply Nat.eqb_refl.
  - assert (r' a < r' b); [|lia]. apply Hr. apply bypass_keep; assumption.
Qed.

Lemma elim_ranked : forall V E, elim V E = true ->
  (forall a b, In (a, b) E -> In a V /\ In b V) -> ranked (rank_of V E) E.
Proof.
  induction V as [|v V IH]; intros E He Hin.
  - intros a b Hab. apply Hin in Hab. destruct Hab as [[] _].
  - cbn [elim] in He. apply andb_true_iff in He. destruct He as [Hs He].
    apply negb_true_iff in Hs. apply selfloop_false in Hs.
    cbn [rank_of]. apply rank_step_ranked; [assumption|].
    apply IH; [assumption|].
    intros a b Hab. apply in_bypass in Hab. destruct Hab as [[H [Ha Hb]] | [H1 H2]].
    + apply Hin in H. destruct H as [[H1 | H1] [H2 | H2]]; try congruence. split; assumption.
    + pose proof (Hin _ _ H1) as [[K1 | K1] _]; pose proof (Hin _ _ H2) as [_ [K2 | K2]].
      * subst. contradiction.
      * subst. contradiction.
      * subst. contradiction.
      * split; assumption.
Qed.

Lemma nodes_cover : forall E a b, In (a, b) E -> In a (nodes E) /\ In b (nodes E).
Proof.
  intros E a b H. unfold nodes. split; apply in_or_app.
  - left. apply in_map_iff. exists (a, b). split; [reflexivity | assumption].
  - right. apply in_map_iff. exists (a, b). split; [reflexivity | assumption].
Qed.

Lemma path_incl : forall E E' a b, incl E E' -> path E a b -> path E' a b.
Proof.
  intros E E' a b Hi H. induction H.
  - apply path1. apply Hi. assumption.
  - eapply pathS; [apply Hi; eassumption | assumption].
Qed.

Lemma acyclicb_ranked : forall E, acyclicb E = true -> ranked (inferred_rank E) E.
Proof.
  intros E H. unfold inferred_rank, acyclicb in *.
  assert (Hr : ranked (rank_of (nodup Nat.eq_dec (nodes E)) (nodup edge_dec E)) (nodup edge_dec E)).
  { apply elim_ranked; [assumption|]. intros a b Hab. apply nodup_In in Hab.
    destruct (nodes_cover E a b Hab) as [Ha Hb]. split; apply nodup_In; assumption. }
  intros a b Hab. apply Hr. apply nodup_In. assumption.
Qed.

Lemma exists_rank_iff_acyclic : forall E : list edge,
  ((exists r, ranked r E) <-> acyclic E) /\ (acyclic E <-> acyclicb E = true).
Proof.
  intros E.
  assert (H1 : (exists r, ranked r E) -> acyclic E) by (intros [r Hr]; eapply ranked_acyclic; eassumption).
  assert (H2 : acyclic E -> acyclicb E = true).
  { intros H. apply acyclic_elim. intros a Hp. apply (H a). eapply path_incl; [|eassumption].
    intros x Hx. apply nodup_In in Hx. assumption. }
  assert (H3 : acyclicb E = true -> exists r, ranked r E)
    by (intros H; exists (inferred_rank E); apply acyclicb_ranked; assumption).
  split; split; auto.
Qed.

(* ------------------------------------------------------------------------------------------ *)
(** * Part 2: list and state update facts *)

Lemma nth_error_upd_eq : forall A (l : list A) i (x y : A),
  nth_error l i = Some y -> nth_error (upd i x l) i = Some x.
Proof.
  induction l as [|a l IH]; intros [|i] x y H; cbn in *; try discriminate; [reflexivity|].
  eapply IH; eassumption.
Qed.

Lemma nth_error_upd_neq : forall A (l : list A) i j (x : A),
  i <> j -> nth_error (upd i x l) j = nth_error l j.
Proof.
  induction l as [|a l IH]; intros [|i] [|j] x H; cbn; try reflexivity; try congruence.
  apply IH. congruence.
Qed.

Lemma length_upd : forall A (l : list A) i (x : A), List.length (upd i x l) = List.length l.
Proof.
  induction l as [|a l IH]; intros [|i] x; cbn; try reflexivity. f_equal. apply IH.
Qed.

Lemma skipn_nth_error : forall A (l : list A) n a,
  nth_error l n = Some a -> skipn n l = a :: skipn (S n) l.
Proof.
  induction l as [|b l IH]; intros [|n] a H; cbn in *; try discriminate.
  - inversion H; reflexivity.
  - rewrite (IH n a H). reflexivity.
Qed.

Lemma skipn_nth_error_none : forall A (l : list A) n, nth_error l n = None -> skipn n l = [].
Proof.
  intros A l n H. apply skipn_all2. apply nth_error_None. assumption.
Qed.

Lemma NoDup_snoc : forall A (l : list A) x, NoDup l -> ~ In x l -> NoDup (l ++ [x]).
Proof.
  induction l as [|a l IH]; intros x Hn Hx; cbn.
  - constructor; [intros []| constructor].
  - inversion Hn; subst. constructor.
    + intros Hin. apply in_app_or in Hin. destruct Hin as [Hin | [Hin | []]]; [contradiction|].
      subst. apply Hx. left. reflexivity.
    + apply IH; [assumption|]. intros Hin. apply Hx. right. assumption.
Qed.

Lemma setl_eq : forall f l v, setl f l v l = v.
Proof. intros. unfold setl. rewrite Nat.eqb_refl. reflexivity. Qed.

Lemma setl_neq : forall f l v l', l' <> l -> setl f l v l' = f l'.
Proof. intros f l v l' H. unfold setl. apply Nat.eqb_neq in H. rewrite H. reflexivity. Qed.

Lemma compat_nil : forall m, compat m [] = true.
Proof. intros []; reflexivity. Qed.

(* ------------------------------------------------------------------------------------------ *)
(** * Part 3: the invariant of disciplined systems *)

Section Inv.
  Variable progs : list (list act).
  Variable rank : lock -> nat.
  Variable needs : nat -> list lock.

  Record inv (s : state) : Prop := mkInv {
    inv_disc : forall i t, nth_error (ts s) i = Some t ->
      discn rank needs i (held t) (skipn (pc t) (prog progs i)) = true;
    inv_q_task : forall l i m, In (i, m) (queue (lk s l)) ->
      exists t, nth_error (ts s) i = Some t /\ waiting t = true /\
                exists m', nth_error (prog progs i) (pc t) = Some (Acq l m');
    inv_task_q : forall i t l m, nth_error (ts s) i = Some t -> waiting t = true ->
      nth_error (prog progs i) (pc t) = Some (Acq l m) -> In i (map fst (queue (lk s l)));
    inv_nodup : forall l, NoDup (map fst (queue (lk s l)));
    inv_hold : forall l u m, In (u, m) (holders (lk s l)) ->
      exists t, nth_error (ts s) u = Some t /\ In l (held t)
  }.

  Hypothesis Hdisc : forall i p, nth_error progs i = Some p -> discn rank needs i [] p = true.

  Lemma inv_init : inv (init progs).
  Proof.
    constructor; cbn [init ts lk queue holders].
    - intros i t H. rewrite nth_error_map in H. destruct (nth_error progs i) as [p|] eqn:Hp; [|discriminate].
      inversion H; subst. cbn [held pc skipn]. unfold prog. rewrite (nth_error_nth _ _ _ Hp). eapply Hdisc. eassumption.
    - intros l i m [].
    - intros i t l m H. rewrite nth_error_map in H. destruct (nth_error progs i); [|discriminate].
      inversion H; subst. cbn. discriminate.
    - intros l. constructor.
    - intros l u m [].
  Qed.

  Lemma in_map_fst : forall (q : list (nat * mode)) i, In i (map fst q) -> exists m, In (i, m) q.
  Proof.
    intros q i H. apply in_map_iff in H. destruct H as [[a m] [Ha Hin]]. cbn in Ha. subst. exists m. assumption.
  Qed.

  (** a task that is in some queue is waiting at an acquisition of that very lock *)
  Lemma queued_waiting : forall s l i t, inv s -> In i (map fst (queue (lk s l))) ->
    nth_error (ts s) i = Some t ->
    waiting t = true /\ exists m', nth_error (prog progs i) (pc t) = Some (Acq l m').
  Proof.
    intros s l i t Hi Hin Ht. apply in_map_fst in Hin. destruct Hin as [m Hin].
    apply (inv_q_task s Hi) in Hin. destruct Hin as [t' [Ht' [Hw Hc]]].
    rewrite Ht in Ht'. inversion Ht'; subst. split; assumption.
  Qed.

  (** ** request: the task is appended to the lock's queue *)
  Lemma inv_enqueue : forall s i t l m,
    inv s -> nth_error (ts s) i = Some t -> nth_error (prog progs i) (pc t) = Some (Acq l m) ->
    waiting t = false ->
    inv (mkS (upd i (mkT (pc t) true (held t)) (ts s))
             (setl (lk s) l (mkL (holders (lk s l)) (queue (lk s l) ++ [(i, m)])))).
  Proof.
    intros s i t l m Hi Ht Hc Hw.
    assert (Hnq : forall l0, ~ In i (map fst (queue (lk s l0)))).
    { intros l0 Hin. destruct (queued_waiting s l0 i t Hi Hin Ht) as [Hw' _]. congruence. }
    constructor; cbn [ts lk].
    - intros i0 t0 H0. destruct (Nat.eq_dec i i0) as [<- | Hne].
      + rewrite (nth_error_upd_eq _ _ _ _ _ Ht) in H0. inversion H0; subst. cbn [held pc].
        apply (inv_disc s Hi). assumption.
      + rewrite nth_error_upd_neq in H0 by assumption. apply (inv_disc s Hi). assumption.
    - intros l0 i0 m0 Hin. destruct (Nat.eq_dec l0 l) as [-> | Hl].
      + rewrite setl_eq in Hin. cbn [queue] in Hin. apply in_app_or in Hin. destruct Hin as [Hin | [Hin | []]].
        * assert (Hne : i <> i0).
          { intros <-. apply (Hnq l). apply in_map_iff. exists (i, m0). split; [reflexivity | assumption]. }
          rewrite nth_error_upd_neq by assumption. eapply (inv_q_task s Hi); eassumption.
        * inversion Hin; subst. rewrite (nth_error_upd_eq _ _ _ _ _ Ht).
          eexists. split; [reflexivity|]. cbn [waiting pc]. split; [reflexivity|]. eexists; eassumption.
      + rewrite setl_neq in Hin by assumption.
        assert (Hne : i <> i0).
        { intros <-. apply (Hnq l0). apply in_map_iff. exists (i, m0). split; [reflexivity | assumption]. }
        rewrite nth_error_upd_neq by assumption. eapply (inv_q_task s Hi); eassumption.
    - intros i0 t0 l0 m0 H0 Hw0 Hc0. destruct (Nat.eq_dec i i0) as [<- | Hne].
      + rewrite (nth_error_upd_eq _ _ _ _ _ Ht) in H0. inversion H0; subst. cbn [pc] in Hc0.
        rewrite Hc in Hc0. inversion Hc0; subst. rewrite setl_eq. cbn [queue].
        rewrite map_app. apply in_or_app. right. left. reflexivity.
      + rewrite nth_error_upd_neq in H0 by assumption.
        pose proof (inv_task_q s Hi _ _ _ _ H0 Hw0 Hc0) as Hin.
        destruct (Nat.eq_dec l0 l) as [-> | Hl].
        * rewrite setl_eq. cbn [queue]. rewrite map_app. apply in_or_app. left. assumption.
        * rewrite setl_neq by assumption. assumption.
    - intros l0. destruct (Nat.eq_dec l0 l) as [-> | Hl].
      + rewrite setl_eq. cbn [queue]. rewrite map_app. cbn [map fst]. apply NoDup_snoc.
        * apply (inv_nodup s Hi).
        * apply Hnq.
      + rewrite setl_neq by assumption. apply (inv_nodup s Hi).
    - intros l0 u m0 Hin.
      assert (Hin' : In (u, m0) (holders (lk s l0))).
      { destruct (Nat.eq_dec l0 l) as [-> | Hl].
        - rewrite setl_eq in Hin. exact Hin.
        - rewrite setl_neq in Hin by assumption. exact Hin. }
      destruct (inv_hold s Hi _ _ _ Hin') as [tu [Htu Hh]].
      destruct (Nat.eq_dec i u) as [<- | Hne].
      + rewrite (nth_error_upd_eq _ _ _ _ _ Ht). eexists. split; [reflexivity|]. cbn [held].
        rewrite Ht in Htu. inversion Htu; subst. assumption.
      + rewrite nth_error_upd_neq by assumption. eexists. split; eassumption.
  Qed.

  (** ** grant: the head of the queue becomes a holder *)
  Lemma inv_grant : forall s i t l m m0 q',
    inv s -> nth_error (ts s) i = Some t -> nth_error (prog progs i) (pc t) = Some (Acq l m) ->
    queue (lk s l) = (i, m0) :: q' ->
    inv (mkS (upd i (mkT (S (pc t)) false (l :: held t)) (ts s))
             (setl (lk s) l (mkL ((i, m) :: holders (lk s l)) q'))).
  Proof.
    intros s i t l m m0 q' Hi Ht Hc Hq.
    pose proof (inv_nodup s Hi l) as Hnd. rewrite Hq in Hnd. cbn [map fst] in Hnd.
    assert (Hnq' : ~ In i (map fst q')) by (inversion Hnd; assumption).
    assert (Hnq : forall l0, l0 <> l -> ~ In i (map fst (queue (lk s l0)))).
    { intros l0 Hl Hin. destruct (queued_waiting s l0 i t Hi Hin Ht) as [_ [m' Hc']].
      rewrite Hc in Hc'. inversion Hc'. congruence. }
    constructor; cbn [ts lk].
    - intros i0 t0 H0. destruct (Nat.eq_dec i i0) as [<- | Hne].
      + rewrite (nth_error_upd_eq _ _ _ _ _ Ht) in H0. inversion H0; subst. cbn [held pc].
        pose proof (inv_disc s Hi _ _ Ht) as Hd. rewrite (skipn_nth_error _ _ _ _ Hc) in Hd.
        cbn [discn] in Hd. apply andb_true_iff in Hd. apply Hd.
      + rewrite nth_error_upd_neq in H0 by assumption. apply (inv_disc s Hi). assumption.
    - intros l0 i0 m1 Hin. destruct (Nat.eq_dec l0 l) as [-> | Hl].
      + rewrite setl_eq in Hin. cbn [queue] in Hin.
        assert (Hne : i <> i0).
        { intros <-. apply Hnq'. apply in_map_iff. exists (i, m1). split; [reflexivity | assumption]. }
        rewrite nth_error_upd_neq by assumption. apply (inv_q_task s Hi l i0 m1). rewrite Hq. right. assumption.
      + rewrite setl_neq in Hin by assumption.
        assert (Hne : i <> i0).
        { intros <-. apply (Hnq l0 Hl). apply in_map_iff. exists (i, m1). split; [reflexivity | assumption]. }
        rewrite nth_error_upd_neq by assumption. eapply (inv_q_task s Hi); eassumption.
    - intros i0 t0 l0 m1 H0 Hw0 Hc0. destruct (Nat.eq_dec i i0) as [<- | Hne].
      + rewrite (nth_error_upd_eq _ _ _ _ _ Ht) in H0. inversion H0; subst. cbn in Hw0. discriminate.
      + rewrite nth_error_upd_neq in H0 by assumption.
        pose proof (inv_task_q s Hi _ _ _ _ H0 Hw0 Hc0) as Hin.
        destruct (Nat.eq_dec l0 l) as [-> | Hl].
        * rewrite setl_eq. cbn [queue]. rewrite Hq in Hin. cbn [map fst] in Hin.
          destruct Hin as [Hin | Hin]; [congruence | assumption].
        * rewrite setl_neq by assumption. assumption.
    - intros l0. destruct (Nat.eq_dec l0 l) as [-> | Hl].
      + rewrite setl_eq. cbn [queue]. inversion Hnd; assumption.
      + rewrite setl_neq by assumption. apply (inv_nodup s Hi).
    - intros l0 u m1 Hin. destruct (Nat.eq_dec l0 l) as [-> | Hl].
      + rewrite setl_eq in Hin. cbn [holders] in Hin. destruct Hin as [Hin | Hin].
        * inversion Hin; subst. rewrite (nth_error_upd_eq _ _ _ _ _ Ht). eexists. split; [reflexivity|].
          cbn [held]. left. reflexivity.
        * destruct (inv_hold s Hi _ _ _ Hin) as [tu [Htu Hh]].
          destruct (Nat.eq_dec i u) as [<- | Hne].
          -- rewrite (nth_error_upd_eq _ _ _ _ _ Ht). eexists. split; [reflexivity|]. cbn [held].
             rewrite Ht in Htu. inversion Htu; subst. right. assumption.
          -- rewrite nth_error_upd_neq by assumption. eexists. split; eassumption.
      + rewrite setl_neq in Hin by assumption.
        destruct (inv_hold s Hi _ _ _ Hin) as [tu [Htu Hh]].
        destruct (Nat.eq_dec i u) as [<- | Hne].
        * rewrite (nth_error_upd_eq _ _ _ _ _ Ht). eexists. split; [reflexivity|]. cbn [held].
          rewrite Ht in Htu. inversion Htu; subst. right. assumption.
        * rewrite nth_error_upd_neq by assumption. eexists. split; eassumption.
  Qed.

  (** a task whose next action is not an acquisition is in no queue *)
  Lemma not_queued : forall s i t, inv s -> nth_error (ts s) i = Some t ->
    (forall l m, nth_error (prog progs i) (pc t) <> Some (Acq l m)) ->
    forall l, ~ In i (map fst (queue (lk s l))).
  Proof.
    intros s i t Hi Ht Hc l Hin. destruct (queued_waiting s l i t Hi Hin Ht) as [_ [m' Hc']].
    eapply Hc. eassumption.
  Qed.

  (** ** release *)
  Lemma inv_release : forall s i t l,
    inv s -> nth_error (ts s) i = Some t -> nth_error (prog progs i) (pc t) = Some (Rel l) ->
    inv (mkS (upd i (mkT (S (pc t)) false (remove Nat.eq_dec l (held t))) (ts s))
             (setl (lk s) l (mkL (filter (fun e => negb (Nat.eqb (fst e) i)) (holders (lk s l)))
                                 (queue (lk s l))))).
  Proof.
    intros s i t l Hi Ht Hc.
    assert (Hnq : forall l0, ~ In i (map fst (queue (lk s l0)))).
    { apply (not_queued s i t Hi Ht). intros l0 m0. rewrite Hc. discriminate. }
    assert (Hqeq : forall l0, queue (setl (lk s) l (mkL (filter (fun e => negb (Nat.eqb (fst e) i)) (holders (lk s l)))
                                 (queue (lk s l))) l0) = queue (lk s l0)).
    { intros l0. destruct (Nat.eq_dec l0 l) as [-> | Hl]; [rewrite setl_eq | rewrite setl_neq by assumption]; reflexivity. }
    constructor; cbn [ts lk].
    - intros i0 t0 H0. destruct (Nat.eq_dec i i0) as [<- | Hne].
      + rewrite (nth_error_upd_eq _ _ _ _ _ Ht) in H0. inversion H0; subst. cbn [held pc].
        pose proof (inv_disc s Hi _ _ Ht) as Hd. rewrite (skipn_nth_error _ _ _ _ Hc) in Hd.
        cbn [discn] in Hd. exact Hd.
      + rewrite nth_error_upd_neq in H0 by assumption. apply (inv_disc s Hi). assumption.
    - intros l0 i0 m1 Hin. rewrite Hqeq in Hin.
      assert (Hne : i <> i0).
      { intros <-. apply (Hnq l0). apply in_map_iff. exists (i, m1). split; [reflexivity | assumption]. }
      rewrite nth_error_upd_neq by assumption. eapply (inv_q_task s Hi); eassumption.
    - intros i0 t0 l0 m1 H0 Hw0 Hc0. rewrite Hqeq. destruct (Nat.eq_dec i i0) as [<- | Hne].
      + rewrite (nth_error_upd_eq _ _ _ _ _ Ht) in H0. inversion H0; subst. cbn in Hw0. discriminate.
      + rewrite nth_error_upd_neq in H0 by assumption. eapply (inv_task_q s Hi); eassumption.
    - intros l0. rewrite Hqeq. apply (inv_nodup s Hi).
    - intros l0 u m1 Hin. destruct (Nat.eq_dec l0 l) as [-> | Hl].
      + rewrite setl_eq in Hin. cbn [holders] in Hin. apply filter_In in Hin. destruct Hin as [Hin Hf].
        cbn [fst] in Hf. apply negb_true_iff in Hf. apply Nat.eqb_neq in Hf.
        destruct (inv_hold s Hi _ _ _ Hin) as [tu [Htu Hh]].
        rewrite nth_error_upd_neq by congruence. eexists. split; eassumption.
      + rewrite setl_neq in Hin by assumption.
        destruct (inv_hold s Hi _ _ _ Hin) as [tu [Htu Hh]].
        destruct (Nat.eq_dec i u) as [<- | Hne].
        * rewrite (nth_error_upd_eq _ _ _ _ _ Ht). eexists. split; [reflexivity|]. cbn [held].
          rewrite Ht in Htu. inversion Htu; subst. apply in_in_remove; assumption.
        * rewrite nth_error_upd_neq by assumption. eexists. split; eassumption.
  Qed.

  (** ** a wait that is over *)
  Lemma inv_await : forall s i t j k,
    inv s -> nth_error (ts s) i = Some t -> nth_error (prog progs i) (pc t) = Some (Await j k) ->
    inv (mkS (upd i (mkT (S (pc t)) false (held t)) (ts s)) (lk s)).
  Proof.
    intros s i t j k Hi Ht Hc.
    assert (Hnq : forall l0, ~ In i (map fst (queue (lk s l0)))).
    { apply (not_queued s i t Hi Ht). intros l0 m0. rewrite Hc. discriminate. }
    constructor; cbn [ts lk].
    - intros i0 t0 H0. destruct (Nat.eq_dec i i0) as [<- | Hne].
      + rewrite (nth_error_upd_eq _ _ _ _ _ Ht) in H0. inversion H0; subst. cbn [held pc].
        pose proof (inv_disc s Hi _ _ Ht) as Hd. rewrite (skipn_nth_error _ _ _ _ Hc) in Hd.
        cbn [discn] in Hd. apply andb_true_iff in Hd. apply Hd.
      + rewrite nth_error_upd_neq in H0 by assumption. apply (inv_disc s Hi). assumption.
    - intros l0 i0 m1 Hin.
      assert (Hne : i <> i0).
      { intros <-. apply (Hnq l0). apply in_map_iff. exists (i, m1). split; [reflexivity | assumption]. }
      rewrite nth_error_upd_neq by assumption. eapply (inv_q_task s Hi); eassumption.
    - intros i0 t0 l0 m1 H0 Hw0 Hc0. destruct (Nat.eq_dec i i0) as [<- | Hne].
      + rewrite (nth_error_upd_eq _ _ _ _ _ Ht) in H0. inversion H0; subst. cbn in Hw0. discriminate.
      + rewrite nth_error_upd_neq in H0 by assumption. eapply (inv_task_q s Hi); eassumption.
    - intros l0. apply (inv_nodup s Hi).
    - intros l0 u m1 Hin. destruct (inv_hold s Hi _ _ _ Hin) as [tu [Htu Hh]].
      destruct (Nat.eq_dec i u) as [<- | Hne].
      + rewrite (nth_error_upd_eq _ _ _ _ _ Ht). eexists. split; [reflexivity|]. cbn [held].
        rewrite Ht in Htu. inversion Htu; subst. assumption.
      + rewrite nth_error_upd_neq by assumption. eexists. split; eassumption.
  Qed.

  Lemma inv_step : forall s i s', inv s -> step progs s i = Some s' -> inv s'.
  Proof.
    intros s i s' Hi Hs. unfold step in Hs.
    destruct (nth_error (ts s) i) as [t|] eqn:Ht; [|discriminate].
    destruct (nth_error (prog progs i) (pc t)) as [[l m | l | j k]|] eqn:Hc; [| | |discriminate].
    - destruct (waiting t) eqn:Hw.
      + destruct (queue (lk s l)) as [|[h m0] q'] eqn:Hq; [discriminate|].
        destruct (Nat.eqb h i && compat m (holders (lk s l))) eqn:Hg; [|discriminate].
        apply andb_true_iff in Hg. destruct Hg as [Hh _]. apply Nat.eqb_eq in Hh. subst h.
        inversion Hs; subst. eapply inv_grant; eassumption.
      + inversion Hs; subst. apply inv_enqueue; assumption.
    - inversion Hs; subst. apply inv_release; assumption.
    - destruct (nth_error (ts s) j) as [tj|]; [|discriminate].
      destruct (k <=? pc tj); [|discriminate]. inversion Hs; subst. eapply inv_await; eassumption.
  Qed.

  Lemma inv_reach : forall s, reach progs s -> inv s.
  Proof.
    intros s H. induction H; [apply inv_init | eapply inv_step; eassumption].
  Qed.

  Lemma length_step : forall s i s', step progs s i = Some s' -> List.length (ts s') = List.length (ts s).
  Proof.
    intros s i s' Hs. unfold step in Hs.
    destruct (nth_error (ts s) i) as [t|]; [|discriminate].
    destruct (nth_error (prog progs i) (pc t)) as [[l m | l | j k]|]; [| | |discriminate].
    - destruct (waiting t).
      + destruct (queue (lk s l)) as [|[h m0] q']; [discriminate|].
        destruct (Nat.eqb h i && compat m (holders (lk s l))); [|discriminate].
        inversion Hs; subst. cbn [ts]. apply length_upd.
      + inversion Hs; subst. cbn [ts]. apply length_upd.
    - inversion Hs; subst. cbn [ts]. apply length_upd.
    - destruct (nth_error (ts s) j) as [tj|]; [|discriminate].
      destruct (k <=? pc tj); [|discriminate]. inversion Hs; subst. cbn [ts]. apply length_upd.
  Qed.

  Lemma length_reach : forall s, reach progs s -> List.length (ts s) = List.length progs.
  Proof.
    intros s H. induction H.
    - cbn. apply map_length.
    - rewrite (length_step _ _ _ H0). assumption.
  Qed.
End Inv.

(* ------------------------------------------------------------------------------------------ *)
(** * Part 4: disciplined systems never deadlock *)

Section NoDeadlock.
  Variable progs : list (list act).
  Variable rank : lock -> nat.
  Variable needs : nat -> list lock.
  Hypothesis Hdisc : forall i p, nth_error progs i = Some p -> discn rank needs i [] p = true.
  Hypothesis Hwait : forall i p, nth_error progs i = Some p -> waits_ok progs i p.

  Definition acq_locks (p : list act) : list lock :=
    flat_map (fun a => match a with Acq l _ => [l] | _ => [] end) p.
  Definition bound : nat := list_max (map rank (flat_map acq_locks progs)).

  Lemma prog_in : forall i n a, nth_error (prog progs i) n = Some a ->
    nth_error progs i = Some (prog progs i) /\ In (prog progs i) progs.
  Proof.
    intros i n a H. unfold prog in *. destruct (Nat.lt_ge_cases i (List.length progs)) as [Hlt | Hge].
    - split; [apply nth_error_nth'; assumption | apply nth_In; assumption].
    - rewrite nth_overflow in H by assumption. destruct n; discriminate.
  Qed.

  Lemma rank_le_bound : forall i n l m, nth_error (prog progs i) n = Some (Acq l m) -> rank l <= bound.
  Proof.
    intros i n l m H. unfold bound. apply list_max_in. apply in_map. apply in_flat_map.
    exists (prog progs i). split; [eapply prog_in; eassumption|].
    unfold acq_locks. apply in_flat_map. exists (Acq l m). split; [eapply nth_error_In; eassumption|].
    left. reflexivity.
  Qed.

  Lemma in_existsb_eqb : forall l (L : list lock), existsb (Nat.eqb l) L = true -> In l L.
  Proof.
    intros l L H. apply existsb_exists in H. destruct H as [x [Hx He]]. apply Nat.eqb_eq in He. subst. assumption.
  Qed.

  Section Stuck.
    Variable s : state.
    Hypothesis Hi : inv progs rank needs s.
    Hypothesis Hlen : List.length (ts s) = List.length progs.
    Hypothesis Hstuck : forall i, step progs s i = None.

    Lemma stuck_not_ready_acq : forall i t l m, nth_error (ts s) i = Some t ->
      nth_error (prog progs i) (pc t) = Some (Acq l m) -> waiting t = true.
    Proof.
      intros i t l m Ht Hc. destruct (waiting t) eqn:Hw; [reflexivity|].
      pose proof (Hstuck i) as Hs. unfold step in Hs. rewrite Ht, Hc, Hw in Hs. discriminate.
    Qed.

    Lemma stuck_not_rel : forall i t l, nth_error (ts s) i = Some t ->
      nth_error (prog progs i) (pc t) = Some (Rel l) -> False.
    Proof.
      intros i t l Ht Hc. pose proof (Hstuck i) as Hs. unfold step in Hs. rewrite Ht, Hc in Hs. discriminate.
    Qed.

    (** a task stuck at a wait waits for an earlier task that has not finished *)
    Lemma stuck_await : forall i t j k, nth_error (ts s) i = Some t ->
      nth_error (prog progs i) (pc t) = Some (Await j k) -> j < i /\ cur progs s j <> None.
    Proof.
      intros i t j k Ht Hp.
      destruct (prog_in _ _ _ Hp) as [Hpi _].
      pose proof (Hwait _ _ Hpi j k (nth_error_In _ _ Hp)) as [Hji Hk].
      assert (Hil : i < List.length (ts s)) by (apply nth_error_Some; congruence).
      split; [assumption|].
      destruct (nth_error (ts s) j) as [tj|] eqn:Htj.
      2:{ apply nth_error_None in Htj. lia. }
      pose proof (Hstuck i) as Hs. unfold step in Hs. rewrite Ht, Hp, Htj in Hs.
      destruct (k <=? pc tj) eqn:Hle; [discriminate|]. apply Nat.leb_gt in Hle.
      unfold cur. rewrite Htj. apply nth_error_Some. fold (prog progs j) in Hk. lia.
    Qed.

    (** if some task has not finished, some task is queued on a lock *)
    Lemma some_waiting : forall i, cur progs s i <> None ->
      exists j t l m, nth_error (ts s) j = Some t /\ waiting t = true /\
                      nth_error (prog progs j) (pc t) = Some (Acq l m).
    Proof.
      intros i. induction i as [i IH] using lt_wf_ind. intros Hc. unfold cur in Hc.
      destruct (nth_error (ts s) i) as [t|] eqn:Ht; [|congruence].
      destruct (nth_error (prog progs i) (pc t)) as [[l m | l | j k]|] eqn:Hp; [| | |congruence].
      - exists i, t, l, m. split; [assumption|]. split; [|assumption]. eapply stuck_not_ready_acq; eassumption.
      - exfalso. eapply stuck_not_rel; eassumption.
      - destruct (stuck_await _ _ _ _ Ht Hp) as [Hji Hcj]. apply (IH j Hji Hcj).
    Qed.

    (** nobody can be queued on a lock: the head of the queue is blocked by a holder, which is either
        itself queued on a lock of higher rank, or waits (directly or through a chain of waits) for a
        task that is queued on a lock of higher rank; the ranks run out *)
    Lemma no_waiting : forall d j t l m, nth_error (ts s) j = Some t -> waiting t = true ->
      nth_error (prog progs j) (pc t) = Some (Acq l m) -> bound - rank l = d -> False.
    Proof.
      intros d. induction d as [d IH] using lt_wf_ind. intros j t l m Ht Hw Hc Hd.
      (* a task that still needs only locks above [l] cannot be unfinished *)
      assert (W : forall j', cur progs s j' <> None ->
                    (forall l2, In l2 (needs j') -> rank l < rank l2) -> False).
      { intros j'. induction j' as [j' IHj] using lt_wf_ind. intros Hcj Hn. unfold cur in Hcj.
        destruct (nth_error (ts s) j') as [t'|] eqn:Ht'; [|congruence].
        pose proof (inv_disc _ _ _ _ Hi _ _ Ht') as Hd'.
        destruct (nth_error (prog progs j') (pc t')) as [[l2 m2 | l2 | j2 k2]|] eqn:Hp'; [| | |congruence].
        - rewrite (skipn_nth_error _ _ _ _ Hp') in Hd'. cbn [discn] in Hd'.
          apply andb_true_iff in Hd'. destruct Hd' as [Hd' _].
          apply andb_true_iff in Hd'. destruct Hd' as [Hneed _].
          apply in_existsb_eqb in Hneed. apply Hn in Hneed.
          pose proof (rank_le_bound _ _ _ _ Hp') as Hb.
          pose proof (stuck_not_ready_acq _ _ _ _ Ht' Hp') as Hw'.
          apply (IH (bound - rank l2)) with (j := j') (t := t') (l := l2) (m := m2); try assumption; try reflexivity.
          lia.
        - eapply stuck_not_rel; eassumption.
        - destruct (stuck_await _ _ _ _ Ht' Hp') as [Hlt Hc2].
          rewrite (skipn_nth_error _ _ _ _ Hp') in Hd'. cbn [discn] in Hd'.
          apply andb_true_iff in Hd'. destruct Hd' as [Hd' _].
          apply andb_true_iff in Hd'. destruct Hd' as [_ Hsub].
          rewrite forallb_forall in Hsub.
          apply (IHj j2 Hlt Hc2). intros l3 Hl3. apply Hn. apply in_existsb_eqb. apply Hsub. assumption. }
      pose proof (inv_task_q _ _ _ _ Hi _ _ _ _ Ht Hw Hc) as Hin.
      destruct (queue (lk s l)) as [|[h mh] q'] eqn:Hq; [destruct Hin|].
      assert (Hhead : In (h, mh) (queue (lk s l))) by (rewrite Hq; left; reflexivity).
      destruct (inv_q_task _ _ _ _ Hi _ _ _ Hhead) as [th [Hth [Hwh [m' Hch]]]].
      pose proof (Hstuck h) as Hs. unfold step in Hs. rewrite Hth, Hch, Hwh, Hq, Nat.eqb_refl in Hs.
      cbn [andb] in Hs. destruct (compat m' (holders (lk s l))) eqn:Hcompat; [discriminate|].
      destruct (holders (lk s l)) as [|[u mu] hs] eqn:Hh; [rewrite compat_nil in Hcompat; discriminate|].
      assert (Hu : In (u, mu) (holders (lk s l))) by (rewrite Hh; left; reflexivity).
      destruct (inv_hold _ _ _ _ Hi _ _ _ Hu) as [tu [Htu Hheld]].
      pose proof (inv_disc _ _ _ _ Hi _ _ Htu) as Hdu.
      destruct (nth_error (prog progs u) (pc tu)) as [[l' mm | l' | j' k']|] eqn:Hcu.
      - rewrite (skipn_nth_error _ _ _ _ Hcu) in Hdu. cbn [discn] in Hdu.
        apply andb_true_iff in Hdu. destruct Hdu as [Hdu _].
        apply andb_true_iff in Hdu. destruct Hdu as [_ Hall].
        rewrite forallb_forall in Hall. apply Hall in Hheld. apply Nat.ltb_lt in Hheld.
        pose proof (rank_le_bound _ _ _ _ Hcu) as Hb.
        pose proof (stuck_not_ready_acq _ _ _ _ Htu Hcu) as Hwu.
        apply (IH (bound - rank l')) with (j := u) (t := tu) (l := l') (m := mm); try assumption; try reflexivity.
        lia.
      - eapply stuck_not_rel; eassumption.
      - destruct (stuck_await _ _ _ _ Htu Hcu) as [_ Hcj'].
        rewrite (skipn_nth_error _ _ _ _ Hcu) in Hdu. cbn [discn] in Hdu.
        apply andb_true_iff in Hdu. destruct Hdu as [Hdu _].
        apply andb_true_iff in Hdu. destruct Hdu as [Hall _].
        rewrite forallb_forall in Hall. apply Hall in Hheld. rewrite forallb_forall in Hheld.
        apply (W j' Hcj'). intros l2 Hl2. apply Nat.ltb_lt. apply Hheld. assumption.
      - rewrite (skipn_nth_error_none _ _ _ Hcu) in Hdu. cbn [discn] in Hdu.
        destruct (held tu); [destruct Hheld | discriminate].
    Qed.
  End Stuck.

  Theorem needs_no_deadlock : forall s, reach progs s -> ~ deadlock progs s.
  Proof.
    intros s Hr [[i Hc] Hstuck].
    pose proof (inv_reach progs rank needs Hdisc s Hr) as Hi.
    pose proof (length_reach progs s Hr) as Hlen.
    destruct (some_waiting s Hlen Hstuck i Hc) as [j [t [l [m [Ht [Hw Hcj]]]]]].
    eapply (no_waiting s); try eassumption. reflexivity.
  Qed.
End NoDeadlock.

(** the strict discipline (nothing held at a wait) is the special case "everybody may need everything" *)
Lemma disc_discn : forall rank (ALL : list lock) me p h,
  (forall l m, In (Acq l m) p -> In l ALL) ->
  disc rank h p = true -> discn rank (fun _ => ALL) me h p = true.
Proof.
  intros rank ALL me. induction p as [|[l m | l | j k] p IH]; intros h Hall H; cbn [disc discn] in *.
  - assumption.
  - apply andb_true_iff in H. destruct H as [H1 H2]. rewrite H1.
    assert (existsb (Nat.eqb l) ALL = true) as ->.
    { apply existsb_exists. exists l. split; [apply (Hall l m); left; reflexivity | apply Nat.eqb_refl]. }
    cbn [andb]. apply IH; [|assumption]. intros l0 m0 Hin. apply (Hall l0 m0). right. assumption.
  - apply IH; [|assumption]. intros l0 m0 Hin. apply (Hall l0 m0). right. assumption.
  - apply andb_true_iff in H. destruct H as [H1 H2]. destruct h; [|discriminate]. cbn [forallb andb].
    assert (forallb (fun l => existsb (Nat.eqb l) ALL) ALL = true) as ->.
    { apply forallb_forall. intros x Hx. apply existsb_exists. exists x. split; [assumption | apply Nat.eqb_refl]. }
    cbn [andb]. apply IH; [|assumption]. intros l0 m0 Hin. apply (Hall l0 m0). right. assumption.
Qed.

Theorem ranked_no_deadlock : forall (progs : list (list act)) (rank : lock -> nat),
  (forall i p, nth_error progs i = Some p -> disc rank [] p = true) ->
  (forall i p, nth_error progs i = Some p -> waits_ok progs i p) ->
  forall s, reach progs s -> ~ deadlock progs s.
Proof.
  intros progs rank Hd Hw.
  apply (needs_no_deadlock progs rank (fun _ => flat_map acq_locks progs)); [|assumption].
  intros i p Hi. apply disc_discn; [|eapply Hd; eassumption].
  intros l m Hin. apply in_flat_map. exists p. split; [eapply nth_error_In; eassumption|].
  unfold acq_locks. apply in_flat_map. exists (Acq l m). split; [assumption | left; reflexivity].
Qed.

(* ------------------------------------------------------------------------------------------ *)
(** * Part 5: the may-hold analysis of structured programs is sound for every control path *)

(** prefix-closed discipline of a path, relative to who is a main loop and what the main loop may take *)
Fixpoint okpathw (r : lock -> nat) (mainlocks : list lock) (ismain : nat -> bool)
                 (h : list lock) (p : list act) : bool :=
  match p with
  | [] => true
  | Acq l _ :: q => forallb (fun x => r x <? r l) h && okpathw r mainlocks ismain (l :: h) q
  | Rel l :: q => okpathw r mainlocks ismain (remove Nat.eq_dec l h) q
  | Await j _ :: q =>
      (if ismain j then forallb (fun x => forallb (fun l => r x <? r l) mainlocks) h else is_nil h)
      && okpathw r mainlocks ismain h q
  end.

Lemma after_app : forall p q h, after h (p ++ q) = after (after h p) q.
Proof.
  induction p as [|[l m | l | j k] p IH]; intros q h; cbn [app after]; try reflexivity; apply IH.
Qed.

Lemma okpathw_app : forall r ml im p q h,
  okpathw r ml im h (p ++ q) = okpathw r ml im h p && okpathw r ml im (after h p) q.
Proof.
  induction p as [|[l m | l | j k] p IH]; intros q h; cbn [app after okpathw].
  - reflexivity.
  - rewrite IH. rewrite andb_assoc. reflexivity.
  - apply IH.
  - rewrite IH. rewrite andb_assoc. reflexivity.
Qed.

Lemma exec_after : forall im s h p h', exec im s h p h' -> after h p = h'.
Proof.
  intros im s h p h' H. induction H; cbn [after]; try reflexivity.
  - rewrite after_app. rewrite IHexec1. assumption.
  - assumption.
  - assumption.
  - rewrite after_app. rewrite IHexec1. assumption.
Qed.

Lemma inclb_incl : forall a b, inclb a b = true -> incl a b.
Proof.
  intros a b H x Hx. unfold inclb in H. rewrite forallb_forall in H. apply H in Hx.
  apply existsb_exists in Hx. destruct Hx as [y [Hy He]]. apply Nat.eqb_eq in He. subst. assumption.
Qed.

Lemma ana_sound : forall r ml im s h p h', exec im s h p h' ->
  forall M M' E o, ana ml s M = (M', E, o) -> o = true -> ranked r E -> incl h M ->
  okpathw r ml im h p = true /\ incl h' M'.
Proof.
  intros r ml im s h p h' H. induction H; intros M M' E o Ha Ho Hr Hin; cbn [ana] in Ha.
  - injection Ha as <- <- <-. split.
    + cbn [okpathw]. rewrite andb_true_r. apply forallb_forall. intros x Hx. apply Nat.ltb_lt.
      apply Hr. apply in_map_iff. exists x. split; [reflexivity|]. apply Hin. assumption.
    + intros x [Hx | Hx]; [left; assumption | right; apply Hin; assumption].
  - injection Ha as <- <- <-. split; [reflexivity|].
    intros x Hx. apply in_remove in Hx. destruct Hx as [Hx Hne]. apply in_in_remove; [assumption|]. apply Hin. assumption.
  - injection Ha as <- <- <-. split; [reflexivity|].
    intros x Hx. apply in_in_remove; [|apply Hin; assumption]. intros ->. contradiction.
  - injection Ha as <- <- <-. destruct M as [|x0 M]; [|discriminate]. apply incl_l_nil in Hin. subst h.
    split; [|intros x []]. cbn [okpathw]. destruct (im j); reflexivity.
  - injection Ha as <- <- <-. split; [|assumption]. cbn [okpathw]. rewrite H. rewrite andb_true_r.
    apply forallb_forall. intros x Hx. apply forallb_forall. intros l Hl. apply Nat.ltb_lt. apply Hr.
    apply in_flat_map. exists x. split; [apply Hin; assumption|]. apply in_map_iff. exists l. split; [reflexivity | assumption].
  - injection Ha as <- <- <-. split; [reflexivity | assumption].
  - destruct (ana ml a M) as [[M1 E1] o1] eqn:Ha1. destruct (ana ml b M1) as [[M2 E2] o2] eqn:Ha2.
    injection Ha as <- <- <-. apply andb_true_iff in Ho. destruct Ho as [Ho1 Ho2].
    destruct (IHexec1 _ _ _ _ Ha1 Ho1) as [Hk1 Hi1]; [intros x y Hxy; apply Hr; apply nodup_In; apply in_or_app; left; assumption | assumption |].
    destruct (IHexec2 _ _ _ _ Ha2 Ho2) as [Hk2 Hi2]; [intros x y Hxy; apply Hr; apply nodup_In; apply in_or_app; right; assumption | assumption |].
    split; [|assumption]. rewrite okpathw_app. rewrite (exec_after _ _ _ _ _ H). rewrite Hk1, Hk2. reflexivity.
  - destruct (ana ml a M) as [[M1 E1] o1] eqn:Ha1. destruct (ana ml b M) as [[M2 E2] o2] eqn:Ha2.
    injection Ha as <- <- <-. apply andb_true_iff in Ho. destruct Ho as [Ho1 Ho2].
    destruct (IHexec _ _ _ _ Ha1 Ho1) as [Hk1 Hi1]; [intros x y Hxy; apply Hr; apply nodup_In; apply in_or_app; left; assumption | assumption |].
    split; [assumption|]. intros x Hx. apply nodup_In. apply in_or_app. left. apply Hi1. assumption.
  - destruct (ana ml a M) as [[M1 E1] o1] eqn:Ha1. destruct (ana ml b M) as [[M2 E2] o2] eqn:Ha2.
    injection Ha as <- <- <-. apply andb_true_iff in Ho. destruct Ho as [Ho1 Ho2].
    destruct (IHexec _ _ _ _ Ha2 Ho2) as [Hk1 Hi1]; [intros x y Hxy; apply Hr; apply nodup_In; apply in_or_app; right; assumption | assumption |].
    split; [assumption|]. intros x Hx. apply nodup_In. apply in_or_app. right. apply Hi1. assumption.
  - destruct (ana ml a M) as [[M1 E1] o1] eqn:Ha1. injection Ha as <- <- <-. split; [reflexivity | assumption].
  - destruct (ana ml a M) as [[M1 E1] o1] eqn:Ha1. injection Ha as <- <- <-.
    pose proof Ho as Hboth. apply andb_true_iff in Ho. destruct Ho as [Ho1 Hinc]. apply inclb_incl in Hinc.
    destruct (IHexec1 _ _ _ _ Ha1 Ho1 Hr Hin) as [Hk1 Hi1].
    assert (Hloop : ana ml (SLoop a) M = (M, E1, o1 && inclb M1 M)) by (cbn [ana]; rewrite Ha1; reflexivity).
    destruct (IHexec2 _ _ _ _ Hloop Hboth Hr) as [Hk2 Hi2].
    { intros x Hx. apply Hinc. apply Hi1. assumption. }
    split; [|assumption]. rewrite okpathw_app. rewrite (exec_after _ _ _ _ _ H). rewrite Hk1, Hk2. reflexivity.
Qed.

Lemma exec_acq_in : forall im s h p h', exec im s h p h' -> forall l m, In (Acq l m) p -> In l (acq_of s).
Proof.
  intros im s h p h' H. induction H; intros l0 m0 Hin; cbn [acq_of] in *.
  - destruct Hin as [Hin | []]. inversion Hin; subst. left. reflexivity.
  - destruct Hin as [Hin | []]. discriminate.
  - destruct Hin.
  - destruct Hin as [Hin | []]. discriminate.
  - destruct Hin as [Hin | []]. discriminate.
  - destruct Hin.
  - apply in_app_or in Hin. apply in_or_app. destruct Hin as [Hin | Hin]; [left; eapply IHexec1 | right; eapply IHexec2]; eassumption.
  - apply in_or_app. left. eapply IHexec. eassumption.
  - apply in_or_app. right. eapply IHexec. eassumption.
  - destruct Hin.
  - apply in_app_or in Hin. destruct Hin as [Hin | Hin]; [eapply IHexec1 | eapply IHexec2]; eassumption.
Qed.

Lemma exec_no_wait : forall im s h p h', exec im s h p h' -> has_wait s = false ->
  forall j k, ~ In (Await j k) p.
Proof.
  intros im s h p h' H. induction H; intros Hw j0 k0 Hin; cbn [has_wait] in Hw; try discriminate.
  - destruct Hin as [Hin | []]. discriminate.
  - destruct Hin as [Hin | []]. discriminate.
  - destruct Hin.
  - destruct Hin.
  - apply orb_false_iff in Hw. destruct Hw as [Hw1 Hw2]. apply in_app_or in Hin.
    destruct Hin as [Hin | Hin]; [eapply IHexec1 | eapply IHexec2]; eassumption.
  - apply orb_false_iff in Hw. destruct Hw as [Hw1 Hw2]. eapply IHexec; eassumption.
  - apply orb_false_iff in Hw. destruct Hw as [Hw1 Hw2]. eapply IHexec; eassumption.
  - destruct Hin.
  - apply in_app_or in Hin. destruct Hin as [Hin | Hin]; [eapply IHexec1 | eapply IHexec2]; eassumption.
Qed.

Lemma discn_release_all : forall r needs me g h, incl h g -> discn r needs me h (map Rel g) = true.
Proof.
  induction g as [|x g IH]; intros h Hin; cbn [map discn].
  - apply incl_l_nil in Hin. subst. reflexivity.
  - apply IH. intros y Hy. apply in_remove in Hy. destruct Hy as [Hy Hne].
    apply Hin in Hy. destruct Hy as [Hy | Hy]; [congruence | assumption].
Qed.

(** from the path discipline to [discn], for [needs j = mainlocks] on main loops *)
Lemma okpathw_discn : forall r ml im needs me p h,
  (forall j, im j = true -> needs j = ml) ->
  (forall l m, In (Acq l m) p -> In l (needs me)) ->
  (forall j k, In (Await j k) p -> incl (needs j) (needs me)) ->
  okpathw r ml im h p = true -> discn r needs me h (p ++ map Rel (after h p)) = true.
Proof.
  intros r ml im needs me. induction p as [|[l m | l | j k] p IH]; intros h Hm Hacq Haw H;
    cbn [app after okpathw discn] in *.
  - apply discn_release_all. apply incl_refl.
  - apply andb_true_iff in H. destruct H as [H1 H2]. rewrite H1.
    assert (existsb (Nat.eqb l) (needs me) = true) as ->.
    { apply existsb_exists. exists l. split; [apply (Hacq l m); left; reflexivity | apply Nat.eqb_refl]. }
    cbn [andb]. apply IH; try assumption.
    + intros l0 m0 Hin. apply (Hacq l0 m0). right. assumption.
    + intros j0 k0 Hin. apply (Haw j0 k0). right. assumption.
  - apply IH; try assumption.
    + intros l0 m0 Hin. apply (Hacq l0 m0). right. assumption.
    + intros j0 k0 Hin. apply (Haw j0 k0). right. assumption.
  - apply andb_true_iff in H. destruct H as [H1 H2].
    assert (forallb (fun x => forallb (fun l => r x <? r l) (needs j)) h = true) as ->.
    { destruct (im j) eqn:Hj.
      - rewrite (Hm j Hj). assumption.
      - destruct h; [reflexivity | discriminate]. }
    assert (forallb (fun l => existsb (Nat.eqb l) (needs me)) (needs j) = true) as ->.
    { apply forallb_forall. intros x Hx. apply existsb_exists. exists x. split; [|apply Nat.eqb_refl].
      apply (Haw j k); [left; reflexivity | assumption]. }
    cbn [andb]. apply IH; try assumption.
    + intros l0 m0 Hin. apply (Hacq l0 m0). right. assumption.
    + intros j0 k0 Hin. apply (Haw j0 k0). right. assumption.
Qed.

Lemma main_stmt_in : forall main (t : table),
  (exists n, In (n, main_stmt main t) t) \/ main_stmt main t = SUnknown.
Proof.
  intros main t. unfold main_stmt. destruct (find (fun e => String.eqb (fst e) main) t) as [[n s]|] eqn:Hf.
  - left. exists n. apply find_some in Hf. apply Hf.
  - right. reflexivity.
Qed.

Theorem table_no_deadlock : forall (main : string) (t : table), table_ok main t = true ->
  forall (progs : list (list act)) (ismain : nat -> bool),
    (forall i p, nth_error progs i = Some p ->
       (if ismain i then covered ismain (main_stmt main t) p
        else exists n s, In (n, s) t /\ covered ismain s p)
       /\ waits_ok progs i p) ->
    forall st, reach progs st -> ~ deadlock progs st.
Proof.
  intros main t Hok progs ismain Hp. unfold table_ok in Hok.
  apply andb_true_iff in Hok. destruct Hok as [Hok Hflags].
  apply andb_true_iff in Hok. destruct Hok as [Hac _].
  unfold held_before_acyclic in Hac. apply acyclicb_ranked in Hac.
  unfold flags_ok in Hflags. cbv zeta in Hflags. apply andb_true_iff in Hflags. destruct Hflags as [Hflags Hnw].
  apply negb_true_iff in Hnw. rewrite forallb_forall in Hflags.
  set (ml := mainlocks_of main t) in *.
  set (ALL := flat_map (fun e => acq_of (snd e)) t).
  set (needs := fun j => if ismain j then ml else ALL).
  set (r := inferred_rank (table_edges main t)) in *.
  assert (Hml : incl ml ALL).
  { unfold ml, mainlocks_of. destruct (main_stmt_in main t) as [[n Hin] | ->]; [|intros x []].
    intros x Hx. apply nodup_In in Hx. apply in_flat_map. exists (n, main_stmt main t). split; assumption. }
  (* one table entry, one covered path: the discipline holds *)
  assert (Hone : forall me n s p, In (n, s) t -> covered ismain s p ->
            (forall l m, In (Acq l m) p -> In l (needs me)) ->
            (forall j k, In (Await j k) p -> incl (needs j) (needs me)) ->
            discn r needs me [] p = true).
  { intros me n s p Hin [p0 [q [h' [He ->]]]] Hacq Haw.
    pose proof (Hflags _ Hin) as Hf. unfold flag_of, edges_of in *. cbn [snd] in Hf.
    destruct (ana ml s []) as [[M' E] o] eqn:Ha. cbn [fst snd] in *.
    assert (HrE : ranked r E).
    { intros a b Hab. apply Hac. unfold table_edges. cbv zeta. apply in_flat_map. exists (n, s). split; [assumption|].
      unfold edges_of. cbn [snd]. fold ml. rewrite Ha. assumption. }
    destruct (ana_sound r ml ismain _ _ _ _ He _ _ _ _ Ha Hf HrE (incl_refl _)) as [Hk _].
    rewrite okpathw_app in Hk. apply andb_true_iff in Hk. destruct Hk as [Hk _].
    apply (okpathw_discn r ml ismain needs me); try assumption.
    - intros j Hj. unfold needs. rewrite Hj. reflexivity.
    - intros l m Hl. apply (Hacq l m). apply in_or_app. left. assumption.
    - intros j k Hj. apply (Haw j k). apply in_or_app. left. assumption. }
  apply (needs_no_deadlock progs r needs).
  - intros i p Hi. destruct (Hp i p Hi) as [Hcov _]. destruct (ismain i) eqn:Him.
    + (* a main loop: takes only main locks, waits for nobody *)
      destruct Hcov as [p0 [q [h' [He Hpe]]]].
      assert (Hacq : forall l m, In (Acq l m) p -> In l ml).
      { intros l m Hl. subst p. apply in_app_or in Hl. destruct Hl as [Hl | Hl].
        - unfold ml, mainlocks_of. apply nodup_In. eapply exec_acq_in; [eassumption|]. apply in_or_app. left. eassumption.
        - apply in_map_iff in Hl. destruct Hl as [x [Hx _]]. discriminate. }
      assert (Hnaw : forall j k, ~ In (Await j k) p).
      { intros j k Hj. subst p. apply in_app_or in Hj. destruct Hj as [Hj | Hj].
        - eapply (exec_no_wait _ _ _ _ _ He Hnw). apply in_or_app. left. eassumption.
        - apply in_map_iff in Hj. destruct Hj as [x [Hx _]]. discriminate. }
      destruct (main_stmt_in main t) as [[n Hin] | Hun].
      * apply (Hone i n (main_stmt main t) p Hin).
        -- exists p0, q, h'. split; assumption.
        -- intros l m Hl. unfold needs. rewrite Him. eapply Hacq. eassumption.
        -- intros j k Hj. exfalso. eapply Hnaw. eassumption.
      * rewrite Hun in Hnw. discriminate.
    + destruct Hcov as [n [s [Hin Hcov]]]. apply (Hone i n s p Hin Hcov).
      * intros l m Hl. unfold needs. rewrite Him. destruct Hcov as [p0 [q [h' [He ->]]]].
        apply in_app_or in Hl. destruct Hl as [Hl | Hl].
        -- apply in_flat_map. exists (n, s). split; [assumption|]. cbn [snd].
           eapply exec_acq_in; [eassumption|]. apply in_or_app. left. eassumption.
        -- apply in_map_iff in Hl. destruct Hl as [x [Hx _]]. discriminate.
      * intros j k Hj. unfold needs. rewrite Him. destruct (ismain j); [assumption | apply incl_refl].
  - intros i p Hi. apply (Hp i p Hi).
Qed.

(* ------------------------------------------------------------------------------------------ *)
(** * Part 6: refutations (explicit schedules, evaluated) *)

Lemma run_reach : forall progs sched s s', reach progs s -> run progs s sched = Some s' -> reach progs s'.
Proof.
  intros progs sched. induction sched as [|i sched IH]; intros s s' Hr H; cbn [run] in H.
  - inversion H; subst. assumption.
  - destruct (step progs s i) as [s1|] eqn:Hs; [|discriminate].
    eapply IH; [|eassumption]. eapply reach_step; eassumption.
Qed.

Lemma stuckb_spec : forall progs s, stuckb progs s = true -> forall i, step progs s i = None.
Proof.
  intros progs s H i. destruct (Nat.lt_ge_cases i (List.length (ts s))) as [Hlt | Hge].
  - unfold stuckb in H. rewrite forallb_forall in H. specialize (H i).
    destruct (step progs s i); [|reflexivity]. cbn in H. assert (false = true); [|discriminate].
    apply H. apply in_seq. lia.
  - unfold step. apply nth_error_None in Hge. rewrite Hge. reflexivity.
Qed.

Lemma unfinishedb_spec : forall progs s, unfinishedb progs s = true -> exists i, cur progs s i <> None.
Proof.
  intros progs s H. unfold unfinishedb in H. apply existsb_exists in H. destruct H as [i [_ H]].
  exists i. destruct (cur progs s i); [discriminate | discriminate].
Qed.

Lemma deadlock_by_run : forall progs sched s,
  run progs (init progs) sched = Some s -> stuckb progs s = true -> unfinishedb progs s = true ->
  reach progs s /\ deadlock progs s.
Proof.
  intros progs sched s Hrun Hst Hun. split.
  - eapply run_reach; [apply reach_init | eassumption].
  - split; [apply unfinishedb_spec; assumption | apply stuckb_spec; assumption].
Qed.

(** documented order of context/mod.rs: 1 diagnostic_tokens, 2 workspace_diagnostic_token, 4 reload_lock,
    5 analysis READ, 6 workspace_manager READ, 7 workspace_manager WRITE, 8 analysis WRITE *)
Definition lk_analysis : lock := 0.
Definition lk_workspace_manager : lock := 1.
Definition lk_diagnostic_tokens : lock := 2.
Definition lk_workspace_diagnostic_token : lock := 3.
Definition lk_reload_lock : lock := 4.

Definition doc_rank (x : lock * mode) : nat :=
  match x with
  | (0, Read) => 5 | (1, Read) => 6 | (1, Write) => 7 | (0, Write) => 8
  | (2, _) => 1 | (3, _) => 2 | (4, _) => 4
  | _ => 0
  end.

(** semantic tokens / completion resolve / (range) formatting; watched files; didOpen / didChange *)
Definition doc_witness : list (list act) :=
  [ [Acq lk_analysis Read; Acq lk_workspace_manager Read; Rel lk_workspace_manager; Rel lk_analysis];
    [Acq lk_workspace_manager Read; Acq lk_analysis Write; Rel lk_analysis; Rel lk_workspace_manager];
    [Acq lk_workspace_manager Write; Rel lk_workspace_manager] ].

Definition doc_schedule : list nat := [0; 0; 1; 1; 2; 0; 1].

Lemma doc_order_unsafe_refuted :
  exists progs : list (list act),
    List.length progs = 3 /\
    Forall (fun p => doc_ordered doc_rank [] p = true) progs /\
    exists s, reach progs s /\ deadlock progs s.
Proof.
  exists doc_witness. split; [reflexivity|]. split.
  - repeat constructor.
  - destruct (run doc_witness (init doc_witness) doc_schedule) as [s|] eqn:Hrun; [|vm_compute in Hrun; discriminate].
    exists s. apply (deadlock_by_run _ doc_schedule); [assumption | |];
      vm_compute in Hrun; inversion Hrun; subst; vm_compute; reflexivity.
Qed.

Definition reentrant_witness (l : lock) : list (list act) :=
  [ [Acq l Read; Acq l Read; Rel l; Rel l]; [Acq l Write; Rel l] ].

Lemma reentrant_read_refuted :
  exists progs s,
    progs = reentrant_witness lk_workspace_manager /\ reach progs s /\ deadlock progs s.
Proof.
  exists (reentrant_witness lk_workspace_manager).
  destruct (run (reentrant_witness lk_workspace_manager) (init (reentrant_witness lk_workspace_manager)) [0; 0; 1; 0])
    as [s|] eqn:Hrun; [|vm_compute in Hrun; discriminate].
  exists s. split; [reflexivity|]. apply (deadlock_by_run _ [0; 0; 1; 0]); [assumption | |];
    vm_compute in Hrun; inversion Hrun; subst; vm_compute; reflexivity.
Qed.

(* ------------------------------------------------------------------------------------------ *)
(** * Part 7: every execution is finite, so "no deadlock" means every request is eventually granted *)

Section Measure.
  Variable progs : list (list act).

  Definition tm (i : nat) (t : tstate) : nat :=
    2 * (List.length (prog progs i) - pc t) - (if waiting t then 1 else 0).

  Fixpoint msum (i0 : nat) (l : list tstate) : nat :=
    match l with [] => 0 | t :: r => tm i0 t + msum (S i0) r end.

  Definition measure (s : state) : nat := msum 0 (ts s).

  Lemma msum_upd : forall l i0 i t t', nth_error l i = Some t -> tm (i0 + i) t' < tm (i0 + i) t ->
    msum i0 (upd i t' l) < msum i0 l.
  Proof.
    induction l as [|a l IH]; intros i0 [|i] t t' Hn Hlt; cbn in Hn; try discriminate.
    - inversion Hn; subst. cbn [upd msum]. rewrite Nat.add_0_r in Hlt. lia.
    - cbn [upd msum]. assert (msum (S i0) (upd i t' l) < msum (S i0) l); [|lia].
      eapply IH; [eassumption|]. replace (S i0 + i) with (i0 + S i) by lia. assumption.
  Qed.

  Lemma step_decreases : forall s i s', step progs s i = Some s' -> measure s' < measure s.
  Proof.
    intros s i s' Hs. unfold step in Hs.
    destruct (nth_error (ts s) i) as [t|] eqn:Ht; [|discriminate].
    destruct (nth_error (prog progs i) (pc t)) as [a|] eqn:Hc; [|discriminate].
    assert (Hpc : pc t < List.length (prog progs i)) by (apply nth_error_Some; congruence).
    unfold measure.
    destruct a as [l m | l | j k].
    - destruct (waiting t) eqn:Hw.
      + destruct (queue (lk s l)) as [|[h m0] q']; [discriminate|].
        destruct (Nat.eqb h i && compat m (holders (lk s l))); [|discriminate].
        inversion Hs; subst. cbn [ts]. eapply msum_upd; [eassumption|].
        unfold tm. cbn [pc waiting Nat.add]. rewrite Hw. lia.
      + inversion Hs; subst. cbn [ts]. eapply msum_upd; [eassumption|].
        unfold tm. cbn [pc waiting Nat.add]. rewrite Hw. lia.
    - inversion Hs; subst. cbn [ts]. eapply msum_upd; [eassumption|].
      unfold tm. cbn [pc waiting Nat.add]. destruct (waiting t); lia.
    - destruct (nth_error (ts s) j) as [tj|]; [|discriminate].
      destruct (k <=? pc tj); [|discriminate]. inversion Hs; subst. cbn [ts]. eapply msum_upd; [eassumption|].
      unfold tm. cbn [pc waiting Nat.add]. destruct (waiting t); lia.
  Qed.

  Lemma run_bounded : forall sched s s', run progs s sched = Some s' ->
    List.length sched + measure s' <= measure s.
  Proof.
    induction sched as [|i sched IH]; intros s s' H; cbn [run] in H.
    - inversion H; subst. cbn. lia.
    - destruct (step progs s i) as [s1|] eqn:Hs; [|discriminate].
      apply IH in H. apply step_decreases in Hs. cbn [List.length]. lia.
  Qed.

  Lemma cur_none_out : forall s i, List.length (ts s) <= i -> cur progs s i = None.
  Proof.
    intros s i H. unfold cur. apply nth_error_None in H. rewrite H. reflexivity.
  Qed.
End Measure.

Lemma eventually_granted : forall progs rank,
  (forall i p, nth_error progs i = Some p -> disc rank [] p = true) ->
  (forall i p, nth_error progs i = Some p -> waits_ok progs i p) ->
  forall sched s, run progs (init progs) sched = Some s ->
    List.length sched <= measure progs (init progs) /\
    ((forall i, step progs s i = None) -> all_finished progs s).
Proof.
  intros progs rank Hd Hw sched s Hrun. split.
  - apply run_bounded in Hrun. lia.
  - intros Hstuck i. destruct (cur progs s i) eqn:Hc; [|reflexivity]. exfalso.
    apply (ranked_no_deadlock progs rank Hd Hw s).
    + eapply run_reach; [apply reach_init | eassumption].
    + split; [exists i; congruence | assumption].
Qed.

(** non-vacuity: the repaired handlers (workspace_manager before analysis, leaf mutex last), a
    main-loop-like task 0 that others wait for, and a reload task that holds [reload_lock] while it waits *)
Definition example_progs : list (list act) :=
  [ [Acq lk_workspace_manager Write; Rel lk_workspace_manager; Acq lk_analysis Write; Rel lk_analysis];
    [Acq lk_workspace_manager Read; Rel lk_workspace_manager; Acq lk_analysis Read; Rel lk_analysis; Await 0 2];
    [Acq lk_workspace_manager Read; Acq lk_analysis Write; Acq lk_diagnostic_tokens Write;
     Rel lk_diagnostic_tokens; Rel lk_analysis; Rel lk_workspace_manager];
    [Acq lk_reload_lock Write; Acq lk_workspace_manager Write; Rel lk_workspace_manager;
     Acq lk_analysis Write; Rel lk_analysis; Await 0 4; Rel lk_reload_lock] ].

Definition example_rank (l : lock) : nat :=
  match l with 4 => 0 | 1 => 1 | 0 => 2 | _ => 3 end.

Definition example_needs (j : nat) : list lock :=
  match j with 0 => [1; 0] | _ => [0; 1; 2; 4] end.

Definition example_schedule : list nat :=
  [3; 3; 3; 3; 3; 3; 3; 3; 2; 2; 2; 2; 2; 2; 2; 2; 2; 1; 1; 1; 1; 1; 1; 0; 0; 0; 1; 0; 0; 0; 3; 3].

Lemma ranked_example :
  forallb (fun ip => discn example_rank example_needs (fst ip) [] (snd ip))
          (combine (seq 0 4) example_progs) = true /\
  (forall i p, nth_error example_progs i = Some p -> waits_ok example_progs i p) /\
  exists s, run example_progs (init example_progs) example_schedule = Some s /\
            unfinishedb example_progs s = false.
Proof.
  split; [vm_compute; reflexivity|]. split.
  - intros i p Hi j k Hin. destruct i as [|[|[|[|i]]]]; cbn in Hi; try (destruct i; discriminate);
      inversion Hi; subst; cbn in Hin;
      repeat (destruct Hin as [Hin | Hin]; [try discriminate; inversion Hin; subst; cbn; lia|]); destruct Hin.
  - destruct (run example_progs (init example_progs) example_schedule) as [s|] eqn:Hrun;
      [|vm_compute in Hrun; discriminate].
    exists s. split; [reflexivity|]. vm_compute in Hrun. inversion Hrun; subst. vm_compute. reflexivity.
Qed.
