(** C28/Props.v — property theorems only (kernel: tasks as lock programs over tokio's fair locks).
    The obligations over the table regenerated from the source are in C28/Table.v. *)
From Coq Require Import List Arith Bool PeanoNat.
From EV Require Import Base.LocksLTS C28.Model C28.Proofs.
Import ListNotations.

(** Any number of tasks, any interleaving: if every task acquires locks in strictly increasing lock rank
    (read and write of one lock share the rank; so it never re-acquires a lock it holds), holds no lock
    while it waits for another task, releases everything before it ends, and waits are well-founded,
    then no reachable state is a deadlock. *)
Theorem ranked_no_deadlock : forall (progs : list (list act)) (rank : lock -> nat),
  (forall i p, nth_error progs i = Some p -> disc rank [] p = true) ->
  (forall i p, nth_error progs i = Some p -> waits_ok progs i p) ->
  forall s, reach progs s -> ~ deadlock progs s.
Proof. exact Proofs.ranked_no_deadlock. Qed.

(** Generalisation used for the server: a task may wait while it holds locks, provided every lock the
    awaited task may still need ([needs], closed under that task's own waits) ranks above everything held
    (the reload task holds [reload_lock] while it waits for the main loop). *)
Theorem needs_no_deadlock : forall (progs : list (list act)) (rank : lock -> nat) (needs : nat -> list lock),
  (forall i p, nth_error progs i = Some p -> discn rank needs i [] p = true) ->
  (forall i p, nth_error progs i = Some p -> waits_ok progs i p) ->
  forall s, reach progs s -> ~ deadlock progs s.
Proof. exact Proofs.needs_no_deadlock. Qed.

(** ... and every execution is finite and can only stop when every task has finished: every task that
    waits for shared state eventually gets it. *)
Theorem eventually_granted : forall (progs : list (list act)) (rank : lock -> nat),
  (forall i p, nth_error progs i = Some p -> disc rank [] p = true) ->
  (forall i p, nth_error progs i = Some p -> waits_ok progs i p) ->
  forall sched s, run progs (init progs) sched = Some s ->
    List.length sched <= measure progs (init progs) /\
    ((forall i, step progs s i = None) -> all_finished progs s).
Proof. exact Proofs.eventually_granted. Qed.

(** A rank exists iff the relation "lock a is held while lock b is requested" is acyclic, and the
    executable check decides it. *)
Theorem exists_rank_iff_acyclic : forall E : list edge,
  ((exists r, ranked r E) <-> acyclic E) /\ (acyclic E <-> acyclicb E = true).
Proof. exact Proofs.exists_rank_iff_acyclic. Qed.

(** From the obligations over a table of structured programs to the server: if the table passes, any
    set of tasks, each running (a prefix of) a control path of a table entry -- the tasks that are awaited
    for client responses ([ismain]) running the main-loop entry -- never deadlocks. *)
Theorem table_no_deadlock : forall (main : String.string) (t : table), table_ok main t = true ->
  forall (progs : list (list act)) (ismain : nat -> bool),
    (forall i p, nth_error progs i = Some p ->
       (if ismain i then covered ismain (main_stmt main t) p
        else exists n s, In (n, s) t /\ covered ismain s p)
       /\ waits_ok progs i p) ->
    forall st, reach progs st -> ~ deadlock progs st.
Proof. exact Proofs.table_no_deadlock. Qed.

(** The order documented in context/mod.rs (analysis-read < workspace_manager-read <
    workspace_manager-write < analysis-write) admits a three-task deadlock. *)
Theorem doc_order_unsafe_refuted :
  exists progs : list (list act),
    List.length progs = 3 /\
    Forall (fun p => doc_ordered doc_rank [] p = true) progs /\
    exists s, reach progs s /\ deadlock progs s.
Proof. exact Proofs.doc_order_unsafe_refuted. Qed.

(** Re-acquiring a held read lock deadlocks when a writer is queued in between. *)
Theorem reentrant_read_refuted :
  exists progs s,
    progs = [ [Acq lk_workspace_manager Read; Acq lk_workspace_manager Read;
               Rel lk_workspace_manager; Rel lk_workspace_manager];
              [Acq lk_workspace_manager Write; Rel lk_workspace_manager] ]
    /\ reach progs s /\ deadlock progs s.
Proof. exact Proofs.reentrant_read_refuted. Qed.

(** non-vacuity of the hypotheses of [needs_no_deadlock] (and a complete run of the example) *)
Example ranked_example :
  forallb (fun ip => discn example_rank example_needs (fst ip) [] (snd ip))
          (combine (seq 0 4) example_progs) = true /\
  (forall i p, nth_error example_progs i = Some p -> waits_ok example_progs i p) /\
  exists s, run example_progs (init example_progs) example_schedule = Some s /\
            unfinishedb example_progs s = false.
Proof. exact Proofs.ranked_example. Qed.
