(** C28/Table.v — the obligations over the table regenerated from crates/emmylua_ls/src
    (coq/theories/Gen/C28_Locks.v, written by lib/c28_locks.py on every run), and the resulting theorem
    about the server's lock programs.  This file fails to compile when today's source violates the
    discipline; bin/check C28 then names the failing call sites. *)
From Coq Require Import List Arith Bool PeanoNat String.
From EV Require Import Base.LocksLTS C28.Model C28.Proofs Gen.C28_Locks.
Import ListNotations.

(** "lock a is held while lock b is requested" over all programs is acyclic *)
Theorem held_before_acyclic_true : held_before_acyclic main_name programs = true.
Proof. vm_compute. reflexivity. Qed.

(** no program re-acquires a lock it holds *)
Theorem no_reentrant_true : no_reentrant main_name programs = true.
Proof. vm_compute. reflexivity. Qed.

(** nothing is held across a wait on another task (except below everything the main loop needs, when
    waiting for the main loop), nothing is unclassified, the main loop waits for no server task *)
Theorem flags_ok_true : flags_ok main_name programs = true.
Proof. vm_compute. reflexivity. Qed.

Theorem table_ok_true : table_ok main_name programs = true.
Proof.
  unfold table_ok. rewrite held_before_acyclic_true, no_reentrant_true, flags_ok_true. reflexivity.
Qed.

(** Any set of tasks, each running (a prefix of) a control path of one of today's async fns / spawned
    blocks, the tasks awaited for client responses running the main loop, in any interleaving over
    tokio's fair locks: no reachable state is a deadlock. *)
Theorem server_no_deadlock :
  forall (progs : list (list act)) (ismain : nat -> bool),
    (forall i p, nth_error progs i = Some p ->
       (if ismain i then covered ismain (main_stmt main_name programs) p
        else exists n s, In (n, s) programs /\ covered ismain s p)
       /\ waits_ok progs i p) ->
    forall st, reach progs st -> ~ deadlock progs st.
Proof. exact (table_no_deadlock main_name programs table_ok_true). Qed.
