(** C28/Model.v — lock discipline, structured lock programs (what the translator extracts from
    crates/emmylua_ls/src), their path semantics, the may-hold analysis that computes the
    "held while requested" relation, and the acyclicity check.  Definitions only. *)
From Coq Require Import List Arith Bool PeanoNat String.
From EV Require Import Base.LocksLTS.
Import ListNotations.

(** * Discipline of one straight-line task program *)

Definition is_nil {A} (l : list A) : bool := match l with [] => true | _ :: _ => false end.

(** held set after running [p] from held set [h] *)
Fixpoint after (h : list lock) (p : list act) : list lock :=
  match p with
  | [] => h
  | Acq l _ :: r => after (l :: h) r
  | Rel l :: r => after (remove Nat.eq_dec l h) r
  | Await _ _ :: r => after h r
  end.

(** prefix-closed part: every acquisition is of strictly higher rank than everything held (read and
    write of one lock share the rank, so this also forbids re-acquiring a held lock), and nothing is
    held while waiting for another task *)
Fixpoint okpath (rank : lock -> nat) (h : list lock) (p : list act) : bool :=
  match p with
  | [] => true
  | Acq l _ :: r => forallb (fun x => rank x <? rank l) h && okpath rank (l :: h) r
  | Rel l :: r => okpath rank (remove Nat.eq_dec l h) r
  | Await _ _ :: r => is_nil h && okpath rank h r
  end.

(** the full discipline: [okpath] and everything is released at the end (Rust drops every guard when
    the future completes or is dropped) *)
Fixpoint disc (rank : lock -> nat) (h : list lock) (p : list act) : bool :=
  match p with
  | [] => is_nil h
  | Acq l _ :: r => forallb (fun x => rank x <? rank l) h && disc rank (l :: h) r
  | Rel l :: r => disc rank (remove Nat.eq_dec l h) r
  | Await _ _ :: r => is_nil h && disc rank h r
  end.

(** generalisation: a task MAY wait while it holds locks, provided every lock that the awaited task may
    still need ([needs j], closed under the awaited task's own waits) has a higher rank than everything
    held.  (The reload task holds [reload_lock] while it waits for the main loop to route a client
    response; the main loop never takes [reload_lock] or anything below it.)  [disc] is the special case
    where nothing is held at a wait. *)
Fixpoint discn (rank : lock -> nat) (needs : nat -> list lock) (me : nat) (h : list lock) (p : list act) : bool :=
  match p with
  | [] => is_nil h
  | Acq l _ :: r =>
      existsb (Nat.eqb l) (needs me) && forallb (fun x => rank x <? rank l) h && discn rank needs me (l :: h) r
  | Rel l :: r => discn rank needs me (remove Nat.eq_dec l h) r
  | Await j _ :: r =>
      forallb (fun x => forallb (fun l => rank x <? rank l) (needs j)) h
      && forallb (fun l => existsb (Nat.eqb l) (needs me)) (needs j)
      && discn rank needs me h r
  end.

(** waits are well-founded: task [i] only waits for tasks listed before it, at positions that exist.
    (Any acyclic waits-for relation can be listed that way; a cyclic one deadlocks without any lock.) *)
Definition waits_ok (progs : list (list act)) (i : nat) (p : list act) : Prop :=
  forall j k, In (Await j k) p -> j < i /\ k <= List.length (nth j progs []).

(** * The order documented in crates/emmylua_ls/src/context/mod.rs ("LOCK ORDERING GUIDELINES"):
      rank per (lock, mode); "never acquire a lower-priority lock while holding a higher-priority one" *)
Fixpoint doc_ordered (rank : lock * mode -> nat) (h : list (lock * mode)) (p : list act) : bool :=
  match p with
  | [] => is_nil h
  | Acq l m :: r => forallb (fun x => rank x <? rank (l, m)) h && doc_ordered rank ((l, m) :: h) r
  | Rel l :: r => doc_ordered rank (filter (fun x => negb (Nat.eqb (fst x) l)) h) r
  | Await _ _ :: r => is_nil h && doc_ordered rank h r
  end.

(** * Structured lock programs (one per async fn / spawned block) *)

Inductive stmt :=
| SAcq (l : lock) (m : mode)      (* let g = X.read()/.write()/.lock().await *)
| SRel (l : lock)                 (* drop(g) / end of the guard's scope / end of statement for a temporary:
                                     releases [l] if it is (still) held *)
| SWait                           (* .await on something only another task of the server can complete *)
| SWaitMain                       (* .await on a client response, which the main loop has to route *)
| SUnknown                        (* the translator could not classify this: fails every obligation *)
| SSkip
| SSeq (a b : stmt)
| SAlt (a b : stmt)               (* if/else, match arms, select! arms *)
| SLoop (a : stmt).               (* zero or more iterations *)

(** [exec s h p h']: one control path of [s] started with held set [h] performs [p] and ends with [h'] *)
Inductive exec (ismain : nat -> bool) : stmt -> list lock -> list act -> list lock -> Prop :=
| EAcq : forall l m h, exec ismain (SAcq l m) h [Acq l m] (l :: h)
| ERelHeld : forall l h, In l h -> exec ismain (SRel l) h [Rel l] (remove Nat.eq_dec l h)
| ERelNot : forall l h, ~ In l h -> exec ismain (SRel l) h [] h
| EWait : forall j k h, exec ismain SWait h [Await j k] h
| EWaitMain : forall j k h, ismain j = true -> exec ismain SWaitMain h [Await j k] h
| ESkip : forall h, exec ismain SSkip h [] h
| ESeq : forall a b h p h' q h'', exec ismain a h p h' -> exec ismain b h' q h'' -> exec ismain (SSeq a b) h (p ++ q) h''
| EAltL : forall a b h p h', exec ismain a h p h' -> exec ismain (SAlt a b) h p h'
| EAltR : forall a b h p h', exec ismain b h p h' -> exec ismain (SAlt a b) h p h'
| ELoop0 : forall a h, exec ismain (SLoop a) h [] h
| ELoopS : forall a h p h' q h'',
    exec ismain a h p h' -> exec ismain (SLoop a) h' q h'' -> exec ismain (SLoop a) h (p ++ q) h''.

(** A task runs a prefix of a control path of its function and then releases whatever it still holds
    (early `return`, `?`, cancellation of the future: Rust drops the guards). *)
Definition covered (ismain : nat -> bool) (s : stmt) (p : list act) : Prop :=
  exists p0 q h', exec ismain s [] (p0 ++ q) h' /\ p = p0 ++ map Rel (after [] p0).

Definition edge := (lock * lock)%type.

Definition inclb (a b : list lock) : bool := forallb (fun x => existsb (Nat.eqb x) b) a.

(** may-hold analysis: from the set [M] of locks that may be held on entry, compute the set that may be
    held on exit, the "x is held while y is requested" pairs (waiting for the main loop while holding x
    counts as requesting every lock the main loop may take), and a flag that is false when something is
    awaited while a lock may be held, when the translator emitted [SUnknown], or when a loop body can
    leave more locks held than it started with *)
Definition edge_dec : forall x y : edge, {x = y} + {x <> y}.
Proof. decide equality; apply Nat.eq_dec. Defined.

Section Ana.
Variable mainlocks : list lock.   (* every lock the main loop may take *)

Fixpoint ana (s : stmt) (M : list lock) : list lock * list edge * bool :=
  match s with
  | SAcq l _ => (l :: M, map (fun h => (h, l)) M, true)
  | SRel l => (remove Nat.eq_dec l M, [], true)
  | SWait => (M, [], is_nil M)
  | SWaitMain => (M, flat_map (fun h => map (fun l => (h, l)) mainlocks) M, true)
  | SUnknown => (M, [], false)
  | SSkip => (M, [], true)
  | SSeq a b =>
      match ana a M with
      | (M1, E1, o1) => match ana b M1 with (M2, E2, o2) => (M2, nodup edge_dec (E1 ++ E2), o1 && o2) end
      end
  | SAlt a b =>
      match ana a M with
      | (M1, E1, o1) => match ana b M with (M2, E2, o2) => (nodup Nat.eq_dec (M1 ++ M2), nodup edge_dec (E1 ++ E2), o1 && o2) end
      end
  | SLoop a =>
      match ana a M with
      | (M1, E1, o1) => (M, E1, o1 && inclb M1 M)
      end
  end.

Definition edges_of (s : stmt) : list edge := snd (fst (ana s [])).
Definition flag_of (s : stmt) : bool := snd (ana s []).
End Ana.

(** every lock a structured program may acquire *)
Fixpoint acq_of (s : stmt) : list lock :=
  match s with
  | SAcq l _ => [l]
  | SSeq a b | SAlt a b => acq_of a ++ acq_of b
  | SLoop a => acq_of a
  | _ => []
  end.

(** a wait on the main loop somewhere inside (the main loop itself must not have one) *)
Fixpoint has_wait (s : stmt) : bool :=
  match s with
  | SWait | SWaitMain | SUnknown => true
  | SSeq a b | SAlt a b => has_wait a || has_wait b
  | SLoop a => has_wait a
  | _ => false
  end.

(** * Acyclicity of a finite relation by node elimination *)

Inductive path (E : list edge) : lock -> lock -> Prop :=
| path1 : forall a b, In (a, b) E -> path E a b
| pathS : forall a b c, In (a, b) E -> path E b c -> path E a c.

Definition acyclic (E : list edge) : Prop := forall a, ~ path E a a.

Definition ranked (r : lock -> nat) (E : list edge) : Prop := forall a b, In (a, b) E -> r a < r b.

Definition touches (v : lock) (e : edge) : bool := Nat.eqb (fst e) v || Nat.eqb (snd e) v.

(** remove node [v]: keep the edges that do not touch it and connect each predecessor to each successor *)
Definition bypass (v : lock) (E : list edge) : list edge :=
  nodup edge_dec
    (filter (fun e => negb (touches v e)) E
     ++ flat_map (fun p => map (fun s => (fst p, snd s)) (filter (fun e => Nat.eqb (fst e) v) E))
                 (filter (fun e => Nat.eqb (snd e) v) E)).

Definition selfloop (v : lock) (E : list edge) : bool :=
  existsb (fun e => Nat.eqb (fst e) v && Nat.eqb (snd e) v) E.

Fixpoint elim (V : list lock) (E : list edge) : bool :=
  match V with
  | [] => true
  | v :: V' => negb (selfloop v E) && elim V' (bypass v E)
  end.

Definition nodes (E : list edge) : list lock := map fst E ++ map snd E.

Definition acyclicb (E : list edge) : bool := elim (nodup Nat.eq_dec (nodes E)) (nodup edge_dec E).

(** the rank that [elim] constructs (used by the proofs and printed by the check) *)
Definition rank_step (v : lock) (E : list edge) (r' : lock -> nat) : lock -> nat :=
  fun x => if Nat.eqb x v
           then 2 * list_max (map (fun e => S (r' (fst e))) (filter (fun e => Nat.eqb (snd e) v) E))
           else 2 * r' x + 1.

Fixpoint rank_of (V : list lock) (E : list edge) : lock -> nat :=
  match V with
  | [] => fun _ => 0
  | v :: V' => rank_step v E (rank_of V' (bypass v E))
  end.

Definition inferred_rank (E : list edge) : lock -> nat := rank_of (nodup Nat.eq_dec (nodes E)) (nodup edge_dec E).

(** * Obligations over a table of named programs *)

Definition table := list (string * stmt).

(** the main loop is the table entry named [main]; its locks are what a wait on it stands for *)
Definition main_stmt (main : string) (t : table) : stmt :=
  match find (fun e => String.eqb (fst e) main) t with Some e => snd e | None => SUnknown end.

Definition mainlocks_of (main : string) (t : table) : list lock := nodup Nat.eq_dec (acq_of (main_stmt main t)).

Definition table_edges (main : string) (t : table) : list edge :=
  let ml := mainlocks_of main t in flat_map (fun e => edges_of ml (snd e)) t.

Definition held_before_acyclic (main : string) (t : table) : bool := acyclicb (table_edges main t).

Definition no_reentrant (main : string) (t : table) : bool :=
  forallb (fun e => negb (Nat.eqb (fst e) (snd e))) (table_edges main t).

(** no lock across a wait on an arbitrary task, nothing unclassified, loop bodies balanced; the main loop
    exists and waits for no task of the server *)
Definition flags_ok (main : string) (t : table) : bool :=
  let ml := mainlocks_of main t in
  forallb (fun e => flag_of ml (snd e)) t && negb (has_wait (main_stmt main t)).

Definition table_ok (main : string) (t : table) : bool :=
  held_before_acyclic main t && no_reentrant main t && flags_ok main t.

(** per-program report, printed by the check to name the failing call sites *)
Definition report (main : string) (t : table) : list (string * list edge * bool) :=
  let ml := mainlocks_of main t in
  map (fun e => match ana ml (snd e) [] with (_, E, o) => (fst e, nodup edge_dec E, o) end) t.
