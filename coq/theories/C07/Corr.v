(** C07/Corr.v — executable comparison of the observations of the real range helpers (hook H4,
    [verif::range]) with the model. *)
From EV Require Import C07.Model.
Local Open Scope N_scope.

Definition range_eqb (a b : range) : bool := (fst a =? fst b) && (snd a =? snd b).
Definition orange_eqb (a : res range) (b : option range) : bool :=
  match a, b with
  | Val x, Some y => range_eqb x y
  | Nothing, None => true
  | _, _ => false
  end.

Fixpoint bytes_eqb (a b : bytes_t) : bool :=
  match a, b with
  | [], [] => true
  | x :: a', y :: b' => (x =? y) && bytes_eqb a' b'
  | _, _ => false
  end.

Inductive case :=
| CArith (a b : range) (ub : N) (clamp : range) (contains intersects : bool)
| CLines (t : bytes_t) (ls le : list N) (expand : list (range * range))
| CIndent (t p strip apply : bytes_t) (split : list (N * N))
| CSelect (t : bytes_t) (sel : range) (ub : N) (clamped : range) (tree : list lnode)
          (deepest overlapping selected : option range).

Fixpoint check_offsets (f : N -> N) (o : N) (l : list N) : bool :=
  match l with
  | [] => true
  | x :: r => (f o =? x) && check_offsets f (o + 1) r
  end.

Definition check_case (c : case) : bool :=
  match c with
  | CArith a b ub cl ct it =>
      range_eqb (clamp_range a ub) cl && Bool.eqb (contains_range a b) ct && Bool.eqb (intersects_range a b) it
  | CLines t ls le ex =>
      check_offsets (line_start_offset t) 0 ls && check_offsets (line_end_offset t) 0 le
      && forallb (fun '(r, e) => range_eqb (expand_to_full_lines t r) e) ex
  | CIndent t p st ap sp =>
      bytes_eqb (strip_base_indent t p) st && bytes_eqb (apply_base_indent t p) ap
      && (N.of_nat (length (lines_of t)) =? N.of_nat (length sp))
      && forallb (fun '(l, (c, n)) => let '(x, y) := split_line_ending l in (blen_t x =? c) && (blen_t y =? n))
                 (combine (lines_of t) sp)
  | CSelect t sel ub cl tree dp ov se =>
      (ub =? blen_t t)
      && range_eqb (clamp_range sel ub) cl
      && orange_eqb (deepest_list tree cl) dp
      && orange_eqb (find_overlapping_slice tree cl) ov
      && orange_eqb (select_format_range t tree cl) se
      && wf_plan ub tree
  end.
