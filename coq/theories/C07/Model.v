(** C07/Model.v — transcription of the range-formatting kernel of
    crates/emmylua_formatter/src/formatter/range_format/mod.rs:
    [clamp_range], [contains_range], [intersects_range], [line_start_offset],
    [line_end_offset], [expand_to_full_lines], [find_overlapping_slice],
    [find_deepest_block_slice], [select_format_range], [split_line_ending], [map_lines],
    [strip_base_indent], [apply_base_indent], and the splice an editor performs with the returned
    [RangeFormatOutput].  Executable definitions only.

    These functions work on [text.as_bytes()] and on line splitting at ['\n']; a document is
    modelled by the list of its UTF-8 bytes and an offset is an index into it.  The layout plan
    ([LayoutNodePlan], built by the layout analysis, a client) is an abstract tree of nodes with
    an optional text range ([None]: the syntax id no longer resolves), a "syntax node" flag, a
    "kind = Block" flag and children. *)
From EV Require Export Base.Text.
Local Open Scope N_scope.

Definition bytes_t := list N.
Definition NLb : N := 10.
Definition CRb : N := 13.
Definition SPb : N := 32.
Definition TABb : N := 9.

Definition blen_t (t : bytes_t) : N := N.of_nat (length t).

(** a [TextRange]: start and end with [start <= end] (rowan asserts it) *)
Definition range := (N * N)%type.

(** [clamp_range] *)
Definition clamp_range (r : range) (upper : N) : range :=
  let s := N.min (fst r) upper in
  let e := N.max (N.min (snd r) upper) s in
  (s, e).

(** [contains_range] *)
Definition contains_range (c i : range) : bool := (fst c <=? fst i) && (snd i <=? snd c).

(** [intersects_range]: an empty selection intersects the nodes it touches *)
Definition intersects_range (l r : range) : bool :=
  if fst r =? snd r then (fst l <=? fst r) && (fst r <=? snd l)
  else (fst l <? snd r) && (fst r <? snd l).

(** [line_start_offset]: walk back from [min offset len] to just after the previous ['\n'].
    Forward formulation: [cur] is the start of the line of the bytes seen so far. *)
Fixpoint line_start_aux (t : bytes_t) (pos limit cur : N) : N :=
  match t with
  | [] => cur
  | b :: r => if limit <=? pos then cur
              else line_start_aux r (pos + 1) limit (if b =? NLb then pos + 1 else cur)
  end.

Definition line_start_offset (t : bytes_t) (offset : N) : N :=
  line_start_aux t 0 (N.min offset (blen_t t)) 0.

(** [line_end_offset]: from [min offset len] forward to just after the next ['\n'], or the end *)
Fixpoint line_end_aux (t : bytes_t) (pos index : N) : N :=
  match t with
  | [] => pos
  | b :: r => if (index <=? pos) && (b =? NLb) then pos + 1 else line_end_aux r (pos + 1) index
  end.

Definition line_end_offset (t : bytes_t) (offset : N) : N :=
  line_end_aux t 0 (N.min offset (blen_t t)).

(** [expand_to_full_lines] *)
Definition expand_to_full_lines (t : bytes_t) (r : range) : range :=
  (line_start_offset t (fst r), line_end_offset t (snd r)).

(** the layout plan *)
Inductive lnode := LNode (r : option range) (is_syntax is_block : bool) (children : list lnode).

Definition node_range (n : lnode) : option range := match n with LNode r _ _ _ => r end.

(** [find_overlapping_slice]: from the start of the first to the end of the last node that
    intersects the selection ([TextRange::new] panics when start > end) *)
Fixpoint overlapping_aux (nodes : list lnode) (sel : range) (first : option range) (last : option range)
  : option range * option range :=
  match nodes with
  | [] => (first, last)
  | n :: rest =>
      match node_range n with
      | Some r =>
          if intersects_range r sel
          then overlapping_aux rest sel (match first with Some f => Some f | None => Some r end) (Some r)
          else overlapping_aux rest sel first last
      | None => overlapping_aux rest sel first last
      end
  end.

Definition find_overlapping_slice (nodes : list lnode) (sel : range) : res range :=
  match overlapping_aux nodes sel None None with
  | (Some f, Some l) => if fst f <=? snd l then Val (fst f, snd l) else Panic
  | _ => Nothing
  end.

(** [find_deepest_block_slice] *)
Fixpoint deepest_node (n : lnode) (sel : range) : res range :=
  match n with
  | LNode r is_syntax is_block children =>
      if negb is_syntax then Nothing
      else match r with
           | None => Nothing
           | Some nr =>
               if negb (contains_range nr sel) then Nothing
               else
                 match (fix go (l : list lnode) : res range :=
                          match l with
                          | [] => Nothing
                          | c :: rest => match deepest_node c sel with
                                         | Nothing => go rest
                                         | x => x
                                         end
                          end) children with
                 | Nothing => if is_block then find_overlapping_slice children sel else Nothing
                 | x => x
                 end
           end
  end.

Fixpoint deepest_list (l : list lnode) (sel : range) : res range :=
  match l with
  | [] => Nothing
  | c :: rest => match deepest_node c sel with
                 | Nothing => deepest_list rest sel
                 | x => x
                 end
  end.

(** [select_format_range]: always [Some] *)
Definition select_format_range (t : bytes_t) (nodes : list lnode) (sel : range) : res range :=
  match deepest_list nodes sel with
  | Val r => Val (expand_to_full_lines t r)
  | Panic => Panic
  | Nothing =>
      match find_overlapping_slice nodes sel with
      | Val r => Val (expand_to_full_lines t r)
      | Panic => Panic
      | Nothing => Val (expand_to_full_lines t sel)
      end
  end.

(** * lines *)

(** [str::split_inclusive('\n')] *)
Fixpoint split_inclusive (t : bytes_t) (cur : bytes_t) : list bytes_t :=
  match t with
  | [] => match cur with [] => [] | _ => [rev cur] end
  | b :: r => if b =? NLb then rev (b :: cur) :: split_inclusive r [] else split_inclusive r (b :: cur)
  end.

Definition lines_of (t : bytes_t) : list bytes_t := split_inclusive t [].

(** [split_line_ending]: (content, newline) with newline one of "\r\n", "\n", "" — on a reversed line *)
Definition split_line_ending (line : bytes_t) : bytes_t * bytes_t :=
  match rev line with
  | a :: b :: r => if (a =? NLb) && (b =? CRb) then (rev r, [CRb; NLb])
                   else if a =? NLb then (rev (b :: r), [NLb]) else (line, [])
  | [a] => if a =? NLb then ([], [NLb]) else (line, [])
  | [] => (line, [])
  end.

(** [map_lines] *)
Definition map_lines (f : bytes_t -> bytes_t -> bytes_t) (t : bytes_t) : bytes_t :=
  flat_map (fun l => let '(c, nl) := split_line_ending l in f c nl) (lines_of t).

(** [str::strip_prefix] *)
Fixpoint strip_prefix (s p : bytes_t) : option bytes_t :=
  match p with
  | [] => Some s
  | x :: p' => match s with
               | y :: s' => if x =? y then strip_prefix s' p' else None
               | [] => None
               end
  end.

(** [strip_base_indent] *)
Definition strip_base_indent (t prefix : bytes_t) : bytes_t :=
  map_lines (fun c nl => (match strip_prefix c prefix with Some r => r | None => c end) ++ nl) t.

(** [apply_base_indent] *)
Definition apply_base_indent (t prefix : bytes_t) : bytes_t :=
  match prefix with
  | [] => t
  | _ => map_lines (fun c nl => match c with [] => nl | _ => prefix ++ c ++ nl end) t
  end.

(** the edit an editor applies: replace [start, end) by the new text *)
Definition splice (t : bytes_t) (r : range) (new : bytes_t) : bytes_t :=
  firstn (N.to_nat (fst r)) t ++ new ++ skipn (N.to_nat (snd r)) t.

(** * specification side *)

Definition is_blank_b (b : N) : bool := (b =? SPb) || (b =? TABb).

Fixpoint ltrim (t : bytes_t) : bytes_t :=
  match t with
  | b :: r => if is_blank_b b then ltrim r else t
  | [] => []
  end.

Definition all_blank (t : bytes_t) : bool := forallb is_blank_b t.

(** a document offset is line-aligned: 0, or just after a ['\n'] *)
Definition line_aligned (t : bytes_t) (o : N) : bool :=
  (o =? 0) || (match nth_error t (N.to_nat (o - 1)) with Some b => b =? NLb | None => false end).

(** siblings are in document order, do not overlap and lie inside the document (what the layout
    analysis produces; checked on every real plan by the correspondence, not proved) *)
Fixpoint sorted_from (len lo : N) (nodes : list lnode) : bool :=
  match nodes with
  | [] => true
  | n :: rest =>
      match node_range n with
      | Some r => (lo <=? fst r) && (fst r <=? snd r) && (snd r <=? len) && sorted_from len (snd r) rest
      | None => sorted_from len lo rest
      end
  end.

Fixpoint wf_node (len : N) (n : lnode) : bool :=
  match n with
  | LNode r _ _ children =>
      sorted_from len 0 children
      && (fix go (l : list lnode) : bool := match l with [] => true | c :: rest => wf_node len c && go rest end) children
  end.

Fixpoint wf_list (len : N) (l : list lnode) : bool :=
  match l with [] => true | c :: rest => wf_node len c && wf_list len rest end.

(** [wf_plan len nodes]: at every level the siblings are in document order, do not overlap and
    lie inside a document of [len] bytes *)
Definition wf_plan (len : N) (nodes : list lnode) : bool := sorted_from len 0 nodes && wf_list len nodes.

(** the sibling lists a selection can be resolved against: the root list, or the children of a
    syntax node that contains the selection, reached through such nodes *)
Inductive Level (sel : range) : list lnode -> list lnode -> Prop :=
| Level_here : forall nodes, Level sel nodes nodes
| Level_down : forall nodes r sy bl children lvl,
    In (LNode (Some r) sy bl children) nodes -> contains_range r sel = true ->
    Level sel children lvl -> Level sel nodes lvl.

(** contents of the long-bracket strings [[...]] of a text (level 0 brackets only): used to
    state that re-indentation reaches inside multi-line tokens *)
Fixpoint long_bodies (t : bytes_t) (inside : bool) (cur : bytes_t) : list bytes_t :=
  match t with
  | [] => []
  | a :: r =>
      match r with
      | b :: r' =>
          if negb inside && (a =? 91) && (b =? 91) then long_bodies r' true []
          else if inside && (a =? 93) && (b =? 93) then rev cur :: long_bodies r' false []
          else long_bodies r inside (if inside then a :: cur else cur)
      | [] => []
      end
  end.

(** the text with the leading blanks of every line deleted *)
Definition ltrim_lines (t : bytes_t) : bytes_t := flat_map ltrim (lines_of t).

(** the text with every space and tab deleted (line structure kept) *)
Definition nonblank_b (t : bytes_t) : bytes_t := filter (fun b => negb (is_blank_b b)) t.
