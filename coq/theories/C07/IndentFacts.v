(** C07/IndentFacts.v — line splitting and re-indentation ([strip_base_indent],
    [apply_base_indent]) change only the leading blanks of lines. *)
From EV Require Import C07.Model.
Local Open Scope N_scope.

Definition nlfree (c : bytes_t) : Prop := forallb (fun b => negb (b =? NLb)) c = true.

Lemma nlfree_app : forall a b, nlfree (a ++ b) <-> nlfree a /\ nlfree b.
Proof. intros a b. unfold nlfree. rewrite forallb_app. apply andb_true_iff. Qed.

Lemma nlfree_cons : forall x a, nlfree (x :: a) <-> x <> NLb /\ nlfree a.
Proof.
  intros x a. unfold nlfree. cbn [forallb]. rewrite andb_true_iff. split; intros [H1 H2]; split; try assumption.
  - intros E. subst. rewrite N.eqb_refl in H1. discriminate.
  - destruct (N.eqb_spec x NLb); [contradiction|reflexivity].
Qed.

Lemma nlfree_rev : forall a, nlfree (rev a) <-> nlfree a.
Proof.
  induction a as [|x a IH]; [reflexivity|]. cbn [rev]. rewrite nlfree_app, IH, (nlfree_cons x a), (nlfree_cons x []).
  split.
  - intros [H1 [H2 _]]. split; assumption.
  - intros [H1 H2]. split; [exact H2|]. split; [exact H1|reflexivity].
Qed.

Lemma nlfree_nil : nlfree []. Proof. reflexivity. Qed.

(** * split_inclusive *)

Lemma si_concat : forall t cur, concat (split_inclusive t cur) = rev cur ++ t.
Proof.
  induction t as [|b t IH]; intros cur; cbn [split_inclusive].
  - destruct cur as [|x cur]; [reflexivity|]. cbn [concat]. rewrite !app_nil_r. reflexivity.
  - destruct (b =? NLb).
    + cbn [concat]. rewrite IH. cbn [rev app]. rewrite <- app_assoc. reflexivity.
    + rewrite IH. cbn [rev]. rewrite <- app_assoc. reflexivity.
Qed.

Lemma lines_concat : forall t, concat (lines_of t) = t.
Proof. intros t. unfold lines_of. rewrite si_concat. reflexivity. Qed.

Lemma si_prefix : forall c X cur, nlfree c ->
  split_inclusive (c ++ NLb :: X) cur = (rev cur ++ c ++ [NLb]) :: split_inclusive X [].
Proof.
  induction c as [|x c IH]; intros X cur Hc; cbn [app split_inclusive].
  - rewrite N.eqb_refl. cbn [rev]. reflexivity.
  - apply nlfree_cons in Hc. destruct Hc as [Hx Hc].
    destruct (N.eqb_spec x NLb) as [E|_]; [contradiction|].
    rewrite IH by exact Hc. cbn [rev]. rewrite <- app_assoc. reflexivity.
Qed.

Lemma si_partial : forall c cur, nlfree c ->
  split_inclusive c cur = match rev cur ++ c with [] => [] | l => [l] end.
Proof.
  induction c as [|x c IH]; intros cur Hc; cbn [split_inclusive].
  - rewrite app_nil_r. destruct cur as [|y cur]; [reflexivity|].
    destruct (rev (y :: cur)) eqn:E; [|reflexivity].
    apply (f_equal (@length N)) in E. rewrite rev_length in E. discriminate.
  - apply nlfree_cons in Hc. destruct Hc as [Hx Hc].
    destruct (N.eqb_spec x NLb) as [E|_]; [contradiction|].
    rewrite IH by exact Hc. cbn [rev]. rewrite <- app_assoc. reflexivity.
Qed.

(** * the shape of the lines of a text *)

Definition full (l : bytes_t) : Prop := exists c, l = c ++ [NLb] /\ nlfree c.
Definition partial (l : bytes_t) : Prop := l <> [] /\ nlfree l.

Fixpoint lines_ok (L : list bytes_t) : Prop :=
  match L with
  | [] => True
  | l :: rest => match rest with [] => full l \/ partial l | _ => full l /\ lines_ok rest end
  end.

Lemma si_ok : forall t cur, nlfree (rev cur) -> lines_ok (split_inclusive t cur).
Proof.
  induction t as [|b t IH]; intros cur Hc; cbn [split_inclusive].
  - destruct cur as [|x cur]; [exact I|]. cbn [lines_ok]. right. split; [|exact Hc].
    intros E. apply (f_equal (@length N)) in E. rewrite rev_length in E. discriminate.
  - destruct (N.eqb_spec b NLb) as [E|E].
    + subst b. assert (full (rev (NLb :: cur))) as Hf.
      { exists (rev cur). split; [reflexivity|exact Hc]. }
      specialize (IH [] nlfree_nil).
      cbn [lines_ok]. destruct (split_inclusive t []); [left; exact Hf|split; [exact Hf|exact IH]].
    + apply IH. cbn [rev]. apply nlfree_app. split; [exact Hc|]. apply nlfree_cons. split; [exact E|reflexivity].
Qed.

Lemma lines_of_ok : forall t, lines_ok (lines_of t).
Proof. intros t. apply si_ok. reflexivity. Qed.

(** * split_line_ending *)

Lemma sle_concat : forall l, fst (split_line_ending l) ++ snd (split_line_ending l) = l.
Proof.
  intros l. unfold split_line_ending. destruct (rev l) as [|a [|b r]] eqn:E.
  - cbn [fst snd]. apply app_nil_r.
  - assert (l = [a]) as El by (rewrite <- (rev_involutive l), E; reflexivity). subst l.
    destruct (N.eqb_spec a NLb) as [Ea|Ea]; cbn [fst snd app]; [subst; reflexivity|reflexivity].
  - assert (l = rev r ++ [b; a]) as El.
    { rewrite <- (rev_involutive l), E. cbn [rev]. rewrite <- app_assoc. reflexivity. }
    destruct ((a =? NLb) && (b =? CRb)) eqn:E1.
    + apply andb_true_iff in E1. destruct E1 as [E1 E2]. apply N.eqb_eq in E1, E2. subst a b.
      cbn [fst snd]. symmetry. exact El.
    + destruct (N.eqb_spec a NLb) as [Ea|Ea]; cbn [fst snd].
      * subst a. cbn [rev]. rewrite <- app_assoc. symmetry. exact El.
      * apply app_nil_r.
Qed.

Lemma sle_full : forall l, full l ->
  nlfree (fst (split_line_ending l)) /\
  (snd (split_line_ending l) = [NLb] \/ snd (split_line_ending l) = [CRb; NLb]).
Proof.
  intros l [c [El Hc]]. subst l. unfold split_line_ending. rewrite rev_app_distr. cbn [rev app].
  apply nlfree_rev in Hc. destruct (rev c) as [|b r] eqn:Er.
  - rewrite N.eqb_refl. cbn [fst snd]. split; [reflexivity|left; reflexivity].
  - rewrite N.eqb_refl. cbn [andb]. apply nlfree_cons in Hc. destruct Hc as [Hb Hr].
    destruct (b =? CRb); cbn [fst snd].
    + split; [apply nlfree_rev; exact Hr|right; reflexivity].
    + split; [|left; reflexivity]. apply nlfree_app. split; [apply nlfree_rev; exact Hr|].
      apply nlfree_cons. split; [exact Hb|reflexivity].
Qed.

Lemma sle_partial : forall l, partial l -> split_line_ending l = (l, []).
Proof.
  intros l [Hn Hl]. unfold split_line_ending. apply nlfree_rev in Hl.
  destruct (rev l) as [|a [|b r]] eqn:Er.
  - reflexivity.
  - apply nlfree_cons in Hl. destruct Hl as [Ha _]. destruct (N.eqb_spec a NLb); [contradiction|reflexivity].
  - apply nlfree_cons in Hl. destruct Hl as [Ha _]. destruct (N.eqb_spec a NLb); [contradiction|].
    cbn [andb]. reflexivity.
Qed.

(** * ltrim *)

Lemma ltrim_blank_app : forall p x, all_blank p = true -> ltrim (p ++ x) = ltrim x.
Proof.
  induction p as [|b p IH]; intros x H; [reflexivity|].
  cbn [all_blank forallb] in H. apply andb_true_iff in H. destruct H as [H1 H2].
  cbn [app ltrim]. rewrite H1. apply IH. exact H2.
Qed.

Lemma strip_prefix_some : forall p s r, strip_prefix s p = Some r -> s = p ++ r.
Proof.
  induction p as [|x p IH]; intros s r H.
  - destruct s; cbn [strip_prefix] in H; inversion H; reflexivity.
  - destruct s as [|y s]; cbn [strip_prefix] in H; [discriminate|]. destruct (N.eqb_spec x y) as [E|E]; [|discriminate].
    subst y. cbn [app]. f_equal. apply IH. exact H.
Qed.

Lemma nb_ltrim : forall l, nonblank_b (ltrim l) = nonblank_b l.
Proof.
  induction l as [|b l IH]; [reflexivity|]. cbn [ltrim]. destruct (is_blank_b b) eqn:E.
  - rewrite IH. unfold nonblank_b. cbn [filter]. rewrite E. reflexivity.
  - reflexivity.
Qed.

Lemma nb_app : forall a b, nonblank_b (a ++ b) = nonblank_b a ++ nonblank_b b.
Proof. intros. unfold nonblank_b. apply filter_app. Qed.

Lemma nb_ltrim_lines : forall t, nonblank_b (ltrim_lines t) = nonblank_b t.
Proof.
  intros t. unfold ltrim_lines. rewrite <- (lines_concat t) at 2.
  induction (lines_of t) as [|l L IH]; [reflexivity|].
  cbn [flat_map concat]. rewrite !nb_app, nb_ltrim, IH. reflexivity.
Qed.

(** * map_lines with a function of the form [h content ++ newline] *)

Section MapLines.
  Variable h : bytes_t -> bytes_t.
  Hypothesis H_nlfree : forall c, nlfree c -> nlfree (h c).
  Hypothesis H_ltrim : forall c nl, ltrim (h c ++ nl) = ltrim (c ++ nl).

  Definition g (l : bytes_t) : bytes_t := let '(c, nl) := split_line_ending l in h c ++ nl.

  Lemma g_ltrim : forall l, ltrim (g l) = ltrim l.
  Proof.
    intros l. unfold g. pose proof (sle_concat l) as E. destruct (split_line_ending l) as [c nl].
    cbn [fst snd] in E. rewrite H_ltrim, E. reflexivity.
  Qed.

  Lemma g_full : forall l, full l -> exists c', g l = c' ++ [NLb] /\ nlfree c'.
  Proof.
    intros l Hf. unfold g. destruct (sle_full l Hf) as [Hc Hnl]. destruct (split_line_ending l) as [c nl].
    cbn [fst snd] in *. destruct Hnl as [E|E]; subst nl.
    - exists (h c). split; [reflexivity|apply H_nlfree; exact Hc].
    - exists (h c ++ [CRb]). split; [rewrite <- app_assoc; reflexivity|].
      apply nlfree_app. split; [apply H_nlfree; exact Hc|reflexivity].
  Qed.

  Lemma g_partial : forall l, partial l -> nlfree (g l).
  Proof.
    intros l Hp. unfold g. rewrite (sle_partial l Hp). rewrite app_nil_r. apply H_nlfree. apply Hp.
  Qed.

  Lemma resplit : forall L, lines_ok L ->
    flat_map ltrim (lines_of (concat (map g L))) = flat_map ltrim L.
  Proof.
    induction L as [|l rest IH]; intros Hok; [reflexivity|].
    cbn [lines_ok] in Hok. cbn [map concat flat_map]. destruct rest as [|l2 rest].
    - cbn [map concat]. rewrite app_nil_r. destruct Hok as [Hf|Hp].
      + destruct (g_full l Hf) as [c' [Eg Hc']]. rewrite <- (g_ltrim l). rewrite Eg.
        unfold lines_of. replace (c' ++ [NLb]) with (c' ++ NLb :: []) by reflexivity.
        rewrite si_prefix by exact Hc'. cbn [rev app split_inclusive flat_map]. reflexivity.
      + pose proof (g_partial l Hp) as Hg. unfold lines_of. rewrite si_partial by exact Hg.
        cbn [rev app]. rewrite <- (g_ltrim l). destruct (g l); reflexivity.
    - destruct Hok as [Hf Hok]. destruct (g_full l Hf) as [c' [Eg Hc']].
      specialize (IH Hok). rewrite Eg. rewrite <- app_assoc. cbn [app].
      unfold lines_of in *. rewrite si_prefix by exact Hc'. cbn [rev app flat_map].
      rewrite IH. rewrite <- Eg, g_ltrim. reflexivity.
  Qed.

  Lemma map_lines_ltrim : forall t, ltrim_lines (map_lines (fun c nl => h c ++ nl) t) = ltrim_lines t.
  Proof.
    intros t. unfold ltrim_lines, map_lines.
    change (fun l : bytes_t => let '(c, nl) := split_line_ending l in h c ++ nl) with g.
    rewrite (flat_map_concat_map g (lines_of t)).
    apply resplit. apply lines_of_ok.
  Qed.
End MapLines.

Lemma strip_ltrim : forall t q, all_blank q = true -> ltrim_lines (strip_base_indent t q) = ltrim_lines t.
Proof.
  intros t q Hq. unfold strip_base_indent.
  apply (map_lines_ltrim (fun c => match strip_prefix c q with Some r => r | None => c end)).
  - intros c Hc. destruct (strip_prefix c q) as [r|] eqn:E; [|exact Hc].
    apply strip_prefix_some in E. subst c. apply nlfree_app in Hc. apply Hc.
  - intros c nl. destruct (strip_prefix c q) as [r|] eqn:E; [|reflexivity].
    apply strip_prefix_some in E. subst c. rewrite <- app_assoc. rewrite (ltrim_blank_app q (r ++ nl) Hq). reflexivity.
Qed.

Lemma apply_ltrim : forall t p, all_blank p = true -> ltrim_lines (apply_base_indent t p) = ltrim_lines t.
Proof.
  intros t p Hp. unfold apply_base_indent. destruct p as [|x p]; [reflexivity|].
  set (pp := x :: p) in *.
  assert (forall c nl, match c with [] => nl | _ :: _ => pp ++ c ++ nl end =
                       (match c with [] => [] | _ :: _ => pp ++ c end) ++ nl) as E2.
  { intros [|y c] nl; [reflexivity|]. rewrite <- app_assoc. reflexivity. }
  unfold map_lines.
  rewrite (flat_map_ext _ (fun l => let '(c, nl) := split_line_ending l in (match c with [] => [] | _ :: _ => pp ++ c end) ++ nl)).
  - apply (map_lines_ltrim (fun c => match c with [] => [] | _ :: _ => pp ++ c end)).
    + intros [|y c] Hc; [reflexivity|]. apply nlfree_app. split; [|exact Hc].
      clear - Hp. unfold nlfree. induction pp as [|z pp IH]; [reflexivity|].
      cbn [all_blank forallb] in *. apply andb_true_iff in Hp. destruct Hp as [H1 H2].
      rewrite IH by exact H2. unfold is_blank_b in H1. apply orb_true_iff in H1.
      destruct H1 as [H1|H1]; apply N.eqb_eq in H1; subst z; reflexivity.
    + intros [|y c] nl; [reflexivity|]. rewrite <- app_assoc. apply ltrim_blank_app. exact Hp.
  - intros l. destruct (split_line_ending l) as [c nl]. apply E2.
Qed.

Lemma reindent_ltrim : forall x p q, all_blank p = true -> all_blank q = true ->
  ltrim_lines (apply_base_indent (strip_base_indent x q) p) = ltrim_lines x.
Proof. intros x p q Hp Hq. rewrite apply_ltrim by exact Hp. apply strip_ltrim. exact Hq. Qed.

Lemma reindent_nonblank : forall x p q, all_blank p = true -> all_blank q = true ->
  nonblank_b (apply_base_indent (strip_base_indent x q) p) = nonblank_b x.
Proof.
  intros x p q Hp Hq. rewrite <- (nb_ltrim_lines (apply_base_indent _ _)), <- (nb_ltrim_lines x).
  rewrite reindent_ltrim by assumption. reflexivity.
Qed.
