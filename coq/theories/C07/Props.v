(** C07/Props.v — property theorems only.  Each is closed by [exact] of a lemma of Proofs.v.

    Range-formatting kernel proved; the layout analysis (which builds the plan) and the fragment
    formatter are clients: [wf_plan] is checked on every sampled plan, not proved. *)
From EV Require Import C07.Model.
From EV Require C07.Proofs.
Local Open Scope N_scope.

(** For every document, well-formed layout plan and selection (empty, partial token, beyond
    the end: it is clamped first), [select_format_range] returns a range that lies inside the
    document, starts at a line start, ends at a line start or at the end of the document, and
    contains every node that the selection intersects at the level it was resolved against (the
    root statements, or the statements of an enclosing block containing the selection); when
    no root node intersects the selection it contains the selection itself. *)
Theorem selected_covers : forall (t : bytes_t) (nodes : list lnode) (sel0 : range),
  wf_plan (blen_t t) nodes = true ->
  let sel := clamp_range sel0 (blen_t t) in
  exists R, select_format_range t nodes sel = Val R /\
    fst R <= snd R /\ snd R <= blen_t t /\
    line_aligned t (fst R) = true /\ (line_aligned t (snd R) = true \/ snd R = blen_t t) /\
    ((exists lvl, Level sel nodes lvl /\
        forall n r, In n lvl -> node_range n = Some r -> intersects_range r sel = true -> contains_range R r = true) \/
     ((forall n r, In n nodes -> node_range n = Some r -> intersects_range r sel = false) /\ contains_range R sel = true)).
Proof. exact Proofs.selected_covers. Qed.

(** Applying the edit leaves the text before and after the replaced range untouched. *)
Theorem splice_outside_untouched : forall (t : bytes_t) (r : range) (new : bytes_t),
  fst r <= snd r -> snd r <= blen_t t ->
  firstn (N.to_nat (fst r)) (splice t r new) = firstn (N.to_nat (fst r)) t /\
  skipn (N.to_nat (fst r) + length new) (splice t r new) = skipn (N.to_nat (snd r)) t.
Proof. exact Proofs.splice_outside_untouched. Qed.

(** Removing the source indent [q] and adding the target indent [p] changes only the leading
    blanks of lines: after deleting the leading blanks of every line the texts are identical. *)
Theorem reindent_changes_only_leading_blank : forall (x p q : bytes_t),
  all_blank p = true -> all_blank q = true ->
  ltrim_lines (apply_base_indent (strip_base_indent x q) p) = ltrim_lines x.
Proof. exact Proofs.reindent_changes_only_leading_blank. Qed.

(** ... in particular the non-blank text, line by line (line terminators are kept), is the same. *)
Theorem reindent_roundtrip : forall (x p q : bytes_t),
  all_blank p = true -> all_blank q = true ->
  nonblank_b (apply_base_indent (strip_base_indent x q) p) = nonblank_b x.
Proof. exact Proofs.reindent_roundtrip. Qed.

(** But re-indentation does not know about tokens: it changes the content of a long string
    whose continuation line lacks the base indent (replayed on the real code: open finding
    "range-reindent-inside-token").  The statement "re-indentation preserves tokens" is false of the
    faithful model; [reindent_changes_only_leading_blank] is what holds. *)
Theorem reindent_preserves_tokens_refuted :
  exists x p q, all_blank p = true /\ all_blank q = true /\
    long_bodies (apply_base_indent (strip_base_indent x q) p) false [] <> long_bodies x false [].
Proof. exact Proofs.reindent_preserves_tokens_refuted. Qed.

(** non-vacuity *)
Example range_example :
  wf_plan (blen_t Proofs.ex_text) Proofs.ex_plan = true /\
  select_format_range Proofs.ex_text Proofs.ex_plan (clamp_range (7, 7) 20) = Val (3, 11) /\
  select_format_range Proofs.ex_text Proofs.ex_plan (clamp_range (16, 17) 20) = Val (15, 20) /\
  select_format_range Proofs.ex_text Proofs.ex_plan (clamp_range (40, 90) 20) = Val (15, 20) /\
  select_format_range Proofs.ex_text Proofs.ex_plan (clamp_range (0, 20) 20) = Val (0, 20) /\
  strip_base_indent [32;32;97;10;32;98;10;10] [32;32] = [97;10;32;98;10;10] /\
  apply_base_indent [97;10;10;98] [9] = [9;97;10;10;9;98].
Proof. exact Proofs.range_example. Qed.
