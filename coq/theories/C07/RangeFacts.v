(** C07/RangeFacts.v — range arithmetic, line offsets, slices over the layout tree, splice. *)
From EV Require Import C07.Model.
From Coq Require Import PeanoNat.
Local Open Scope N_scope.

(** * clamp *)

Lemma clamp_ok : forall r ub, fst (clamp_range r ub) <= snd (clamp_range r ub) /\ snd (clamp_range r ub) <= ub.
Proof. intros [a b] ub. unfold clamp_range. cbn [fst snd]. lia. Qed.

(** * line offsets *)

Definition AlignedP (whole : bytes_t) (o : N) : Prop :=
  o = 0 \/ nth_error whole (N.to_nat (o - 1)) = Some NLb.

Lemma line_aligned_iff : forall t o, line_aligned t o = true <-> AlignedP t o.
Proof.
  intros t o. unfold line_aligned, AlignedP. split.
  - intros H. apply orb_true_iff in H. destruct H as [H|H].
    + left. apply N.eqb_eq. exact H.
    + right. destruct (nth_error t (N.to_nat (o - 1))) as [b|]; [|discriminate].
      apply N.eqb_eq in H. subst. reflexivity.
  - intros [H|H]; apply orb_true_iff.
    + left. apply N.eqb_eq. exact H.
    + right. rewrite H. apply N.eqb_refl.
Qed.

Lemma blen_app : forall a b, blen_t (a ++ b) = blen_t a + blen_t b.
Proof. intros. unfold blen_t. rewrite app_length. lia. Qed.

Lemma blen_cons : forall x a, blen_t (x :: a) = 1 + blen_t a.
Proof. intros. unfold blen_t. cbn [length]. lia. Qed.

Lemma nth_mid : forall (pre : bytes_t) b r, nth_error (pre ++ b :: r) (N.to_nat (blen_t pre)) = Some b.
Proof.
  intros. unfold blen_t. rewrite Nat2N.id. rewrite nth_error_app2 by lia.
  rewrite Nat.sub_diag. reflexivity.
Qed.

Lemma ls_aux_spec : forall t pre limit cur,
  AlignedP (pre ++ t) cur -> cur <= blen_t pre ->
  let r := line_start_aux t (blen_t pre) limit cur in
  AlignedP (pre ++ t) r /\ cur <= r /\ r <= N.max cur limit.
Proof.
  induction t as [|b t IH]; intros pre limit cur Ha Hc; cbn [line_start_aux].
  - split; [exact Ha|]. lia.
  - destruct (N.leb_spec limit (blen_t pre)) as [L|L].
    + split; [exact Ha|]. lia.
    + assert (pre ++ b :: t = (pre ++ [b]) ++ t) as E by (rewrite <- app_assoc; reflexivity).
      assert (blen_t pre + 1 = blen_t (pre ++ [b])) as E2 by (rewrite blen_app; unfold blen_t; cbn [length]; lia).
      rewrite E, E2.
      destruct (N.eqb_spec b NLb) as [Hb|Hb].
      * subst b. specialize (IH (pre ++ [NLb]) limit (blen_t (pre ++ [NLb]))).
        destruct IH as [H1 [H2 H3]].
        -- right. rewrite <- E2. replace (blen_t pre + 1 - 1) with (blen_t pre) by lia.
           rewrite <- E. apply nth_mid.
        -- lia.
        -- split; [exact H1|]. lia.
      * specialize (IH (pre ++ [b]) limit cur).
        destruct IH as [H1 [H2 H3]].
        -- rewrite <- E. exact Ha.
        -- lia.
        -- split; [exact H1|]. lia.
Qed.

Lemma line_start_spec : forall t o,
  AlignedP t (line_start_offset t o) /\ line_start_offset t o <= N.min o (blen_t t).
Proof.
  intros t o. unfold line_start_offset.
  destruct (ls_aux_spec t [] (N.min o (blen_t t)) 0) as [H1 [H2 H3]].
  - left. reflexivity.
  - unfold blen_t. cbn [length]. lia.
  - cbn [app] in H1. change (blen_t []) with 0 in *. split; [exact H1|lia].
Qed.

Lemma le_aux_spec : forall t pre index,
  let r := line_end_aux t (blen_t pre) index in
  blen_t pre <= r /\ r <= blen_t (pre ++ t) /\ N.min index (blen_t (pre ++ t)) <= r /\
  (r = blen_t (pre ++ t) \/ AlignedP (pre ++ t) r).
Proof.
  induction t as [|b t IH]; intros pre index; cbn [line_end_aux].
  - rewrite app_nil_r. split; [lia|]. split; [lia|]. split; [lia|]. left. reflexivity.
  - assert (pre ++ b :: t = (pre ++ [b]) ++ t) as E by (rewrite <- app_assoc; reflexivity).
    assert (blen_t pre + 1 = blen_t (pre ++ [b])) as E2 by (rewrite blen_app; unfold blen_t; cbn [length]; lia).
    assert (blen_t (pre ++ b :: t) = blen_t pre + 1 + blen_t t) as E3 by (rewrite blen_app, blen_cons; lia).
    destruct ((index <=? blen_t pre) && (b =? NLb)) eqn:C.
    + apply andb_true_iff in C. destruct C as [C1 C2]. apply N.leb_le in C1. apply N.eqb_eq in C2. subst b.
      split; [lia|]. split; [lia|]. split; [lia|]. right. right.
      replace (blen_t pre + 1 - 1) with (blen_t pre) by lia. apply nth_mid.
    + specialize (IH (pre ++ [b]) index). rewrite <- E2 in IH. rewrite <- E in IH.
      destruct IH as [H1 [H2 [H3 H4]]]. split; [lia|]. split; [exact H2|]. split; [exact H3|exact H4].
Qed.

Lemma line_end_spec : forall t o,
  let e := line_end_offset t o in
  e <= blen_t t /\ N.min o (blen_t t) <= e /\ (e = blen_t t \/ AlignedP t e).
Proof.
  intros t o. unfold line_end_offset.
  destruct (le_aux_spec t [] (N.min o (blen_t t))) as [H1 [H2 [H3 H4]]].
  cbn [app] in *. change (blen_t []) with 0 in *. split; [exact H2|]. split; [lia|exact H4].
Qed.

(** [expand_to_full_lines]: inside the document, line-aligned, and covering the range *)
Lemma expand_spec : forall t r, fst r <= snd r ->
  let R := expand_to_full_lines t r in
  fst R <= snd R /\ snd R <= blen_t t /\ AlignedP t (fst R) /\ (snd R = blen_t t \/ AlignedP t (snd R)) /\
  fst R <= fst r /\ N.min (snd r) (blen_t t) <= snd R.
Proof.
  intros t [a b] Hab. cbn [fst snd] in Hab. unfold expand_to_full_lines. cbn [fst snd].
  destruct (line_start_spec t a) as [S1 S2]. destruct (line_end_spec t b) as [E1 [E2 E3]].
  split; [lia|]. split; [exact E1|]. split; [exact S1|]. split; [exact E3|]. split; [lia|exact E2].
Qed.

(** * slices *)

Lemma sorted_weaken : forall len nodes lo lo', lo' <= lo -> sorted_from len lo nodes = true -> sorted_from len lo' nodes = true.
Proof.
  induction nodes as [|n nodes IH]; intros lo lo' Hl H; [reflexivity|].
  cbn [sorted_from] in *. destruct (node_range n) as [r|].
  - apply andb_true_iff in H. destruct H as [H H4]. apply andb_true_iff in H. destruct H as [H H3].
    apply andb_true_iff in H. destruct H as [H1 H2]. apply N.leb_le in H1.
    rewrite H2, H3, H4. replace (lo' <=? fst r) with true by (symmetry; apply N.leb_le; lia). reflexivity.
  - eapply IH; eassumption.
Qed.

Lemma sorted_in : forall len nodes lo n r, sorted_from len lo nodes = true -> In n nodes -> node_range n = Some r ->
  lo <= fst r /\ fst r <= snd r /\ snd r <= len.
Proof.
  induction nodes as [|m nodes IH]; intros lo n r H Hin Hr; [destruct Hin|].
  cbn [sorted_from] in H. destruct Hin as [Hin|Hin].
  - subst m. rewrite Hr in H.
    apply andb_true_iff in H. destruct H as [H H4]. apply andb_true_iff in H. destruct H as [H H3].
    apply andb_true_iff in H. destruct H as [H1 H2].
    apply N.leb_le in H1, H2, H3. lia.
  - destruct (node_range m) as [rm|].
    + apply andb_true_iff in H. destruct H as [H H4]. apply andb_true_iff in H. destruct H as [H H3].
      apply andb_true_iff in H. destruct H as [H1 H2]. apply N.leb_le in H1, H2.
      destruct (IH _ _ _ H4 Hin Hr) as [A [B C]]. lia.
    + eapply IH; eassumption.
Qed.

Definition J (first last : option range) (lo : N) : Prop :=
  match first, last with
  | None, None => True
  | Some f0, Some l0 => fst f0 <= snd l0 /\ snd l0 <= lo
  | _, _ => False
  end.

Lemma overlapping_spec : forall len sel nodes lo first last f l,
  sorted_from len lo nodes = true -> J first last lo ->
  overlapping_aux nodes sel first last = (Some f, Some l) ->
  (forall f0, first = Some f0 -> f = f0) /\
  fst f <= snd l /\
  (forall l0, last = Some l0 -> snd l0 <= snd l) /\
  (forall n r, In n nodes -> node_range n = Some r -> intersects_range r sel = true ->
               snd r <= snd l /\ (first = None -> fst f <= fst r)).
Proof.
  intros len sel. induction nodes as [|n nodes IH]; intros lo first last f l Hs HJ H.
  - cbn [overlapping_aux] in H. inversion H; subst. cbn [J] in HJ.
    split; [intros f0 E; inversion E; reflexivity|]. split; [lia|].
    split; [intros l0 E; inversion E; lia|]. intros n r [].
  - cbn [overlapping_aux] in H. cbn [sorted_from] in Hs.
    destruct (node_range n) as [r|] eqn:Hr.
    + apply andb_true_iff in Hs. destruct Hs as [Hs H4]. apply andb_true_iff in Hs. destruct Hs as [Hs H3].
      apply andb_true_iff in Hs. destruct Hs as [H1 H2]. apply N.leb_le in H1, H2, H3.
      destruct (intersects_range r sel) eqn:Hi.
      * assert (J (match first with Some f0 => Some f0 | None => Some r end) (Some r) (snd r)) as HJ'.
        { destruct first as [f0|], last as [l0|]; cbn [J] in *; try contradiction; lia. }
        destruct (IH _ _ _ _ _ H4 HJ' H) as [A [B [C D]]].
        split.
        { intros f0 E. subst first. apply A. reflexivity. }
        split; [exact B|].
        split.
        { intros l0 E. subst last. specialize (C r eq_refl).
          destruct first as [f0|]; cbn [J] in HJ; [|contradiction]. lia. }
        intros m rm [Hm|Hm] Hrm Him.
        -- subst m. rewrite Hr in Hrm. inversion Hrm; subst rm. split; [apply C; reflexivity|].
           intros E. subst first. rewrite (A r eq_refl). lia.
        -- destruct (D m rm Hm Hrm Him) as [D1 _]. split; [exact D1|].
           intros E. subst first. rewrite (A r eq_refl).
           destruct (sorted_in _ _ _ _ _ H4 Hm Hrm) as [S1 _]. lia.
      * assert (J first last (snd r)) as HJ'.
        { destruct first as [f0|], last as [l0|]; cbn [J] in *; try contradiction; [lia|exact I]. }
        destruct (IH _ _ _ _ _ H4 HJ' H) as [A [B [C D]]].
        split; [exact A|]. split; [exact B|]. split; [exact C|].
        intros m rm [Hm|Hm] Hrm Him.
        -- subst m. rewrite Hr in Hrm. inversion Hrm; subst rm. rewrite Hi in Him. discriminate.
        -- apply (D m rm Hm Hrm Him).
    + destruct (IH _ _ _ _ _ Hs HJ H) as [A [B [C D]]].
      split; [exact A|]. split; [exact B|]. split; [exact C|].
      intros m rm [Hm|Hm] Hrm Him.
      -- subst m. rewrite Hr in Hrm. discriminate.
      -- apply (D m rm Hm Hrm Him).
Qed.

Lemma ov_last_none : forall sel nodes first last x,
  overlapping_aux nodes sel first last = (x, None) -> last = None.
Proof.
  intros sel. induction nodes as [|m ms IH]; intros first last x E; cbn [overlapping_aux] in E.
  - inversion E. reflexivity.
  - destruct (node_range m) as [rm|]; [destruct (intersects_range rm sel)|].
    + specialize (IH _ _ _ E). discriminate.
    + eapply IH; exact E.
    + eapply IH; exact E.
Qed.

Lemma ov_first_none : forall sel nodes first last y,
  overlapping_aux nodes sel first last = (None, y) ->
  first = None /\ forall n r, In n nodes -> node_range n = Some r -> intersects_range r sel = false.
Proof.
  intros sel. induction nodes as [|m ms IH]; intros first last y E; cbn [overlapping_aux] in E.
  - inversion E. split; [reflexivity|]. intros n r [].
  - destruct (node_range m) as [rm|] eqn:Hm.
    + destruct (intersects_range rm sel) eqn:Hi.
      * destruct (IH _ _ _ E) as [G1 _]. destruct first; discriminate.
      * destruct (IH _ _ _ E) as [G1 G2]. split; [exact G1|].
        intros n r [Hn|Hn] Hr; [subst; rewrite Hm in Hr; inversion Hr; subst; exact Hi|apply (G2 n r Hn Hr)].
    + destruct (IH _ _ _ E) as [G1 G2]. split; [exact G1|].
      intros n r [Hn|Hn] Hr; [subst; rewrite Hm in Hr; discriminate|apply (G2 n r Hn Hr)].
Qed.

Lemma ov_first_keep : forall sel nodes first last f y,
  overlapping_aux nodes sel first last = (Some f, y) -> y = None -> first = Some f.
Proof.
  intros sel. induction nodes as [|m ms IH]; intros first last f y E Hy; cbn [overlapping_aux] in E.
  - inversion E. reflexivity.
  - subst y. destruct (node_range m) as [rm|]; [destruct (intersects_range rm sel)|].
    + pose proof (ov_last_none _ _ _ _ _ E) as G. discriminate.
    + eapply IH; [exact E|reflexivity].
    + eapply IH; [exact E|reflexivity].
Qed.

Lemma ov_last_le : forall len sel nodes lo first last f l,
  sorted_from len lo nodes = true -> (forall l0, last = Some l0 -> snd l0 <= len) ->
  overlapping_aux nodes sel first last = (f, Some l) -> snd l <= len.
Proof.
  intros len sel. induction nodes as [|m ms IH]; intros lo first last f l Hs Hl E; cbn [overlapping_aux] in E.
  - inversion E; subst. apply Hl. reflexivity.
  - cbn [sorted_from] in Hs. destruct (node_range m) as [rm|] eqn:Hm.
    + apply andb_true_iff in Hs. destruct Hs as [Hs H4]. apply andb_true_iff in Hs. destruct Hs as [Hs H3].
      apply N.leb_le in H3.
      destruct (intersects_range rm sel).
      * eapply IH; [exact H4| |exact E]. intros l0 E1. inversion E1; subst. exact H3.
      * eapply IH; [exact H4|exact Hl|exact E].
    + eapply IH; [exact Hs|exact Hl|exact E].
Qed.

(** on ordered siblings [find_overlapping_slice] never panics, and its result covers every
    sibling the selection intersects *)
Lemma overlapping_covers : forall len sel nodes, sorted_from len 0 nodes = true ->
  match find_overlapping_slice nodes sel with
  | Val R => fst R <= snd R /\ snd R <= len /\
             (forall n r, In n nodes -> node_range n = Some r -> intersects_range r sel = true -> contains_range R r = true)
  | Nothing => forall n r, In n nodes -> node_range n = Some r -> intersects_range r sel = false
  | Panic => False
  end.
Proof.
  intros len sel nodes Hs. unfold find_overlapping_slice.
  destruct (overlapping_aux nodes sel None None) as [[f|] [l|]] eqn:E.
  - destruct (overlapping_spec len sel nodes 0 None None f l Hs I E) as [A [B [C D]]].
    destruct (N.leb_spec (fst f) (snd l)) as [L|L]; [|lia].
    cbn [fst snd]. split; [exact L|]. split.
    + eapply ov_last_le; [exact Hs| |exact E]. intros l0 E0. discriminate.
    + intros n r H1 H2 H3. destruct (D n r H1 H2 H3) as [D1 D2]. specialize (D2 eq_refl).
      unfold contains_range. cbn [fst snd]. apply andb_true_iff. split; apply N.leb_le; assumption.
  - pose proof (ov_first_keep _ _ _ _ _ _ E eq_refl) as G. discriminate.
  - apply (ov_first_none _ _ _ _ _ E).
  - apply (ov_first_none _ _ _ _ _ E).
Qed.

(** * the layout tree *)

Section LnodeInd.
  Variable P : lnode -> Prop.
  Variable PL : list lnode -> Prop.
  Hypothesis H_node : forall r sy bl ch, PL ch -> P (LNode r sy bl ch).
  Hypothesis H_nil : PL [].
  Hypothesis H_cons : forall n l, P n -> PL l -> PL (n :: l).
  Fixpoint lnode_ind2 (n : lnode) : P n :=
    match n with
    | LNode r sy bl ch =>
        H_node r sy bl ch ((fix go (l : list lnode) : PL l :=
                              match l with [] => H_nil | c :: rest => H_cons c rest (lnode_ind2 c) (go rest) end) ch)
    end.
  Fixpoint lnodes_ind2 (l : list lnode) : PL l :=
    match l with [] => H_nil | c :: rest => H_cons c rest (lnode_ind2 c) (lnodes_ind2 rest) end.
End LnodeInd.

Lemma wf_node_unfold : forall len r sy bl ch,
  wf_node len (LNode r sy bl ch) = sorted_from len 0 ch && wf_list len ch.
Proof.
  intros. cbn [wf_node]. f_equal.
  induction ch as [|c ch IH]; [reflexivity|]. cbn [wf_list]. rewrite <- IH. reflexivity.
Qed.

Lemma deepest_node_unfold : forall r sy bl ch sel,
  deepest_node (LNode r sy bl ch) sel =
  if negb sy then Nothing
  else match r with
       | None => Nothing
       | Some nr =>
           if negb (contains_range nr sel) then Nothing
           else match deepest_list ch sel with
                | Nothing => if bl then find_overlapping_slice ch sel else Nothing
                | x => x
                end
       end.
Proof.
  intros. cbn [deepest_node]. destruct (negb sy); [reflexivity|]. destruct r as [nr|]; [|reflexivity].
  destruct (negb (contains_range nr sel)); [reflexivity|].
  match goal with |- match ?A with _ => _ end = match ?B with _ => _ end => assert (A = B) as E end.
  { clear. induction ch as [|c ch IH]; [reflexivity|]. cbn [deepest_list]. rewrite <- IH. reflexivity. }
  rewrite E. reflexivity.
Qed.

(** what a deepest-block slice is: the overlapping slice of an ordered sibling list one can reach
    from [nodes] through syntax nodes containing the selection *)
Definition DeepOk (len : N) (sel : range) (nodes : list lnode) (R : range) : Prop :=
  exists lvl, Level sel nodes lvl /\ sorted_from len 0 lvl = true /\ find_overlapping_slice lvl sel = Val R.

Lemma deepest_spec : forall len sel,
  (forall n, wf_node len n = true ->
     match deepest_node n sel with
     | Val R => exists r sy bl ch, n = LNode (Some r) sy bl ch /\ contains_range r sel = true /\ DeepOk len sel ch R
     | Nothing => True
     | Panic => False
     end).
Proof.
  intros len sel.
  apply (lnode_ind2
           (fun n => wf_node len n = true ->
              match deepest_node n sel with
              | Val R => exists r sy bl ch, n = LNode (Some r) sy bl ch /\ contains_range r sel = true /\ DeepOk len sel ch R
              | Nothing => True
              | Panic => False
              end)
           (fun l => wf_list len l = true ->
              match deepest_list l sel with
              | Val R => exists n r sy bl ch, In n l /\ n = LNode (Some r) sy bl ch /\ contains_range r sel = true /\ DeepOk len sel ch R
              | Nothing => True
              | Panic => False
              end)).
  - intros r sy bl ch IH Hwf. rewrite wf_node_unfold in Hwf. apply andb_true_iff in Hwf. destruct Hwf as [Hs Hw].
    rewrite deepest_node_unfold. destruct sy; cbn [negb]; [|exact I].
    destruct r as [nr|]; [|exact I].
    destruct (contains_range nr sel) eqn:Hc; cbn [negb]; [|exact I].
    specialize (IH Hw). destruct (deepest_list ch sel) as [R| |].
    + destruct IH as [n [r [sy [bl' [ch' [Hin [Hn [Hcr [lvl [L1 [L2 L3]]]]]]]]]]].
      exists nr, true, bl, ch. split; [reflexivity|]. split; [exact Hc|].
      exists lvl. split; [|split; assumption]. subst n. eapply Level_down; eassumption.
    + destruct bl; [|exact I].
      pose proof (overlapping_covers len sel ch Hs) as Ho.
      destruct (find_overlapping_slice ch sel) as [R| |] eqn:Eo; [|exact I|exact Ho].
      exists nr, true, true, ch. split; [reflexivity|]. split; [exact Hc|].
      exists ch. split; [apply Level_here|]. split; [exact Hs|exact Eo].
    + exact IH.
  - intros _. exact I.
  - intros n l IHn IHl Hwf. cbn [wf_list] in Hwf. apply andb_true_iff in Hwf. destruct Hwf as [Hw1 Hw2].
    cbn [deepest_list]. specialize (IHn Hw1). specialize (IHl Hw2).
    destruct (deepest_node n sel) as [R| |].
    + destruct IHn as [r [sy [bl [ch [Hn [Hc Hd]]]]]].
      exists n, r, sy, bl, ch. split; [left; reflexivity|]. split; [exact Hn|]. split; assumption.
    + destruct (deepest_list l sel) as [R| |]; [|exact I|exact IHl].
      destruct IHl as [m [r [sy [bl [ch [Hin [Hm [Hc Hd]]]]]]]].
      exists m, r, sy, bl, ch. split; [right; exact Hin|]. split; [exact Hm|]. split; assumption.
    + exact IHn.
Qed.

Lemma deepest_list_spec : forall len sel nodes, wf_list len nodes = true ->
  match deepest_list nodes sel with
  | Val R => exists n r sy bl ch, In n nodes /\ n = LNode (Some r) sy bl ch /\ contains_range r sel = true /\ DeepOk len sel ch R
  | Nothing => True
  | Panic => False
  end.
Proof.
  intros len sel. induction nodes as [|n l IH]; intros Hwf; [exact I|].
  cbn [wf_list] in Hwf. apply andb_true_iff in Hwf. destruct Hwf as [Hw1 Hw2].
  cbn [deepest_list]. pose proof (deepest_spec len sel n Hw1) as Hn. specialize (IH Hw2).
  destruct (deepest_node n sel) as [R| |].
  - destruct Hn as [r [sy [bl [ch [Hn [Hc Hd]]]]]].
    exists n, r, sy, bl, ch. split; [left; reflexivity|]. split; [exact Hn|]. split; assumption.
  - destruct (deepest_list l sel) as [R| |]; [|exact I|exact IH].
    destruct IH as [m [r [sy [bl [ch [Hin [Hm [Hc Hd]]]]]]]].
    exists m, r, sy, bl, ch. split; [right; exact Hin|]. split; [exact Hm|]. split; assumption.
  - exact Hn.
Qed.

(** * select_format_range *)

Definition Covers (sel R : range) (lvl : list lnode) : Prop :=
  forall n r, In n lvl -> node_range n = Some r -> intersects_range r sel = true -> contains_range R r = true.

Lemma contains_trans_expand : forall t R0 r, fst R0 <= snd R0 -> snd R0 <= blen_t t ->
  contains_range R0 r = true -> contains_range (expand_to_full_lines t R0) r = true.
Proof.
  intros t R0 r H1 H2 Hc. destruct (expand_spec t R0 H1) as [_ [_ [_ [_ [E1 E2]]]]].
  unfold contains_range in *. apply andb_true_iff in Hc. destruct Hc as [C1 C2].
  apply N.leb_le in C1, C2. apply andb_true_iff. split; apply N.leb_le; lia.
Qed.

Lemma select_spec : forall t nodes sel,
  wf_plan (blen_t t) nodes = true -> fst sel <= snd sel -> snd sel <= blen_t t ->
  exists R, select_format_range t nodes sel = Val R /\
    fst R <= snd R /\ snd R <= blen_t t /\
    line_aligned t (fst R) = true /\ (line_aligned t (snd R) = true \/ snd R = blen_t t) /\
    ((exists lvl, Level sel nodes lvl /\ Covers sel R lvl) \/
     ((forall n r, In n nodes -> node_range n = Some r -> intersects_range r sel = false) /\ contains_range R sel = true)).
Proof.
  intros t nodes sel Hwf Hsel1 Hsel2. unfold wf_plan in Hwf. apply andb_true_iff in Hwf. destruct Hwf as [Hs Hw].
  unfold select_format_range.
  pose proof (deepest_list_spec (blen_t t) sel nodes Hw) as Hd.
  assert (forall R0 lvl, fst R0 <= snd R0 -> snd R0 <= blen_t t -> Level sel nodes lvl -> Covers sel R0 lvl ->
            exists R, Val (expand_to_full_lines t R0) = Val R /\
              fst R <= snd R /\ snd R <= blen_t t /\
              line_aligned t (fst R) = true /\ (line_aligned t (snd R) = true \/ snd R = blen_t t) /\
              ((exists lvl, Level sel nodes lvl /\ Covers sel R lvl) \/
               ((forall n r, In n nodes -> node_range n = Some r -> intersects_range r sel = false) /\ contains_range R sel = true))) as K.
  { intros R0 lvl H1 H2 HL HC. exists (expand_to_full_lines t R0). split; [reflexivity|].
    destruct (expand_spec t R0 H1) as [A [B [C [D [E F]]]]].
    split; [exact A|]. split; [exact B|]. split; [apply line_aligned_iff; exact C|].
    split; [destruct D as [D|D]; [right; exact D|left; apply line_aligned_iff; exact D]|].
    left. exists lvl. split; [exact HL|]. intros n r Hn Hr Hi. apply contains_trans_expand; try assumption.
    apply (HC n r Hn Hr Hi). }
  destruct (deepest_list nodes sel) as [R0| |].
  - destruct Hd as [n [r [sy [bl [ch [Hin [Hn [Hc [lvl [L1 [L2 L3]]]]]]]]]]].
    pose proof (overlapping_covers (blen_t t) sel lvl L2) as Ho. rewrite L3 in Ho. destruct Ho as [O1 [O2 O3]].
    apply (K R0 lvl O1 O2); [|exact O3]. subst n. eapply Level_down; eassumption.
  - pose proof (overlapping_covers (blen_t t) sel nodes Hs) as Ho.
    destruct (find_overlapping_slice nodes sel) as [R0| |].
    + destruct Ho as [O1 [O2 O3]]. apply (K R0 nodes O1 O2); [apply Level_here|exact O3].
    + exists (expand_to_full_lines t sel). split; [reflexivity|].
      destruct (expand_spec t sel Hsel1) as [A [B [C [D [E F]]]]].
      split; [exact A|]. split; [exact B|]. split; [apply line_aligned_iff; exact C|].
      split; [destruct D as [D|D]; [right; exact D|left; apply line_aligned_iff; exact D]|].
      right. split; [exact Ho|]. unfold contains_range. apply andb_true_iff. split; apply N.leb_le; lia.
    + destruct Ho.
  - destruct Hd.
Qed.

(** * splice *)

Lemma splice_spec : forall t r new, fst r <= snd r -> snd r <= blen_t t ->
  firstn (N.to_nat (fst r)) (splice t r new) = firstn (N.to_nat (fst r)) t /\
  skipn (N.to_nat (fst r) + length new) (splice t r new) = skipn (N.to_nat (snd r)) t.
Proof.
  intros t [a b] new H1 H2. cbn [fst snd] in *. unfold splice. cbn [fst snd]. unfold blen_t in H2.
  assert (length (firstn (N.to_nat a) t) = N.to_nat a) as L by (apply firstn_length_le; lia).
  split.
  - rewrite firstn_app. rewrite L, Nat.sub_diag. cbn [firstn]. rewrite app_nil_r.
    apply firstn_all2. lia.
  - rewrite skipn_app. rewrite L.
    replace (N.to_nat a + length new - N.to_nat a)%nat with (length new) by lia.
    rewrite (skipn_all2 (firstn (N.to_nat a) t)) by lia. cbn [app].
    rewrite skipn_app. rewrite Nat.sub_diag. cbn [skipn]. rewrite skipn_all. reflexivity.
Qed.
