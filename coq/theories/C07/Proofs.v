(** C07/Proofs.v — assembly of the property theorems. *)
From EV Require Import C07.Model C07.RangeFacts C07.IndentFacts.
Local Open Scope N_scope.

Lemma selected_covers : forall (t : bytes_t) (nodes : list lnode) (sel0 : range),
  wf_plan (blen_t t) nodes = true ->
  let sel := clamp_range sel0 (blen_t t) in
  exists R, select_format_range t nodes sel = Val R /\
    fst R <= snd R /\ snd R <= blen_t t /\
    line_aligned t (fst R) = true /\ (line_aligned t (snd R) = true \/ snd R = blen_t t) /\
    ((exists lvl, Level sel nodes lvl /\
        forall n r, In n lvl -> node_range n = Some r -> intersects_range r sel = true -> contains_range R r = true) \/
     ((forall n r, In n nodes -> node_range n = Some r -> intersects_range r sel = false) /\ contains_range R sel = true)).
Proof.
  intros t nodes sel0 Hwf sel. destruct (clamp_ok sel0 (blen_t t)) as [H1 H2].
  apply (select_spec t nodes sel Hwf H1 H2).
Qed.

Lemma splice_outside_untouched : forall (t : bytes_t) (r : range) (new : bytes_t),
  fst r <= snd r -> snd r <= blen_t t ->
  firstn (N.to_nat (fst r)) (splice t r new) = firstn (N.to_nat (fst r)) t /\
  skipn (N.to_nat (fst r) + length new) (splice t r new) = skipn (N.to_nat (snd r)) t.
Proof. exact splice_spec. Qed.

Lemma reindent_changes_only_leading_blank : forall x p q, all_blank p = true -> all_blank q = true ->
  ltrim_lines (apply_base_indent (strip_base_indent x q) p) = ltrim_lines x.
Proof. exact reindent_ltrim. Qed.

Lemma reindent_roundtrip : forall x p q, all_blank p = true -> all_blank q = true ->
  nonblank_b (apply_base_indent (strip_base_indent x q) p) = nonblank_b x.
Proof. exact reindent_nonblank. Qed.

(** "    local s = [[a" / "b]]": the continuation line of the long string gets the base indent *)
Definition witness : bytes_t :=
  [32;32;32;32;108;111;99;97;108;32;115;32;61;32;91;91;97;10;98;93;93;10].

Lemma reindent_preserves_tokens_refuted :
  exists x p q, all_blank p = true /\ all_blank q = true /\
    long_bodies (apply_base_indent (strip_base_indent x q) p) false [] <> long_bodies x false [].
Proof.
  exists witness, [32;32;32;32], [32;32;32;32].
  split; [reflexivity|]. split; [reflexivity|]. vm_compute. discriminate.
Qed.

(** * example: a document of three lines, a plan with a block, every selection class *)
Definition ex_text : bytes_t :=
  (* "do\n  x = 1\nend\ny = 2" *)
  [100;111;10;32;32;120;32;61;32;49;10;101;110;100;10;121;32;61;32;50].
Definition ex_plan : list lnode :=
  [LNode (Some (0, 14)) true false [LNode (Some (5, 10)) true true [LNode (Some (5, 10)) true false []]];
   LNode (Some (15, 20)) true false []].

Lemma range_example :
  wf_plan (blen_t ex_text) ex_plan = true /\
  (* inside the block statement: the statement's line *)
  select_format_range ex_text ex_plan (clamp_range (7, 7) 20) = Val (3, 11) /\
  (* partial token of the second root statement *)
  select_format_range ex_text ex_plan (clamp_range (16, 17) 20) = Val (15, 20) /\
  (* beyond the end: clamped to the empty range at the end, which touches the last statement *)
  select_format_range ex_text ex_plan (clamp_range (40, 90) 20) = Val (15, 20) /\
  (* whole document *)
  select_format_range ex_text ex_plan (clamp_range (0, 20) 20) = Val (0, 20) /\
  strip_base_indent [32;32;97;10;32;98;10;10] [32;32] = [97;10;32;98;10;10] /\
  apply_base_indent [97;10;10;98] [9] = [9;97;10;10;9;98].
Proof. vm_compute. repeat split; reflexivity. Qed.
