(** C41/Proofs.v *)
From Coq Require Import List NArith Bool Arith.
From EV Require Import C15.Model C15.Shape C15.TypeFacts C15.Sound C15.Proofs C41.Model.
Import ListNotations.

Lemma has_has_tag : forall v t, has v t = true -> has_tag (tag_of v) t = true.
Proof.
  intros v t Hh. unfold has_tag. apply existsb_exists. exists v. split.
  - destruct v; cbn; tauto.
  - rewrite Hh. destruct v; reflexivity.
Qed.

Theorem loop_exit_sound_outside_known : forall p x o fuel oc env' pos' tr,
  known_var p x = false ->
  run o fuel p = (oc, env', pos', tr) ->
  forall id v, In (id, x, v, false) tr ->
    exists t, In (id, false, t) (infer_var p x) /\ has v t = true /\ has_tag (tag_of v) t = true.
Proof.
  intros p x o fuel oc env' pos' tr Hk Hrun id v Hin. unfold known_var in Hk. apply negb_false_iff in Hk.
  destruct (run_sound p x o fuel oc env' pos' tr Hk Hrun id v Hin) as [t [Ht Hh]].
  exists t. split; [exact Ht|]. split; [exact Hh | apply has_has_tag; exact Hh].
Qed.

(** the refutations: a run that reaches the probe with a value whose type tag no inferred type at that probe contains *)
Definition refutes (p : prog) (x : nat) (l : list bool) (fuel : nat) (id : N) (v : atom) : Prop :=
  known_var p x = true /\
  In (id, x, v, false) (snd (run (oracle_of l) fuel p)) /\
  fst (fst (fst (run (oracle_of l) fuel p))) = ONormal /\
  forall t, In (id, false, t) (infer_var p x) -> has_tag (tag_of v) t = false.

Lemma while_exit_refuted : refutes witness_while 0 [] 5 0%N AStr.
Proof.
  unfold refutes. split; [vm_compute; reflexivity|]. split; [vm_compute; left; reflexivity|]. split; [vm_compute; reflexivity|].
  intros t H. vm_compute in H. destruct H as [H|[]]. inversion H; subst. reflexivity.
Qed.

Lemma first_pass_refuted : refutes witness_first_pass 0 [] 5 0%N AStr.
Proof.
  unfold refutes. split; [vm_compute; reflexivity|]. split; [vm_compute; left; reflexivity|]. split; [vm_compute; reflexivity|].
  intros t H. vm_compute in H. destruct H as [H|[]]. inversion H; subst. reflexivity.
Qed.

Lemma repeat_break_refuted : refutes witness_repeat_break 0 [false; true] 5 0%N ATrue.
Proof.
  unfold refutes. split; [vm_compute; reflexivity|]. split; [vm_compute; left; reflexivity|]. split; [vm_compute; reflexivity|].
  intros t H. vm_compute in H. destruct H as [H|[]]. inversion H; subst. reflexivity.
Qed.

(** non-vacuity of the positive theorem: a program with all four loop forms and breaks that is outside the known class, with
    a probe after the loops whose inferred type is exactly what the executions produce *)
Definition example_loops : prog :=
  {| decls := [LNil; LInt 1];
     body := BCons (SWhileTrue (BCons (SAssign 0 (LStr 0)) (BCons (SBreakIf (COpq 0) BNil) (BCons (SAssign 0 (LTable 0)) BNil))))
            (BCons (SFor 1 2 (BCons (SIf (COpq 1) (BCons (SAssign 1 LNil) BNil) RNone) BNil))
            (BCons (SRepeat (BCons (SProbe 0 1) BNil) (CNeNil 0))
            (BCons (SWhile (CVar 1) (BCons (SProbe 1 0) (BCons (SBreakIf (COpq 2) BNil) BNil)))
            (BCons (SProbe 2 0) (BCons (SProbe 3 1) BNil))))) |}.

Lemma loops_example :
  let p := example_loops in
  known_var p 0 = false /\ known_var p 1 = false /\
  map (fun '(id, il, t) => (id, il, map (fun v => has v t) [ANil; ANum; AStr; ATab])) (infer_var p 0 ++ infer_var p 1) =
    [(1%N, true, [false; false; true; true]); (2%N, false, [false; false; true; true]);
     (0%N, true, [true; true; false; false]); (3%N, false, [true; true; false; false])] /\
  map (fun '(id, _, v, il) => (id, v, il)) (snd (run (oracle_of [false; true; false; false; true]) 5 p)) =
    [(0%N, ANum, true); (1%N, AStr, true); (2%N, AStr, false); (3%N, ANum, false)].
Proof. vm_compute. repeat split; reflexivity. Qed.
