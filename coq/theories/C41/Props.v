(** C41/Props.v — property theorems only.

    The loop fragment: F of C15 plus [while c], [while true], [repeat .. until c], numeric [for] with literal bounds and
    [if c then .. break end]; the semantics [run] bounds every loop execution by [fuel] iterations (a run that exhausts it
    ends with [OStop false]; its trace is the prefix executed so far, so the statements below hold for such prefixes too;
    the same goes for runs ended by a failed assert, an error or a return, [OStop true]).
    Events carry a flag: [false] for probes that are not inside a loop body — the points "after a loop" C41 speaks about.

    The full statement — the target once the analyzer is repaired —

      loop_exit_sound : forall p x o fuel oc env' pos' tr,
        run o fuel p = (oc, env', pos', tr) ->
        forall id v, In (id, x, v, false) tr ->
          exists t, In (id, false, t) (infer_var p x) /\ has v t = true /\ has_tag (tag_of v) t = true

    is false of the faithful model because the code violates the property (refutations below; each is replayed on the real
    analyzer by the check).  What is proved is the same statement outside the decidable class [known_var]. *)
From Coq Require Import List NArith Bool Arith.
From EV Require Import C15.Model C15.Shape C41.Model C41.Proofs.
Import ListNotations.

(** Outside the known class, the type inferred for [x] at a point after the loops contains the type of every value [x] can
    hold there: every type a loop body can assign, and the pre-loop type when the body may run zero times. *)
Theorem loop_exit_sound_outside_known : forall p x o fuel oc env' pos' tr,
  known_var p x = false ->
  run o fuel p = (oc, env', pos', tr) ->
  forall id v, In (id, x, v, false) tr ->
    exists t, In (id, false, t) (infer_var p x) /\ has v t = true /\ has_tag (tag_of v) t = true.
Proof. exact Proofs.loop_exit_sound_outside_known. Qed.

(** [local x0 = nil; while not x0 do x0 = 's0' end; probe(x0)] terminates with a string in [x0]; the inferred type at the
    probe is [nil]. *)
Theorem while_exit_refuted : refutes witness_while 0 [] 5 0%N AStr.
Proof. exact Proofs.while_exit_refuted. Qed.

(** [local x0 = nil; for i = 1, 2 do if x0 == nil then x0 = 1 else x0 = 's0' end end; probe(x0)]: string at run time,
    [integer] inferred (only the first pass over the body is analysed). *)
Theorem first_pass_refuted : refutes witness_first_pass 0 [] 5 0%N AStr.
Proof. exact Proofs.first_pass_refuted. Qed.

(** [local x0 = 1; repeat if c0 then break end; x0 = true until type(x0) == "nil"; probe(x0)] with c0 = false, true:
    boolean at run time, [integer?] inferred (a break in a later iteration is not accounted for). *)
Theorem repeat_break_refuted : refutes witness_repeat_break 0 [false; true] 5 0%N ATrue.
Proof. exact Proofs.repeat_break_refuted. Qed.

(** non-vacuity of [loop_exit_sound_outside_known] *)
Example loops_example :
  let p := Proofs.example_loops in
  known_var p 0 = false /\ known_var p 1 = false /\
  map (fun '(id, il, t) => (id, il, map (fun v => has v t) [ANil; ANum; AStr; ATab])) (infer_var p 0 ++ infer_var p 1) =
    [(1%N, true, [false; false; true; true]); (2%N, false, [false; false; true; true]);
     (0%N, true, [true; true; false; false]); (3%N, false, [true; true; false; false])] /\
  map (fun '(id, _, v, il) => (id, v, il)) (snd (run (oracle_of [false; true; false; false; true]) 5 p)) =
    [(0%N, ANum, true); (1%N, AStr, true); (2%N, AStr, false); (3%N, ANum, false)].
Proof. exact Proofs.loops_example. Qed.
