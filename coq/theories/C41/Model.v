(** C41/Model.v — the loop fragment reuses the syntax, the semantics (A) and the inference (B) of C15/Model.v
    ([SWhile], [SWhileTrue], [SRepeat], [SFor], [SBreakIf]); this file only names the class of programs on which
    the analyzer is known to be unsound, and the witnesses.  Definitions only. *)
From Coq Require Import List NArith Bool Arith.
From EV Require Import C15.Model C15.Shape.
Import ListNotations.

(** [known_var p x]: the program contains a loop whose exit the analyzer gets wrong for variable [x]
    (see [ok_loops_s] in C15/Shape.v):
      (K1) a [while] with a non-literal condition whose body assigns [x]
           (bind_while_stat returns the pre-loop flow: the body's assignments are dropped after the loop);
      (K2) a [while true] / entered numeric [for] / [repeat] whose body both assigns [x] and tests [x]
           (the body is analysed once, from the state before the loop: what a later iteration sees is not accounted for);
      (K3) a [repeat] whose body assigns [x] and contains a [break] of that loop
           (the end of the body is not merged into the flow after a [repeat], so a break taken in a later iteration is missed). *)
Definition known_var (p : prog) (x : nat) : bool := negb (ok_loops_b x (body p)).

(** K1 — the property's own example: [local x0 = nil; while not x0 do x0 = 's0' end; probe(x0)] *)
Definition witness_while : prog :=
  {| decls := [LNil];
     body := BCons (SWhile (CNot (CVar 0)) (BCons (SAssign 0 (LStr 0)) BNil)) (BCons (SProbe 0 0) BNil) |}.

(** K2 — [local x0 = nil; for i = 1, 2 do if x0 == nil then x0 = 1 else x0 = 's0' end end; probe(x0)] *)
Definition witness_first_pass : prog :=
  {| decls := [LNil];
     body := BCons (SFor 1 2 (BCons (SIf (CEqNil 0) (BCons (SAssign 0 (LInt 1)) BNil) (RElse (BCons (SAssign 0 (LStr 0)) BNil))) BNil))
            (BCons (SProbe 0 0) BNil) |}.

(** K3 — [local x0 = 1; repeat if c0 then break end; x0 = true until type(x0) == "nil"; probe(x0)] *)
Definition witness_repeat_break : prog :=
  {| decls := [LInt 1];
     body := BCons (SRepeat (BCons (SBreakIf (COpq 0) BNil) (BCons (SAssign 0 (LBool true)) BNil)) (CType 0 TgNil))
            (BCons (SProbe 0 0) BNil) |}.
