(** C16/Spec.v — the notions the theorems of C16/C12 are stated with (definitions only). *)
From Coq Require Import Relations.
From EV Require Import C16.Model.
Local Open Scope N_scope.

(** no two members of a union have the same hash key (what [LuaType::from_vec] / [Vec::contains]
    guarantee for the unions the analyzer builds) *)
Fixpoint hnodup (l : list ty) : bool :=
  match l with
  | [] => true
  | x :: r => negb (existsb (hkey_eqb x) r) && hnodup r
  end.

(** ["..."] only names the last parameter *)
Fixpoint dots_last (ps : list (N * option ty)) : bool :=
  match ps with
  | [] => true
  | [_] => true
  | p :: r => negb (fst p =? pn_dots) && dots_last r
  end.

(** [fits G n t]: [t] is a well-formed type of height at most [n], where following an alias to its
    origin counts as one level: every named type is declared, every alias has an origin, [self]
    does not occur, a union has at least two members and they have distinct hash keys, ["..."] is the last parameter.
    A type that mentions a recursive alias fits no [n]. *)
Fixpoint fits (G : world) (n : nat) (t : ty) {struct n} : bool :=
  match t with
  | TBasic b => negb (basic_eqb b BSelfInfer)
  | TBoolConst _ _ | TStrConst _ _ | TIntConst _ _ => true
  | TRef id =>
      match get_decl G id with
      | None => false
      | Some d =>
          if is_alias d then
            match d_origin d, n with
            | Some o, S n' => fits G n' o
            | _, _ => false
            end
          else true
      end
  | TArray b => match n with S n' => fits G n' b | O => false end
  | TTuple ts => match n with S n' => forallb (fits G n') ts | O => false end
  | TFunc colon ps _ =>
      match n with
      | S n' => negb colon && forallb (fun p : N * option ty => match snd p with Some t => fits G n' t | None => true end) ps
                && dots_last ps
      | O => false
      end
  | TUnion _ _ ms =>
      match n with
      | S n' => forallb (fits G n') ms && hnodup ms && (2 <=? N.of_nat (length ms))
      | O => false
      end
  end.

(** one unfolding step: a union to one of its members, an alias to its origin *)
Inductive unf (G : world) : ty -> ty -> Prop :=
| unf_member : forall p k ms m, In m ms -> unf G (TUnion p k ms) m
| unf_alias : forall id o, escape_type G (TRef id) = Some o -> unf G (TRef id) o.

Definition unfolds (G : world) : ty -> ty -> Prop := clos_refl_trans ty (unf G).

(** the level budget of a check of [s] against [c] of heights [a] and [b] started at [lvl] *)
Definition within (lvl : N) (a b : nat) : Prop :=
  lvl + 2 * N.of_nat (a + b) + 2 <= MAX_TYPE_CHECK_LEVEL.

(** nested arrays *)
Fixpoint nest (n : nat) (t : ty) : ty := match n with O => t | S n' => TArray (nest n' t) end.

(** a chain of classes [base+1 : base], [base+2 : base+1], ... *)
Fixpoint chain_world (base : N) (n : nat) : world :=
  match n with
  | O => [(base, {| d_kind := DClass; d_supers := []; d_origin := None |})]
  | S n' => (base + N.of_nat n, {| d_kind := DClass; d_supers := [TRef (base + N.of_nat n')]; d_origin := None |})
            :: chain_world base n'
  end.

(** escape count of the compact type: how many aliases are peeled before the dispatch *)
Fixpoint escapes_within (G : world) (n : nat) (t : ty) : bool :=
  match escape_type G t with
  | None => true
  | Some o => match n with O => false | S n' => escapes_within G n' o end
  end.

(** members of two results cover each other up to the implementation's own equalities *)
Definition sim (a b : ty) : Prop := req a b = true \/ req b a = true \/ hkey_eqb a b = true \/ hkey_eqb b a = true \/ a = b.
Definition covers (l : list ty) (t : ty) : Prop := exists y, In y l /\ sim y t.

(** the height up to which the proofs cover a check started at level 0: [within 0 h h] *)
Definition guard_height : nat := N.to_nat ((MAX_TYPE_CHECK_LEVEL - 2) / 4).

(** the class of types the laws are not proved for (and for which the recursion guard can refuse):
    deeper than [guard_height] counting alias unfolding (in particular: mentioning a recursive alias),
    or ill-formed (undeclared name, alias without origin, [self], colon-defined function, duplicate or
    single union members, ["..."] before the last parameter) *)
Definition known (G : world) (t : ty) : bool := negb (fits G guard_height t).

Definition cfg_default : cfg := {| strict_array_index := true; doc_base_const_match_base_type := true |}.

Definition alias_decl (o : ty) : decl := {| d_kind := DAlias; d_supers := []; d_origin := Some o |}.
Definition class_decl (sups : list ty) : decl := {| d_kind := DClass; d_supers := sups; d_origin := None |}.

(** [base + n] is an alias of [base + n - 1] ... of [base], an alias of [string] *)
Fixpoint alias_chain (base : N) (n : nat) : world :=
  match n with
  | O => [(base, alias_decl (TBasic BString))]
  | S n' => (base + N.of_nat n, alias_decl (TRef (base + N.of_nat n'))) :: alias_chain base n'
  end.

(** two results have the same members, up to the implementation's own equalities ([==] or same hash) *)
Definition mem_cover (a b : ty) : Prop :=
  (forall x, In x (members a) -> covers (members b) x) /\ (forall x, In x (members b) -> covers (members a) x).
