(** C16/UnionLaw.v — law 5 on the structural fast path: [from_vec] of a batch that
    [can_use_structural_union] accepts has the same members as the one-at-a-time union. *)
From EV Require Import C16.Model C16.Spec C16.UnionProofs.
Local Open Scope N_scope.

(** ** what the flags record *)

Definition plain (t : ty) : bool :=
  match t with TUnion _ _ _ | TRef _ | TFunc _ _ _ => false | _ => true end.

Definition marks (f : sflags) (x : ty) : Prop :=
  match x with
  | TBasic BNumber => f_number f = true
  | TBasic BInteger => f_integer f = true /\ f_number_variant f = true
  | TIntConst _ _ => f_integer_const f = true /\ f_number_variant f = true
  | TBasic BString => f_string f = true
  | TStrConst _ _ => f_string_const f = true
  | TBasic BBoolean => f_boolean f = true
  | TBoolConst _ _ => 1 <= f_boolean_consts f
  | _ => True
  end.

Lemma step_plain : forall f x f', sflags_step f x = Some f' -> plain x = true.
Proof. intros f x f' H. destruct x; try reflexivity; discriminate. Qed.

Lemma step_marks_self : forall f x f', sflags_step f x = Some f' -> marks f' x.
Proof.
  intros f x f' H. destruct x as [b| | | | | | | |]; try discriminate; cbn [marks].
  - destruct b; cbn [sflags_step] in H; inversion H; subst; cbn; auto.
  - cbn [sflags_step] in H. inversion H; subst. cbn. lia.
  - cbn [sflags_step] in H. inversion H; subst. cbn. auto.
  - cbn [sflags_step] in H. inversion H; subst. cbn. auto.
  - exact I.
  - exact I.
Qed.

Lemma step_marks_mono : forall f x f' y, sflags_step f x = Some f' -> marks f y -> marks f' y.
Proof.
  intros f x f' y H Hy.
  destruct x as [b| | | | | | | |]; try discriminate; cbn [sflags_step] in H;
    try (destruct b); inversion H; subst; clear H;
    destruct y as [c| | | | | | | |]; try exact I; try (destruct c); cbn [marks] in *; cbn; try tauto; try lia.
Qed.

Lemma step_boolconst_count : forall f d v f', sflags_step f (TBoolConst d v) = Some f' ->
  f_boolean_consts f' = f_boolean_consts f + 1.
Proof. intros f d v f' H. cbn [sflags_step] in H. inversion H; subst. reflexivity. Qed.

(** the pairwise rules of [union_type_impl] that rewrite a pair of different plain types *)
Definition absorbs (x y : ty) : bool :=
  (is_b BInteger x && is_int_const y) || (is_int_const x && is_b BInteger y)
  || (is_b BNumber x && is_number y && negb (is_b BNumber y))
  || (is_b BNumber y && is_number x && negb (is_b BNumber x))
  || (is_b BString x && is_str_const y) || (is_str_const x && is_b BString y)
  || (is_b BBoolean x && is_boolean y && negb (is_b BBoolean y))
  || (is_b BBoolean y && is_boolean x && negb (is_b BBoolean x))
  || (match x, y with TBoolConst _ _, TBoolConst _ _ => true | _, _ => false end).

Lemma bad_absorbs : forall f x y, marks f x -> marks f y -> sflags_bad f = false ->
  (forall d1 v1 d2 v2, x = TBoolConst d1 v1 -> y = TBoolConst d2 v2 -> 2 <= f_boolean_consts f) ->
  absorbs x y = false.
Proof.
  intros f x y Hx Hy Hb Hbb. unfold sflags_bad in Hb.
  repeat (apply orb_false_iff in Hb; destruct Hb as [Hb ?]).
  destruct x as [b| | | | | | | |]; try (destruct b);
    destruct y as [c| | | | | | | |]; try (destruct c); try reflexivity; cbn [marks] in Hx, Hy;
    exfalso;
    repeat match goal with
           | H : _ /\ _ |- _ => destruct H
           | H : (_ && _)%bool = false |- _ => apply andb_false_iff in H
           end;
    try (specialize (Hbb _ _ _ _ eq_refl eq_refl));
    repeat match goal with
           | H : _ \/ _ |- _ => destruct H
           | H : (?a <? ?b) = false |- _ => apply N.ltb_ge in H
           end; try congruence; try lia.
Qed.

(** an accepted batch: every element is plain, elements recorded before do not absorb with its
    elements, nor do two of its elements *)
Lemma structural_pairs : forall l f E, can_use_structural_from f l = true ->
  (forall e, In e E -> marks f e) ->
  (forall x, In x l -> plain x = true) /\
  (forall e y, In e E -> In y l -> absorbs e y = false) /\
  (forall l1 x l2 y l3, l = l1 ++ x :: l2 ++ y :: l3 -> absorbs x y = false).
Proof.
  induction l as [|y r IH]; intros f E H HE.
  - split; [intros x []|]. split; [intros e y _ []|]. intros l1 x l2 y l3 El. destruct l1; discriminate.
  - cbn [can_use_structural_from] in H. destruct (sflags_step f y) as [f'|] eqn:Es; [|discriminate].
    destruct (sflags_bad f') eqn:Eb; [discriminate|].
    assert (HE' : forall e, In e (y :: E) -> marks f' e).
    { intros e [<-|He]; [eapply step_marks_self; exact Es|eapply step_marks_mono; [exact Es|apply HE; exact He]]. }
    destruct (IH f' (y :: E) H HE') as (Hp & Hee & Hpairs).
    assert (HEy : forall e, In e E -> absorbs e y = false).
    { intros e He. apply (bad_absorbs f'); auto.
      - eapply step_marks_mono; [exact Es|apply HE; exact He].
      - eapply step_marks_self; exact Es.
      - intros d1 v1 d2 v2 -> ->. rewrite (step_boolconst_count _ _ _ _ Es).
        pose proof (HE _ He) as Hm. cbn [marks] in Hm. lia. }
    split; [|split].
    + intros x [<-|Hx]; [eapply step_plain; exact Es|apply Hp; exact Hx].
    + intros e z He [<-|Hz]; [apply HEy; exact He|apply Hee; [right; exact He|exact Hz]].
    + intros l1 x l2 z l3 El. destruct l1 as [|a l1'].
      * cbn [app] in El. inversion El; subst. apply Hee; [left; reflexivity|].
        apply in_or_app. right. left. reflexivity.
      * cbn [app] in El. inversion El; subst. eapply Hpairs. reflexivity.
Qed.

(** ** one step of the fold on plain types that do not absorb *)

Lemma impl_plain_pair : forall a t, plain a = true -> plain t = true -> absorbs a t = false ->
  is_b BAny a = false -> is_b BNever a = false -> is_b BAny t = false -> is_b BNever t = false ->
  union_type_impl a a t = if req a t then a else from_vec [a; t].
Proof.
  intros a t Pa Pt Hab Ha1 Ha2 Ht1 Ht2.
  destruct a as [b| | | | | | | |]; try discriminate; try (destruct b; try discriminate);
    destruct t as [c| | | | | | | |]; try discriminate; try (destruct c; try discriminate);
    try reflexivity; try (cbn in Hab; discriminate).
Qed.

(** ** de-duplication of plain lists *)

Lemma plain_not_union : forall t, plain t = true -> is_union t = false.
Proof. destruct t; try reflexivity; discriminate. Qed.

Lemma flat_dedup_plain : forall l seen, (forall x, In x l -> is_union x = false) ->
  flat_dedup l seen = hdedup_acc l seen.
Proof.
  induction l as [|t r IH]; intros seen H; [reflexivity|].
  assert (Ht : is_union t = false) by (apply H; left; reflexivity).
  assert (Hr : forall x, In x r -> is_union x = false) by (intros x Hx; apply H; right; exact Hx).
  destruct t; try discriminate; cbn [flat_dedup hdedup_acc]; destruct (hmem _ seen); rewrite ?IH; auto.
Qed.

Lemma hdedup_acc_sub : forall l seen x, In x (hdedup_acc l seen) -> In x l.
Proof.
  induction l as [|t r IH]; intros seen x H; [destruct H|]. cbn [hdedup_acc] in H.
  destruct (hmem t seen); [right; eapply IH; exact H|].
  destruct H as [<-|H]; [left; reflexivity|right; eapply IH; exact H].
Qed.

Lemma hmem_cons : forall t a seen, hmem t (a :: seen) = (hkey_eqb a t || hmem t seen)%bool.
Proof. reflexivity. Qed.

(** every element is kept or has an earlier element (kept, or seen) with the same hash key *)
Lemma hdedup_acc_cover : forall l seen x, In x l ->
  hmem x seen = true \/ exists y, In y (hdedup_acc l seen) /\ hkey_eqb y x = true.
Proof.
  induction l as [|t r IH]; intros seen x H; [destruct H|]. cbn [hdedup_acc].
  destruct H as [<-|H].
  - destruct (hmem t seen) eqn:E; [left; reflexivity|right]. exists t. split; [left; reflexivity|apply hkey_refl].
  - destruct (hmem t seen) eqn:E.
    + destruct (IH seen x H) as [Hs|(y & Hy & Hk)]; [left; exact Hs|right; exists y; split; assumption].
    + destruct (IH (t :: seen) x H) as [Hs|(y & Hy & Hk)].
      * rewrite hmem_cons in Hs. apply orb_true_iff in Hs. destruct Hs as [Hs|Hs]; [|left; exact Hs].
        right. exists t. split; [left; reflexivity|exact Hs].
      * right. exists y. split; [right; exact Hy|exact Hk].
Qed.

Lemma hdedup_acc_hnodup : forall l seen,
  hnodup (hdedup_acc l seen) = true /\ forall x, In x (hdedup_acc l seen) -> hmem x seen = false.
Proof.
  induction l as [|t r IH]; intros seen; [split; [reflexivity|intros x []]|].
  cbn [hdedup_acc]. destruct (hmem t seen) eqn:E; [apply IH|].
  destruct (IH (t :: seen)) as [Hn Ha]. split.
  - rewrite hnodup_cons. apply andb_true_iff. split; [|exact Hn].
    apply negb_true_iff. apply not_true_iff_false. intros Hex. apply existsb_exists in Hex.
    destruct Hex as (y & Hy & Hk). specialize (Ha y Hy). rewrite hmem_cons in Ha. rewrite Hk in Ha. discriminate.
  - intros x [<-|Hx]; [exact E|]. specialize (Ha x Hx). rewrite hmem_cons in Ha. apply orb_false_iff in Ha. apply Ha.
Qed.

(** a list without duplicate hash keys is left alone *)
Lemma hdedup_acc_id : forall l seen, hnodup l = true -> avoids l seen = true -> hdedup_acc l seen = l.
Proof.
  induction l as [|t r IH]; intros seen Hn Ha; [reflexivity|].
  cbn [avoids] in Ha. apply andb_true_iff in Ha. destruct Ha as [Ht Ha]. apply negb_true_iff in Ht.
  cbn [hdedup_acc]. rewrite Ht. f_equal. rewrite hnodup_cons in Hn. apply andb_true_iff in Hn. destruct Hn as [Hr Hn].
  apply IH; [exact Hn|]. apply negb_true_iff in Hr. clear IH Hn.
  induction r as [|x r' IHr]; [reflexivity|]. cbn [avoids] in *. apply andb_true_iff in Ha. destruct Ha as [Hx Ha].
  cbn [existsb] in Hr. apply orb_false_iff in Hr. destruct Hr as [Hrx Hr].
  apply andb_true_iff. split; [|apply IHr; assumption].
  rewrite hmem_cons. rewrite Hrx. exact Hx.
Qed.

(** appending one element to a list without duplicates *)
Lemma hdedup_acc_snoc : forall l t, hnodup l = true ->
  hdedup_acc (l ++ [t]) [] = l ++ (if existsb (fun e => hkey_eqb e t) l then [] else [t]).
Proof.
  intros l t Hn.
  assert (G : forall l seen, hnodup l = true -> avoids l seen = true ->
            hdedup_acc (l ++ [t]) seen = l ++ (if hmem t (rev l ++ seen) then [] else [t])).
  { clear. induction l as [|a r IH]; intros seen Hn Ha; [reflexivity|].
    cbn [avoids] in Ha. apply andb_true_iff in Ha. destruct Ha as [Ht Ha]. apply negb_true_iff in Ht.
    cbn [app hdedup_acc]. rewrite Ht. f_equal. rewrite hnodup_cons in Hn. apply andb_true_iff in Hn. destruct Hn as [Hr Hn].
    cbn [rev]. rewrite <- app_assoc. cbn [app]. apply IH; [exact Hn|].
    apply negb_true_iff in Hr. clear IH Hn. induction r as [|x r' IHr]; [reflexivity|].
    cbn [avoids] in *. apply andb_true_iff in Ha. destruct Ha as [Hx Ha].
    cbn [existsb] in Hr. apply orb_false_iff in Hr. destruct Hr as [Hrx Hr].
    apply andb_true_iff. split; [|apply IHr; assumption]. rewrite hmem_cons. rewrite Hrx. exact Hx. }
  rewrite (G l [] Hn (avoids_nil l)). rewrite hmem_rev_app_nil. reflexivity.
Qed.

Lemma from_vec_u_shape : forall r, snd (from_vec_u r) = r \/ hnodup (snd (from_vec_u r)) = true.
Proof.
  intros r. unfold from_vec_u. destruct (forallb is_basic r); [right; cbn [snd]; apply all_basics_hnodup|].
  destruct ((N.of_nat (length r) =? 2) && existsb is_nil r)%bool; [|left; reflexivity].
  destruct (find (fun t => negb (is_nil t)) r) as [t|] eqn:Ef; [|left; reflexivity].
  right. apply find_some in Ef. destruct Ef as [_ Hn]. cbn [snd hnodup existsb].
  destruct t; try reflexivity. unfold TNil, is_nil in *. cbn [is_b hkey_eqb] in *.
  replace (basic_eqb b BNil) with (basic_eqb BNil b) by (unfold basic_eqb; apply N.eqb_sym).
  apply negb_true_iff in Hn. rewrite Hn. reflexivity.
Qed.

(** ** [from_vec] of a plain list: a sub-list that covers the list *)

Lemma from_vec_plain : forall l, l <> [] -> (forall x, In x l -> plain x = true) ->
  (forall x, In x (members (from_vec l)) -> In x l) /\
  (forall x, In x l -> exists y, In y (members (from_vec l)) /\ hkey_eqb y x = true).
Proof.
  intros l Hne Hp.
  assert (Hu : forall x, In x l -> is_union x = false) by (intros x Hx; apply plain_not_union, Hp, Hx).
  destruct l as [|a [|b r]]; [congruence| |].
  - cbn [from_vec].
    assert (members a = [a]) as -> by (destruct a; try reflexivity; specialize (Hp _ (or_introl eq_refl)); discriminate).
    split; [auto|]. intros x [<-|[]]. exists a. split; [left; reflexivity|apply hkey_refl].
  - set (l := a :: b :: r) in *. unfold from_vec. fold l.
    change (match l with [] => TNil | [t] => t | _ => match flat_dedup l [] with [] => TNil | [t] => t | r0 => mk_union r0 end end)
      with (match flat_dedup l [] with [] => TNil | [t] => t | r0 => mk_union r0 end).
    rewrite (flat_dedup_plain l [] Hu).
    pose proof (hdedup_acc_sub l []) as Hsub.
    assert (Hcov : forall x, In x l -> exists y, In y (hdedup_acc l []) /\ hkey_eqb y x = true).
    { intros x Hx. destruct (hdedup_acc_cover l [] x Hx) as [H|H]; [discriminate|exact H]. }
    destruct (hdedup_acc l []) as [|y1 [|y2 r']] eqn:Ed.
    + exfalso. destruct (Hcov a (or_introl eq_refl)) as (y & [] & _).
    + assert (Hy1 : In y1 l) by (apply Hsub; left; reflexivity).
      assert (members y1 = [y1]) as -> by (destruct y1; try reflexivity; specialize (Hp _ Hy1); discriminate).
      split; [intros x [<-|[]]; exact Hy1|exact Hcov].
    + unfold mk_union. destruct (from_vec_u (y1 :: y2 :: r')) as [k ms] eqn:Ef. cbn [members].
      assert (Hin : forall x, In x ms <-> In x (y1 :: y2 :: r'))
        by (intros x; rewrite <- (from_vec_u_In (y1 :: y2 :: r') x); rewrite Ef; reflexivity).
      split.
      * intros x Hx. apply Hsub. apply Hin. exact Hx.
      * intros x Hx. destruct (Hcov x Hx) as (y & Hy & Hk). exists y. split; [apply Hin; exact Hy|exact Hk].
Qed.

(** ** steps of the fold *)

Lemma plain_members : forall a, plain a = true -> members a = [a].
Proof. destruct a; try reflexivity; discriminate. Qed.

Lemma plain_not_func : forall ms, (forall x, In x ms -> plain x = true) -> existsb is_func ms = false.
Proof.
  intros ms H. apply not_true_iff_false. intros E. apply existsb_exists in E. destruct E as (x & Hx & Hf).
  specialize (H x Hx). destruct x; discriminate.
Qed.

Lemma plain_real : forall G a, plain a = true -> get_real_type G a = Some a.
Proof. intros G a H. unfold get_real_type. apply real_type_nonref. intros id ->. discriminate. Qed.

Lemma two_of_hnodup : forall (ms l : list ty), hnodup ms = true -> (2 <= length ms)%nat ->
  (forall x, In x ms -> In x l) -> (2 <= length l)%nat.
Proof.
  intros ms l Hn Hl Hsub. destruct ms as [|x1 [|x2 r]]; cbn [length] in Hl; try lia.
  apply (two_distinct_length l x1 x2); [apply Hsub; left; reflexivity|apply Hsub; right; left; reflexivity|].
  intros ->. rewrite hnodup_cons in Hn. apply andb_true_iff in Hn. destruct Hn as [Hn _].
  cbn [existsb] in Hn. rewrite hkey_refl in Hn. discriminate.
Qed.

(** [mk_union] of a list of at least two plain elements without duplicate keys *)
Lemma mk_union_plain : forall r, hnodup r = true -> (2 <= length r)%nat ->
  exists k ms, mk_union r = TUnion 0 k ms /\ (forall x, In x ms <-> In x r) /\ hnodup ms = true /\ (2 <= length ms)%nat.
Proof.
  intros r Hn Hl. unfold mk_union. destruct (from_vec_u r) as [k ms] eqn:Ef. exists k, ms.
  split; [reflexivity|]. split; [|split].
  - intros x. rewrite <- (from_vec_u_In r x). rewrite Ef. reflexivity.
  - pose proof (from_vec_u_hnodup r Hn) as H. rewrite Ef in H. exact H.
  - pose proof (from_vec_u_length r Hn Hl) as H. rewrite Ef in H. exact H.
Qed.

Lemma from_vec_two_plus : forall l, (2 <= length l)%nat ->
  from_vec l = match flat_dedup l [] with [] => TNil | [t] => t | r => mk_union r end.
Proof. intros l H. destruct l as [|a [|b r]]; cbn [length] in H; try lia. reflexivity. Qed.

(** re-normalising a union of plain members keeps its members *)
Lemma canon_plain_union : forall p k ms, (forall x, In x ms -> plain x = true) -> hnodup ms = true -> (2 <= length ms)%nat ->
  exists k' ms', canonicalize_callable_union (TUnion p k ms) = TUnion 0 k' ms' /\
    (forall x, In x ms' <-> In x ms) /\ hnodup ms' = true /\ (2 <= length ms')%nat.
Proof.
  intros p k ms Hp Hn Hl. cbn [canonicalize_callable_union]. rewrite (plain_not_func ms Hp).
  rewrite (from_vec_two_plus ms Hl).
  rewrite (flat_dedup_plain ms []) by (intros x Hx; apply plain_not_union, Hp, Hx).
  rewrite (hdedup_acc_id ms [] Hn (avoids_nil ms)).
  destruct (mk_union_plain ms Hn Hl) as (k' & ms' & E & Hin & Hn' & Hl').
  destruct ms as [|x1 [|x2 r]]; cbn [length] in Hl; try lia. exists k', ms'. auto.
Qed.

Lemma canon_nonunion : forall a, is_union a = false -> canonicalize_callable_union a = a.
Proof. destruct a; try reflexivity; discriminate. Qed.

(** a plain accumulator meets a plain element that it does not absorb *)
Lemma step_plain_plain : forall G a t, plain a = true -> plain t = true -> absorbs a t = false ->
  is_b BAny a = false -> is_b BNever a = false -> is_b BAny t = false -> is_b BNever t = false ->
  (union_type G a t = a /\ (req a t = true \/ hkey_eqb a t = true)) \/
  (exists k ms, union_type G a t = TUnion 0 k ms /\ (forall x, In x ms <-> x = a \/ x = t) /\
                hnodup ms = true /\ (2 <= length ms)%nat).
Proof.
  intros G a t Pa Pt Hab Ha1 Ha2 Ht1 Ht2. unfold union_type. rewrite (plain_real G a Pa).
  rewrite (impl_plain_pair a t Pa Pt Hab Ha1 Ha2 Ht1 Ht2).
  destruct (req a t) eqn:Er.
  - left. split; [apply canon_nonunion, plain_not_union, Pa|left; reflexivity].
  - assert (Hfl : flat_dedup [a; t] [] = a :: (if hkey_eqb a t then [] else [t])).
    { rewrite flat_dedup_plain by (intros x [<-|[<-|[]]]; apply plain_not_union; assumption).
      cbn [hdedup_acc]. change (hmem a []) with false. cbn iota. rewrite hmem_cons. change (hmem t []) with false.
      rewrite orb_false_r. destruct (hkey_eqb a t); reflexivity. }
    unfold from_vec. rewrite Hfl. destruct (hkey_eqb a t) eqn:Ek.
    + left. split; [apply canon_nonunion, plain_not_union, Pa|right; reflexivity].
    + right.
      assert (Hn : hnodup [a; t] = true) by (cbn [hnodup existsb]; rewrite Ek; reflexivity).
      destruct (mk_union_plain [a; t] Hn) as (k & ms & -> & Hin & Hn' & Hl'); [cbn [length]; lia|].
      destruct (canon_plain_union 0 k ms) as (k' & ms' & -> & Hin' & Hn'' & Hl''); auto.
      { intros x Hx. apply Hin in Hx. destruct Hx as [<-|[<-|[]]]; assumption. }
      exists k', ms'. split; [reflexivity|]. split; [|auto].
      intros x. rewrite Hin', Hin. cbn [In]. split; intros [H|H]; auto. destruct H as [H|[]]; auto.
Qed.

Lemma impl_union_plain : forall p k ms t, plain t = true -> is_b BAny t = false -> is_b BNever t = false ->
  union_type_impl (TUnion p k ms) (TUnion p k ms) t =
  if rmem t ms then TUnion p k ms else mk_union (ms ++ [t]).
Proof.
  intros p k ms t Pt H1 H2.
  destruct t as [c| | | | | | | |]; try discriminate; try (destruct c; try discriminate); reflexivity.
Qed.

(** a union accumulator (plain members, no duplicate keys) meets a plain element *)
Lemma step_union_plain : forall G p k ms t,
  (forall x, In x ms -> plain x = true) -> hnodup ms = true -> (2 <= length ms)%nat ->
  plain t = true -> is_b BAny t = false -> is_b BNever t = false ->
  exists k' ms', union_type G (TUnion p k ms) t = TUnion 0 k' ms' /\
    (forall x, In x ms -> In x ms') /\ (forall x, In x ms' -> In x ms \/ x = t) /\
    hnodup ms' = true /\ (2 <= length ms')%nat /\ covers ms' t.
Proof.
  intros G p k ms t Hp Hn Hl Pt Ht1 Ht2. unfold union_type, get_real_type.
  rewrite real_type_nonref by (intros; discriminate).
  rewrite (impl_union_plain p k ms t Pt Ht1 Ht2).
  destruct (rmem t ms) eqn:Er.
  - destruct (canon_plain_union p k ms Hp Hn Hl) as (k' & ms' & -> & Hin & Hn' & Hl').
    exists k', ms'. split; [reflexivity|]. split; [intros x Hx; apply Hin; exact Hx|].
    split; [intros x Hx; left; apply Hin; exact Hx|]. split; [exact Hn'|]. split; [exact Hl'|].
    unfold rmem in Er. apply existsb_exists in Er. destruct Er as (e & He & Hr).
    exists e. split; [apply Hin; exact He|left; exact Hr].
  - unfold mk_union. destruct (from_vec_u (ms ++ [t])) as [k1 m1] eqn:Ef.
    assert (Hin1 : forall x, In x m1 <-> In x (ms ++ [t]))
      by (intros x; rewrite <- (from_vec_u_In (ms ++ [t]) x); rewrite Ef; reflexivity).
    assert (Hp1 : forall x, In x m1 -> plain x = true).
    { intros x Hx. apply Hin1 in Hx. apply in_app_or in Hx. destruct Hx as [Hx|[<-|[]]]; [apply Hp; exact Hx|exact Pt]. }
    assert (Hl1 : (2 <= length m1)%nat).
    { apply (two_of_hnodup ms m1 Hn Hl). intros x Hx. apply Hin1. apply in_or_app. left; exact Hx. }
    cbn [canonicalize_callable_union]. rewrite (plain_not_func m1 Hp1). rewrite (from_vec_two_plus m1 Hl1).
    rewrite (flat_dedup_plain m1 []) by (intros x Hx; apply plain_not_union, Hp1, Hx).
    assert (Hd : exists r, hdedup_acc m1 [] = r /\ hnodup r = true /\ (forall x, In x ms -> In x r) /\
                   (forall x, In x r -> In x ms \/ x = t) /\ covers r t).
    { pose proof (from_vec_u_shape (ms ++ [t])) as Hs. rewrite Ef in Hs. cbn [snd] in Hs.
      destruct Hs as [Hs|Hs].
      - subst m1. rewrite (hdedup_acc_snoc ms t Hn).
        destruct (existsb (fun e => hkey_eqb e t) ms) eqn:Ee.
        + exists ms. rewrite app_nil_r. split; [reflexivity|]. split; [exact Hn|]. split; [auto|]. split; [auto|].
          apply existsb_exists in Ee. destruct Ee as (e & He & Hk). exists e. split; [exact He|right; right; left; exact Hk].
        + exists (ms ++ [t]). split; [reflexivity|]. split; [apply hnodup_app_one; [exact Hn|exact Ee]|].
          split; [intros x Hx; apply in_or_app; left; exact Hx|].
          split; [intros x Hx; apply in_app_or in Hx; destruct Hx as [Hx|[<-|[]]]; auto|].
          exists t. split; [apply in_or_app; right; left; reflexivity|right; right; right; right; reflexivity].
      - exists m1. split; [apply hdedup_acc_id; [exact Hs|apply avoids_nil]|]. split; [exact Hs|].
        split; [intros x Hx; apply Hin1; apply in_or_app; left; exact Hx|].
        split; [intros x Hx; apply Hin1 in Hx; apply in_app_or in Hx; destruct Hx as [Hx|[<-|[]]]; auto|].
        exists t. split; [apply Hin1; apply in_or_app; right; left; reflexivity|right; right; right; right; reflexivity]. }
    destruct Hd as (r & -> & Hnr & Hsub & Hsup & Hcov).
    assert (Hlr : (2 <= length r)%nat) by (apply (two_of_hnodup ms r Hn Hl Hsub)).
    destruct (mk_union_plain r Hnr Hlr) as (k' & ms' & E & Hin & Hn' & Hl').
    destruct r as [|y1 [|y2 r']]; cbn [length] in Hlr; try lia. rewrite E.
    exists k', ms'. split; [reflexivity|]. split; [intros x Hx; apply Hin, Hsub, Hx|].
    split; [intros x Hx; apply Hsup, Hin, Hx|]. split; [exact Hn'|]. split; [exact Hl'|].
    destruct Hcov as (y & Hy & Hs). exists y. split; [apply Hin; exact Hy|exact Hs].
Qed.

(** ** the fold over an accepted batch *)

Definition nn (t : ty) : bool := negb (is_b BNever t).

(** what the accumulator looks like after the non-[never] elements [seen] *)
Definition inv (acc : ty) (seen : list ty) : Prop :=
  (seen = [] /\ acc = TNever) \/
  (plain acc = true /\ is_b BAny acc = false /\ is_b BNever acc = false /\ In acc seen /\
     forall t, In t seen -> sim acc t) \/
  (exists p k ms, acc = TUnion p k ms /\ (forall x, In x ms -> In x seen) /\ hnodup ms = true /\
     (2 <= length ms)%nat /\ forall t, In t seen -> covers ms t).

Lemma sim_refl : forall a, sim a a.
Proof. intros a. right; right; right; right; reflexivity. Qed.

Lemma union_never_r : forall G acc seen, (forall x, In x seen -> plain x = true) ->
  inv acc seen -> inv (union_type G acc TNever) seen.
Proof.
  intros G acc seen Hps [[-> ->]|[(Pa & Ha1 & Ha2 & Hin & Hsim)|(p & k & ms & -> & Hsub & Hn & Hl & Hcov)]].
  - left. split; [reflexivity|]. apply union_type_never_never.
  - right; left. unfold union_type. rewrite (plain_real G acc Pa).
    assert (E : union_type_impl acc acc TNever = acc).
    { unfold union_type_impl. rewrite Ha1. change (is_b BAny TNever) with false. rewrite Ha2.
      change (is_b BNever TNever) with true. reflexivity. }
    rewrite E. rewrite (canon_nonunion acc (plain_not_union acc Pa)). auto.
  - right; right. unfold union_type, get_real_type. rewrite real_type_nonref by (intros; discriminate).
    assert (E : union_type_impl (TUnion p k ms) (TUnion p k ms) TNever = TUnion p k ms) by reflexivity.
    rewrite E.
    assert (Hpm : forall x, In x ms -> plain x = true) by (intros x Hx; apply Hps, Hsub, Hx).
    destruct (canon_plain_union p k ms Hpm Hn Hl) as (k' & ms' & -> & Hin & Hn' & Hl').
    exists 0, k', ms'. split; [reflexivity|]. split; [intros x Hx; apply Hsub, Hin, Hx|]. split; [exact Hn'|].
    split; [exact Hl'|]. intros t Ht. destruct (Hcov t Ht) as (y & Hy & Hs). exists y. split; [apply Hin; exact Hy|exact Hs].
Qed.

Lemma union_step : forall G acc seen t,
  (forall x, In x seen -> plain x = true) -> plain t = true -> is_b BAny t = false -> is_b BNever t = false ->
  (forall x, In x seen -> absorbs x t = false) ->
  inv acc seen -> inv (union_type G acc t) (seen ++ [t]).
Proof.
  intros G acc seen t Hps Pt Ht1 Ht2 Hab [[-> ->]|[(Pa & Ha1 & Ha2 & Hin & Hsim)|(p & k & ms & -> & Hsub & Hn & Hl & Hcov)]].
  - (* first element *)
    right; left. cbn [app].
    assert (E : union_type G TNever t = t).
    { unfold union_type, get_real_type. rewrite real_type_nonref by (intros; discriminate).
      unfold union_type_impl. change (is_b BAny TNever) with false. rewrite Ht1. change (is_b BNever TNever) with true.
      apply canon_nonunion, plain_not_union, Pt. }
    rewrite E. split; [exact Pt|]. split; [exact Ht1|]. split; [exact Ht2|]. split; [left; reflexivity|].
    intros x [<-|[]]. apply sim_refl.
  - destruct (step_plain_plain G acc t Pa Pt (Hab acc Hin) Ha1 Ha2 Ht1 Ht2) as [[-> Hs]|(k & ms & -> & Hm & Hn & Hl)].
    + right; left. split; [exact Pa|]. split; [exact Ha1|]. split; [exact Ha2|].
      split; [apply in_or_app; left; exact Hin|].
      intros x Hx. apply in_app_or in Hx. destruct Hx as [Hx|[<-|[]]]; [apply Hsim; exact Hx|].
      destruct Hs as [Hs|Hs]; [left; exact Hs|right; right; left; exact Hs].
    + right; right. exists 0, k, ms. split; [reflexivity|]. split; [|split; [exact Hn|split; [exact Hl|]]].
      * intros x Hx. apply Hm in Hx. apply in_or_app. destruct Hx as [->| ->]; [left; exact Hin|right; left; reflexivity].
      * intros x Hx. apply in_app_or in Hx. destruct Hx as [Hx|[<-|[]]].
        -- exists acc. split; [apply Hm; left; reflexivity|apply Hsim; exact Hx].
        -- exists t. split; [apply Hm; right; reflexivity|apply sim_refl].
  - assert (Hpm : forall x, In x ms -> plain x = true) by (intros x Hx; apply Hps, Hsub, Hx).
    destruct (step_union_plain G p k ms t Hpm Hn Hl Pt Ht1 Ht2) as (k' & ms' & -> & Hkeep & Hnew & Hn' & Hl' & Hct).
    right; right. exists 0, k', ms'. split; [reflexivity|]. split; [|split; [exact Hn'|split; [exact Hl'|]]].
    + intros x Hx. apply in_or_app. destruct (Hnew x Hx) as [H| ->]; [left; apply Hsub; exact H|right; left; reflexivity].
    + intros x Hx. apply in_app_or in Hx. destruct Hx as [Hx|[<-|[]]]; [|exact Hct].
      destruct (Hcov x Hx) as (y & Hy & Hs). exists y. split; [apply Hkeep; exact Hy|exact Hs].
Qed.

Lemma fold_inv : forall G S, (forall x, In x S -> plain x = true) -> (forall x, In x S -> is_b BAny x = false) ->
  (forall l1 x l2 y l3, S = l1 ++ x :: l2 ++ y :: l3 -> absorbs x y = false) ->
  forall ts seen acc, existsb (is_b BAny) ts = false -> seen ++ filter nn ts = S -> inv acc seen ->
  inv (fold_left (union_type G) ts acc) S.
Proof.
  intros G S Hp Hany Hpairs. induction ts as [|t r IH]; intros seen acc Ha Hs Hi.
  - cbn [filter] in Hs. rewrite app_nil_r in Hs. subst seen. exact Hi.
  - cbn [existsb] in Ha. apply orb_false_iff in Ha. destruct Ha as [Ht1 Har].
    cbn [fold_left]. cbn [filter] in Hs. unfold nn at 1 in Hs.
    assert (Hseen : forall x, In x seen -> plain x = true).
    { intros x Hx. apply Hp. rewrite <- Hs. apply in_or_app. left; exact Hx. }
    destruct (is_b BNever t) eqn:Et2; cbn [negb] in Hs.
    + apply is_b_eq in Et2. subst t. apply (IH seen); auto. apply union_never_r; assumption.
    + apply (IH (seen ++ [t])); auto.
      * rewrite <- app_assoc. exact Hs.
      * apply union_step; auto.
        -- apply Hp. rewrite <- Hs. apply in_or_app. right. left. reflexivity.
        -- intros x Hx. destruct (in_split x seen Hx) as (l1 & l2 & ->).
           apply (Hpairs l1 x l2 t (filter nn r)). rewrite <- Hs. rewrite <- app_assoc. reflexivity.
Qed.

(** LAW 5 on the fast path *)
Lemma union_all_structural : forall G ts,
  existsb (is_b BAny) ts = false -> filter nn ts <> [] -> can_use_structural_union (filter nn ts) = true ->
  mem_cover (from_vec (filter nn ts)) (union_fold G ts).
Proof.
  intros G ts Ha Hne Hst. set (S := filter nn ts) in *.
  destruct (structural_pairs S sflags0 [] Hst) as (Hp & _ & Hpairs); [intros e []|].
  assert (Hany : forall x, In x S -> is_b BAny x = false).
  { intros x Hx. unfold S in Hx. apply filter_In in Hx. destruct Hx as [Hx _].
    apply not_true_iff_false. intros E. apply not_true_iff_false in Ha. apply Ha. apply existsb_exists. exists x. auto. }
  pose proof (fold_inv G S Hp Hany Hpairs ts [] TNever Ha eq_refl (or_introl (conj eq_refl eq_refl))) as Hinv.
  destruct (from_vec_plain S Hne Hp) as [HA1 HA2].
  unfold union_fold, mem_cover.
  destruct Hinv as [[E _]|[(Pa & _ & _ & Hin & Hsim)|(p & k & ms & -> & Hsub & _ & _ & Hcov)]].
  - contradiction.
  - rewrite (plain_members _ Pa). split.
    + intros x Hx. eexists. split; [left; reflexivity|apply Hsim, HA1, Hx].
    + intros x [<-|[]]. destruct (HA2 _ Hin) as (y & Hy & Hk). exists y. split; [exact Hy|right; right; left; exact Hk].
  - cbn [members]. split.
    + intros x Hx. apply Hcov, HA1, Hx.
    + intros x Hx. destruct (HA2 x (Hsub x Hx)) as (y & Hy & Hk). exists y. split; [exact Hy|right; right; left; exact Hk].
Qed.

Lemma mem_cover_refl : forall a, mem_cover a a.
Proof. intros a. split; intros x Hx; exists x; (split; [exact Hx|apply sim_refl]). Qed.

(** LAW 5 in full *)
Lemma union_all_eq_fold : forall G ts, mem_cover (union_type_all G ts) (union_fold G ts).
Proof.
  intros G ts.
  destruct (existsb (is_b BAny) ts) eqn:Ea.
  { rewrite union_all_eq_fold_slow by (right; left; exact Ea). apply mem_cover_refl. }
  destruct (filter nn ts) as [|x r] eqn:Ef.
  { rewrite union_all_eq_fold_slow by (right; right; exact Ef). apply mem_cover_refl. }
  destruct (can_use_structural_union (filter nn ts)) eqn:Es.
  - assert (E : union_type_all G ts = from_vec (filter nn ts)).
    { unfold union_type_all. rewrite Ea. fold nn. rewrite Ef in *. rewrite Es. reflexivity. }
    rewrite E. apply union_all_structural; auto. rewrite Ef. discriminate.
  - rewrite union_all_eq_fold_slow by (left; exact Es). apply mem_cover_refl.
Qed.
