(** C16/UnionProofs.v — facts about [LuaType::from_vec] / [LuaUnionType::from_vec] of the model. *)
From EV Require Import C16.Model C16.Spec.
Local Open Scope N_scope.

(** induction principle for the nested type *)
Definition param_P (P : ty -> Prop) (p : N * option ty) : Prop :=
  match snd p with Some t => P t | None => True end.

Section TyInd.
  Variable P : ty -> Prop.
  Hypothesis Hbasic : forall b, P (TBasic b).
  Hypothesis Hbool : forall d v, P (TBoolConst d v).
  Hypothesis Hstr : forall d s, P (TStrConst d s).
  Hypothesis Hint : forall d i, P (TIntConst d i).
  Hypothesis Href : forall id, P (TRef id).
  Hypothesis Harr : forall b, P b -> P (TArray b).
  Hypothesis Htup : forall ts, Forall P ts -> P (TTuple ts).
  Hypothesis Hfun : forall c ps r, Forall (param_P P) ps -> P r -> P (TFunc c ps r).
  Hypothesis Huni : forall p k ms, Forall P ms -> P (TUnion p k ms).

  Fixpoint ty_ind' (t : ty) : P t :=
    match t with
    | TBasic b => Hbasic b
    | TBoolConst d v => Hbool d v
    | TStrConst d s => Hstr d s
    | TIntConst d i => Hint d i
    | TRef id => Href id
    | TArray b => Harr b (ty_ind' b)
    | TTuple ts =>
        Htup ts ((fix go (l : list ty) : Forall P l :=
                    match l with
                    | [] => Forall_nil P
                    | x :: r => Forall_cons x (ty_ind' x) (go r)
                    end) ts)
    | TFunc c ps r =>
        Hfun c ps r
          ((fix go (l : list (N * option ty)) : Forall (param_P P) l :=
              match l with
              | [] => Forall_nil _
              | p :: r' =>
                  @Forall_cons _ (param_P P) p r'
                    (match p as q return param_P P q with
                     | (n0, o) =>
                         match o as o' return param_P P (n0, o') with
                         | Some t => ty_ind' t
                         | None => I
                         end
                     end) (go r')
              end) ps)
          (ty_ind' r)
    | TUnion p k ms =>
        Huni p k ms ((fix go (l : list ty) : Forall P l :=
                        match l with
                        | [] => Forall_nil P
                        | x :: r => Forall_cons x (ty_ind' x) (go r)
                        end) ms)
    end.
End TyInd.

Lemma basic_eqb_eq : forall a b, basic_eqb a b = true <-> a = b.
Proof.
  intros a b. split; [|intros ->; unfold basic_eqb; apply N.eqb_refl].
  unfold basic_eqb. intros H. apply N.eqb_eq in H. destruct a, b; cbn in H; try reflexivity; discriminate.
Qed.

Lemma is_b_eq : forall b t, is_b b t = true <-> t = TBasic b.
Proof.
  intros b t. destruct t; cbn [is_b]; try (split; [discriminate|discriminate]).
  rewrite basic_eqb_eq. split; [intros ->; reflexivity|intros H; inversion H; reflexivity].
Qed.

Lemma is_nil_eq : forall t, is_nil t = true <-> t = TNil.
Proof. intros t. apply is_b_eq. Qed.

Lemma hkey_nil_r : forall t, is_union t = false -> hkey_eqb t TNil = is_nil t.
Proof.
  intros t H. destruct t; try reflexivity; try discriminate.
  cbn [hkey_eqb is_nil is_b]. unfold basic_eqb. apply N.eqb_sym.
Qed.

(** ** [hnodup] *)

Lemma hnodup_cons : forall x r, hnodup (x :: r) = (negb (existsb (hkey_eqb x) r) && hnodup r)%bool.
Proof. reflexivity. Qed.

Lemma hnodup_app_one : forall l x, hnodup l = true -> hmem x l = false -> hnodup (l ++ [x]) = true.
Proof.
  induction l as [|a r IH]; intros x Hl Hx; cbn [app]; [reflexivity|].
  rewrite hnodup_cons in *. apply andb_true_iff in Hl. destruct Hl as [Ha Hr].
  unfold hmem in Hx. cbn [existsb] in Hx. apply orb_false_iff in Hx. destruct Hx as [Hax Hrx].
  apply andb_true_iff. split.
  - rewrite existsb_app. cbn [existsb]. rewrite Hax. rewrite orb_false_r.
    apply negb_true_iff in Ha. rewrite Ha. reflexivity.
  - apply IH; assumption.
Qed.

(** de-duplicating a list without duplicates against seen elements that it avoids changes nothing *)
Fixpoint avoids (l seen : list ty) : bool :=
  match l with
  | [] => true
  | x :: r => negb (hmem x seen) && avoids r seen
  end.

(** ** [from_vec_u] keeps the elements *)

Lemma forallb_is_basic : forall r x, forallb is_basic r = true -> In x r -> exists b, x = TBasic b.
Proof.
  intros r x H Hx. rewrite forallb_forall in H. specialize (H x Hx). destruct x; try discriminate. eauto.
Qed.

Lemma from_vec_u_In : forall r x, In x (snd (from_vec_u r)) <-> In x r.
Proof.
  intros r x. unfold from_vec_u.
  destruct (forallb is_basic r) eqn:Eb.
  - cbn [snd]. rewrite in_map_iff. split.
    + intros (b & <- & Hb). apply filter_In in Hb. destruct Hb as [_ Hb].
      apply existsb_exists in Hb. destruct Hb as (t & Ht & Hbt). apply is_b_eq in Hbt. subst t. exact Ht.
    + intros Hx. destruct (forallb_is_basic r x Eb Hx) as (b & ->). exists b. split; [reflexivity|].
      apply filter_In. split; [destruct b; cbn; tauto|].
      apply existsb_exists. exists (TBasic b). split; [exact Hx|apply is_b_eq; reflexivity].
  - destruct ((N.of_nat (length r) =? 2) && existsb is_nil r)%bool eqn:E2; [|cbn [snd]; tauto].
    apply andb_true_iff in E2. destruct E2 as [El En]. apply N.eqb_eq in El.
    destruct r as [|x1 [|x2 [|x3 r']]]; cbn [length] in El; try lia.
    cbn [find existsb] in *.
    destruct (is_nil x1) eqn:E1; cbn [negb].
    + apply is_nil_eq in E1. subst x1.
      destruct (is_nil x2) eqn:E2'; cbn [negb snd].
      * apply is_nil_eq in E2'. subst x2. tauto.
      * cbn [In]. tauto.
    + cbn [snd]. cbn [orb] in En. rewrite orb_false_r in En. apply is_nil_eq in En. subst x2. cbn [In]. tauto.
Qed.

Lemma all_basics_hnodup : forall P, hnodup (map TBasic (filter P all_basics)) = true.
Proof.
  intros P. unfold all_basics. cbn [filter].
  repeat match goal with |- context [if P ?b then _ else _] => destruct (P b) end; reflexivity.
Qed.

Lemma from_vec_u_hnodup : forall r, hnodup r = true -> hnodup (snd (from_vec_u r)) = true.
Proof.
  intros r H. unfold from_vec_u. destruct (forallb is_basic r); [cbn [snd]; apply all_basics_hnodup|].
  destruct ((N.of_nat (length r) =? 2) && existsb is_nil r)%bool; [|exact H].
  destruct (find (fun t => negb (is_nil t)) r) as [t|] eqn:Ef; [|exact H].
  apply find_some in Ef. destruct Ef as [_ Hn]. cbn [snd hnodup existsb].
  destruct t; try reflexivity. unfold TNil, is_nil in *. cbn [is_b hkey_eqb] in *.
  replace (basic_eqb b BNil) with (basic_eqb BNil b) by (unfold basic_eqb; apply N.eqb_sym).
  apply negb_true_iff in Hn. rewrite Hn. reflexivity.
Qed.

Lemma hkey_refl : forall t, hkey_eqb t t = true.
Proof.
  induction t using ty_ind'; cbn [hkey_eqb].
  - apply basic_eqb_eq; reflexivity.
  - destruct d, v; reflexivity.
  - rewrite N.eqb_refl. destruct d; reflexivity.
  - rewrite Z.eqb_refl. destruct d; reflexivity.
  - apply N.eqb_refl.
  - exact IHt.
  - induction H as [|x r Hx _ IH]; [reflexivity|]. rewrite Hx. exact IH.
  - rewrite IHt. rewrite Bool.eqb_reflx. cbn [andb].
    induction H as [|[n o] r Hx _ IH]; [reflexivity|].
    rewrite N.eqb_refl. unfold param_P in Hx. cbn [snd] in Hx. destruct o; [rewrite Hx|]; exact IH.
  - apply N.eqb_refl.
Qed.

Lemma two_distinct_length : forall (l : list ty) a b, In a l -> In b l -> a <> b -> (2 <= length l)%nat.
Proof.
  intros l a b Ha Hb Hab. destruct l as [|x [|y r]]; cbn [length]; try lia.
  - destruct Ha.
  - destruct Ha as [<-|[]]. destruct Hb as [<-|[]]. congruence.
Qed.

Lemma from_vec_u_length : forall r, hnodup r = true -> (2 <= length r)%nat -> (2 <= length (snd (from_vec_u r)))%nat.
Proof.
  intros r H Hl. destruct r as [|x1 [|x2 r']]; cbn [length] in Hl; try lia.
  assert (Hne : x1 <> x2).
  { intros ->. rewrite hnodup_cons in H. apply andb_true_iff in H. destruct H as [H _].
    cbn [existsb] in H. rewrite hkey_refl in H. discriminate. }
  apply (two_distinct_length _ x1 x2); try (apply from_vec_u_In; cbn [In]; tauto). exact Hne.
Qed.

(** ** the element type of a strict array: [from_vec [b; nil]] *)

(** the inner loop of [flat_dedup] on members that avoid [seen] and each other keeps them all *)
Lemma flat_inner_keep : forall (rest : list ty -> list ty) ms seen,
  hnodup ms = true -> avoids ms seen = true ->
  (fix inner (ms seen : list ty) {struct ms} : list ty :=
     match ms with
     | [] => rest seen
     | m :: ms' => if hmem m seen then inner ms' seen else m :: inner ms' (m :: seen)
     end) ms seen = ms ++ rest (rev ms ++ seen).
Proof.
  intros rest ms. induction ms as [|m r IH]; intros seen Hn Ha; [reflexivity|].
  cbn [avoids] in Ha. apply andb_true_iff in Ha. destruct Ha as [Hm Ha]. apply negb_true_iff in Hm. rewrite Hm.
  rewrite hnodup_cons in Hn. apply andb_true_iff in Hn. destruct Hn as [Hmr Hn].
  cbn [app rev]. f_equal. rewrite <- app_assoc. cbn [app]. apply IH; [exact Hn|].
  clear IH. apply negb_true_iff in Hmr. induction r as [|x r' IHr]; [reflexivity|].
  cbn [avoids] in *. apply andb_true_iff in Ha. destruct Ha as [Hx Ha].
  cbn [existsb] in Hmr. apply orb_false_iff in Hmr. destruct Hmr as [Hmx Hmr].
  rewrite hnodup_cons in Hn. apply andb_true_iff in Hn. destruct Hn as [_ Hn].
  apply andb_true_iff. split; [|apply IHr; assumption].
  unfold hmem in *. cbn [existsb]. rewrite Hmx. cbn [orb]. exact Hx.
Qed.

Lemma flat_dedup_union_keep : forall p k ms r seen, hnodup ms = true -> avoids ms seen = true ->
  flat_dedup (TUnion p k ms :: r) seen = ms ++ flat_dedup r (rev ms ++ seen).
Proof.
  intros p k ms r seen Hn Ha. cbn [flat_dedup]. apply (flat_inner_keep (flat_dedup r) ms seen Hn Ha).
Qed.

Lemma avoids_nil : forall ms, avoids ms [] = true.
Proof. induction ms as [|m r IH]; [reflexivity|]. cbn [avoids hmem existsb negb andb]. exact IH. Qed.

Lemma hmem_rev_app_nil : forall ms x, hmem x (rev ms ++ []) = existsb (fun e => hkey_eqb e x) ms.
Proof.
  intros ms x. rewrite app_nil_r. unfold hmem. induction ms as [|m r IH]; [reflexivity|].
  cbn [rev existsb]. rewrite existsb_app. cbn [existsb]. rewrite orb_false_r. rewrite IH. apply orb_comm.
Qed.

(** shape of [from_vec [b; nil]] *)
Lemma from_vec_nil_nonunion : forall b, is_union b = false ->
  (b = TNil /\ from_vec [b; TNil] = TNil) \/
  (b <> TNil /\ exists k ms, from_vec [b; TNil] = TUnion 0 k ms /\ In b ms /\ (forall x, In x ms -> x = b \/ x = TNil)
                /\ hnodup ms = true /\ (2 <= length ms)%nat).
Proof.
  intros b Hu. destruct (is_nil b) eqn:En.
  - left. apply is_nil_eq in En. subst b. split; reflexivity.
  - right. split; [intros ->; discriminate|].
    assert (E : flat_dedup [b; TNil] [] = [b; TNil]).
    { assert (Hh : hmem TNil [b] = false).
      { unfold hmem. cbn [existsb]. rewrite orb_false_r. rewrite (hkey_nil_r b Hu). exact En. }
      destruct b; try discriminate; cbn [flat_dedup]; change (hmem ?x []) with false; cbn iota; rewrite Hh; reflexivity. }
    unfold from_vec. rewrite E. unfold mk_union.
    destruct (from_vec_u [b; TNil]) as [k ms] eqn:Ef.
    assert (Hin : forall x, In x ms <-> In x [b; TNil]) by (intros x; rewrite <- (from_vec_u_In [b; TNil] x); rewrite Ef; reflexivity).
    assert (Hnd : hnodup [b; TNil] = true).
    { cbn [hnodup existsb]. rewrite (hkey_nil_r b Hu). rewrite En. reflexivity. }
    exists k, ms. split; [reflexivity|]. split; [apply Hin; left; reflexivity|]. split.
    + intros x Hx. apply Hin in Hx. cbn [In] in Hx. destruct Hx as [<-|[<-|[]]]; auto.
    + split.
      * pose proof (from_vec_u_hnodup _ Hnd) as H. rewrite Ef in H. exact H.
      * pose proof (from_vec_u_length _ Hnd) as H. rewrite Ef in H. apply H. cbn [length]. lia.
Qed.

Lemma from_vec_nil_union : forall p k ms, hnodup ms = true -> (2 <= length ms)%nat ->
  exists k' ms', from_vec [TUnion p k ms; TNil] = TUnion 0 k' ms' /\
    (forall y, In y ms -> In y ms') /\ (forall x, In x ms' -> In x ms \/ x = TNil) /\
    hnodup ms' = true /\ (2 <= length ms')%nat.
Proof.
  intros p k ms Hn Hl.
  remember (ms ++ (if hmem TNil (rev ms ++ []) then [] else [TNil])) as r eqn:Er0.
  assert (E : flat_dedup [TUnion p k ms; TNil] [] = r).
  { rewrite (flat_dedup_union_keep p k ms [TNil] [] Hn (avoids_nil ms)). subst r. reflexivity. }
  assert (Hr2 : (2 <= length r)%nat) by (subst r; rewrite app_length; lia).
  assert (Hrn : hnodup r = true).
  { subst r. destruct (hmem TNil (rev ms ++ [])) eqn:Em; [rewrite app_nil_r; exact Hn|].
    apply hnodup_app_one; [exact Hn|]. rewrite hmem_rev_app_nil in Em. unfold hmem. exact Em. }
  assert (Hsub1 : forall y, In y ms -> In y r) by (intros y Hy; subst r; apply in_or_app; left; exact Hy).
  assert (Hsub2 : forall x, In x r -> In x ms \/ x = TNil).
  { intros x Hx. subst r. apply in_app_or in Hx. destruct Hx as [Hx|Hx]; [left; exact Hx|].
    destruct (hmem TNil (rev ms ++ [])); [destruct Hx|]. destruct Hx as [<-|[]]. right; reflexivity. }
  clear Er0.
  unfold from_vec. rewrite E. unfold mk_union.
  destruct (from_vec_u r) as [k' ms'] eqn:Ef.
  assert (Hin : forall x, In x ms' <-> In x r) by (intros x; rewrite <- (from_vec_u_In r x); rewrite Ef; reflexivity).
  pose proof (from_vec_u_hnodup _ Hrn) as Hh. rewrite Ef in Hh. cbn [snd] in Hh.
  pose proof (from_vec_u_length _ Hrn Hr2) as Hl2. rewrite Ef in Hl2. cbn [snd] in Hl2.
  exists k', ms'. split.
  - destruct r as [|x1 [|x2 r']]; cbn [length] in Hr2; try lia. rewrite Ef. reflexivity.
  - split; [|split; [|split]]; auto.
    + intros y Hy. apply Hin. auto.
    + intros x Hx. apply Hin in Hx. auto.
Qed.

(** ** batch union versus one at a time *)

Lemma real_type_nonref : forall G n t, (forall id, t <> TRef id) -> real_type_n G n t = Some t.
Proof. intros G n t H. destruct n; [reflexivity|]. destruct t; try reflexivity. exfalso. eapply H; reflexivity. Qed.

Lemma union_type_any_r : forall G a, union_type G a TAny = TAny.
Proof.
  intros G a. unfold union_type, union_type_impl.
  destruct (is_b BAny (match get_real_type G a with Some r => r | None => a end)); reflexivity.
Qed.

Lemma union_type_any_l : forall G t, union_type G TAny t = TAny.
Proof.
  intros G t. unfold union_type, get_real_type. rewrite real_type_nonref by (intros; discriminate). reflexivity.
Qed.

Lemma fold_from_any : forall G ts, fold_left (union_type G) ts TAny = TAny.
Proof. intros G ts. induction ts as [|t r IH]; [reflexivity|]. cbn [fold_left]. rewrite union_type_any_l. exact IH. Qed.

Lemma fold_with_any : forall G ts acc, existsb (is_b BAny) ts = true -> fold_left (union_type G) ts acc = TAny.
Proof.
  intros G ts. induction ts as [|t r IH]; intros acc H; [discriminate|].
  cbn [existsb] in H. cbn [fold_left]. destruct (is_b BAny t) eqn:Et.
  - apply is_b_eq in Et. subst t. rewrite union_type_any_r. apply fold_from_any.
  - apply IH. exact H.
Qed.

Lemma union_type_never_never : forall G, union_type G TNever TNever = TNever.
Proof. intros G. unfold union_type, get_real_type. rewrite real_type_nonref by (intros; discriminate). reflexivity. Qed.

Lemma fold_all_never : forall G ts, filter (fun t => negb (is_b BNever t)) ts = [] ->
  fold_left (union_type G) ts TNever = TNever.
Proof.
  intros G ts. induction ts as [|t r IH]; intros H; [reflexivity|].
  cbn [filter] in H. destruct (is_b BNever t) eqn:Et; cbn [negb] in H; [|discriminate].
  apply is_b_eq in Et. subst t. cbn [fold_left]. change (TBasic BNever) with TNever.
  rewrite union_type_never_never. apply IH. exact H.
Qed.

(** outside the structural fast path the batch union IS the fold *)
Lemma union_all_eq_fold_slow : forall G ts,
  can_use_structural_union (filter (fun t => negb (is_b BNever t)) ts) = false \/
  existsb (is_b BAny) ts = true \/ filter (fun t => negb (is_b BNever t)) ts = [] ->
  union_type_all G ts = union_fold G ts.
Proof.
  intros G ts H. unfold union_type_all, union_fold.
  destruct (existsb (is_b BAny) ts) eqn:Ea; [symmetry; apply fold_with_any; exact Ea|].
  destruct (filter (fun t => negb (is_b BNever t)) ts) as [|x r] eqn:Ef.
  - symmetry. apply fold_all_never. exact Ef.
  - destruct H as [H|[H|H]]; try discriminate. rewrite H. reflexivity.
Qed.
