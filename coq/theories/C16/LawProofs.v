(** C16/LawProofs.v — a type accepts everything it unfolds to (members of unions, origins of aliases,
    itself): the common root of reflexivity and of union-member acceptance. *)
From Coq Require Import Relations.
From EV Require Import C16.Model C16.Spec C16.SubProofs C16.UnionProofs C16.CheckProofs.
Local Open Scope N_scope.

(** ** inversion of [unfolds] *)

Lemma unfolds_inv : forall G s z, unfolds G s z -> z = s \/ exists m, unf G s m /\ unfolds G m z.
Proof.
  intros G s z H. apply clos_rt_rt1n in H. destruct H as [|m z Hsm Hmz]; [left; reflexivity|right].
  exists m. split; [exact Hsm|apply clos_rt1n_rt; exact Hmz].
Qed.

Lemma unfolds_leaf : forall G s z, unfolds G s z -> (forall m, ~ unf G s m) -> z = s.
Proof. intros G s z H Hn. destruct (unfolds_inv _ _ _ H) as [E|(m & Hm & _)]; [exact E|]. exfalso. apply (Hn m Hm). Qed.

Lemma unfolds_union_inv : forall G p k ms z, unfolds G (TUnion p k ms) z ->
  z = TUnion p k ms \/ exists m, In m ms /\ unfolds G m z.
Proof.
  intros G p k ms z H. destruct (unfolds_inv _ _ _ H) as [E|(m & Hm & Hz)]; [left; exact E|right].
  inversion Hm; subst. exists m. split; assumption.
Qed.

Lemma unfolds_ref_inv : forall G id z, unfolds G (TRef id) z ->
  z = TRef id \/ exists o, escape_type G (TRef id) = Some o /\ unfolds G o z.
Proof.
  intros G id z H. destruct (unfolds_inv _ _ _ H) as [E|(m & Hm & Hz)]; [left; exact E|right].
  inversion Hm; subst. exists m. split; assumption.
Qed.

Lemma unfolds_step_r : forall G s z y, unfolds G s z -> unf G z y -> unfolds G s y.
Proof. intros G s z y H Hy. eapply rt_trans; [exact H|apply rt_step; exact Hy]. Qed.

(** a union also accepts a union all of whose members are among its own *)
Definition covers_u (s z : ty) : Prop :=
  exists p k ms p' k' zs, s = TUnion p k ms /\ z = TUnion p' k' zs /\ incl zs ms.

Definition rel (G : world) (s z : ty) : Prop := unfolds G s z \/ covers_u s z.

Lemma eqb_refl_b : forall v : bool, Bool.eqb v v = true. Proof. destruct v; reflexivity. Qed.

Section Accept.
  Variable G : world.
  Variable cf : cfg.
  Variable k : nat -> call -> res.
  Variable lvl : N.
  Variable n : nat.
  Hypothesis Hk : forall d c a b, (d = 1 \/ d = 2)%nat -> cfits G a b c -> (a + b < n)%nat -> good (k d c).
  Hypothesis HkGen : forall d s z a b, (d = 1 \/ d = 2)%nat -> fits G a s = true -> fits G b z = true ->
    rel G s z -> (a + b < n)%nat -> k d (CGen s z) = Ok.
  Hypothesis HkRef : forall d id z a b, (d = 1 \/ d = 2)%nat -> fits G a (TRef id) = true -> fits G b z = true ->
    unfolds G (TRef id) z -> (a + b < n)%nat -> k d (CRef id z) = Ok.
  Hypothesis Hg : guard_ok lvl 2 = true.
  Hypothesis Hal : (n <= N.to_nat (MAX_TYPE_CHECK_LEVEL - (lvl + 1)))%nat.

  Lemma Hg1' : guard_ok lvl 1 = true.
  Proof. clear - Hg. unfold guard_ok in *. apply N.leb_le in Hg. apply N.leb_le. lia. Qed.

  Lemma refl_rel : forall s, rel G s s.
  Proof. intros s. left. apply rt_refl. Qed.

  (** [check_ref_type_compact] accepts what the named type unfolds to *)
  Lemma ref_check_accepts : forall id z a b, fits G a (TRef id) = true -> fits G b z = true ->
    unfolds G (TRef id) z -> (a + b <= n)%nat -> ref_check G k lvl id z = Ok.
  Proof.
    intros id z a b Ha Hb Hu Hle. unfold ref_check.
    destruct (fits_ref_inv _ _ _ Ha) as (d & Ed & [Hcl|(a' & o & -> & Hali & Eo & Ho)]); rewrite Ed.
    - (* a class unfolds to nothing but itself *)
      rewrite Hcl. assert (z = TRef id).
      { apply (unfolds_leaf G _ _ Hu). intros m Hm. inversion Hm; subst.
        cbn [escape_type] in H0. rewrite Ed in H0. unfold alias_origin in H0. rewrite Hcl in H0. discriminate. }
      subst z. unfold ref_class. rewrite N.eqb_refl. reflexivity.
    - rewrite Hali.
      assert (Hesc : escape_type G (TRef id) = Some o).
      { cbn [escape_type]. rewrite Ed. unfold alias_origin. rewrite Hali. exact Eo. }
      assert (Hnu : (forall p k0 ms, z <> TUnion p k0 ms) ->
                match d_origin d with
                | None => Err NotMatch
                | Some o0 =>
                    if match o0 with
                       | TUnion _ _ oms => existsb (fun m => req m z) oms
                       | _ => req o0 z
                       end then Ok
                    else if negb (guard_ok lvl 1) then Err Recursion
                    else let result := k 1%nat (CGen o0 z) in
                         if negb (is_ok result) && match z with TRef _ => true | _ => false end
                         then ref_class G k lvl id z else result
                end = Ok).
      { intros Hz. rewrite Eo. rewrite Hg1'. cbn [negb].
        destruct (match o with TUnion _ _ oms => existsb (fun m => req m z) oms | _ => req o z end); [reflexivity|].
        cbv zeta. destruct (unfolds_ref_inv _ _ _ Hu) as [-> |(o' & Eo' & Hoz)].
        - (* z is the alias itself: the nominal retry accepts it *)
          destruct (k 1%nat (CGen o (TRef id))) as [|e|]; cbn [is_ok negb andb]; try reflexivity;
            unfold ref_class; rewrite N.eqb_refl; reflexivity.
        - rewrite Hesc in Eo'. inversion Eo'; subst o'.
          assert (E : k 1%nat (CGen o z) = Ok)
            by (apply (HkGen 1%nat o z a' b); [auto|exact Ho|exact Hb|left; exact Hoz|lia]).
          rewrite E. reflexivity. }
      destruct z as [| | | | | | | |p uk zs]; try (apply Hnu; intros; discriminate).
      destruct (fits_union_inv _ _ _ _ _ Hb) as (b' & -> & Hzs & _).
      apply all_ok_ok. intros m Hm. apply (HkRef 1%nat id m (S a') b'); [auto|exact Ha|apply Hzs; exact Hm| |lia].
      eapply unfolds_step_r; [exact Hu|constructor; exact Hm].
  Qed.

  (** identical parameter lists are accepted *)
  Lemma func_params_refl : forall ps a b first,
    (forall p t, In p ps -> snd p = Some t -> fits G a t = true) ->
    (forall p t, In p ps -> snd p = Some t -> fits G b t = true) -> dots_last ps = true ->
    (S (a + b) < n)%nat -> func_params k lvl first ps ps = Ok.
  Proof.
    induction ps as [|p r IH]; intros a b first Hps Hps' Hd Hle; [reflexivity|].
    cbn [func_params].
    assert (Hrec : forall f, func_params k lvl f r r = Ok).
    { intros f. apply (IH a b f); auto.
      - intros q t Hq. apply Hps. right; exact Hq.
      - intros q t Hq. apply Hps'. right; exact Hq.
      - destruct r; [reflexivity|]. cbn [dots_last] in Hd. apply andb_true_iff in Hd. apply Hd. }
    destruct (fst p =? pn_dots) eqn:Edots.
    - (* the variadic parameter is the last one *)
      assert (r = []).
      { destruct r; [reflexivity|]. cbn [dots_last] in Hd. rewrite Edots in Hd. discriminate. }
      subst r. unfold func_varargs. rewrite Hg1'. cbn [negb].
      destruct (snd p) as [v|] eqn:Ev; [|reflexivity].
      cbn [all_ok]. rewrite Ev.
      assert (Hv : fits G a v = true) by (apply (Hps p v); [left; reflexivity|exact Ev]).
      assert (Hv' : fits G b v = true) by (apply (Hps' p v); [left; reflexivity|exact Ev]).
      assert (E : k 2%nat (CGen v v) = Ok) by (apply (HkGen 2%nat v v a b); [auto|exact Hv|exact Hv'|apply refl_rel|lia]).
      rewrite E. reflexivity.
    - destruct (snd p) as [t|] eqn:Et; [|apply Hrec].
      assert (Hv : fits G a t = true) by (apply (Hps p t); [left; reflexivity|exact Et]).
      assert (Hv' : fits G b t = true) by (apply (Hps' p t); [left; reflexivity|exact Et]).
      assert (E : k 1%nat (CGen t t) = Ok) by (apply (HkGen 1%nat t t a b); [auto|exact Hv|exact Hv'|apply refl_rel|lia]).
      rewrite E. apply Hrec.
  Qed.

  Lemma tuple_members_refl : forall ts a b, (forall t, In t ts -> fits G a t = true) ->
    (forall t, In t ts -> fits G b t = true) -> (a + b < n)%nat ->
    tuple_members k ts ts = Ok.
  Proof.
    induction ts as [|t r IH]; intros a b Hts Hts' Hle; [reflexivity|].
    cbn [tuple_members].
    assert (Hv : fits G a t = true) by (apply Hts; left; reflexivity).
    assert (Hv' : fits G b t = true) by (apply Hts'; left; reflexivity).
    assert (E : k 2%nat (CGen t t) = Ok) by (apply (HkGen 2%nat t t a b); [auto|exact Hv|exact Hv'|apply refl_rel|lia]).
    rewrite E. apply (IH a b); auto; intros x Hx; [apply Hts|apply Hts']; right; exact Hx.
  Qed.

  Lemma unf_not_basic : forall b m, ~ unf G (TBasic b) m. Proof. intros b m H. inversion H. Qed.

  (** [check_general_type_compact] accepts what the source unfolds to *)
  Lemma general_accepts : forall s z a b, fits G a s = true -> fits G b z = true -> rel G s z -> (a + b <= n)%nat ->
    general G cf k lvl s z = Ok.
  Proof.
    intros s z a b Ha Hb Hr Hle. unfold general.
    destruct (is_like_any z) eqn:Ela; [reflexivity|].
    destruct (fast_eq s z) eqn:Efe; [reflexivity|].
    destruct (escape_type G z) as [o|] eqn:Ee.
    { (* the compact type is an alias: continue with its origin *)
      destruct z as [| | | |zid| | | |]; try discriminate. destruct (escape_fits _ _ _ _ Hb Ee) as (b' & -> & Ho).
      apply (HkGen 1%nat s o a b'); [auto|exact Ha|exact Ho| |lia].
      destruct Hr as [Hu|(p & k0 & ms & p' & k' & zs & _ & Ez & _)]; [|discriminate].
      left. eapply unfolds_step_r; [exact Hu|constructor; exact Ee]. }
    assert (Hleaf : (forall m, ~ unf G s m) -> (forall p k0 ms, s <> TUnion p k0 ms) -> z = s).
    { intros Hn Hnu. destruct Hr as [Hu|(p & k0 & ms & _ & _ & _ & Es & _)]; [|exfalso; eapply Hnu; exact Es].
      apply (unfolds_leaf G _ _ Hu Hn). }
    destruct s as [b0|d v|d x|d i|id|sb0|ts|colon ps ret|p uk ms].
    - (* basic *)
      assert (z = TBasic b0) by (apply Hleaf; [apply unf_not_basic|intros; discriminate]). subst z.
      rewrite fits_unfold in Ha. destruct b0; try discriminate; try reflexivity.
    - assert (z = TBoolConst d v) by (apply Hleaf; [intros m H; inversion H|intros; discriminate]). subst z.
      unfold simple. destruct d; [rewrite eqb_refl_b|]; reflexivity.
    - assert (z = TStrConst d x) by (apply Hleaf; [intros m H; inversion H|intros; discriminate]). subst z.
      unfold simple. destruct d; [rewrite N.eqb_refl|]; reflexivity.
    - assert (z = TIntConst d i) by (apply Hleaf; [intros m H; inversion H|intros; discriminate]). subst z.
      unfold simple. destruct d; [rewrite Z.eqb_refl|]; reflexivity.
    - (* named type *)
      destruct Hr as [Hu|(p & k0 & ms & _ & _ & _ & Es & _)]; [|discriminate].
      eapply ref_check_accepts; eassumption.
    - (* array *)
      assert (z = TArray sb0) by (apply Hleaf; [intros m H; inversion H|intros; discriminate]). subst z.
      destruct (fits_array_inv _ _ _ Ha) as (a0 & -> & Ha0).
      assert (b = S a0 \/ True) by auto.
      destruct (fits_array_inv _ _ _ Hb) as (b0 & -> & Hb0).
      unfold complex, array_check.
      assert (Hcall : k 1%nat (CGen (if strict_array_index cf then from_vec [sb0; TNil] else sb0) sb0) = Ok).
      { destruct (strict_array_index cf).
        - pose proof (fits_strict_base G a0 sb0 Ha0) as Hsb.
          apply (HkGen 1%nat _ sb0 (S a0) b0); [auto|exact Hsb|exact Hb0| |lia].
          destruct (is_union sb0) eqn:Eu.
          + destruct sb0 as [| | | | | | | |p uk ms]; try discriminate.
            destruct (fits_union_inv _ _ _ _ _ Ha0) as (a00 & _ & _ & Hn & Hl).
            destruct (from_vec_nil_union p uk ms Hn Hl) as (k' & ms' & -> & Hsub & _).
            right. exists 0, k', ms', p, uk, ms. split; [reflexivity|]. split; [reflexivity|]. exact Hsub.
          + destruct (from_vec_nil_nonunion sb0 Eu) as [[-> ->]|(_ & k' & ms' & -> & Hin & _)].
            * apply refl_rel.
            * left. apply rt_step. constructor. exact Hin.
        - apply (HkGen 1%nat sb0 sb0 a0 b0); [auto|exact Ha0|exact Hb0|apply refl_rel|lia]. }
      rewrite Hcall. reflexivity.
    - (* tuple *)
      assert (z = TTuple ts) by (apply Hleaf; [intros m H; inversion H|intros; discriminate]). subst z.
      destruct (fits_tuple_inv _ _ _ Ha) as (a0 & -> & Ha0).
      unfold complex, tuple_check. rewrite Hg1'.
      assert (E : tuple_members k ts ts = Ok).
      { destruct (fits_tuple_inv _ _ _ Hb) as (b0 & -> & Hb0). apply (tuple_members_refl ts a0 b0); [exact Ha0|exact Hb0|lia]. }
      rewrite E. reflexivity.
    - (* function *)
      assert (z = TFunc colon ps ret) by (apply Hleaf; [intros m H; inversion H|intros; discriminate]). subst z.
      destruct (fits_func_inv _ _ _ _ _ Ha) as (a0 & -> & Hps & Hd & ->).
      unfold func_check. destruct (fits_func_inv _ _ _ _ _ Hb) as (b0 & -> & Hps' & _).
      apply (func_params_refl ps a0 b0 true); [exact Hps|exact Hps'|exact Hd|lia].
    - (* union *)
      destruct (fits_union_inv _ _ _ _ _ Ha) as (a0 & -> & Hms & _).
      unfold complex.
      destruct z as [| | | | | | | |p' uk' zs].
      9:{ (* union against union: every member of the compact union *)
        rewrite Hg1'. destruct (fits_union_inv _ _ _ _ _ Hb) as (b0 & -> & Hzs & _).
        apply all_ok_ok. intros y Hy. apply (HkGen 2%nat _ y (S a0) b0); [auto|exact Ha|apply Hzs; exact Hy| |lia].
        left. destruct Hr as [Hu|(q & k0 & ms0 & q' & k0' & zs0 & Es & Ez & Hinc)].
        - eapply unfolds_step_r; [exact Hu|constructor; exact Hy].
        - inversion Es; inversion Ez; subst. apply rt_step. constructor. apply Hinc. exact Hy. }
      all: destruct Hr as [Hu|(q & k0 & ms0 & q' & k0' & zs0 & _ & Ez & _)]; [|discriminate];
        destruct (unfolds_union_inv _ _ _ _ _ Hu) as [E|(m & Hm & Hmz)]; [discriminate|];
        (apply first_ok_ok with (x := m); [exact Hm| |]);
        [ apply (HkGen 1%nat m _ a0 b); [auto|apply Hms; exact Hm|exact Hb|left; exact Hmz|lia]
        | intros y Hy; apply (Hk 1%nat _ a0 b); [auto|split; [apply Hms; exact Hy|exact Hb]|lia] ].
  Qed.
End Accept.

Lemma check_unfold : forall G cf rem lvl c,
  check G cf rem lvl c =
  step G cf (fun (d : nat) (c' : call) =>
    if MAX_TYPE_CHECK_LEVEL <? lvl + N.of_nat d then Err Recursion
    else match d, rem with
         | 1%nat, S r1 => check G cf r1 (lvl + 1) c'
         | 2%nat, S (S r2) => check G cf r2 (lvl + 2) c'
         | _, _ => Diverge
         end) lvl c.
Proof. intros. destruct rem; reflexivity. Qed.

(** the continuation of [check] at a level where the guard still has room *)
Lemma cont_eq : forall G cf rem lvl d c', (d = 1 \/ d = 2)%nat ->
  lvl + 2 <= MAX_TYPE_CHECK_LEVEL -> MAX_TYPE_CHECK_LEVEL <= N.of_nat rem + lvl ->
  exists r, (if MAX_TYPE_CHECK_LEVEL <? lvl + N.of_nat d then Err Recursion
             else match d, rem with
                  | 1%nat, S r1 => check G cf r1 (lvl + 1) c'
                  | 2%nat, S (S r2) => check G cf r2 (lvl + 2) c'
                  | _, _ => Diverge
                  end) = check G cf r (lvl + N.of_nat d) c'
            /\ MAX_TYPE_CHECK_LEVEL <= N.of_nat r + (lvl + N.of_nat d).
Proof.
  intros G cf rem lvl d c' Hd Hl Hrem.
  destruct (N.ltb_spec MAX_TYPE_CHECK_LEVEL (lvl + N.of_nat d)) as [Hover|_].
  { destruct Hd as [-> | ->]; cbn [N.of_nat] in Hover; lia. }
  destruct Hd as [-> | ->].
  - destruct rem as [|r1]; [cbn [N.of_nat] in *; lia|]. exists r1. split; [reflexivity|]. cbn [N.of_nat]. lia.
  - destruct rem as [|[|r2]]; try (cbn [N.of_nat] in *; lia). exists r2. split; [reflexivity|]. cbn [N.of_nat]. lia.
Qed.

(** within the budget, a type accepts everything it unfolds to *)
Lemma check_accepts : forall G cf m a b rem lvl,
  (a + b <= m)%nat -> within lvl a b -> MAX_TYPE_CHECK_LEVEL <= N.of_nat rem + lvl ->
  (forall s z, fits G a s = true -> fits G b z = true -> rel G s z -> check G cf rem lvl (CGen s z) = Ok) /\
  (forall id z, fits G a (TRef id) = true -> fits G b z = true -> unfolds G (TRef id) z ->
     check G cf rem lvl (CRef id z) = Ok).
Proof.
  intros G cf m. induction m as [m IH] using lt_wf_ind. intros a b rem lvl Hm Hw Hrem.
  assert (Hw' := Hw). unfold within in Hw'.
  set (kk := fun (d : nat) (c' : call) =>
    if MAX_TYPE_CHECK_LEVEL <? lvl + N.of_nat d then Err Recursion
    else match d, rem with
         | 1%nat, S r1 => check G cf r1 (lvl + 1) c'
         | 2%nat, S (S r2) => check G cf r2 (lvl + 2) c'
         | _, _ => Diverge
         end).
  assert (Hk : forall d c a' b', (d = 1 \/ d = 2)%nat -> cfits G a' b' c -> (a' + b' < a + b)%nat -> good (kk d c)).
  { intros d c a' b' Hd Hc Hlt. unfold kk.
    destruct (cont_eq G cf rem lvl d c Hd) as (r & -> & Hr); [lia|exact Hrem|].
    apply (check_good G cf (a' + b')%nat a' b'); auto. unfold within.
    destruct Hd as [-> | ->]; cbn [N.of_nat]; lia. }
  assert (HkGen : forall d s z a' b', (d = 1 \/ d = 2)%nat -> fits G a' s = true -> fits G b' z = true ->
            rel G s z -> (a' + b' < a + b)%nat -> kk d (CGen s z) = Ok).
  { intros d s z a' b' Hd Hs Hz Hr Hlt. unfold kk.
    destruct (cont_eq G cf rem lvl d (CGen s z) Hd) as (r & -> & Hr'); [lia|exact Hrem|].
    apply (IH (a' + b')%nat) with (a := a') (b := b'); auto; try lia. unfold within.
    destruct Hd as [-> | ->]; cbn [N.of_nat]; lia. }
  assert (HkRef : forall d id z a' b', (d = 1 \/ d = 2)%nat -> fits G a' (TRef id) = true -> fits G b' z = true ->
            unfolds G (TRef id) z -> (a' + b' < a + b)%nat -> kk d (CRef id z) = Ok).
  { intros d id z a' b' Hd Hs Hz Hr Hlt. unfold kk.
    destruct (cont_eq G cf rem lvl d (CRef id z) Hd) as (r & -> & Hr'); [lia|exact Hrem|].
    apply (IH (a' + b')%nat) with (a := a') (b := b'); auto; try lia. unfold within.
    destruct Hd as [-> | ->]; cbn [N.of_nat]; lia. }
  assert (Hg : guard_ok lvl 2 = true) by (unfold guard_ok; apply N.leb_le; lia).
  assert (Hal : (a + b <= N.to_nat (MAX_TYPE_CHECK_LEVEL - (lvl + 1)))%nat) by lia.
  split.
  - intros s z Hs Hz Hr. rewrite check_unfold. fold kk. cbn [step].
    eapply general_accepts with (n := (a + b)%nat) (a := a) (b := b); eauto.
  - intros id z Hs Hz Hr. rewrite check_unfold. fold kk. cbn [step].
    eapply ref_check_accepts with (n := (a + b)%nat) (a := a) (b := b); eauto.
Qed.

(** * the laws *)

Lemma check_type_unfolds : forall G cf n s z,
  fits G n s = true -> fits G n z = true -> unfolds G s z -> within 0 n n ->
  check_type G cf s z = Ok.
Proof.
  intros G cf n s z Hs Hz Hu Hw. unfold check_type.
  apply (check_accepts G cf (n + n)%nat n n); auto; [lia|left; exact Hu].
Qed.

Lemma check_refl : forall G cf n T, fits G n T = true -> within 0 n n -> check_type G cf T T = Ok.
Proof. intros G cf n T H Hw. apply (check_type_unfolds G cf n); auto. apply rt_refl. Qed.

Lemma union_member_accepted : forall G cf n p k ms m,
  fits G n (TUnion p k ms) = true -> In m ms -> within 0 n n ->
  check_type G cf (TUnion p k ms) m = Ok.
Proof.
  intros G cf n p k ms m H Hm Hw. apply (check_type_unfolds G cf n); auto.
  - destruct (fits_union_inv _ _ _ _ _ H) as (n' & -> & Hms & _). apply (fits_mono G n'); [lia|apply Hms; exact Hm].
  - apply rt_step. constructor. exact Hm.
Qed.

Lemma alias_origin_accepted : forall G cf n id o,
  fits G n (TRef id) = true -> escape_type G (TRef id) = Some o -> within 0 n n ->
  check_type G cf (TRef id) o = Ok.
Proof.
  intros G cf n id o H He Hw. apply (check_type_unfolds G cf n); auto.
  - destruct (escape_fits _ _ _ _ H He) as (n' & -> & Ho). apply (fits_mono G n'); [lia|exact Ho].
  - apply rt_step. constructor. exact He.
Qed.

(** a class is accepted where a class it reaches through the effective super edges is expected;
    [is_sub_type_of] is iterative, so the length of the chain does not matter *)
Lemma ancestor_accepted : forall G cf A C dA dC,
  get_decl G A = Some dA -> is_alias dA = false ->
  get_decl G C = Some dC -> is_alias dC = false ->
  reach G C A ->
  check_type G cf (TRef A) (TRef C) = Ok.
Proof.
  intros G cf A C dA dC EA HA EC HC Hr. unfold check_type. rewrite check_unfold. cbn [step]. unfold general.
  cbn [is_like_any is_b orb fast_eq].
  destruct (N.eqb_spec A C) as [->|Hne]; [reflexivity|].
  cbn [escape_type]. rewrite EC. unfold alias_origin. rewrite HC.
  unfold ref_check. rewrite EA, HA. unfold ref_class.
  destruct (A =? C); [reflexivity|]. rewrite (reach_is_sub G C A Hr). reflexivity.
Qed.

(** [any] and [unknown] accept everything (the compact alias chain is peeled first, one level each) *)
Lemma top_accepts_gen : forall G cf top n T rem lvl,
  (top = TBasic BAny \/ top = TBasic BUnknown) ->
  escapes_within G n T = true -> lvl + N.of_nat n <= MAX_TYPE_CHECK_LEVEL ->
  MAX_TYPE_CHECK_LEVEL <= N.of_nat rem + lvl ->
  check G cf rem lvl (CGen top T) = Ok.
Proof.
  intros G cf top n. induction n as [|n IH]; intros T rem lvl Htop He Hl Hrem;
    rewrite check_unfold; cbn [step]; unfold general;
    destruct (is_like_any T); try reflexivity; destruct (fast_eq top T); try reflexivity;
    cbn [escapes_within] in He; destruct (escape_type G T) as [o|] eqn:Eo.
  - discriminate.
  - destruct Htop as [-> | ->]; reflexivity.
  - destruct (N.ltb_spec MAX_TYPE_CHECK_LEVEL (lvl + N.of_nat 1)); [cbn [N.of_nat] in *; lia|].
    destruct rem as [|r1]; [cbn [N.of_nat] in *; lia|].
    apply IH; auto; cbn [N.of_nat] in *; lia.
  - destruct Htop as [-> | ->]; reflexivity.
Qed.

Lemma any_unknown_top : forall G cf top T,
  (top = TBasic BAny \/ top = TBasic BUnknown) ->
  escapes_within G (N.to_nat MAX_TYPE_CHECK_LEVEL) T = true ->
  check_type G cf top T = Ok.
Proof.
  intros G cf top T Htop He. unfold check_type.
  apply (top_accepts_gen G cf top (N.to_nat MAX_TYPE_CHECK_LEVEL)); auto; lia.
Qed.

(** ... and otherwise the only other answer is the recursion error of the guard *)
Lemma top_accepts_or_recursion : forall G cf top rem T lvl,
  (top = TBasic BAny \/ top = TBasic BUnknown) ->
  MAX_TYPE_CHECK_LEVEL <= N.of_nat rem + lvl ->
  check G cf rem lvl (CGen top T) = Ok \/ check G cf rem lvl (CGen top T) = Err Recursion.
Proof.
  intros G cf top rem. induction rem as [|r IH]; intros T lvl Htop Hrem;
    rewrite check_unfold; cbn [step]; unfold general;
    destruct (is_like_any T); try (left; reflexivity); destruct (fast_eq top T); try (left; reflexivity);
    destruct (escape_type G T) as [o|]; try (destruct Htop as [-> | ->]; left; reflexivity).
  - destruct (N.ltb_spec MAX_TYPE_CHECK_LEVEL (lvl + N.of_nat 1)); [right; reflexivity|]. cbn [N.of_nat] in *. lia.
  - destruct (N.ltb_spec MAX_TYPE_CHECK_LEVEL (lvl + N.of_nat 1)); [right; reflexivity|].
    apply IH; auto. cbn [N.of_nat] in *. lia.
Qed.
