(** C16/Props.v — property theorems only.  Each is closed by [exact] of a lemma.
    Model: EV.C16.Model (transcription of check_type_compact / union_type / is_sub_type_of on the
    generated grammar); notions: EV.C16.Spec ([fits], [known], [unfolds], [within], [reach]).

    [check_type G cf s c] is [check_type_compact(db, source = s (expected), compact = c (given))]
    started with a fresh [TypeCheckGuard]; [Ok] = accepted. *)
From Coq Require Import Relations String.
From EV Require Import C16.Model C16.Spec C16.SubProofs C16.UnionProofs C16.UnionLaw C16.LawProofs C16.Proofs.
Local Open Scope N_scope.

(** the tables regenerated from today's source are the ones the model is written against *)
Theorem basic_order_matches_source : map basic_name all_basics = basic_kind_names.
Proof. exact Proofs.basic_order_matches_source. Qed.
Theorem gate_order_matches_source :
  general_gate_order = ["is_like_any"; "fast_eq_check"; "escape_type"; "intersection"; "dispatch_on_source"]%string.
Proof. exact Proofs.gate_order_matches_source. Qed.
Theorem base_names_match_source :
  base_type_names = ["boolean"; "function"; "global"; "integer"; "io"; "nil"; "number"; "self"; "string"; "table"; "thread"; "userdata"]%string.
Proof. exact Proofs.base_names_match_source. Qed.

(** LAW 1 (reflexivity).  Full statement: [forall G cf T, check_type G cf T T = Ok].  It is false of the
    faithful model ([check_refl_refuted]: 51 nested arrays exhaust MAX_TYPE_CHECK_LEVEL; replayed on the
    implementation); it holds for every type outside the decidable class [known]. *)
Theorem check_refl_outside_known : forall G cf T, known G T = false -> check_type G cf T T = Ok.
Proof. exact Proofs.check_refl_outside_known. Qed.

(** the same for any budget: a well-formed type of height [n] is accepted by itself at level 0 whenever
    [4 n + 2 <= MAX_TYPE_CHECK_LEVEL] *)
Theorem check_refl : forall G cf n T, fits G n T = true -> within 0 n n -> check_type G cf T T = Ok.
Proof. exact LawProofs.check_refl. Qed.

Theorem check_refl_refuted : exists T, check_type [] cfg_default T T = Err Recursion.
Proof. exact Proofs.check_refl_refuted. Qed.

(** LAW 2 (every member of a union is accepted where the union is expected) *)
Theorem union_member_accepted_outside_known : forall G cf p k ms m,
  known G (TUnion p k ms) = false -> In m ms -> check_type G cf (TUnion p k ms) m = Ok.
Proof. exact Proofs.union_member_accepted_outside_known. Qed.

Theorem union_member_accepted : forall G cf n p k ms m,
  fits G n (TUnion p k ms) = true -> In m ms -> within 0 n n ->
  check_type G cf (TUnion p k ms) m = Ok.
Proof. exact LawProofs.union_member_accepted. Qed.

(** two mutually unrelated recursive aliases in one union: the cross check recurses until the guard stops it *)
Theorem union_member_refuted :
  In (TArray (TRef 101)) (umembers mutual_union) /\
  check_type mutual_world cfg_default mutual_union (TArray (TRef 101)) = Err Recursion /\
  check_type mutual_world cfg_default mutual_union mutual_union = Err Recursion.
Proof. exact Proofs.union_member_refuted. Qed.

(** the common root of laws 1 and 2: a type accepts everything it unfolds to
    (members of unions, origins of aliases, transitively) *)
Theorem accepts_unfolding_outside_known : forall G cf s z,
  known G s = false -> known G z = false -> unfolds G s z -> check_type G cf s z = Ok.
Proof. exact Proofs.accepts_unfolding_outside_known. Qed.

(** LAW 3 (a class is accepted where any of its ancestors is expected), on ANY world — cyclic
    declarations included ([reach] follows the effective super edges, the ones [get_super_types_iter]
    yields) — and for chains of ANY length: [is_sub_type_of] is iterative, the guard is not involved. *)
Theorem ancestor_accepted : forall G cf A C dA dC,
  get_decl G A = Some dA -> is_alias dA = false ->
  get_decl G C = Some dC -> is_alias dC = false ->
  reach G C A ->
  check_type G cf (TRef A) (TRef C) = Ok.
Proof. exact LawProofs.ancestor_accepted. Qed.

(** LAW 4 (any / unknown accept everything).  The compact type's alias chain is peeled before the
    source is looked at, one guard level per alias: accepted when the chain is at most
    MAX_TYPE_CHECK_LEVEL long, and never refused otherwise — the only other answer is the guard's. *)
Theorem any_unknown_top : forall G cf top T,
  (top = TBasic BAny \/ top = TBasic BUnknown) ->
  escapes_within G (N.to_nat MAX_TYPE_CHECK_LEVEL) T = true ->
  check_type G cf top T = Ok.
Proof. exact LawProofs.any_unknown_top. Qed.

Theorem any_unknown_never_refuse : forall G cf top T,
  (top = TBasic BAny \/ top = TBasic BUnknown) ->
  check_type G cf top T = Ok \/ check_type G cf top T = Err Recursion.
Proof. exact Proofs.any_unknown_never_refuse. Qed.

Theorem any_unknown_top_refuted :
  check_type (alias_chain 1000 (N.to_nat MAX_TYPE_CHECK_LEVEL)) cfg_default TAny
             (TRef (1000 + MAX_TYPE_CHECK_LEVEL)) = Err Recursion.
Proof. exact Proofs.any_unknown_top_refuted. Qed.

(** LAW 5 (unioning a batch = unioning one at a time): the two results have the same members — every
    member of one is [==] to, has the hash key of, or is a member of the other ([mem_cover]); both are
    made of elements of the batch.  For ALL batches of the grammar: *)
Theorem union_all_eq_fold : forall G ts, mem_cover (union_type_all G ts) (union_fold G ts).
Proof. exact UnionLaw.union_all_eq_fold. Qed.

(** and outside the structural fast path ([can_use_structural_union]) the batch union IS the fold,
    literally — including the [Any] shortcut and the all-[Never] batch *)
Theorem union_all_is_fold_off_fast_path : forall G ts,
  can_use_structural_union (filter (fun t => negb (is_b BNever t)) ts) = false \/
  existsb (is_b BAny) ts = true \/ filter (fun t => negb (is_b BNever t)) ts = [] ->
  union_type_all G ts = union_fold G ts.
Proof. exact UnionProofs.union_all_eq_fold_slow. Qed.

Example union_example :
  union_type_all ex_world [TBasic BString; TStrConst true 1; TNever; TRef 100] = TUnion 0 UMulti [TBasic BString; TRef 100] /\
  union_type_all ex_world [TArray (TBasic BString); TNever; TIntConst true 4; TArray (TBasic BString)]
    = TUnion 0 UMulti [TArray (TBasic BString); TIntConst true 4].
Proof. exact Proofs.union_example. Qed.

(** non-vacuity *)
Example laws_example :
  known ex_world ex_type = false /\
  check_type ex_world cfg_default ex_type ex_type = Ok /\
  forallb (fun m => match check_type ex_world cfg_default ex_type m with Ok => true | _ => false end) (umembers ex_type) = true /\
  check_type ex_world cfg_default (TRef 100) (TRef 103) = Ok /\
  check_type ex_world cfg_default (TRef 103) (TBasic BInteger) = Err NotMatch /\
  known ex_world (TRef 111) = true /\
  check_type ex_world cfg_default (TArray (TRef 111)) (TArray (TRef 111)) = Ok.
Proof. exact Proofs.laws_example. Qed.

Example reach_example : reach ex_world 103 100.
Proof. exact Proofs.reach_example. Qed.
