(** C16/Corr.v — executable comparison of implementation observations with the model
    (the python plugin writes [case] terms from the harness output). *)
From EV Require Import C16.Model.
Local Open Scope N_scope.

(** strict structural equality, pointer ids included *)
Fixpoint seqb (a b : ty) {struct a} : bool :=
  match a, b with
  | TBasic x, TBasic y => basic_eqb x y
  | TBoolConst d1 v1, TBoolConst d2 v2 => Bool.eqb d1 d2 && Bool.eqb v1 v2
  | TStrConst d1 s1, TStrConst d2 s2 => Bool.eqb d1 d2 && (s1 =? s2)
  | TIntConst d1 i1, TIntConst d2 i2 => Bool.eqb d1 d2 && (i1 =? i2)%Z
  | TRef x, TRef y => x =? y
  | TArray x, TArray y => seqb x y
  | TTuple xs, TTuple ys =>
      (fix go (xs ys : list ty) : bool :=
         match xs, ys with
         | [], [] => true
         | x :: xs', y :: ys' => seqb x y && go xs' ys'
         | _, _ => false
         end) xs ys
  | TFunc c1 ps1 r1, TFunc c2 ps2 r2 =>
      Bool.eqb c1 c2 && seqb r1 r2 &&
      (fix go (ps qs : list (N * option ty)) : bool :=
         match ps, qs with
         | [], [] => true
         | (n1, o1) :: ps', (n2, o2) :: qs' =>
             (n1 =? n2) &&
             match o1, o2 with
             | Some x, Some y => seqb x y
             | None, None => true
             | _, _ => false
             end && go ps' qs'
         | _, _ => false
         end) ps1 ps2
  | TUnion p1 k1 xs, TUnion p2 k2 ys =>
      (p1 =? p2) && ukind_eqb k1 k2 &&
      (fix go (xs ys : list ty) : bool :=
         match xs, ys with
         | [], [] => true
         | x :: xs', y :: ys' => seqb x y && go xs' ys'
         | _, _ => false
         end) xs ys
  | _, _ => false
  end.

(** a result of a union operation: the address of the fresh top-level union node is not comparable *)
Definition top_eqb (a b : ty) : bool :=
  match a, b with
  | TUnion _ k1 xs, TUnion _ k2 ys => ukind_eqb k1 k2 && list_eqb seqb xs ys
  | _, _ => seqb a b
  end.

(** observed check result: 0 ok, 1 not-match, 2 recursion, 3 do-not-check, anything else (panic) never agrees *)
Definition res_code (r : res) : N :=
  match r with
  | Ok => 0
  | Err NotMatch => 1
  | Err Recursion => 2
  | Err DonotCheck => 3
  | Diverge => 99
  end.

Record case := {
  c_world : world;
  c_cfg : cfg;
  c_types : list ty;
  c_checks : list ((N * N) * N);          (* (source index, compact index), observed result code *)
  c_unions : list (list N * (ty * ty));   (* indices, TypeOps::union_all, folded TypeOps::Union *)
  c_subs : list ((N * N) * bool);         (* (sub id, super id), is_sub_type_of *)
  c_eff : list (N * list ty)              (* class id, get_super_types (cyclic edges removed) *)
}.

Definition nth_ty (ts : list ty) (i : N) : ty := nth (N.to_nat i) ts TNil.

Definition check_case (c : case) : bool :=
  let G := c_world c in
  let ts := c_types c in
  forallb (fun '((i, j), r) => res_code (check_type G (c_cfg c) (nth_ty ts i) (nth_ty ts j)) =? r) (c_checks c)
  && forallb (fun '(idx, (all, fold)) =>
                let l := map (nth_ty ts) idx in
                top_eqb (union_type_all G l) all && top_eqb (union_fold G l) fold) (c_unions c)
  && forallb (fun '((a, b), r) =>
                match is_sub_type_of_opt G a b with Some x => Bool.eqb x r | None => false end) (c_subs c)
  && forallb (fun '(id, sups) =>
                match eff_supers G id with
                | Some (Some l) => list_eqb seqb l sups
                | Some None => match sups with [] => true | _ => false end
                | None => false
                end) (c_eff c).

(** which component disagrees (debugging aid for the plugin): 1 checks, 2 unions, 3 subs, 4 eff supers *)
Definition diagnose_case (c : case) : list (N * N) :=
  let G := c_world c in
  let ts := c_types c in
  let idxs {A} (l : list A) := map N.of_nat (seq 0 (length l)) in
  map (fun i => (1, i)) (map fst (filter (fun '(i, ((a, b), r)) => negb (res_code (check_type G (c_cfg c) (nth_ty ts a) (nth_ty ts b)) =? r))
                                  (combine (idxs (c_checks c)) (c_checks c))))
  ++ map (fun i => (2, i)) (map fst (filter (fun '(i, (idx, (all, fold))) =>
                                  let l := map (nth_ty ts) idx in
                                  negb (top_eqb (union_type_all G l) all && top_eqb (union_fold G l) fold))
                                  (combine (idxs (c_unions c)) (c_unions c))))
  ++ map (fun i => (3, i)) (map fst (filter (fun '(i, ((a, b), r)) =>
                                  negb match is_sub_type_of_opt G a b with Some x => Bool.eqb x r | None => false end)
                                  (combine (idxs (c_subs c)) (c_subs c))))
  ++ map (fun i => (4, i)) (map fst (filter (fun '(i, (id, sups)) =>
                                  negb match eff_supers G id with
                                       | Some (Some l) => list_eqb seqb l sups
                                       | Some None => match sups with [] => true | _ => false end
                                       | None => false
                                       end)
                                  (combine (idxs (c_eff c)) (c_eff c)))).
