(** C16/Model.v — transcription of the assignability check and of union construction of
    emmylua_code_analysis, restricted to the generated sub-grammar of types.  Shared by C12.

    Rust sources (crates/emmylua_code_analysis/src):
      db_index/type/types/lua_type.rs       LuaType, PartialEq, Hash
      db_index/type/types/complex.rs        LuaUnionType::{from_vec, into_vec, eq}, is_optional
      db_index/type/types/predicates.rs     LuaType::from_vec, is_boolean/is_number/is_optional
      db_index/type/basic_union.rs          BasicTypeUnion (bitset; iteration in kind order)
      db_index/type/type_ops/union_type.rs  union_type, union_type_all, can_use_structural_union,
                                            union_type_impl, canonicalize_callable_union
      db_index/type/mod.rs                  get_real_type, get_super_types_iter, super_reaches
      semantic/type_check/sub_type.rs       is_sub_type_of (iterative DFS), base_type_name
      semantic/type_check/type_check_guard.rs  TypeCheckGuard::next_level
      semantic/type_check/{mod,simple_type,ref_type,func_type}.rs, complex_type/{mod,array_type_check,tuple_type_check}.rs

    Executable definitions only.  Strings are interned as [N]; the primitive class names used by
    [base_type_name] have reserved ids (see [nm_*]).  A union node carries the identity [p] of its
    [Arc] because [impl Hash for LuaType] hashes unions by pointer; unions built by the model itself
    carry [0].  Classes have no fields/operators/generic parameters; enums, generics, objects,
    table constants, signatures, variadics, intersections and template references are outside the
    grammar (the harness rejects worlds that contain them). *)
From Coq Require Export List NArith ZArith Bool Lia.
From EV Require Export Gen.C16_Consts.
Export ListNotations.
Local Open Scope N_scope.

Arguments N.add : simpl never.
Arguments N.sub : simpl never.
Arguments N.mul : simpl never.
Arguments N.eqb : simpl never.
Arguments N.ltb : simpl never.
Arguments N.leb : simpl never.

(** * Types *)

(** [enum BasicTypeKind] in declaration order (checked against Gen.C16_Consts.basic_kind_names) *)
Inductive basic : Set :=
| BUnknown | BAny | BNil | BTable | BUserdata | BFunction | BThread | BBoolean | BString
| BInteger | BNumber | BIo | BSelfInfer | BGlobal | BNever.

Definition all_basics : list basic :=
  [BUnknown; BAny; BNil; BTable; BUserdata; BFunction; BThread; BBoolean; BString;
   BInteger; BNumber; BIo; BSelfInfer; BGlobal; BNever].

Definition basic_idx (b : basic) : N :=
  match b with
  | BUnknown => 0 | BAny => 1 | BNil => 2 | BTable => 3 | BUserdata => 4 | BFunction => 5
  | BThread => 6 | BBoolean => 7 | BString => 8 | BInteger => 9 | BNumber => 10 | BIo => 11
  | BSelfInfer => 12 | BGlobal => 13 | BNever => 14
  end.

Definition basic_eqb (a b : basic) : bool := basic_idx a =? basic_idx b.

(** representation of a [LuaUnionType] *)
Inductive ukind : Set := UBasic | UNullable | UMulti.

Definition ukind_eqb (a b : ukind) : bool :=
  match a, b with
  | UBasic, UBasic | UNullable, UNullable | UMulti, UMulti => true
  | _, _ => false
  end.

(** The grammar.  [TBoolConst doc v]: [DocBooleanConst v] when [doc], else [BooleanConst v]; likewise
    for strings (interned) and integers.  [TUnion p k ms]: [ms] is [LuaUnionType::into_vec()]
    ([Basic]: members in kind order; [Nullable t]: [[t; nil]]; [Multi v]: [v]).
    [TFunc colon params ret]: a [DocFunction]; a parameter is (name, optional type). *)
Inductive ty : Type :=
| TBasic (b : basic)
| TBoolConst (doc : bool) (v : bool)
| TStrConst (doc : bool) (s : N)
| TIntConst (doc : bool) (i : Z)
| TRef (id : N)
| TArray (base : ty)
| TTuple (ts : list ty)
| TFunc (colon : bool) (ps : list (N * option ty)) (ret : ty)
| TUnion (p : N) (k : ukind) (ms : list ty).

Definition TNil := TBasic BNil.
Definition TAny := TBasic BAny.
Definition TNever := TBasic BNever.

(** reserved name ids *)
Definition nm_integer : N := 1.
Definition nm_number : N := 2.
Definition nm_boolean : N := 3.
Definition nm_string : N := 4.
Definition nm_table : N := 5.
Definition nm_function : N := 6.
Definition nm_thread : N := 7.
Definition nm_userdata : N := 8.
Definition nm_io : N := 9.
Definition nm_global : N := 10.
Definition nm_self : N := 11.
Definition nm_nil : N := 12.
(** parameter names: ["..."] and ["self"] *)
Definition pn_dots : N := 0.
Definition pn_self : N := 1.

(** declarations of the world *)
Inductive dkind : Set := DClass | DAlias.
Record decl := { d_kind : dkind; d_supers : list ty; d_origin : option ty }.
Definition world := list (N * decl).

Record cfg := { strict_array_index : bool; doc_base_const_match_base_type : bool }.

Fixpoint get_decl (G : world) (id : N) : option decl :=
  match G with
  | [] => None
  | (k, d) :: r => if k =? id then Some d else get_decl r id
  end.

Definition is_alias (d : decl) : bool := match d_kind d with DAlias => true | DClass => false end.
Definition is_class (d : decl) : bool := match d_kind d with DClass => true | DAlias => false end.

(** [LuaTypeDecl::get_alias_origin(db, None)] / [get_alias_ref] *)
Definition alias_origin (d : decl) : option ty := if is_alias d then d_origin d else None.

(** * Predicates of LuaType *)

Definition is_basic (t : ty) : bool := match t with TBasic _ => true | _ => false end.
Definition is_b (b : basic) (t : ty) : bool := match t with TBasic b' => basic_eqb b b' | _ => false end.
Definition is_nil := is_b BNil.
Definition is_union (t : ty) : bool := match t with TUnion _ _ _ => true | _ => false end.
Definition is_func (t : ty) : bool := match t with TFunc _ _ _ => true | _ => false end.

Definition is_boolean (t : ty) : bool :=
  match t with TBasic BBoolean | TBoolConst _ _ => true | _ => false end.
Definition is_number (t : ty) : bool :=
  match t with TBasic BNumber | TBasic BInteger | TIntConst _ _ => true | _ => false end.

(** [LuaType::is_optional] *)
Fixpoint is_optional (t : ty) : bool :=
  match t with
  | TBasic BNil | TBasic BAny | TBasic BUnknown => true
  | TUnion _ UBasic ms => existsb is_nil ms
  | TUnion _ UNullable _ => true
  | TUnion _ UMulti ms => existsb is_optional ms
  | _ => false
  end.

(** [base_type_name] (sub_type.rs) *)
Definition base_type_name (t : ty) : option N :=
  match t with
  | TBasic BInteger | TIntConst _ _ => Some nm_integer
  | TBasic BNumber => Some nm_number
  | TBasic BBoolean | TBoolConst _ _ => Some nm_boolean
  | TBasic BString | TStrConst _ _ => Some nm_string
  | TBasic BTable | TTuple _ | TArray _ => Some nm_table
  | TFunc _ _ _ | TBasic BFunction => Some nm_function
  | TBasic BThread => Some nm_thread
  | TBasic BUserdata => Some nm_userdata
  | TBasic BIo => Some nm_io
  | TBasic BGlobal => Some nm_global
  | TBasic BSelfInfer => Some nm_self
  | TBasic BNil => Some nm_nil
  | _ => None
  end.

(** * Hash equality and PartialEq *)

Section ListEq.
  Context {A : Type} (eqb : A -> A -> bool).
  Fixpoint list_eqb (xs ys : list A) : bool :=
    match xs, ys with
    | [], [] => true
    | x :: xs', y :: ys' => eqb x y && list_eqb xs' ys'
    | _, _ => false
    end.
End ListEq.

(** equality of hashes (ignoring collisions): [impl Hash for LuaType] hashes a union by the address of
    its [Arc], everything else of the grammar structurally (derived [Hash] of the array / tuple /
    function payloads). *)
Fixpoint hkey_eqb (a b : ty) {struct a} : bool :=
  match a, b with
  | TBasic x, TBasic y => basic_eqb x y
  | TBoolConst d1 v1, TBoolConst d2 v2 => Bool.eqb d1 d2 && Bool.eqb v1 v2
  | TStrConst d1 s1, TStrConst d2 s2 => Bool.eqb d1 d2 && (s1 =? s2)
  | TIntConst d1 i1, TIntConst d2 i2 => Bool.eqb d1 d2 && (i1 =? i2)%Z
  | TRef x, TRef y => x =? y
  | TArray x, TArray y => hkey_eqb x y
  | TTuple xs, TTuple ys =>
      (fix go (xs ys : list ty) : bool :=
         match xs, ys with
         | [], [] => true
         | x :: xs', y :: ys' => hkey_eqb x y && go xs' ys'
         | _, _ => false
         end) xs ys
  | TFunc c1 ps1 r1, TFunc c2 ps2 r2 =>
      Bool.eqb c1 c2 && hkey_eqb r1 r2 &&
      (fix go (ps qs : list (N * option ty)) : bool :=
         match ps, qs with
         | [], [] => true
         | (n1, o1) :: ps', (n2, o2) :: qs' =>
             (n1 =? n2) &&
             match o1, o2 with
             | Some x, Some y => hkey_eqb x y
             | None, None => true
             | _, _ => false
             end && go ps' qs'
         | _, _ => false
         end) ps1 ps2
  | TUnion p1 _ _, TUnion p2 _ _ => p1 =? p2
  | _, _ => false
  end.

(** [HashSet::insert] answers "already present" for an element with the same hash (and [==], which the
    same hash key implies for values that share their union nodes) *)
Definition hmem (t : ty) (seen : list ty) : bool := existsb (fun e => hkey_eqb e t) seen.

(** order-preserving de-duplication through a [HashSet] *)
Fixpoint hdedup_acc (ts seen : list ty) : list ty :=
  match ts with
  | [] => []
  | t :: r => if hmem t seen then hdedup_acc r seen else t :: hdedup_acc r (t :: seen)
  end.
Definition hdedup (ts : list ty) : list ty := hdedup_acc ts [].

(** remove the first element with the same hash key *)
Fixpoint hremove (t : ty) (s : list ty) : option (list ty) :=
  match s with
  | [] => None
  | e :: r => if hkey_eqb e t then Some r
              else match hremove t r with Some r' => Some (e :: r') | None => None end
  end.

(** [impl PartialEq for LuaUnionType], Multi/Multi arm: same length, build a [HashSet<&LuaType>] from
    [a], remove every item of [b], the set must end empty *)
Fixpoint multi_remove_all (bs s : list ty) : bool :=
  match bs with
  | [] => match s with [] => true | _ => false end
  | b :: r => match hremove b s with Some s' => multi_remove_all r s' | None => false end
  end.
Definition multi_eq (xs ys : list ty) : bool :=
  (N.of_nat (length xs) =? N.of_nat (length ys)) && multi_remove_all ys (hdedup xs).

(** [impl PartialEq for LuaType] on the grammar *)
Fixpoint req (a b : ty) {struct a} : bool :=
  match a, b with
  | TBasic x, TBasic y => basic_eqb x y
  | TBoolConst d1 v1, TBoolConst d2 v2 => Bool.eqb d1 d2 && Bool.eqb v1 v2
  | TStrConst d1 s1, TStrConst d2 s2 => Bool.eqb d1 d2 && (s1 =? s2)
  | TIntConst d1 i1, TIntConst d2 i2 => Bool.eqb d1 d2 && (i1 =? i2)%Z
  | TRef x, TRef y => x =? y
  | TArray x, TArray y => req x y
  | TTuple xs, TTuple ys =>
      (fix go (xs ys : list ty) : bool :=
         match xs, ys with
         | [], [] => true
         | x :: xs', y :: ys' => req x y && go xs' ys'
         | _, _ => false
         end) xs ys
  | TFunc c1 ps1 r1, TFunc c2 ps2 r2 =>
      Bool.eqb c1 c2 && req r1 r2 &&
      (fix go (ps qs : list (N * option ty)) : bool :=
         match ps, qs with
         | [], [] => true
         | (n1, o1) :: ps', (n2, o2) :: qs' =>
             (n1 =? n2) &&
             match o1, o2 with
             | Some x, Some y => req x y
             | None, None => true
             | _, _ => false
             end && go ps' qs'
         | _, _ => false
         end) ps1 ps2
  | TUnion _ k1 xs, TUnion _ k2 ys =>
      match k1, k2 with
      | UBasic, UBasic => list_eqb hkey_eqb xs ys          (* equal bitsets *)
      | UNullable, UNullable =>
          match xs, ys with
          | x :: _, y :: _ => req x y
          | _, _ => false
          end
      | UMulti, UMulti => multi_eq xs ys
      | _, _ => false
      end
  | _, _ => false
  end.

(** [Vec::contains] *)
Definition rmem (t : ty) (l : list ty) : bool := existsb (fun e => req e t) l.

(** * Building unions *)

(** [LuaUnionType::into_vec] *)
Definition members (t : ty) : list ty := match t with TUnion _ _ ms => ms | _ => [t] end.
Definition umembers (t : ty) : list ty := match t with TUnion _ _ ms => ms | _ => [] end.

(** [LuaUnionType::from_vec] followed by [into_vec]: the stored form of the new union *)
Definition from_vec_u (types : list ty) : ukind * list ty :=
  if forallb is_basic types then
    (UBasic, map TBasic (filter (fun k => existsb (is_b k) types) all_basics))
  else if (N.of_nat (length types) =? 2) && existsb is_nil types then
    match find (fun t => negb (is_nil t)) types with
    | Some t => (UNullable, [t; TNil])
    | None => (UMulti, types)
    end
  else (UMulti, types).

Definition mk_union (types : list ty) : ty :=
  let '(k, ms) := from_vec_u types in TUnion 0 k ms.

(** the loop of [LuaType::from_vec]: flatten one level, keep first occurrences *)
Fixpoint flat_dedup (types seen : list ty) : list ty :=
  match types with
  | [] => []
  | TUnion _ _ ms :: r =>
      (fix inner (ms seen : list ty) {struct ms} : list ty :=
         match ms with
         | [] => flat_dedup r seen
         | m :: ms' => if hmem m seen then inner ms' seen else m :: inner ms' (m :: seen)
         end) ms seen
  | t :: r => if hmem t seen then flat_dedup r seen else t :: flat_dedup r (t :: seen)
  end.

(** [LuaType::from_vec] *)
Definition from_vec (types : list ty) : ty :=
  match types with
  | [] => TNil
  | [t] => t
  | _ =>
      match flat_dedup types [] with
      | [] => TNil
      | [t] => t
      | r => mk_union r
      end
  end.

(** [get_real_type_with_depth]: follow alias origins, at most [REAL_TYPE_MAX_DEPTH] steps;
    [None] when a declaration (or an alias origin) is missing *)
Fixpoint real_type_n (G : world) (n : nat) (t : ty) : option ty :=
  match n with
  | O => Some t
  | S n' =>
      match t with
      | TRef id =>
          match get_decl G id with
          | None => None
          | Some d =>
              if is_alias d then
                match d_origin d with
                | Some o => real_type_n G n' o
                | None => None
                end
              else Some t
          end
      | _ => Some t
      end
  end.
Definition get_real_type (G : world) (t : ty) : option ty :=
  real_type_n G (N.to_nat REAL_TYPE_MAX_DEPTH) t.

Definition is_int_const (t : ty) : bool := match t with TIntConst _ _ => true | _ => false end.
Definition is_str_const (t : ty) : bool := match t with TStrConst _ _ => true | _ => false end.

(** [union_type_impl(match_source, source, target)], arms in source order *)
Definition union_type_impl (ms source target : ty) : ty :=
  if is_b BAny ms then TAny
  else if is_b BAny target then TAny
  else if is_b BNever ms then target
  else if is_b BNever target then source
  else if is_b BInteger ms && is_int_const target then TBasic BInteger
  else if is_int_const ms && is_b BInteger target then TBasic BInteger
  else if is_b BNumber ms && is_number target then TBasic BNumber
  else if is_b BNumber target && is_number ms then TBasic BNumber
  else if is_b BString ms && is_str_const target then TBasic BString
  else if is_str_const ms && is_b BString target then TBasic BString
  else if is_b BBoolean ms && is_boolean target then TBasic BBoolean
  else if is_b BBoolean target && is_boolean ms then TBasic BBoolean
  else
    match ms, target with
    | TBoolConst _ l, TBoolConst _ r => if Bool.eqb l r then source else TBasic BBoolean
    | TBasic BFunction, TFunc _ _ _ => TBasic BFunction
    | TFunc _ _ _, TBasic BFunction => TBasic BFunction
    | TRef a, TRef b => if a =? b then source else from_vec [source; target]
    | TUnion _ _ lms, TUnion _ _ rms =>
        if req ms target then source else from_vec (lms ++ rms)
    | TUnion _ _ lms, _ =>
        if rmem target lms then source else mk_union (lms ++ [target])
    | _, TUnion _ _ rms =>
        if rmem ms rms then target else mk_union (rms ++ [source])
    | _, _ => if req ms target then source else from_vec [source; target]
    end.

(** de-duplication with [==] keeping first occurrences ([canonicalize_callable_union]; two
    [DocFunction]s are "the same callable" exactly when they are [==]) *)
Fixpoint rdedup_acc (ts acc : list ty) : list ty :=
  match ts with
  | [] => []
  | t :: r => if existsb (fun e => req e t) acc then rdedup_acc r acc else t :: rdedup_acc r (acc ++ [t])
  end.

Definition canonicalize_callable_union (t : ty) : ty :=
  match t with
  | TUnion _ _ ms =>
      if existsb is_func ms then from_vec (rdedup_acc ms []) else from_vec ms
  | _ => t
  end.

(** [union_type] = [TypeOps::Union.apply] *)
Definition union_type (G : world) (source target : ty) : ty :=
  let ms := match get_real_type G source with Some r => r | None => source end in
  canonicalize_callable_union (union_type_impl ms source target).

(** [can_use_structural_union]: flags are updated member by member and tested after each member *)
Record sflags := {
  f_number : bool; f_number_variant : bool; f_integer : bool; f_integer_const : bool;
  f_string : bool; f_string_const : bool; f_boolean : bool; f_boolean_consts : N;
  f_table : bool }.
Definition sflags0 : sflags :=
  {| f_number := false; f_number_variant := false; f_integer := false; f_integer_const := false;
     f_string := false; f_string_const := false; f_boolean := false; f_boolean_consts := 0; f_table := false |}.
Definition sflags_bad (f : sflags) : bool :=
  (f_number f && f_number_variant f) || (f_integer f && f_integer_const f)
  || (f_string f && f_string_const f) || (f_boolean f && (0 <? f_boolean_consts f))
  || (1 <? f_boolean_consts f).
Definition sflags_step (f : sflags) (t : ty) : option sflags :=
  match t with
  | TUnion _ _ _ | TRef _ | TFunc _ _ _ => None
  | TBasic BNumber => Some {| f_number := true; f_number_variant := f_number_variant f; f_integer := f_integer f;
      f_integer_const := f_integer_const f; f_string := f_string f; f_string_const := f_string_const f;
      f_boolean := f_boolean f; f_boolean_consts := f_boolean_consts f; f_table := f_table f |}
  | TBasic BInteger => Some {| f_number := f_number f; f_number_variant := true; f_integer := true;
      f_integer_const := f_integer_const f; f_string := f_string f; f_string_const := f_string_const f;
      f_boolean := f_boolean f; f_boolean_consts := f_boolean_consts f; f_table := f_table f |}
  | TIntConst _ _ => Some {| f_number := f_number f; f_number_variant := true; f_integer := f_integer f;
      f_integer_const := true; f_string := f_string f; f_string_const := f_string_const f;
      f_boolean := f_boolean f; f_boolean_consts := f_boolean_consts f; f_table := f_table f |}
  | TBasic BString => Some {| f_number := f_number f; f_number_variant := f_number_variant f; f_integer := f_integer f;
      f_integer_const := f_integer_const f; f_string := true; f_string_const := f_string_const f;
      f_boolean := f_boolean f; f_boolean_consts := f_boolean_consts f; f_table := f_table f |}
  | TStrConst _ _ => Some {| f_number := f_number f; f_number_variant := f_number_variant f; f_integer := f_integer f;
      f_integer_const := f_integer_const f; f_string := f_string f; f_string_const := true;
      f_boolean := f_boolean f; f_boolean_consts := f_boolean_consts f; f_table := f_table f |}
  | TBasic BBoolean => Some {| f_number := f_number f; f_number_variant := f_number_variant f; f_integer := f_integer f;
      f_integer_const := f_integer_const f; f_string := f_string f; f_string_const := f_string_const f;
      f_boolean := true; f_boolean_consts := f_boolean_consts f; f_table := f_table f |}
  | TBoolConst _ _ => Some {| f_number := f_number f; f_number_variant := f_number_variant f; f_integer := f_integer f;
      f_integer_const := f_integer_const f; f_string := f_string f; f_string_const := f_string_const f;
      f_boolean := f_boolean f; f_boolean_consts := f_boolean_consts f + 1; f_table := f_table f |}
  | TBasic BTable => Some {| f_number := f_number f; f_number_variant := f_number_variant f; f_integer := f_integer f;
      f_integer_const := f_integer_const f; f_string := f_string f; f_string_const := f_string_const f;
      f_boolean := f_boolean f; f_boolean_consts := f_boolean_consts f; f_table := true |}
  | _ => Some f
  end.
Fixpoint can_use_structural_from (f : sflags) (types : list ty) : bool :=
  match types with
  | [] => true
  | t :: r =>
      match sflags_step f t with
      | None => false
      | Some f' => if sflags_bad f' then false else can_use_structural_from f' r
      end
  end.
Definition can_use_structural_union (types : list ty) : bool := can_use_structural_from sflags0 types.

(** the one-at-a-time union: [result = Never; for t in ts: result = union_type(result, t)] *)
Definition union_fold (G : world) (ts : list ty) : ty := fold_left (union_type G) ts TNever.

(** [union_type_all] = [TypeOps::union_all]: the scan returns [Any] at the first [Any] and drops the
    [Never]s for the structural fast path; the slow path folds over the batch as given *)
Definition union_type_all (G : world) (types : list ty) : ty :=
  if existsb (is_b BAny) types then TAny
  else
    let result_types := filter (fun t => negb (is_b BNever t)) types in
    match result_types with
    | [] => TNever
    | _ => if can_use_structural_union result_types then from_vec result_types
           else union_fold G types
    end.

(** * Sub-typing: the super-type graph *)

(** [super_type_base_decl_id] *)
Definition super_id (t : ty) : option N := match t with TRef id => Some id | _ => None end.

Fixpoint super_ids (ts : list ty) : list N :=
  match ts with
  | [] => []
  | t :: r => match super_id t with Some i => i :: super_ids r | None => super_ids r end
  end.

(** [self.supers.get(id)] : only declared classes that list at least ... any [---@class X: ...] entry *)
Definition raw_supers (G : world) (id : N) : option (list ty) :=
  match get_decl G id with
  | Some d => match d_supers d with [] => None | l => Some l end
  | None => None
  end.

(** every id that occurs in the world: an upper bound for the visited sets *)
Definition universe (G : world) : list N :=
  flat_map (fun kd => fst kd :: super_ids (d_supers (snd kd))) G.

(** [LuaTypeIndex::super_reaches] — recursive DFS sharing one [visited] set; [None] = out of fuel *)
Fixpoint super_reaches (G : world) (fuel : nat) (cur tgt : N) (visited : list N) : option (bool * list N) :=
  match fuel with
  | O => None
  | S f =>
      if cur =? tgt then Some (true, visited)
      else if existsb (N.eqb cur) visited then Some (false, visited)
      else
        let visited := cur :: visited in
        match raw_supers G cur with
        | None => Some (false, visited)
        | Some sups =>
            (fix any (ids : list N) (visited : list N) : option (bool * list N) :=
               match ids with
               | [] => Some (false, visited)
               | i :: r =>
                   match super_reaches G f i tgt visited with
                   | None => None
                   | Some (true, v) => Some (true, v)
                   | Some (false, v) => any r v
                   end
               end) (super_ids sups) visited
        end
  end.

Definition dfs_fuel (G : world) : nat := S (length (universe G)).

(** [is_cyclic_super_edge(decl_id, super_type)] with a cleared [visited] *)
Definition is_cyclic_super_edge (G : world) (id : N) (sup : ty) : option bool :=
  match super_id sup with
  | None => Some false
  | Some s => match super_reaches G (dfs_fuel G) s id [] with
              | Some (b, _) => Some b
              | None => None
              end
  end.

(** [get_super_types_iter]: the declared supers without the edges that lie on a cycle.
    outer [None] = out of fuel; inner [None] = no entry *)
Definition eff_supers (G : world) (id : N) : option (option (list ty)) :=
  match raw_supers G id with
  | None => Some None
  | Some sups =>
      (fix go (l : list ty) : option (option (list ty)) :=
         match l with
         | [] => Some (Some [])
         | s :: r =>
             match is_cyclic_super_edge G id s, go r with
             | Some c, Some (Some r') => Some (Some (if c then r' else s :: r'))
             | _, _ => None
             end
         end) sups
  end.

(** the [for super_type in supers_iter] loop of [check_sub_type_of_iterative]:
    [inl tt] = found, [inr (stack, visited)] otherwise *)
Fixpoint sub_scan (sup : N) (sups : list ty) (stack visited : list N) : unit + (list N * list N) :=
  match sups with
  | [] => inr (stack, visited)
  | TRef i :: r =>
      if i =? sup then inl tt
      else if existsb (N.eqb i) visited then sub_scan sup r stack visited
      else sub_scan sup r (i :: stack) (i :: visited)
  | t :: r =>
      match base_type_name t with
      | Some n => if n =? sup then inl tt else sub_scan sup r stack visited
      | None => sub_scan sup r stack visited
      end
  end.

(** the [while let Some(current_id) = stack.pop()] loop; the head of the list is the top of the stack *)
Fixpoint sub_loop (G : world) (fuel : nat) (sup : N) (stack visited : list N) : option bool :=
  match fuel with
  | O => None
  | S f =>
      match stack with
      | [] => Some false
      | cur :: rest =>
          match eff_supers G cur with
          | None => None
          | Some None => sub_loop G f sup rest visited
          | Some (Some sups) =>
              match sub_scan sup sups rest visited with
              | inl _ => Some true
              | inr (stack', visited') => sub_loop G f sup stack' visited'
              end
          end
      end
  end.

(** [is_sub_type_of(db, sub, super)]; [None] = out of fuel (proved impossible) *)
Definition is_sub_type_of_opt (G : world) (sub sup : N) : option bool :=
  if sub =? sup then Some true
  else sub_loop G (S (dfs_fuel G)) sup [sub] [sub].

Definition is_sub_type_of (G : world) (sub sup : N) : bool :=
  match is_sub_type_of_opt G sub sup with Some b => b | None => false end.

(** * The assignability check *)

Inductive reason : Set := DonotCheck | NotMatch | Recursion.
(** [Diverge]: the model ran out of fuel, i.e. the transcribed recursion is deeper than the guard
    allows (proved impossible: [check_depth_bounded]) *)
Inductive res : Set := Ok | Err (r : reason) | Diverge.

Definition is_ok (r : res) : bool := match r with Ok => true | _ => false end.
Definition is_not_match (r : res) : bool := match r with Err NotMatch => true | _ => false end.

(** the recursive entry points *)
Inductive call : Type :=
| CGen (s c : ty)                               (* check_general_type_compact(source, compact) *)
| CSimple (s c : ty)                            (* check_simple_type_compact *)
| CRef (id : N) (c : ty)                        (* check_ref_type_compact *)
| CFunc (colon : bool) (ps : list (N * option ty)) (c : ty)   (* check_doc_func_type_compact *)
| CComplex (s c : ty).                          (* check_complex_type_compact *)

(** [for x in xs { f(x)? }; Ok(())] *)
Fixpoint all_ok {A} (f : A -> res) (xs : list A) : res :=
  match xs with
  | [] => Ok
  | x :: r => match f x with Ok => all_ok f r | e => e end
  end.

(** [for x in xs { match f(x) { Ok => return Ok, Err(e) if e.is_type_not_match() => {}, Err(e) => return Err(e) } }; Err(TypeNotMatch)] *)
Fixpoint first_ok {A} (f : A -> res) (xs : list A) : res :=
  match xs with
  | [] => Err NotMatch
  | x :: r => match f x with
              | Ok => Ok
              | Err NotMatch => first_ok f r
              | e => e
              end
  end.

Section Check.
  Variable G : world.
  Variable cf : cfg.

  (** [fast_eq_check] *)
  Definition fast_eq (a b : ty) : bool :=
    match a, b with
    | TBasic x, TBasic y =>
        basic_eqb x y && negb (basic_eqb x BSelfInfer) && negb (basic_eqb x BNever)
    | TRef x, TRef y => x =? y
    | TUnion _ UNullable (TRef x :: _), TRef y => x =? y
    | _, _ => false
    end.

  (** [is_like_any] *)
  Definition is_like_any (t : ty) : bool := is_b BAny t || is_b BUnknown t.

  (** [escape_type] : only aliases escape in this grammar *)
  Definition escape_type (t : ty) : option ty :=
    match t with
    | TRef id => match get_decl G id with Some d => alias_origin d | None => None end
    | _ => None
    end.

  (** [get_alias_real_type(db, compact, guard)] : walks alias origins, one level per alias;
      [n] = how many more [next_level]s succeed *)
  Fixpoint alias_real (n : nat) (c : ty) : ty + reason :=
    match c with
    | TRef id =>
        match get_decl G id with
        | None => inr DonotCheck
        | Some d =>
            if is_alias d then
              match d_origin d with
              | None => inr DonotCheck
              | Some o => match n with O => inr Recursion | S n' => alias_real n' o end
              end
            else inl c
        end
    | _ => inl c
    end.

  Section Step.
    (** [k d c] : the recursive call [c] made with the guard incremented [d] times ([d] is 1 or 2);
        it answers [Err Recursion] when an increment fails *)
    Variable k : nat -> call -> res.
    Variable lvl : N.

    (** does [check_guard.next_level()] succeed [d] times *)
    Definition guard_ok (d : N) : bool := lvl + d <=? MAX_TYPE_CHECK_LEVEL.

    (** [check_base_type_for_ref_compact(source, compact = Ref, guard)] *)
    Definition base_for_ref (s c : ty) : res :=
      if negb (guard_ok 1) then Err Recursion else
      match alias_real (N.to_nat (MAX_TYPE_CHECK_LEVEL - (lvl + 1))) c with
      | inr e => Err e
      | inl (TRef id) =>
          match base_type_name s with
          | Some sid => if is_sub_type_of G id sid then Ok else Err NotMatch
          | None => Err NotMatch
          end
      | inl _ => Err NotMatch
      end.

    (** the tail of [check_simple_type_compact] *)
    Definition simple_tail (s c : ty) : res :=
      match c with
      | TUnion _ _ ms => all_ok (fun m => k 1 (CSimple s m)) ms
      | _ => Err NotMatch
      end.

    (** [Ok => return Ok, not-match => fall through, other error => return it] *)
    Definition ref_or_tail (s c : ty) : res :=
      match base_for_ref s c with
      | Ok => Ok
      | Err NotMatch => simple_tail s c
      | e => e
      end.

    (** [check_simple_type_compact] *)
    Definition simple (s c : ty) : res :=
      match s with
      | TBasic BUnknown | TBasic BAny => Ok
      | TBasic BNil => if is_nil c then Ok else simple_tail s c
      | TBasic BTable =>
          match c with
          | TBasic BTable | TTuple _ | TArray _ | TRef _ | TBasic BGlobal | TBasic BUserdata | TBasic BAny => Ok
          | _ => simple_tail s c
          end
      | TBasic BUserdata =>
          match c with TBasic BUserdata | TRef _ => Ok | _ => simple_tail s c end
      | TBasic BFunction =>
          match c with TBasic BFunction | TFunc _ _ _ => Ok | _ => simple_tail s c end
      | TBasic BThread => if is_b BThread c then Ok else simple_tail s c
      | TBasic BBoolean | TBoolConst false _ => if is_boolean c then Ok else simple_tail s c
      | TBasic BString =>
          match c with
          | TBasic BString | TStrConst _ _ => Ok
          | TRef _ => ref_or_tail s c
          | _ => simple_tail s c
          end
      | TStrConst false _ =>
          match c with
          | TBasic BString | TStrConst _ _ => Ok
          | TRef _ => ref_or_tail s c
          | _ => simple_tail s c
          end
      | TBasic BInteger | TIntConst false _ =>
          match c with
          | TBasic BInteger | TIntConst _ _ => Ok
          | TRef _ => ref_or_tail s c
          | _ => simple_tail s c
          end
      | TBasic BNumber =>
          match c with
          | TBasic BNumber | TBasic BInteger | TIntConst _ _ => Ok
          | _ => simple_tail s c
          end
      | TBasic BIo => if is_b BIo c then Ok else simple_tail s c
      | TBasic BGlobal => if is_b BGlobal c then Ok else simple_tail s c
      | TIntConst true i =>
          match c with
          | TIntConst _ j => if (i =? j)%Z then Ok else Err NotMatch
          | TBasic BInteger => if doc_base_const_match_base_type cf then Ok else Err NotMatch
          | TRef _ => if doc_base_const_match_base_type cf then ref_or_tail s c else simple_tail s c
          | _ => simple_tail s c
          end
      | TStrConst true x =>
          match c with
          | TStrConst _ y => if x =? y then Ok else Err NotMatch
          | TBasic BString => Err NotMatch
          | TRef _ => if doc_base_const_match_base_type cf then ref_or_tail s c else simple_tail s c
          | _ => simple_tail s c
          end
      | TBoolConst true b =>
          match c with
          | TBoolConst _ t => if Bool.eqb b t then Ok else Err NotMatch
          | TBasic BBoolean => Err NotMatch
          | _ => simple_tail s c
          end
      | _ => simple_tail s c
      end.

    (** [check_ref_class] (classes without members; no enums) *)
    Definition ref_class (id : N) (c : ty) : res :=
      match c with
      | TRef cid =>
          if id =? cid then Ok
          else if is_sub_type_of G cid id then Ok
          else if is_sub_type_of G id cid then Ok
          else Err NotMatch
      | TBasic BTable => Ok
      | TUnion _ _ ms => all_ok (fun m => k 1 (CGen (TRef id) m)) ms
      | TTuple _ => if guard_ok 1 then Ok else Err Recursion   (* check_ref_type_compact_tuple: no members to compare *)
      | _ =>
          match base_type_name c with
          | Some b =>
              if (id =? b) || is_sub_type_of G b id || is_sub_type_of G id b then Ok else Err NotMatch
          | None => Err NotMatch
          end
      end.

    (** [check_ref_type_compact] *)
    Definition ref_check (id : N) (c : ty) : res :=
      match get_decl G id with
      | None => Err NotMatch
      | Some d =>
          if is_alias d then
            match c with
            | TUnion _ _ ms => all_ok (fun m => k 1 (CRef id m)) ms
            | _ =>
                match d_origin d with
                | None => Err NotMatch
                | Some o =>
                    let contains :=
                      match o with
                      | TUnion _ _ oms => existsb (fun m => req m c) oms
                      | _ => req o c
                      end in
                    if contains then Ok
                    else if negb (guard_ok 1) then Err Recursion
                    else
                      let result := k 1 (CGen o c) in
                      if negb (is_ok result) && (match c with TRef _ => true | _ => false end)
                      then ref_class id c
                      else result
                end
            end
          else ref_class id c
      end.

    (** [check_doc_func_type_compact_for_varargs(varargs, compact_params[i..], guard + 1)] *)
    Definition func_varargs (vt : option ty) (cps : list (N * option ty)) : res :=
      if negb (guard_ok 1) then Err Recursion else
      match vt with
      | None => Ok
      | Some v =>
          all_ok (fun cp : N * option ty =>
                    match snd cp with Some ct => k 2 (CGen ct v) | None => Ok end) cps
      end.

    (** the loop of [check_doc_func_type_compact_for_params]; [i0] tells whether this is index 0 *)
    Fixpoint func_params (first : bool) (sps cps : list (N * option ty)) : res :=
      match cps with
      | [] => Ok
      | cp :: cps' =>
          match sps with
          | [] => Ok                                     (* source_params.get(i) == None => break *)
          | sp :: sps' =>
              let va := if fst sp =? pn_dots then func_varargs (snd sp) cps else Ok in
              match va with
              | Ok =>
                  if fst cp =? pn_dots then Ok
                  else
                    match snd sp, snd cp with
                    | Some st, Some ct =>
                        match k 1 (CGen ct st) with
                        | Ok => func_params false sps' cps'
                        | Err NotMatch =>
                            if first && is_b BSelfInfer st && (fst cp =? pn_self)
                            then func_params false sps' cps' else Err NotMatch
                        | e => e
                        end
                    | _, _ => func_params false sps' cps'
                    end
              | e => e
              end
          end
      end.

    (** [check_doc_func_type_compact] *)
    Definition func_check (scolon : bool) (sps : list (N * option ty)) (c : ty) : res :=
      match c with
      | TFunc ccolon cps _ =>
          func_params true sps (if ccolon then (pn_self, None) :: cps else cps)
      | TRef _ => Err NotMatch            (* custom type without a call operator *)
      | TUnion _ _ ms => all_ok (fun m => k 1 (CFunc scolon sps m)) ms
      | TBasic BFunction => Ok
      | _ => Err NotMatch
      end.

    (** [check_array_type_compact(source_base, compact)]; with strict.arrayIndex the element type is
        [base | nil], built structurally by [LuaType::from_vec] (since fix a95495c; before, it was
        [TypeOps::Union], which expanded alias bases and collapsed [never | nil]) *)
    Definition array_check (sbase c : ty) : res :=
      let sb := if strict_array_index cf then from_vec [sbase; TNil] else sbase in
      match c with
      | TArray cb => k 1 (CGen sb cb)
      | TTuple ts => all_ok (fun t => k 1 (CGen sb t)) ts
      | TBasic BTable => Ok
      | TBasic BAny => Ok
      | TRef _ => if guard_ok 1 then Err NotMatch else Err Recursion   (* no index operations on member-less classes *)
      | _ => Err DonotCheck
      end.

    (** the loop of [check_tuple_types_compact_tuple_types] (no variadic members in the grammar) *)
    Fixpoint tuple_members (ss cs : list ty) : res :=
      match ss with
      | [] => Ok
      | s :: ss' =>
          match cs with
          | [] => if is_optional s then tuple_members ss' [] else Err NotMatch
          | c :: cs' =>
              match k 2 (CGen s c) with
              | Ok => tuple_members ss' cs'
              | e => e
              end
          end
      end.

    (** [check_tuple_type_compact] *)
    Definition tuple_check (ss : list ty) (c : ty) : res :=
      match c with
      | TTuple cs => if guard_ok 1 then tuple_members ss cs else Err Recursion
      | TArray cb => all_ok (fun s => k 1 (CGen cb s)) ss
      | TBasic BTable => Ok
      | _ => Err DonotCheck
      end.

    (** the tail of [check_complex_type_compact] *)
    Definition complex_tail (s c : ty) : res :=
      match c with
      | TUnion _ _ ms => all_ok (fun m => k 1 (CComplex s m)) ms
      | _ => Err NotMatch
      end.

    (** [check_complex_type_compact] *)
    Definition complex (s c : ty) : res :=
      match s with
      | TArray sb =>
          match array_check sb c with Err DonotCheck => complex_tail s c | r => r end
      | TTuple ss =>
          match tuple_check ss c with Err DonotCheck => complex_tail s c | r => r end
      | TUnion _ _ sms =>
          match c with
          | TUnion _ _ cms =>
              (* check_union_type_compact_union(source, compact_union, guard + 1) *)
              if guard_ok 1 then all_ok (fun m => k 2 (CGen s m)) cms else Err Recursion
          | _ => first_ok (fun sub => k 1 (CGen sub c)) sms
          end
      | _ => complex_tail s c
      end.

    (** [check_general_type_compact] *)
    Definition general (s c : ty) : res :=
      if is_like_any c then Ok
      else if fast_eq s c then Ok
      else
        match escape_type c with
        | Some o => k 1 (CGen s o)
        | None =>
            match s with
            | TBasic BUnknown | TBasic BAny => Ok
            | TBasic BNever => if is_b BNever c then Ok else Err NotMatch
            | TBasic BSelfInfer => Err NotMatch
            | TBasic _ | TBoolConst _ _ | TStrConst _ _ | TIntConst _ _ => simple s c
            | TRef id => ref_check id c
            | TFunc colon ps _ => func_check colon ps c
            | TArray _ | TTuple _ | TUnion _ _ _ => complex s c
            end
        end.

    Definition step (c : call) : res :=
      match c with
      | CGen s c => general s c
      | CSimple s c => simple s c
      | CRef id c => ref_check id c
      | CFunc colon ps c => func_check colon ps c
      | CComplex s c => complex s c
      end.
  End Step.

  (** [rem]: fuel; [lvl]: [TypeCheckGuard.stack_level].  Every recursive call goes through
      [next_level] (once or twice), transcribed literally: it fails when [lvl + d > MAX]. *)
  Fixpoint check (rem : nat) (lvl : N) (c : call) {struct rem} : res :=
    step (fun (d : nat) (c' : call) =>
            if MAX_TYPE_CHECK_LEVEL <? lvl + N.of_nat d then Err Recursion
            else
              match d, rem with
              | 1%nat, S r1 => check r1 (lvl + 1) c'
              | 2%nat, S (S r2) => check r2 (lvl + 2) c'
              | _, _ => Diverge
              end) lvl c.

  (** [check_type_compact(db, source, compact)] with [TypeCheckGuard::new()] *)
  Definition check_type (s c : ty) : res :=
    check (N.to_nat MAX_TYPE_CHECK_LEVEL) 0 (CGen s c).
End Check.
