(** C16/Proofs.v — the lemmas Props.v exports (see SubProofs, UnionProofs, CheckProofs, LawProofs for
    the developments) and the concrete witnesses. *)
From Coq Require Import Relations String.
From EV Require Import C16.Model C16.Spec C16.SubProofs C16.UnionProofs C16.CheckProofs C16.LawProofs.
Local Open Scope N_scope.

(** ** obligations over the regenerated tables *)

Definition basic_name (b : basic) : string :=
  match b with
  | BUnknown => "Unknown" | BAny => "Any" | BNil => "Nil" | BTable => "Table" | BUserdata => "Userdata"
  | BFunction => "Function" | BThread => "Thread" | BBoolean => "Boolean" | BString => "String"
  | BInteger => "Integer" | BNumber => "Number" | BIo => "Io" | BSelfInfer => "SelfInfer"
  | BGlobal => "Global" | BNever => "Never"
  end%string.

Lemma basic_order_matches_source : map basic_name all_basics = basic_kind_names.
Proof. reflexivity. Qed.

Lemma gate_order_matches_source :
  general_gate_order = ["is_like_any"; "fast_eq_check"; "escape_type"; "intersection"; "dispatch_on_source"]%string.
Proof. reflexivity. Qed.

Lemma base_names_match_source :
  base_type_names = ["boolean"; "function"; "global"; "integer"; "io"; "nil"; "number"; "self"; "string"; "table"; "thread"; "userdata"]%string.
Proof. reflexivity. Qed.

Lemma max_level_at_least_2 : 2 <= MAX_TYPE_CHECK_LEVEL.
Proof. vm_compute. discriminate. Qed.

Lemma within_guard_height : within 0 guard_height guard_height.
Proof.
  unfold within, guard_height. pose proof max_level_at_least_2 as H.
  pose proof (N.mul_div_le (MAX_TYPE_CHECK_LEVEL - 2) 4) as H4.
  rewrite Nat2N.inj_add, N2Nat.id. lia.
Qed.

(** ** the laws outside the known class *)

Lemma known_fits : forall G t, known G t = false -> fits G guard_height t = true.
Proof. intros G t H. unfold known in H. apply negb_false_iff in H. exact H. Qed.

Lemma check_refl_outside_known : forall G cf T, known G T = false -> check_type G cf T T = Ok.
Proof. intros G cf T H. apply (check_refl G cf guard_height); [apply known_fits; exact H|apply within_guard_height]. Qed.

Lemma union_member_accepted_outside_known : forall G cf p k ms m,
  known G (TUnion p k ms) = false -> In m ms -> check_type G cf (TUnion p k ms) m = Ok.
Proof.
  intros G cf p k ms m H Hm.
  apply (union_member_accepted G cf guard_height); [apply known_fits; exact H|exact Hm|apply within_guard_height].
Qed.

Lemma accepts_unfolding_outside_known : forall G cf s z,
  known G s = false -> known G z = false -> unfolds G s z -> check_type G cf s z = Ok.
Proof.
  intros G cf s z Hs Hz Hu.
  apply (check_type_unfolds G cf guard_height); auto using known_fits, within_guard_height.
Qed.

Lemma any_unknown_never_refuse : forall G cf top T,
  (top = TBasic BAny \/ top = TBasic BUnknown) ->
  check_type G cf top T = Ok \/ check_type G cf top T = Err Recursion.
Proof.
  intros G cf top T H. unfold check_type. apply LawProofs.top_accepts_or_recursion; [exact H|lia].
Qed.

(** ** witnesses *)

Lemma check_refl_refuted :
  exists T, check_type [] cfg_default T T = Err Recursion.
Proof. exists (nest (S (N.to_nat MAX_TYPE_CHECK_LEVEL / 2)) (TBasic BString)). vm_compute. reflexivity. Qed.

Definition mutual_world : world :=
  [(100, alias_decl (TUnion 1 UMulti [TArray (TRef 100); TBasic BString]));
   (101, alias_decl (TUnion 2 UMulti [TArray (TRef 101); TBasic BInteger]))].
Definition mutual_union : ty := TUnion 3 UMulti [TArray (TRef 100); TArray (TRef 101)].

Lemma union_member_refuted :
  In (TArray (TRef 101)) (umembers mutual_union) /\
  check_type mutual_world cfg_default mutual_union (TArray (TRef 101)) = Err Recursion /\
  check_type mutual_world cfg_default mutual_union mutual_union = Err Recursion.
Proof. vm_compute. split; [right; left; reflexivity|split; reflexivity]. Qed.

Lemma any_unknown_top_refuted :
  check_type (alias_chain 1000 (N.to_nat MAX_TYPE_CHECK_LEVEL)) cfg_default TAny
             (TRef (1000 + MAX_TYPE_CHECK_LEVEL)) = Err Recursion.
Proof. vm_compute. reflexivity. Qed.

(** non-vacuity: a world with a diamond, an alias of a union, a recursive alias; well-formed types of
    every constructor are outside the known class and the laws apply to them *)
Definition ex_world : world :=
  [(100, class_decl []); (101, class_decl [TRef 100]); (102, class_decl [TRef 100]);
   (103, class_decl [TRef 101; TRef 102; TBasic BString]);
   (110, alias_decl (TUnion 7 UMulti [TRef 103; TBasic BInteger; TStrConst true 5]));
   (111, alias_decl (TUnion 8 UMulti [TArray (TRef 111); TBasic BString]))].
Definition ex_type : ty :=
  TUnion 9 UMulti
    [TArray (TUnion 10 UNullable [TRef 110; TNil]);
     TTuple [TRef 103; TUnion 11 UBasic [TBasic BNil; TBasic BString]];
     TFunc false [(2, Some (TRef 110)); (3, None); (pn_dots, Some (TBasic BInteger))] (TBasic BBoolean);
     TIntConst true 3; TBasic BNever].

Lemma laws_example :
  known ex_world ex_type = false /\
  check_type ex_world cfg_default ex_type ex_type = Ok /\
  forallb (fun m => match check_type ex_world cfg_default ex_type m with Ok => true | _ => false end) (umembers ex_type) = true /\
  check_type ex_world cfg_default (TRef 100) (TRef 103) = Ok /\
  check_type ex_world cfg_default (TRef 103) (TBasic BInteger) = Err NotMatch /\
  known ex_world (TRef 111) = true /\
  check_type ex_world cfg_default (TArray (TRef 111)) (TArray (TRef 111)) = Ok.
Proof. vm_compute. repeat split; reflexivity. Qed.

Lemma reach_example : reach ex_world 103 100.
Proof.
  apply rt_trans with 101; apply rt_step.
  - exists [TRef 101; TRef 102; TBasic BString]. split; [vm_compute; reflexivity|left; reflexivity].
  - exists [TRef 100]. split; [vm_compute; reflexivity|left; reflexivity].
Qed.

Lemma union_example :
  union_type_all ex_world [TBasic BString; TStrConst true 1; TNever; TRef 100] = TUnion 0 UMulti [TBasic BString; TRef 100] /\
  union_type_all ex_world [TArray (TBasic BString); TNever; TIntConst true 4; TArray (TBasic BString)]
    = TUnion 0 UMulti [TArray (TBasic BString); TIntConst true 4].
Proof. vm_compute. split; reflexivity. Qed.
