(** C16/SubProofs.v — lemmas about the super-type graph walks of the model:
    [super_reaches] and [sub_loop] never run out of fuel on any world (cycles included), and
    [is_sub_type_of] is the reflexive-transitive closure of the effective edges. *)
From Coq Require Import Relations.
From EV Require Import C16.Model.
Local Open Scope N_scope.

(** * membership helpers *)

Definition nmem (x : N) (l : list N) : bool := existsb (N.eqb x) l.

Lemma nmem_In : forall x l, nmem x l = true <-> In x l.
Proof.
  intros x l. unfold nmem. rewrite existsb_exists. split.
  - intros (y & Hy & E). apply N.eqb_eq in E. subst. exact Hy.
  - intros H. exists x. split; [exact H|apply N.eqb_refl].
Qed.

Lemma nmem_false : forall x l, nmem x l = false <-> ~ In x l.
Proof.
  intros x l. rewrite <- nmem_In. destruct (nmem x l); split; congruence.
Qed.

(** * the universe bounds every id that can be visited *)

Lemma get_decl_In : forall G id d, get_decl G id = Some d -> In (id, d) G.
Proof.
  induction G as [|[k e] r IH]; intros id d H; cbn [get_decl] in H; [discriminate|].
  destruct (N.eqb_spec k id).
  - inversion H; subst. left; reflexivity.
  - right. apply IH; exact H.
Qed.

Lemma universe_key : forall G id d, In (id, d) G -> In id (universe G).
Proof.
  intros G id d H. unfold universe. apply in_flat_map. exists (id, d). split; [exact H|left; reflexivity].
Qed.

Lemma universe_super : forall G id d s, In (id, d) G -> In s (super_ids (d_supers d)) -> In s (universe G).
Proof.
  intros G id d s H Hs. unfold universe. apply in_flat_map. exists (id, d). split; [exact H|right; exact Hs].
Qed.

Lemma raw_supers_key : forall G id l, raw_supers G id = Some l -> In id (universe G).
Proof.
  intros G id l H. unfold raw_supers in H. destruct (get_decl G id) as [d|] eqn:E; [|discriminate].
  eapply universe_key. eapply get_decl_In; exact E.
Qed.

Lemma raw_supers_ids : forall G id l s, raw_supers G id = Some l -> In s (super_ids l) -> In s (universe G).
Proof.
  intros G id l s H Hs. unfold raw_supers in H. destruct (get_decl G id) as [d|] eqn:E; [|discriminate].
  destruct (d_supers d) eqn:Ed; [discriminate|]. inversion H; subst l.
  eapply universe_super; [eapply get_decl_In; exact E|]. rewrite Ed. exact Hs.
Qed.

Lemma super_ids_In : forall l i, In i (super_ids l) <-> In (TRef i) l.
Proof.
  induction l as [|t r IH]; intros i; cbn [super_ids]; [tauto|].
  destruct (super_id t) as [j|] eqn:Ej.
  - destruct t; cbn [super_id] in Ej; try discriminate. inversion Ej; subst j.
    cbn [In]. rewrite IH. split; intros [H|H]; auto; left; congruence.
  - cbn [In]. rewrite IH. split; [auto|]. intros [H|H]; [|exact H]. subst t. discriminate.
Qed.

Lemma NoDup_snoc : forall (l : list N) x, NoDup l -> ~ In x l -> NoDup (l ++ [x]).
Proof.
  induction l as [|a r IH]; intros x ND Hx; cbn [app].
  - constructor; [intros []|constructor].
  - inversion ND; subst. constructor.
    + intros H. apply in_app_or in H. destruct H as [H|[H|[]]]; [contradiction|]. subst. apply Hx. left; reflexivity.
    + apply IH; [assumption|]. intros H. apply Hx. right; exact H.
Qed.

(** * [super_reaches] terminates *)

(** how many nodes of [U] are not yet visited *)
Definition rest (U visited : list N) : nat := length (filter (fun u => negb (nmem u visited)) U).

Lemma nmem_cons : forall u x v, nmem u (x :: v) = (N.eqb u x || nmem u v)%bool.
Proof. reflexivity. Qed.

Lemma rest_cons_le : forall U x v, (rest U (x :: v) <= rest U v)%nat.
Proof.
  intros U x v. unfold rest. induction U as [|u r IH]; cbn [filter]; [lia|].
  rewrite nmem_cons.
  destruct (N.eqb u x); destruct (nmem u v); cbn [orb negb length]; lia.
Qed.

Lemma rest_cons_lt : forall U x v, NoDup U -> In x U -> ~ In x v -> (S (rest U (x :: v)) <= rest U v)%nat.
Proof.
  intros U x v. unfold rest. induction U as [|u r IH]; intros ND Hin Hnv; [destruct Hin|].
  inversion ND as [|? ? Hnu ND']; subst.
  cbn [filter]. rewrite nmem_cons.
  destruct Hin as [->|Hin].
  - rewrite N.eqb_refl. cbn [orb negb].
    apply nmem_false in Hnv. rewrite Hnv. cbn [negb length].
    pose proof (rest_cons_le r x v) as Hle. unfold rest in Hle. lia.
  - destruct (N.eqb_spec u x) as [->|Hne]; [contradiction|].
    cbn [orb]. specialize (IH ND' Hin Hnv). destruct (nmem u v); cbn [negb length]; lia.
Qed.

Lemma rest_mono : forall U v w, (forall x, In x v -> In x w) -> (rest U w <= rest U v)%nat.
Proof.
  intros U v w H. unfold rest. induction U as [|u r IH]; cbn [filter]; [lia|].
  destruct (nmem u v) eqn:Ev.
  - apply nmem_In in Ev. apply H in Ev. apply nmem_In in Ev. rewrite Ev. cbn [negb]. exact IH.
  - destruct (nmem u w); cbn [negb length]; lia.
Qed.

Definition nodes (G : world) : list N := nodup N.eq_dec (universe G).

Lemma nodes_NoDup : forall G, NoDup (nodes G).
Proof. intros. apply NoDup_nodup. Qed.

Lemma nodes_In : forall G x, In x (nodes G) <-> In x (universe G).
Proof. intros. apply nodup_In. Qed.

Lemma nodes_length : forall G, (length (nodes G) <= length (universe G))%nat.
Proof.
  intros G. unfold nodes. induction (universe G) as [|x r IH]; cbn [nodup length]; [lia|].
  destruct (in_dec N.eq_dec x r); cbn [length]; lia.
Qed.

Lemma rest_le_length : forall U v, (rest U v <= length U)%nat.
Proof.
  intros U v. unfold rest. induction U as [|u r IH]; cbn [filter length]; [lia|].
  destruct (negb (nmem u v)); cbn [length]; lia.
Qed.

(** [super_reaches] does not run out of fuel, and only adds to [visited] *)
Lemma super_reaches_total : forall G fuel cur tgt visited,
  (rest (nodes G) visited < fuel)%nat ->
  exists b v, super_reaches G fuel cur tgt visited = Some (b, v) /\ (forall x, In x visited -> In x v).
Proof.
  intros G fuel. induction fuel as [|f IH]; intros cur tgt visited Hf; [lia|].
  cbn [super_reaches].
  destruct (N.eqb cur tgt); [exists true, visited; split; [reflexivity|auto]|].
  change (existsb (N.eqb cur) visited) with (nmem cur visited).
  destruct (nmem cur visited) eqn:Ev; [exists false, visited; split; [reflexivity|auto]|].
  destruct (raw_supers G cur) as [sups|] eqn:Er.
  2:{ exists false, (cur :: visited). split; [reflexivity|intros x Hx; right; exact Hx]. }
  assert (Hlt : (rest (nodes G) (cur :: visited) < f)%nat).
  { apply nmem_false in Ev.
    pose proof (rest_cons_lt (nodes G) cur visited (nodes_NoDup G)) as H.
    assert (In cur (nodes G)) by (apply nodes_In; eapply raw_supers_key; exact Er).
    specialize (H H0 Ev). lia. }
  generalize (super_ids sups). intros ids.
  assert (Hsub : forall x, In x visited -> In x (cur :: visited)) by (intros x Hx; right; exact Hx).
  revert Hlt Hsub. generalize (cur :: visited) as v0.
  induction ids as [|i r IHr]; intros v0 Hlt Hsub.
  - exists false, v0. split; [reflexivity|exact Hsub].
  - destruct (IH i tgt v0 Hlt) as (b & v & E & Hinc). rewrite E.
    destruct b.
    + exists true, v. split; [reflexivity|]. intros x Hx. apply Hinc, Hsub, Hx.
    + apply IHr.
      * pose proof (rest_mono (nodes G) v0 v Hinc). lia.
      * intros x Hx. apply Hinc, Hsub, Hx.
Qed.

Lemma dfs_fuel_enough : forall G v, (rest (nodes G) v < dfs_fuel G)%nat.
Proof.
  intros G v. unfold dfs_fuel. pose proof (rest_le_length (nodes G) v). pose proof (nodes_length G). lia.
Qed.

Lemma is_cyclic_super_edge_total : forall G id s, exists b, is_cyclic_super_edge G id s = Some b.
Proof.
  intros G id s. unfold is_cyclic_super_edge. destruct (super_id s) as [x|]; [|exists false; reflexivity].
  destruct (super_reaches_total G (dfs_fuel G) x id [] (dfs_fuel_enough G [])) as (b & v & E & _).
  rewrite E. exists b. reflexivity.
Qed.

(** [get_super_types_iter] answers on every world; what it yields is a sub-list of the declared supers *)
Lemma eff_supers_total : forall G id,
  (raw_supers G id = None /\ eff_supers G id = Some None) \/
  (exists raw l, raw_supers G id = Some raw /\ eff_supers G id = Some (Some l) /\ (forall t, In t l -> In t raw)).
Proof.
  intros G id. unfold eff_supers. destruct (raw_supers G id) as [raw|]; [right|left; split; reflexivity].
  exists raw. induction raw as [|s r IH].
  - exists []. split; [reflexivity|]. split; [reflexivity|intros t []].
  - destruct IH as (l & _ & E & Hsub).
    destruct (is_cyclic_super_edge_total G id s) as (b & Eb).
    exists (if b then l else s :: l). split; [reflexivity|]. split.
    + rewrite Eb, E. reflexivity.
    + intros t Ht. destruct b; [right; apply Hsub; exact Ht|].
      destruct Ht as [->|Ht]; [left; reflexivity|right; apply Hsub; exact Ht].
Qed.

Lemma eff_supers_not_None : forall G id, eff_supers G id <> None.
Proof.
  intros G id. destruct (eff_supers_total G id) as [[_ E]|(raw & l & _ & E & _)]; rewrite E; discriminate.
Qed.

Lemma eff_supers_ids : forall G id l i, eff_supers G id = Some (Some l) -> In (TRef i) l -> In i (universe G).
Proof.
  intros G id l i E Hi. destruct (eff_supers_total G id) as [[_ E']|(raw & l' & Er & E' & Hsub)]; rewrite E' in E.
  - discriminate.
  - inversion E; subst l'. eapply raw_supers_ids; [exact Er|]. apply super_ids_In. apply Hsub. exact Hi.
Qed.

(** * the scan of one super list *)

Definition hit (sup : N) (t : ty) : Prop :=
  t = TRef sup \/ (super_id t = None /\ base_type_name t = Some sup).

Lemma sub_scan_nonref : forall sup t r stack visited, super_id t = None ->
  sub_scan sup (t :: r) stack visited =
  match base_type_name t with
  | Some n => if n =? sup then inl tt else sub_scan sup r stack visited
  | None => sub_scan sup r stack visited
  end.
Proof. intros sup t r stack visited H. destruct t; try reflexivity. discriminate. Qed.

Lemma sub_scan_ref : forall sup i r stack visited,
  sub_scan sup (TRef i :: r) stack visited =
  if i =? sup then inl tt
  else if nmem i visited then sub_scan sup r stack visited
  else sub_scan sup r (i :: stack) (i :: visited).
Proof. reflexivity. Qed.

Lemma super_id_cases : forall t, (exists i, t = TRef i) \/ super_id t = None.
Proof. destruct t; try (right; reflexivity). left. eexists; reflexivity. Qed.

Lemma sub_scan_found : forall sup sups stack visited,
  sub_scan sup sups stack visited = inl tt -> exists t, In t sups /\ hit sup t.
Proof.
  intros sup sups. induction sups as [|t r IH]; intros stack visited H; [discriminate|].
  destruct (super_id_cases t) as [[i ->]|Hn].
  - rewrite sub_scan_ref in H. destruct (N.eqb_spec i sup) as [E|E].
    + exists (TRef i). split; [left; reflexivity|left; congruence].
    + destruct (nmem i visited); apply IH in H; destruct H as (t' & Ht & Hh);
        exists t'; (split; [right; exact Ht|exact Hh]).
  - rewrite (sub_scan_nonref _ _ _ _ _ Hn) in H.
    destruct (base_type_name t) as [n|] eqn:Eb.
    + destruct (N.eqb_spec n sup) as [E|E].
      * exists t. split; [left; reflexivity|right; split; [assumption|congruence]].
      * apply IH in H. destruct H as (t' & Ht & Hh). exists t'. split; [right; exact Ht|exact Hh].
    + apply IH in H. destruct H as (t' & Ht & Hh). exists t'. split; [right; exact Ht|exact Hh].
Qed.

(** the not-found outcome: nothing in the list hits, every referenced id ends up visited, and the new
    ids are pushed on both lists *)
Lemma sub_scan_miss : forall sup sups stack visited stack' visited',
  sub_scan sup sups stack visited = inr (stack', visited') ->
  exists new,
    stack' = new ++ stack /\ visited' = new ++ visited /\
    NoDup new /\ (forall x, In x new -> ~ In x visited /\ In (TRef x) sups) /\
    (forall t, In t sups -> ~ hit sup t) /\
    (forall i, In (TRef i) sups -> In i visited').
Proof.
  intros sup sups. induction sups as [|t r IH]; intros stack visited stack' visited' H.
  - cbn [sub_scan] in H. inversion H; subst. exists []. repeat split; auto using NoDup_nil; intros; contradiction.
  - destruct (super_id_cases t) as [[i ->]|Hn].
    + rewrite sub_scan_ref in H. destruct (N.eqb_spec i sup) as [Heq|Hne]; [discriminate|].
      destruct (nmem i visited) eqn:Ev.
      * destruct (IH _ _ _ _ H) as (new & -> & -> & ND & Hnew & Hmiss & Hall).
        exists new. split; [reflexivity|]. split; [reflexivity|]. split; [exact ND|]. split; [|split].
        -- intros x Hx. split; [apply (Hnew x Hx)|right; apply (Hnew x Hx)].
        -- intros t0 [<-|Ht0]; [|apply Hmiss; exact Ht0].
           intros [E|[E _]]; [inversion E; congruence|discriminate].
        -- intros j [E|Hj]; [|apply Hall; exact Hj]. inversion E; subst j.
           apply in_or_app. right. apply nmem_In. exact Ev.
      * destruct (IH _ _ _ _ H) as (new & -> & -> & ND & Hnew & Hmiss & Hall).
        apply nmem_false in Ev.
        exists (new ++ [i]). split; [rewrite <- app_assoc; reflexivity|]. split; [rewrite <- app_assoc; reflexivity|].
        split; [|split; [|split]].
        -- apply NoDup_snoc; [exact ND|]. intros Hx. apply (Hnew i Hx). left; reflexivity.
        -- intros x Hx. apply in_app_or in Hx. destruct Hx as [Hx|[<-|[]]].
           ++ split; [|right; apply (Hnew x Hx)]. intros Hv. apply (Hnew x Hx). right; exact Hv.
           ++ split; [exact Ev|left; reflexivity].
        -- intros t0 [<-|Ht0]; [|apply Hmiss; exact Ht0].
           intros [E|[E _]]; [inversion E; congruence|discriminate].
        -- intros j [E|Hj].
           ++ inversion E; subst j. apply in_or_app. right. left. reflexivity.
           ++ apply Hall. exact Hj.
    + rewrite (sub_scan_nonref _ _ _ _ _ Hn) in H.
      assert (Hnohit : ~ hit sup t /\ sub_scan sup r stack visited = inr (stack', visited')).
      { destruct (base_type_name t) as [n|] eqn:Eb.
        - destruct (N.eqb_spec n sup) as [Heq|Hne]; [discriminate|]. split; [|exact H].
          intros [->|[_ E]]; [discriminate|]. congruence.
        - split; [|exact H]. intros [->|[_ E]]; [discriminate|]. congruence. }
      destruct Hnohit as [Hnh H'']. destruct (IH _ _ _ _ H'') as (new & -> & -> & ND & Hnew & Hmiss & Hall).
      exists new. split; [reflexivity|]. split; [reflexivity|]. split; [exact ND|]. split; [|split].
      * intros x Hx. split; [apply (Hnew x Hx)|right; apply (Hnew x Hx)].
      * intros t0 [<-|Ht0]; [exact Hnh|apply Hmiss; exact Ht0].
      * intros j [E|Hj]; [subst t; discriminate|apply Hall; exact Hj].
Qed.

(** * the loop of [is_sub_type_of] *)

Lemma NoDup_app2 : forall (l m : list N), NoDup l -> NoDup m -> (forall x, In x l -> ~ In x m) -> NoDup (l ++ m).
Proof.
  induction l as [|a r IH]; intros m Hl Hm Hd; cbn [app]; [exact Hm|].
  inversion Hl; subst. constructor.
  - intros H. apply in_app_or in H. destruct H as [H|H]; [contradiction|]. apply (Hd a); [left; reflexivity|exact H].
  - apply IH; auto. intros x Hx. apply Hd. right; exact Hx.
Qed.

Section Loop.
  Variable G : world.
  Variable sub sup : N.

  Definition bound : list N := nodup N.eq_dec (sub :: universe G).

  Lemma bound_In : forall x, In x bound <-> x = sub \/ In x (universe G).
  Proof. intros x. unfold bound. rewrite nodup_In. cbn [In]. split; intros [H|H]; auto. Qed.

  Lemma bound_length : (length bound <= S (length (universe G)))%nat.
  Proof.
    unfold bound. change (S (length (universe G))) with (length (sub :: universe G)).
    generalize (sub :: universe G). intros l.
    induction l as [|x r IH]; cbn [nodup length]; [lia|].
    destruct (in_dec N.eq_dec x r); cbn [length]; lia.
  Qed.

  (** the loop answers whenever the fuel exceeds |stack| + number of unvisited nodes *)
  Lemma sub_loop_total : forall fuel stack visited,
    NoDup visited -> incl visited bound ->
    (length stack + (length bound - length visited) < fuel)%nat ->
    exists b, sub_loop G fuel sup stack visited = Some b.
  Proof.
    induction fuel as [|f IH]; intros stack visited ND Hinc Hf; [lia|].
    cbn [sub_loop]. destruct stack as [|cur rest]; [exists false; reflexivity|].
    cbn [length] in Hf.
    destruct (eff_supers_total G cur) as [[_ E]|(raw & l & _ & E & _)]; rewrite E.
    - apply IH; auto. lia.
    - destruct (sub_scan sup l rest visited) as [[]|[stack' visited']] eqn:Es; [exists true; reflexivity|].
      destruct (sub_scan_miss _ _ _ _ _ _ Es) as (new & -> & -> & NDn & Hnew & _ & _).
      assert (ND' : NoDup (new ++ visited)).
      { apply NoDup_app2; auto. intros x Hx. apply (Hnew x Hx). }
      assert (Hinc' : incl (new ++ visited) bound).
      { intros x Hx. apply in_app_or in Hx. destruct Hx as [Hx|Hx]; [|apply Hinc; exact Hx].
        apply bound_In. right. eapply eff_supers_ids; [exact E|]. apply (Hnew x Hx). }
      pose proof (NoDup_incl_length ND' Hinc') as Hlen.
      pose proof (NoDup_incl_length ND Hinc) as Hlen0.
      rewrite app_length in Hlen.
      apply IH; auto. rewrite !app_length. lia.
  Qed.

  (** effective edges *)
  Definition edge (a b : N) : Prop := exists l, eff_supers G a = Some (Some l) /\ In (TRef b) l.
  Definition hits (a : N) : Prop := exists l t, eff_supers G a = Some (Some l) /\ In t l /\ hit sup t.
  Definition reach (x : N) : Prop := clos_refl_trans N edge sub x.

  Lemma sub_loop_sound : forall fuel stack visited,
    (forall x, In x stack -> reach x) ->
    sub_loop G fuel sup stack visited = Some true ->
    exists m, reach m /\ hits m.
  Proof.
    induction fuel as [|f IH]; intros stack visited Hst H; [discriminate|].
    cbn [sub_loop] in H. destruct stack as [|cur rest]; [discriminate|].
    destruct (eff_supers G cur) as [[l|]|] eqn:E; [| |discriminate].
    - destruct (sub_scan sup l rest visited) as [[]|[stack' visited']] eqn:Es.
      + destruct (sub_scan_found _ _ _ _ Es) as (t & Ht & Hh).
        exists cur. split; [apply Hst; left; reflexivity|]. exists l, t. auto.
      + destruct (sub_scan_miss _ _ _ _ _ _ Es) as (new & -> & -> & _ & Hnew & _ & _).
        apply (IH _ _) in H; [exact H|].
        intros x Hx. apply in_app_or in Hx. destruct Hx as [Hx|Hx].
        * apply rt_trans with cur; [apply Hst; left; reflexivity|].
          apply rt_step. exists l. split; [exact E|apply (Hnew x Hx)].
        * apply Hst. right; exact Hx.
    - apply (IH _ _) in H; [exact H|]. intros x Hx. apply Hst. right; exact Hx.
  Qed.

  (** a visited node is finished when it does not hit and all its successors are visited *)
  Definition finished (visited : list N) (v : N) : Prop :=
    ~ hits v /\ forall w, edge v w -> In w visited.

  Lemma finished_mono : forall v1 v2 x, (forall y, In y v1 -> In y v2) -> finished v1 x -> finished v2 x.
  Proof. intros v1 v2 x H [Hn Hs]. split; [exact Hn|]. intros w Hw. apply H, Hs, Hw. Qed.

  Lemma sub_loop_complete : forall fuel stack visited,
    In sub visited ->
    (forall v, In v visited -> In v stack \/ finished visited v) ->
    sub_loop G fuel sup stack visited = Some false ->
    forall m, reach m -> ~ hits m.
  Proof.
    induction fuel as [|f IH]; intros stack visited Hsub Hinv H; [discriminate|].
    cbn [sub_loop] in H. destruct stack as [|cur rest].
    - (* every visited node is finished: the visited set is closed and hit-free *)
      assert (Hall : forall m, reach m -> In m visited).
      { intros m Hm. unfold reach in Hm. apply clos_rt_rtn1 in Hm. induction Hm as [|y z Hyz _ IHm]; [exact Hsub|].
        destruct (Hinv y IHm) as [[]|[_ Hs]]. apply Hs. exact Hyz. }
      intros m Hm. destruct (Hinv m (Hall m Hm)) as [[]|[Hn _]]. exact Hn.
    - destruct (eff_supers G cur) as [[l|]|] eqn:E; [| |discriminate].
      + destruct (sub_scan sup l rest visited) as [[]|[stack' visited']] eqn:Es; [discriminate|].
        destruct (sub_scan_miss _ _ _ _ _ _ Es) as (new & -> & -> & _ & Hnew & Hmiss & Hvis).
        apply (IH (new ++ rest) (new ++ visited)); [| |exact H].
        * apply in_or_app. right. exact Hsub.
        * intros v Hv. apply in_app_or in Hv. destruct Hv as [Hv|Hv].
          -- left. apply in_or_app. left. exact Hv.
          -- destruct (Hinv v Hv) as [[<-|Hr]|Hfin].
             ++ right. split.
                ** intros (l' & t & E' & Ht & Hh). rewrite E in E'. inversion E'; subst l'. apply (Hmiss t Ht Hh).
                ** intros w (l' & E' & Hw). rewrite E in E'. inversion E'; subst l'. apply Hvis. exact Hw.
             ++ left. apply in_or_app. right. exact Hr.
             ++ right. eapply finished_mono; [|exact Hfin]. intros y Hy. apply in_or_app. right. exact Hy.
      + apply (IH rest visited); [exact Hsub| |exact H].
        intros v Hv. destruct (Hinv v Hv) as [[<-|Hr]|Hfin]; [|left; exact Hr|right; exact Hfin].
        right. split.
        * intros (l' & t & E' & _). rewrite E in E'. discriminate.
        * intros w (l' & E' & _). rewrite E in E'. discriminate.
  Qed.
End Loop.

(** [is_sub_type_of] answers on every world ... *)
Lemma is_sub_type_of_total : forall G sub sup, exists b, is_sub_type_of_opt G sub sup = Some b.
Proof.
  intros G sub sup. unfold is_sub_type_of_opt. destruct (N.eqb sub sup); [exists true; reflexivity|].
  apply sub_loop_total with (sub := sub).
  - constructor; [intros []|constructor].
  - intros x [<-|[]]. apply bound_In. left; reflexivity.
  - pose proof (bound_length G sub). unfold dfs_fuel. cbn [length]. lia.
Qed.

(** ... and what it answers is reachability over the effective edges *)
Lemma is_sub_type_of_spec : forall G sub sup,
  is_sub_type_of_opt G sub sup = Some true <->
  (sub = sup \/ exists m, reach G sub m /\ hits G sup m).
Proof.
  intros G sub sup. unfold is_sub_type_of_opt. destruct (N.eqb_spec sub sup) as [->|Hne].
  - split; [left; reflexivity|reflexivity].
  - split.
    + intros H. right. eapply sub_loop_sound; [|exact H]. intros x [<-|[]]. apply rt_refl.
    + intros [E|(m & Hm & Hh)]; [contradiction|].
      destruct (is_sub_type_of_total G sub sup) as (b & Eb). unfold is_sub_type_of_opt in Eb.
      destruct (N.eqb_spec sub sup); [contradiction|]. rewrite Eb. destruct b; [reflexivity|].
      exfalso. eapply sub_loop_complete; [| |exact Eb|exact Hm|exact Hh].
      * left; reflexivity.
      * intros v [<-|[]]. left. left. reflexivity.
Qed.

Lemma is_sub_type_of_true : forall G sub sup,
  is_sub_type_of G sub sup = true <-> (sub = sup \/ exists m, reach G sub m /\ hits G sup m).
Proof.
  intros G sub sup. rewrite <- is_sub_type_of_spec. unfold is_sub_type_of.
  destruct (is_sub_type_of_total G sub sup) as (b & ->). destruct b; split; congruence.
Qed.

(** a class is a sub-type of every class it reaches *)
Lemma reach_is_sub : forall G a b, reach G a b -> is_sub_type_of G a b = true.
Proof.
  intros G a b H. apply is_sub_type_of_true. unfold reach in H. apply clos_rt_rtn1 in H.
  destruct H as [|y z Hyz Hy]; [left; reflexivity|right].
  exists y. split; [apply clos_rtn1_rt; exact Hy|].
  destruct Hyz as (l & E & Hin). exists l, (TRef z). split; [exact E|]. split; [exact Hin|left; reflexivity].
Qed.

(** * the effective super graph is acyclic *)

(** declared successors of a class (the ids [super_reaches] follows) *)
Definition succs (G : world) (x : N) : list N :=
  match raw_supers G x with Some l => super_ids l | None => [] end.

(** what a failed walk leaves behind: the nodes added to [visited] are not the target and all their
    declared successors have been visited *)
Definition closed_from (G : world) (tgt : N) (vis v' : list N) : Prop :=
  (forall x, In x vis -> In x v') /\
  (forall x, In x v' -> ~ In x vis -> x <> tgt /\ forall y, In y (succs G x) -> In y v').

Lemma closed_from_trans : forall G tgt a b c, closed_from G tgt a b -> closed_from G tgt b c -> closed_from G tgt a c.
Proof.
  intros G tgt a b c [S1 C1] [S2 C2]. split; [auto|].
  intros x Hx Hna. destruct (in_dec N.eq_dec x b) as [Hb|Hnb].
  - destruct (C1 x Hb Hna) as [Hne Hs]. split; [exact Hne|]. intros y Hy. apply S2, Hs, Hy.
  - apply C2; assumption.
Qed.

Lemma super_reaches_false_closed : forall G fuel cur tgt vis v',
  super_reaches G fuel cur tgt vis = Some (false, v') ->
  closed_from G tgt vis v' /\ In cur v'.
Proof.
  intros G fuel. induction fuel as [|f IH]; intros cur tgt vis v' H; [discriminate|].
  cbn [super_reaches] in H.
  destruct (N.eqb_spec cur tgt) as [E|Hne]; [discriminate|].
  change (existsb (N.eqb cur) vis) with (nmem cur vis) in H.
  destruct (nmem cur vis) eqn:Ev.
  - inversion H; subst v'. apply nmem_In in Ev. split; [|exact Ev].
    split; [auto|]. intros x Hx Hn. contradiction.
  - apply nmem_false in Ev.
    destruct (raw_supers G cur) as [sups|] eqn:Er.
    2:{ inversion H; subst v'. split; [|left; reflexivity]. split; [intros x Hx; right; exact Hx|].
        intros x [<-|Hx] Hn; [|contradiction]. split; [exact Hne|]. unfold succs. rewrite Er. intros y []. }
    assert (Hsucc : succs G cur = super_ids sups) by (unfold succs; rewrite Er; reflexivity).
    (* the loop over the successors *)
    assert (Hloop : forall ids v0 v1,
              (fix any (ids : list N) (visited : list N) : option (bool * list N) :=
                 match ids with
                 | [] => Some (false, visited)
                 | i :: r =>
                     match super_reaches G f i tgt visited with
                     | None => None
                     | Some (true, v) => Some (true, v)
                     | Some (false, v) => any r v
                     end
                 end) ids v0 = Some (false, v1) ->
              closed_from G tgt v0 v1 /\ forall y, In y ids -> In y v1).
    { induction ids as [|i r IHr]; intros v0 v1 Hl.
      - inversion Hl; subst. split; [split; [auto|intros x Hx Hn; contradiction]|intros y []].
      - destruct (super_reaches G f i tgt v0) as [[[|] v]|] eqn:Ei; try discriminate.
        destruct (IH _ _ _ _ Ei) as [Ci Hi]. destruct (IHr _ _ Hl) as [Cr Hr].
        split; [eapply closed_from_trans; eassumption|].
        intros y [<-|Hy]; [destruct Cr as [S _]; apply S; exact Hi|apply Hr; exact Hy]. }
    destruct (Hloop _ _ _ H) as [[S C] Hids].
    split; [|apply S; left; reflexivity].
    split; [intros x Hx; apply S; right; exact Hx|].
    intros x Hx Hn. destruct (N.eq_dec x cur) as [->|Hxc].
    + split; [exact Hne|]. rewrite Hsucc. exact Hids.
    + apply C; [exact Hx|]. intros [E|Hin]; [congruence|contradiction].
Qed.

Definition raw_edge (G : world) (a b : N) : Prop := In b (succs G a).

(** completeness of [super_reaches] from an empty visited set: a declared path to the target is found *)
Lemma super_reaches_complete : forall G fuel cur tgt v',
  super_reaches G fuel cur tgt [] = Some (false, v') ->
  ~ clos_refl_trans N (raw_edge G) cur tgt.
Proof.
  intros G fuel cur tgt v' H Hreach.
  destruct (super_reaches_false_closed _ _ _ _ _ _ H) as [[_ C] Hcur].
  assert (Hall : forall x, clos_refl_trans N (raw_edge G) cur x -> In x v').
  { intros x Hx. apply clos_rt_rtn1 in Hx. induction Hx as [|y z Hyz _ IHx]; [exact Hcur|].
    destruct (C y IHx) as [_ Hs]; [intros []|]. apply Hs. exact Hyz. }
  destruct (C tgt (Hall tgt Hreach)) as [Hne _]; [intros []|]. apply Hne. reflexivity.
Qed.

(** an effective edge is a declared edge that the cycle filter kept *)
Lemma eff_edge_kept : forall G a b, edge G a b ->
  raw_edge G a b /\ is_cyclic_super_edge G a (TRef b) = Some false.
Proof.
  intros G a b (l & E & Hin). unfold eff_supers in E.
  destruct (raw_supers G a) as [raw|] eqn:Er; [|discriminate].
  assert (Hgo : forall raw l,
            (fix go (l0 : list ty) : option (option (list ty)) :=
               match l0 with
               | [] => Some (Some [])
               | s :: r =>
                   match is_cyclic_super_edge G a s, go r with
                   | Some c, Some (Some r') => Some (Some (if c then r' else s :: r'))
                   | _, _ => None
                   end
               end) raw = Some (Some l) ->
            forall t, In t l -> In t raw /\ is_cyclic_super_edge G a t = Some false).
  { clear. induction raw as [|s r IH]; intros l E t Ht.
    - inversion E; subst. destruct Ht.
    - destruct (is_cyclic_super_edge G a s) as [c|] eqn:Ec; [|discriminate].
      match type of E with match ?g with _ => _ end = _ => destruct g as [[r'|]|] eqn:Eg end; try discriminate.
      inversion E; subst l. destruct c.
      + destruct (IH r' eq_refl t Ht) as [H1 H2]. split; [right; exact H1|exact H2].
      + destruct Ht as [<-|Ht]; [split; [left; reflexivity|exact Ec]|].
        destruct (IH r' eq_refl t Ht) as [H1 H2]. split; [right; exact H1|exact H2]. }
  destruct (Hgo raw l E (TRef b) Hin) as [Hraw Hc].
  split; [|exact Hc]. unfold raw_edge, succs. rewrite Er. apply super_ids_In. exact Hraw.
Qed.

(** no class reaches itself through effective edges: [get_super_types_iter] yields an acyclic graph *)
Lemma effective_supers_acyclic : forall G a, ~ clos_trans N (edge G) a a.
Proof.
  intros G a H. apply clos_trans_t1n in H.
  assert (Hraw : forall x y, clos_trans_1n N (edge G) x y -> clos_refl_trans N (raw_edge G) x y).
  { intros x y Hxy. induction Hxy as [x y Hxy|x y z Hxy _ IH].
    - apply rt_step. apply eff_edge_kept. exact Hxy.
    - eapply rt_trans; [apply rt_step; apply eff_edge_kept; exact Hxy|exact IH]. }
  assert (Hsplit : exists b, edge G a b /\ clos_refl_trans N (raw_edge G) b a).
  { inversion H as [y Hay|y z Hay Hya]; subst.
    - exists a. split; [exact Hay|apply rt_refl].
    - exists y. split; [exact Hay|apply Hraw; exact Hya]. }
  destruct Hsplit as (b & Hab & Hba).
  destruct (eff_edge_kept G a b Hab) as [_ Hc]. unfold is_cyclic_super_edge in Hc. cbn [super_id] in Hc.
  destruct (super_reaches G (dfs_fuel G) b a []) as [[r v]|] eqn:Es; [|discriminate].
  inversion Hc; subst r. eapply super_reaches_complete; eassumption.
Qed.
