(** C16/CheckProofs.v — lemmas about the assignability check of the model:
    the recursion never outruns the guard ([check_nd]: no [Diverge] once the fuel covers the
    levels that are left), and outcome lemmas used by the laws of C16. *)
From EV Require Import C16.Model C16.SubProofs.
Local Open Scope N_scope.

(** * no divergence *)

Definition nd (r : res) : Prop := r <> Diverge.

Lemma nd_ok : nd Ok. Proof. discriminate. Qed.
Lemma nd_err : forall e, nd (Err e). Proof. discriminate. Qed.
#[export] Hint Resolve nd_ok nd_err : nd.

Lemma all_ok_nd : forall A (f : A -> res) xs, (forall x, In x xs -> nd (f x)) -> nd (all_ok f xs).
Proof.
  intros A f xs. induction xs as [|x r IH]; intros H; cbn [all_ok]; [apply nd_ok|].
  pose proof (H x (or_introl eq_refl)) as Hx.
  destruct (f x) as [|e|]; [|apply nd_err|exact Hx].
  apply IH. intros y Hy. apply H. right; exact Hy.
Qed.

Lemma first_ok_nd : forall A (f : A -> res) xs, (forall x, In x xs -> nd (f x)) -> nd (first_ok f xs).
Proof.
  intros A f xs. induction xs as [|x r IH]; intros H; cbn [first_ok]; [apply nd_err|].
  pose proof (H x (or_introl eq_refl)) as Hx.
  destruct (f x) as [|[| |]|]; try apply nd_ok; try apply nd_err; [|exact Hx].
  apply IH. intros y Hy. apply H. right; exact Hy.
Qed.

Ltac nd_step :=
  match goal with
  | |- nd Ok => apply nd_ok
  | |- nd (Err _) => apply nd_err
  | H : forall d c, (d = 1 \/ d = 2)%nat -> nd (?k d c) |- nd (?k _ _) => apply H; auto
  | Hk : forall d c, (d = 1 \/ d = 2)%nat -> nd (?k d c), H : ?k ?d ?c = Diverge |- _ =>
      exfalso; apply (Hk d c); [auto|exact H]
  | |- nd (all_ok _ _) => apply all_ok_nd; intros
  | |- nd (first_ok _ _) => apply first_ok_nd; intros
  | |- nd (match ?x with _ => _ end) => destruct x eqn:?
  | |- nd (if ?b then _ else _) => destruct b eqn:?
  end.
Ltac nd_tac := repeat nd_step.

Section NoDiverge.
  Variable G : world.
  Variable cf : cfg.
  Variable k : nat -> call -> res.
  Variable lvl : N.
  Hypothesis Hk : forall d c, (d = 1 \/ d = 2)%nat -> nd (k d c).

  Lemma base_for_ref_nd : forall s c, nd (base_for_ref G lvl s c).
  Proof. intros. unfold base_for_ref. nd_tac. Qed.

  Lemma simple_tail_nd : forall s c, nd (simple_tail k s c).
  Proof. intros. unfold simple_tail. nd_tac. Qed.

  Lemma ref_or_tail_nd : forall s c, nd (ref_or_tail G k lvl s c).
  Proof.
    intros. unfold ref_or_tail. pose proof (base_for_ref_nd s c) as H.
    destruct (base_for_ref G lvl s c) as [|[| |]|]; try apply nd_ok; try apply nd_err; [|exact H].
    apply simple_tail_nd.
  Qed.

  Ltac nd_tac2 :=
    repeat (first [ apply simple_tail_nd | apply ref_or_tail_nd | nd_step ]).

  Lemma simple_nd : forall s c, nd (simple G cf k lvl s c).
  Proof. intros s c. unfold simple. nd_tac2. Qed.

  Lemma ref_class_nd : forall id c, nd (ref_class G k lvl id c).
  Proof. intros. unfold ref_class. nd_tac. Qed.

  Lemma ref_check_nd : forall id c, nd (ref_check G k lvl id c).
  Proof.
    intros. unfold ref_check.
    repeat (first [ apply ref_class_nd | nd_step ]).
  Qed.

  Lemma func_varargs_nd : forall vt cps, nd (func_varargs k lvl vt cps).
  Proof. intros. unfold func_varargs. nd_tac. Qed.

  Lemma func_params_nd : forall sps cps first, nd (func_params k lvl first sps cps).
  Proof.
    induction sps as [|sp sps' IH]; intros [|cp cps'] first; cbn [func_params]; try apply nd_ok.
    pose proof (func_varargs_nd (snd sp) (cp :: cps')) as Hva.
    destruct (fst sp =? pn_dots).
    - destruct (func_varargs k lvl (snd sp) (cp :: cps')) as [|e|]; [|apply nd_err|exact Hva].
      repeat (first [ apply IH | nd_step ]).
    - repeat (first [ apply IH | nd_step ]).
  Qed.

  Lemma func_check_nd : forall colon sps c, nd (func_check k lvl colon sps c).
  Proof. intros. unfold func_check. repeat (first [ apply func_params_nd | nd_step ]). Qed.

  Lemma array_check_nd : forall sb c, nd (array_check cf k lvl sb c).
  Proof. intros. unfold array_check. nd_tac. Qed.

  Lemma tuple_members_nd : forall ss cs, nd (tuple_members k ss cs).
  Proof.
    induction ss as [|s ss' IH]; intros cs; cbn [tuple_members]; [apply nd_ok|].
    destruct cs as [|c cs'].
    - destruct (is_optional s); [apply IH|apply nd_err].
    - pose proof (Hk 2%nat (CGen s c) (or_intror eq_refl)) as H. destruct (k 2%nat (CGen s c)) as [|e|]; [apply IH|apply nd_err|exact H].
  Qed.

  Lemma tuple_check_nd : forall ss c, nd (tuple_check k lvl ss c).
  Proof. intros. unfold tuple_check. repeat (first [ apply tuple_members_nd | nd_step ]). Qed.

  Lemma complex_tail_nd : forall s c, nd (complex_tail k s c).
  Proof. intros. unfold complex_tail. nd_tac. Qed.

  Lemma complex_nd : forall s c, nd (complex cf k lvl s c).
  Proof.
    intros s c. unfold complex. destruct s; try apply complex_tail_nd.
    - pose proof (array_check_nd s c) as H.
      destruct (array_check cf k lvl s c) as [|[| |]|]; try apply nd_ok; try apply nd_err; [|exact H].
      apply complex_tail_nd.
    - pose proof (tuple_check_nd ts c) as H.
      destruct (tuple_check k lvl ts c) as [|[| |]|]; try apply nd_ok; try apply nd_err; [|exact H].
      apply complex_tail_nd.
    - nd_tac.
  Qed.

  Lemma general_nd : forall s c, nd (general G cf k lvl s c).
  Proof.
    intros s c. unfold general.
    repeat (first [ apply simple_nd | apply ref_check_nd | apply func_check_nd | apply complex_nd | nd_step ]).
  Qed.

  Lemma step_nd : forall c, nd (step G cf k lvl c).
  Proof.
    intros [s c|s c|id c|colon ps c|s c]; cbn [step];
      [apply general_nd|apply simple_nd|apply ref_check_nd|apply func_check_nd|apply complex_nd].
  Qed.
End NoDiverge.

(** the guard bounds the recursion: with fuel for the levels that are left the check answers *)
Lemma check_nd : forall G cf rem lvl c,
  MAX_TYPE_CHECK_LEVEL <= N.of_nat rem + lvl -> nd (check G cf rem lvl c).
Proof.
  intros G cf rem. induction rem as [rem IH] using lt_wf_ind. intros lvl c Hb.
  destruct rem as [|r1]; cbn [check]; apply step_nd; intros d c' Hd.
  - destruct (N.ltb_spec MAX_TYPE_CHECK_LEVEL (lvl + N.of_nat d)); [apply nd_err|].
    destruct Hd as [-> | ->]; cbn [N.of_nat] in *; lia.
  - destruct (N.ltb_spec MAX_TYPE_CHECK_LEVEL (lvl + N.of_nat d)); [apply nd_err|].
    destruct Hd as [-> | ->].
    + apply IH; [lia|]. lia.
    + destruct r1 as [|r2]; [cbn [N.of_nat] in *; lia|].
      apply IH; [lia|]. lia.
Qed.

(** * well-formed types of bounded height *)
From EV Require Import C16.Spec C16.UnionProofs.

Lemma fits_unfold : forall G n t,
  fits G n t =
  match t with
  | TBasic b => negb (basic_eqb b BSelfInfer)
  | TBoolConst _ _ | TStrConst _ _ | TIntConst _ _ => true
  | TRef id =>
      match get_decl G id with
      | None => false
      | Some d =>
          if is_alias d then
            match d_origin d, n with
            | Some o, S n' => fits G n' o
            | _, _ => false
            end
          else true
      end
  | TArray b => match n with S n' => fits G n' b | O => false end
  | TTuple ts => match n with S n' => forallb (fits G n') ts | O => false end
  | TFunc colon ps _ =>
      match n with
      | S n' => negb colon && forallb (fun p : N * option ty => match snd p with Some t => fits G n' t | None => true end) ps
                && dots_last ps
      | O => false
      end
  | TUnion _ _ ms =>
      match n with
      | S n' => forallb (fits G n') ms && hnodup ms && (2 <=? N.of_nat (length ms))
      | O => false
      end
  end.
Proof. intros G n t. destruct n; reflexivity. Qed.

Lemma fits_mono : forall G n m t, (n <= m)%nat -> fits G n t = true -> fits G m t = true.
Proof.
  intros G n. induction n as [|n IH]; intros m t Hle H; rewrite fits_unfold in H; rewrite fits_unfold.
  - destruct t; try discriminate; try exact H.
    destruct (get_decl G id) as [d|]; [|discriminate]. destruct (is_alias d); [|reflexivity].
    destruct (d_origin d); discriminate.
  - destruct m as [|m]; [lia|]. assert (Hle' : (n <= m)%nat) by lia.
    destruct t; try exact H.
    + destruct (get_decl G id) as [d|]; [|discriminate]. destruct (is_alias d); [|reflexivity].
      destruct (d_origin d); [|discriminate]. apply IH; assumption.
    + apply IH; assumption.
    + rewrite forallb_forall in *. intros x Hx. apply IH; auto.
    + apply andb_true_iff in H. destruct H as [H1 H2]. apply andb_true_iff in H1. destruct H1 as [H0 H1].
      apply andb_true_iff. split; [|exact H2]. apply andb_true_iff. split; [exact H0|].
      rewrite forallb_forall in *. intros x Hx. specialize (H1 x Hx). destruct (snd x); [apply IH; auto|reflexivity].
    + apply andb_true_iff in H. destruct H as [H1 H3]. apply andb_true_iff in H1. destruct H1 as [H1 H2].
      apply andb_true_iff. split; [|exact H3]. apply andb_true_iff. split; [|exact H2].
      rewrite forallb_forall in *. intros x Hx. apply IH; auto.
Qed.

Lemma fits_union_inv : forall G b p k ms, fits G b (TUnion p k ms) = true ->
  exists b', b = S b' /\ (forall m, In m ms -> fits G b' m = true) /\ (hnodup ms = true /\ (2 <= length ms)%nat).
Proof.
  intros G b p k ms H. rewrite fits_unfold in H. destruct b as [|b']; [discriminate|].
  apply andb_true_iff in H. destruct H as [H1 H3]. apply andb_true_iff in H1. destruct H1 as [H1 H2].
  exists b'. split; [reflexivity|]. split; [|split; [exact H2|apply N.leb_le in H3; lia]].
  rewrite forallb_forall in H1. exact H1.
Qed.

Lemma fits_union_intro : forall G b p k ms,
  (forall m, In m ms -> fits G b m = true) -> hnodup ms = true -> (2 <= length ms)%nat ->
  fits G (S b) (TUnion p k ms) = true.
Proof.
  intros G b p k ms H1 H2 H3. rewrite fits_unfold. apply andb_true_iff. split; [apply andb_true_iff; split|].
  - apply forallb_forall. exact H1.
  - exact H2.
  - apply N.leb_le. lia.
Qed.

Lemma fits_array_inv : forall G b x, fits G b (TArray x) = true -> exists b', b = S b' /\ fits G b' x = true.
Proof. intros G b x H. rewrite fits_unfold in H. destruct b as [|b']; [discriminate|]. eauto. Qed.

Lemma fits_tuple_inv : forall G b ts, fits G b (TTuple ts) = true ->
  exists b', b = S b' /\ (forall t, In t ts -> fits G b' t = true).
Proof.
  intros G b ts H. rewrite fits_unfold in H. destruct b as [|b']; [discriminate|].
  rewrite forallb_forall in H. eauto.
Qed.

Lemma fits_func_inv : forall G b colon ps r, fits G b (TFunc colon ps r) = true ->
  exists b', b = S b' /\ (forall p t, In p ps -> snd p = Some t -> fits G b' t = true) /\ (dots_last ps = true /\ colon = false).
Proof.
  intros G b colon ps r H. rewrite fits_unfold in H. destruct b as [|b']; [discriminate|].
  apply andb_true_iff in H. destruct H as [H1 H2]. apply andb_true_iff in H1. destruct H1 as [H0 H1].
  exists b'. split; [reflexivity|]. split; [|split; [exact H2|destruct colon; [discriminate|reflexivity]]].
  rewrite forallb_forall in H1. intros p t Hp Ht. specialize (H1 p Hp). rewrite Ht in H1. exact H1.
Qed.

Lemma fits_ref_inv : forall G b id, fits G b (TRef id) = true ->
  exists d, get_decl G id = Some d /\
    (is_alias d = false \/ exists b' o, b = S b' /\ is_alias d = true /\ d_origin d = Some o /\ fits G b' o = true).
Proof.
  intros G b id H. rewrite fits_unfold in H. destruct (get_decl G id) as [d|]; [|discriminate].
  exists d. split; [reflexivity|]. destruct (is_alias d); [right|left; reflexivity].
  destruct (d_origin d) as [o|]; [|discriminate]. destruct b as [|b']; [discriminate|].
  exists b', o. auto.
Qed.

Lemma escape_fits : forall G b id o, fits G b (TRef id) = true -> escape_type G (TRef id) = Some o ->
  exists b', b = S b' /\ fits G b' o = true.
Proof.
  intros G b id o H E. destruct (fits_ref_inv _ _ _ H) as (d & Ed & [Ha|(b' & o' & -> & Ha & Eo & Ho)]);
    cbn [escape_type] in E; rewrite Ed in E; unfold alias_origin in E; rewrite Ha in E.
  - discriminate.
  - rewrite Eo in E. inversion E; subst. eauto.
Qed.

(** * outcomes of checks within the budget: accepted or refused, nothing else *)

Definition good (r : res) : Prop := r = Ok \/ r = Err NotMatch.
Lemma good_ok : good Ok. Proof. left; reflexivity. Qed.
Lemma good_nm : good (Err NotMatch). Proof. right; reflexivity. Qed.

Lemma all_ok_good : forall A (f : A -> res) xs, (forall x, In x xs -> good (f x)) -> good (all_ok f xs).
Proof.
  intros A f xs. induction xs as [|x r IH]; intros H; cbn [all_ok]; [apply good_ok|].
  destruct (H x (or_introl eq_refl)) as [E|E]; rewrite E; [|apply good_nm].
  apply IH. intros y Hy. apply H. right; exact Hy.
Qed.

Lemma first_ok_good : forall A (f : A -> res) xs, (forall x, In x xs -> good (f x)) -> good (first_ok f xs).
Proof.
  intros A f xs. induction xs as [|x r IH]; intros H; cbn [first_ok]; [apply good_nm|].
  destruct (H x (or_introl eq_refl)) as [E|E]; rewrite E; [apply good_ok|].
  apply IH. intros y Hy. apply H. right; exact Hy.
Qed.

Lemma all_ok_ok : forall A (f : A -> res) xs, (forall x, In x xs -> f x = Ok) -> all_ok f xs = Ok.
Proof.
  intros A f xs. induction xs as [|x r IH]; intros H; cbn [all_ok]; [reflexivity|].
  rewrite (H x (or_introl eq_refl)). apply IH. intros y Hy. apply H. right; exact Hy.
Qed.

(** [first_ok] succeeds when one element succeeds and the others are accepted or refused *)
Lemma first_ok_ok : forall A (f : A -> res) xs x,
  In x xs -> f x = Ok -> (forall y, In y xs -> good (f y)) -> first_ok f xs = Ok.
Proof.
  intros A f xs x. induction xs as [|y r IH]; intros Hin Hx Hg; [destruct Hin|].
  cbn [first_ok]. destruct (Hg y (or_introl eq_refl)) as [E|E]; rewrite E; [reflexivity|].
  destruct Hin as [->|Hin]; [congruence|]. apply IH; auto. intros z Hz. apply Hg. right; exact Hz.
Qed.

(** what a recursive call is about *)
Definition cfits (G : world) (a b : nat) (c : call) : Prop :=
  match c with
  | CGen s c | CSimple s c | CComplex s c => fits G a s = true /\ fits G b c = true
  | CRef id c => fits G a (TRef id) = true /\ fits G b c = true
  | CFunc colon ps c => fits G a (TFunc colon ps TNil) = true /\ fits G b c = true
  end.

Lemma alias_real_fits : forall G m b c, fits G b c = true -> (b <= m)%nat ->
  exists c', alias_real G m c = inl c'.
Proof.
  intros G m. induction m as [|m IH]; intros b c H Hle.
  - assert (b = O) by lia. subst b. destruct c; try (eexists; reflexivity).
    cbn [alias_real]. destruct (fits_ref_inv _ _ _ H) as (d & -> & [Ha|(b' & o & Hb & _)]); [|discriminate].
    rewrite Ha. eexists; reflexivity.
  - destruct c; try (eexists; reflexivity).
    cbn [alias_real]. destruct (fits_ref_inv _ _ _ H) as (d & -> & [Ha|(b' & o & -> & Ha & -> & Ho)]); rewrite Ha.
    + eexists; reflexivity.
    + apply (IH b' o Ho). lia.
Qed.

Lemma fits_func_ret : forall G a c ps r r', fits G a (TFunc c ps r) = fits G a (TFunc c ps r').
Proof. intros. rewrite !fits_unfold. reflexivity. Qed.

Lemma fits_strict_base : forall G a0 b0, fits G a0 b0 = true -> fits G (S a0) (from_vec [b0; TNil]) = true.
Proof.
  intros G a0 b0 H. destruct (is_union b0) eqn:Eu.
  - destruct b0 as [| | | | | | | |p uk ms]; try discriminate.
    destruct (fits_union_inv _ _ _ _ _ H) as (a00 & -> & Hms & Hn & Hl).
    destruct (from_vec_nil_union p uk ms Hn Hl) as (k' & ms' & -> & _ & Hsub & Hn' & Hl').
    apply fits_union_intro; auto. intros m Hm. destruct (Hsub m Hm) as [Hin| ->].
    + apply (fits_mono G a00); [lia|apply Hms; exact Hin].
    + rewrite fits_unfold. reflexivity.
  - destruct (from_vec_nil_nonunion b0 Eu) as [[-> ->]|(_ & k' & ms' & -> & _ & Hsub & Hn' & Hl')].
    + rewrite fits_unfold. reflexivity.
    + apply fits_union_intro; auto. intros m Hm. destruct (Hsub m Hm) as [-> | ->]; [exact H|].
      rewrite fits_unfold. reflexivity.
Qed.


Ltac good_step :=
  match goal with
  | |- good Ok => apply good_ok
  | |- good (Err NotMatch) => apply good_nm
  | |- good (all_ok _ _) => apply all_ok_good; intros
  | |- good (first_ok _ _) => apply first_ok_good; intros
  | |- good (match ?x with _ => _ end) => destruct x eqn:?
  | |- good (if ?b then _ else _) => destruct b eqn:?
  end.

Section Good.
  Variable G : world.
  Variable cf : cfg.
  Variable k : nat -> call -> res.
  Variable lvl : N.
  Variable n : nat.
  Hypothesis Hk : forall d c a b, (d = 1 \/ d = 2)%nat -> cfits G a b c -> (a + b < n)%nat -> good (k d c).
  Hypothesis Hg : guard_ok lvl 2 = true.
  Hypothesis Hal : (n <= N.to_nat (MAX_TYPE_CHECK_LEVEL - (lvl + 1)))%nat.

  Lemma Hg1 : guard_ok lvl 1 = true.
  Proof. unfold guard_ok in *. apply N.leb_le in Hg. apply N.leb_le. lia. Qed.

  Lemma base_for_ref_good : forall s c b, fits G b c = true -> (b <= n)%nat -> good (base_for_ref G lvl s c).
  Proof.
    intros s c b Hb Hle. unfold base_for_ref. rewrite Hg1. cbn [negb].
    destruct (alias_real_fits G (N.to_nat (MAX_TYPE_CHECK_LEVEL - (lvl + 1))) b c Hb) as (c' & ->); [lia|].
    repeat good_step.
  Qed.

  Lemma simple_tail_good : forall s c a b, fits G a s = true -> fits G b c = true -> (a + b <= n)%nat ->
    good (simple_tail k s c).
  Proof.
    intros s c a b Ha Hb Hle. unfold simple_tail. destruct c; try apply good_nm.
    destruct (fits_union_inv _ _ _ _ _ Hb) as (b' & -> & Hms & _).
    apply all_ok_good. intros m Hm. apply (Hk 1%nat _ a b'); [auto| |lia]. split; [exact Ha|apply Hms; exact Hm].
  Qed.

  Lemma ref_or_tail_good : forall s c a b, fits G a s = true -> fits G b c = true -> (a + b <= n)%nat ->
    good (ref_or_tail G k lvl s c).
  Proof.
    intros s c a b Ha Hb Hle. unfold ref_or_tail.
    destruct (base_for_ref_good s c b Hb) as [E|E]; [lia| |]; rewrite E; [apply good_ok|].
    eapply simple_tail_good; eauto.
  Qed.

  Lemma simple_good : forall s c a b, fits G a s = true -> fits G b c = true -> (a + b <= n)%nat ->
    good (simple G cf k lvl s c).
  Proof.
    intros s c a b Ha Hb Hle. unfold simple.
    repeat (first [ eapply simple_tail_good; eassumption
                  | eapply ref_or_tail_good; eassumption
                  | good_step ]).
  Qed.

  Lemma ref_class_good : forall id c a b, fits G a (TRef id) = true -> fits G b c = true -> (a + b <= n)%nat ->
    good (ref_class G k lvl id c).
  Proof.
    intros id c a b Ha Hb Hle. unfold ref_class. rewrite Hg1.
    destruct c; try (repeat good_step; fail).
    destruct (fits_union_inv _ _ _ _ _ Hb) as (b' & -> & Hms & _).
    apply all_ok_good. intros m Hm. apply (Hk 1%nat _ a b'); [auto| |lia]. split; [exact Ha|apply Hms; exact Hm].
  Qed.

  Lemma ref_check_good : forall id c a b, fits G a (TRef id) = true -> fits G b c = true -> (a + b <= n)%nat ->
    good (ref_check G k lvl id c).
  Proof.
    intros id c a b Ha Hb Hle. unfold ref_check.
    destruct (fits_ref_inv _ _ _ Ha) as (d & -> & [Hal'|(a' & o & -> & Hal' & Eo & Ho)]); rewrite Hal'.
    - eapply ref_class_good; eauto.
    - assert (Hnu : forall c0, (forall p k0 ms, c0 <> TUnion p k0 ms) -> fits G b c0 = true ->
                good (match d_origin d with
                      | None => Err NotMatch
                      | Some o0 =>
                          if match o0 with
                             | TUnion _ _ oms => existsb (fun m => req m c0) oms
                             | _ => req o0 c0
                             end then Ok
                          else if negb (guard_ok lvl 1) then Err Recursion
                          else let result := k 1%nat (CGen o0 c0) in
                               if negb (is_ok result) && match c0 with TRef _ => true | _ => false end
                               then ref_class G k lvl id c0 else result
                      end)).
      { intros c0 Hnu Hb0. rewrite Eo. rewrite Hg1. cbn [negb].
        destruct (match o with TUnion _ _ oms => existsb (fun m => req m c0) oms | _ => req o c0 end); [apply good_ok|].
        cbv zeta.
        assert (Hr : good (k 1%nat (CGen o c0))).
        { apply (Hk 1%nat _ a' b); [auto| |lia]. split; assumption. }
        destruct Hr as [E|E]; rewrite E; cbn [is_ok negb andb]; [apply good_ok|].
        destruct c0; cbn [andb]; try apply good_nm.
        eapply ref_class_good; eauto. }
      destruct c; try (apply Hnu; [intros; discriminate|exact Hb]).
      destruct (fits_union_inv _ _ _ _ _ Hb) as (b' & -> & Hms & _).
      apply all_ok_good. intros m Hm. apply (Hk 1%nat _ (S a') b'); [auto| |lia]. split; [exact Ha|apply Hms; exact Hm].
  Qed.

  Lemma func_varargs_good : forall vt cps a b,
    (forall v, vt = Some v -> fits G a v = true) ->
    (forall p t, In p cps -> snd p = Some t -> fits G b t = true) ->
    (S (a + b) < n)%nat -> good (func_varargs k lvl vt cps).
  Proof.
    intros vt cps a b Hv Hc Hle. unfold func_varargs. rewrite Hg1. cbn [negb].
    destruct vt as [v|]; [|apply good_ok].
    apply all_ok_good. intros cp Hcp. destruct (snd cp) as [ct|] eqn:Ect; [|apply good_ok].
    apply (Hk 2%nat _ b a); [auto| |lia]. split; [eapply Hc; eauto|apply Hv; reflexivity].
  Qed.

  Lemma func_params_good : forall sps cps first a b,
    (forall p t, In p sps -> snd p = Some t -> fits G a t = true) ->
    (forall p t, In p cps -> snd p = Some t -> fits G b t = true) ->
    (S (a + b) < n)%nat -> good (func_params k lvl first sps cps).
  Proof.
    induction sps as [|sp sps' IH]; intros [|cp cps'] first a b Hs Hc Hle; cbn [func_params]; try apply good_ok.
    assert (Hva : good (if fst sp =? pn_dots then func_varargs k lvl (snd sp) (cp :: cps') else Ok)).
    { destruct (fst sp =? pn_dots); [|apply good_ok].
      apply (func_varargs_good _ _ a b); auto.
      intros v Ev. apply (Hs sp v); [left; reflexivity|exact Ev]. }
    destruct Hva as [E|E]; rewrite E; [|apply good_nm].
    assert (Hrec : forall f, good (func_params k lvl f sps' cps')).
    { intros f. apply (IH cps' f a b); auto.
      - intros p t Hp. apply Hs. right; exact Hp.
      - intros p t Hp. apply Hc. right; exact Hp. }
    destruct (fst cp =? pn_dots); [apply good_ok|].
    destruct (snd sp) as [st|] eqn:Est; [|apply Hrec].
    destruct (snd cp) as [ct|] eqn:Ect; [|apply Hrec].
    assert (Hr : good (k 1%nat (CGen ct st))).
    { apply (Hk 1%nat _ b a); [auto| |lia]. split.
      - apply (Hc cp ct); [left; reflexivity|exact Ect].
      - apply (Hs sp st); [left; reflexivity|exact Est]. }
    destruct Hr as [E'|E']; rewrite E'; [apply Hrec|].
    destruct (first && is_b BSelfInfer st && (fst cp =? pn_self))%bool; [apply Hrec|apply good_nm].
  Qed.

  Lemma func_check_good : forall colon sps c a b, fits G a (TFunc colon sps TNil) = true -> fits G b c = true ->
    (a + b <= n)%nat -> good (func_check k lvl colon sps c).
  Proof.
    intros colon sps c a b Ha Hb Hle. unfold func_check.
    destruct (fits_func_inv _ _ _ _ _ Ha) as (a' & -> & Hsp & _).
    destruct c; try apply good_nm.
    - destruct b0; try apply good_nm. apply good_ok.
    - destruct (fits_func_inv _ _ _ _ _ Hb) as (b' & -> & Hcp & _).
      apply (func_params_good _ _ _ a' b'); auto; [|lia].
      intros p t Hp Ht. destruct colon0; [|eapply Hcp; eauto].
      destruct Hp as [<-|Hp]; [discriminate|eapply Hcp; eauto].
    - destruct (fits_union_inv _ _ _ _ _ Hb) as (b' & -> & Hms & _).
      apply all_ok_good. intros m Hm. apply (Hk 1%nat _ (S a') b'); [auto| |lia]. split; [exact Ha|apply Hms; exact Hm].
  Qed.

  Lemma array_check_good : forall sb0 c a b, fits G a (TArray sb0) = true -> fits G b c = true -> (a + b <= n)%nat ->
    good (array_check cf k lvl sb0 c) \/ array_check cf k lvl sb0 c = Err DonotCheck.
  Proof.
    intros sb0 c a b Ha Hb Hle. unfold array_check.
    destruct (fits_array_inv _ _ _ Ha) as (a0 & -> & Ha0).
    set (sb := if strict_array_index cf then from_vec [sb0; TNil] else sb0).
    assert (Hsb : fits G (S a0) sb = true).
    { unfold sb. destruct (strict_array_index cf); [apply fits_strict_base; exact Ha0|].
      apply (fits_mono G a0); [lia|exact Ha0]. }
    rewrite Hg1.
    destruct c; try (right; reflexivity).
    - destruct b0; try (right; reflexivity); left; apply good_ok.
    - left. apply good_nm.
    - left. destruct (fits_array_inv _ _ _ Hb) as (b' & -> & Hb').
      apply (Hk 1%nat _ (S a0) b'); [auto| |lia]. split; assumption.
    - left. destruct (fits_tuple_inv _ _ _ Hb) as (b' & -> & Hb').
      apply all_ok_good. intros t Ht. apply (Hk 1%nat _ (S a0) b'); [auto| |lia]. split; [exact Hsb|apply Hb'; exact Ht].
  Qed.

  Lemma tuple_members_good : forall ss cs a b,
    (forall t, In t ss -> fits G a t = true) -> (forall t, In t cs -> fits G b t = true) ->
    (a + b < n)%nat -> good (tuple_members k ss cs).
  Proof.
    induction ss as [|s ss' IH]; intros cs a b Hs Hc Hle; cbn [tuple_members]; [apply good_ok|].
    destruct cs as [|c cs'].
    - destruct (is_optional s); [|apply good_nm]. apply (IH [] a b); auto. intros t Ht. apply Hs. right; exact Ht.
    - assert (Hr : good (k 2%nat (CGen s c))).
      { apply (Hk 2%nat _ a b); [auto| |exact Hle]. split; [apply Hs|apply Hc]; left; reflexivity. }
      destruct Hr as [E|E]; rewrite E; [|apply good_nm].
      apply (IH cs' a b); auto; intros t Ht; [apply Hs|apply Hc]; right; exact Ht.
  Qed.

  Lemma tuple_check_good : forall ss c a b, fits G a (TTuple ss) = true -> fits G b c = true -> (a + b <= n)%nat ->
    good (tuple_check k lvl ss c) \/ tuple_check k lvl ss c = Err DonotCheck.
  Proof.
    intros ss c a b Ha Hb Hle. unfold tuple_check. rewrite Hg1.
    destruct (fits_tuple_inv _ _ _ Ha) as (a' & -> & Ha').
    destruct c; try (right; reflexivity).
    - destruct b0; try (right; reflexivity); left; apply good_ok.
    - left. destruct (fits_array_inv _ _ _ Hb) as (b' & -> & Hb').
      apply all_ok_good. intros t Ht. apply (Hk 1%nat _ b' a'); [auto| |lia]. split; [exact Hb'|apply Ha'; exact Ht].
    - left. destruct (fits_tuple_inv _ _ _ Hb) as (b' & -> & Hb').
      apply (tuple_members_good _ _ a' b'); auto. lia.
  Qed.

  Lemma complex_tail_good : forall s c a b, fits G a s = true -> fits G b c = true -> (a + b <= n)%nat ->
    good (complex_tail k s c).
  Proof.
    intros s c a b Ha Hb Hle. unfold complex_tail. destruct c; try apply good_nm.
    destruct (fits_union_inv _ _ _ _ _ Hb) as (b' & -> & Hms & _).
    apply all_ok_good. intros m Hm. apply (Hk 1%nat _ a b'); [auto| |lia]. split; [exact Ha|apply Hms; exact Hm].
  Qed.

  Lemma complex_good : forall s c a b, fits G a s = true -> fits G b c = true -> (a + b <= n)%nat ->
    good (complex cf k lvl s c).
  Proof.
    intros s c a b Ha Hb Hle. unfold complex.
    destruct s; try (eapply complex_tail_good; eassumption).
    - destruct (array_check_good s c a b Ha Hb Hle) as [[E|E]|E]; rewrite E;
        [apply good_ok|apply good_nm|eapply complex_tail_good; eassumption].
    - destruct (tuple_check_good ts c a b Ha Hb Hle) as [[E|E]|E]; rewrite E;
        [apply good_ok|apply good_nm|eapply complex_tail_good; eassumption].
    - destruct (fits_union_inv _ _ _ _ _ Ha) as (a' & Ea & Hms & _).
      assert (Hother : good (first_ok (fun sub => k 1%nat (CGen sub c)) ms)).
      { apply first_ok_good. intros m Hm. apply (Hk 1%nat _ a' b); [auto| |lia]. split; [apply Hms; exact Hm|exact Hb]. }
      destruct c; try exact Hother.
      rewrite Hg1. destruct (fits_union_inv _ _ _ _ _ Hb) as (b' & -> & Hcs & _).
      apply all_ok_good. intros m Hm. apply (Hk 2%nat _ a b'); [auto| |lia]. split; [exact Ha|apply Hcs; exact Hm].
  Qed.

  Lemma general_good : forall s c a b, fits G a s = true -> fits G b c = true -> (a + b <= n)%nat ->
    good (general G cf k lvl s c).
  Proof.
    intros s c a b Ha Hb Hle. unfold general.
    destruct (is_like_any c); [apply good_ok|].
    destruct (fast_eq s c); [apply good_ok|].
    destruct (escape_type G c) as [o|] eqn:Ee.
    - destruct c; try discriminate. destruct (escape_fits _ _ _ _ Hb Ee) as (b' & -> & Ho).
      apply (Hk 1%nat _ a b'); [auto| |lia]. split; assumption.
    - destruct s.
      + destruct b0; try (eapply simple_good; eassumption); try apply good_ok; try apply good_nm.
        destruct (is_b BNever c); [apply good_ok|apply good_nm].
      + eapply simple_good; eassumption.
      + eapply simple_good; eassumption.
      + eapply simple_good; eassumption.
      + eapply ref_check_good; eassumption.
      + eapply complex_good; eassumption.
      + eapply complex_good; eassumption.
      + eapply func_check_good; [rewrite (fits_func_ret G a colon ps TNil s); exact Ha|eassumption|eassumption].
      + eapply complex_good; eassumption.
  Qed.

  Lemma step_good : forall c a b, cfits G a b c -> (a + b <= n)%nat -> good (step G cf k lvl c).
  Proof.
    intros [s c|s c|id c|colon ps c|s c] a b [Ha Hb] Hle; cbn [step].
    - eapply general_good; eassumption.
    - eapply simple_good; eassumption.
    - eapply ref_check_good; eassumption.
    - eapply func_check_good; eassumption.
    - eapply complex_good; eassumption.
  Qed.
End Good.

(** within the budget a check answers "accepted" or "refused" *)
Lemma check_good : forall G cf m a b rem lvl c,
  (a + b <= m)%nat -> cfits G a b c -> within lvl a b ->
  MAX_TYPE_CHECK_LEVEL <= N.of_nat rem + lvl -> good (check G cf rem lvl c).
Proof.
  intros G cf m. induction m as [m IH] using lt_wf_ind. intros a b rem lvl c Hm Hc Hw Hrem.
  unfold within in Hw.
  assert (Hcheck : check G cf rem lvl c =
          step G cf (fun (d : nat) (c' : call) =>
            if MAX_TYPE_CHECK_LEVEL <? lvl + N.of_nat d then Err Recursion
            else match d, rem with
                 | 1%nat, S r1 => check G cf r1 (lvl + 1) c'
                 | 2%nat, S (S r2) => check G cf r2 (lvl + 2) c'
                 | _, _ => Diverge
                 end) lvl c) by (destruct rem; reflexivity).
  rewrite Hcheck. apply (step_good G cf _ lvl (a + b)) with (a := a) (b := b); auto.
  - intros d c' a' b' Hd Hc' Hlt.
    destruct (N.ltb_spec MAX_TYPE_CHECK_LEVEL (lvl + N.of_nat d)) as [Hover|Hin].
    { destruct Hd as [-> | ->]; cbn [N.of_nat] in Hover; lia. }
    destruct Hd as [-> | ->].
    + destruct rem as [|r1]; [cbn [N.of_nat] in *; lia|].
      apply (IH (a' + b')%nat) with (a := a') (b := b'); auto; try lia. unfold within. lia.
    + destruct rem as [|[|r2]]; [cbn [N.of_nat] in *; lia|cbn [N.of_nat] in *; lia|].
      apply (IH (a' + b')%nat) with (a := a') (b := b'); auto; try lia. unfold within. lia.
  - unfold guard_ok. apply N.leb_le. lia.
  - lia.
Qed.
