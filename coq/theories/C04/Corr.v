(** C04/Corr.v — executable comparison of the cache model with observations of the implementation:
    a history of (text, event list of the parse, content of the tree the shared-cache Vfs returned). *)
From EV Require Import C01.Model C04.Model.
Local Open Scope N_scope.

Fixpoint dtree_eqb (a b : dtree) {struct a} : bool :=
  match a, b with
  | DTok k w, DTok k' w' => (k =? k') && text_eqb w w'
  | DNode k cs, DNode k' cs' =>
      (k =? k') &&
      (fix go (x y : list dtree) {struct x} : bool :=
         match x, y with
         | [] , [] => true
         | c :: r, c' :: r' => dtree_eqb c c' && go r r'
         | _, _ => false
         end) cs cs'
  | _, _ => false
  end.

Record hstep := { h_text : text; h_events : list event; h_dump : dtree }.

Section Params.
  Variable hash_token : tkind -> text -> N.
  Variable hash_node : skind -> list N -> N.
  Variable pick_token : rstate -> N -> list id -> option nat.
  Variable pick_node : rstate -> N -> list id -> option nat.

  Fixpoint check_history_from (st : rstate) (h : list hstep) : bool :=
    match h with
    | [] => true
    | s :: r =>
        match run (h_events s) with
        | None => false
        | Some tr =>
            match plain (h_text s) tr, rbuild hash_token hash_node pick_token pick_node (h_text s) tr st with
            | Some d, Some (st', (_, i)) =>
                dtree_eqb d (h_dump s) &&
                match denote (heap st') i with Some d' => dtree_eqb d' (h_dump s) | None => false end &&
                check_history_from st' r
            | _, _ => false
            end
        end
    end.
End Params.

Definition sumN (l : list N) : N := fold_left N.add l 0.

(** parameter set 1: non-zero hashes, the probe always finds the first candidate (maximal sharing) *)
Definition check_history_sharing (h : list hstep) : bool :=
  check_history_from (fun k w => 1 + k + N.of_nat (length w)) (fun k hs => 1 + k + sumN hs)
                     (fun _ _ _ => Some 0%nat) (fun _ _ _ => Some 0%nat) rs_empty h.

(** parameter set 2: colliding hashes that are sometimes 0, the probe finds the LAST candidate or nothing *)
Definition check_history_adversarial (h : list hstep) : bool :=
  check_history_from (fun k w => (k + N.of_nat (length w)) mod 3) (fun k hs => (k + sumN hs) mod 2)
                     (fun _ h c => if h =? 1 then None else Some (length c - 1)%nat)
                     (fun st _ c => if Nat.even (length (heap st)) then Some (length c - 1)%nat else None) rs_empty h.

Definition check_history (h : list hstep) : bool := check_history_sharing h && check_history_adversarial h.
