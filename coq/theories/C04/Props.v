(** C04/Props.v — property theorems only. *)
From EV Require Import C01.Model C04.Model C04.Proofs C04.Corr.
Local Open Scope N_scope.

Section AnyHashing.
  (** arbitrary hash functions and an arbitrary outcome of hashbrown's probe among the entries that satisfy
      the equality closure: none of the theorems below depends on them *)
  Variable hash_token : tkind -> text -> N.
  Variable hash_node : skind -> list N -> N.
  Variable pick_token : rstate -> N -> list id -> option nat.
  Variable pick_node : rstate -> N -> list id -> option nat.
  Notation rbuild := (rbuild hash_token hash_node pick_token pick_node).

  (** the invariant (heap well-founded, cache entries allocated, children of interned nodes interned) holds for
      the empty cache and is preserved by every build; the heap only grows (green elements are immutable) *)
  Theorem cache_inv_preserved :
    cache_inv rs_empty /\
    forall (txt : text) (t : tree) (st st' : rstate) (e : N * id),
      cache_inv st -> rbuild txt t st = Some (st', e) ->
      cache_inv st' /\ exists added, heap st' = heap st ++ added.
  Proof.
    split; [exact cache_inv_empty|].
    intros txt t st st' e Hinv H.
    destruct (rbuild_spec hash_token hash_node pick_token pick_node _ _ _ _ _ Hinv H) as (A & (B & _) & _).
    split; [exact A|exact B].
  Qed.

  (** for every cache state satisfying the invariant — i.e. after ANY history of earlier builds — building a tree
      through the cache yields an element whose content is exactly the tree's own kinds and token texts *)
  Theorem cached_build_denotes : forall (txt : text) (t : tree) (st st' : rstate) (h : N) (i : id),
    cache_inv st -> rbuild txt t st = Some (st', (h, i)) ->
    exists d, plain txt t = Some d /\ denote (heap st') i = Some d.
  Proof.
    intros txt t st st' h i Hinv H.
    destruct (rbuild_spec hash_token hash_node pick_token pick_node _ _ _ _ _ Hinv H) as (_ & _ & d & P & (D & _)).
    exists d. split; [exact P|exact D].
  Qed.

  (** hence: the same tree built after two different histories has the same content, and equals a fresh build *)
  Theorem history_independent : forall (txt : text) (t : tree) (st1 st1' st2 st2' : rstate) (e1 e2 : N * id),
    cache_inv st1 -> cache_inv st2 ->
    rbuild txt t st1 = Some (st1', e1) -> rbuild txt t st2 = Some (st2', e2) ->
    denote (heap st1') (snd e1) = denote (heap st2') (snd e2).
  Proof.
    intros txt t st1 st1' st2 st2' [h1 i1] [h2 i2] I1 I2 H1 H2.
    destruct (cached_build_denotes _ _ _ _ _ _ I1 H1) as (d1 & P1 & D1).
    destruct (cached_build_denotes _ _ _ _ _ _ I2 H2) as (d2 & P2 & D2).
    cbn [snd]. congruence.
  Qed.

  (** the cache does not decide whether the build panics *)
  Theorem panic_independent : forall (txt : text) (t : tree) (st : rstate),
    cache_inv st -> (rbuild txt t st = None <-> plain txt t = None).
  Proof. exact (rbuild_none_iff hash_token hash_node pick_token pick_node). Qed.

  Notation cached_parse := (cached_parse hash_token hash_node pick_token pick_node).

  (** the error list never reads the cache ([cached_parse]: errors are collected before the builder runs) *)
  Theorem errors_independent : forall st1 st2 txt evs errors,
    snd (cached_parse st1 txt evs errors) = snd (cached_parse st2 txt evs errors).
  Proof. reflexivity. Qed.

  (** end to end with C01's builder: tree content after any history = content of the cache-free tree *)
  Theorem cached_parse_denotes : forall st txt evs errors st' h i,
    cache_inv st -> fst (cached_parse st txt evs errors) = Some (st', (h, i)) ->
    exists tr d, run evs = Some tr /\ plain txt tr = Some d /\ denote (heap st') i = Some d.
  Proof.
    intros st txt evs errors st' h i Hinv H. unfold Model.cached_parse in H. cbn [fst] in H.
    destruct (run evs) as [tr|]; [|discriminate].
    destruct (cached_build_denotes _ _ _ _ _ _ Hinv H) as (d & P & D). exists tr, d. auto.
  Qed.
End AnyHashing.

(** non-vacuity: the same two-statement text built twice through one cache.  With a probe that finds entries the
    second build allocates nothing (everything is shared, same root pointer); with a probe that never finds
    anything it allocates everything again; the content is the same in both cases. *)
Example cache_example :
  let txt := [97; 32; 97] in
  let tr := Node SK_Chunk [Node SK_Block [Tok TK_TkName 0 1; Tok TK_TkWhitespace 1 1; Tok TK_TkName 2 1]] in
  let ht := fun k w => 1 + k + N.of_nat (length w) in
  let hn := fun k hs => 1 + k + sumN hs in
  let hit := fun (_ : rstate) (_ : N) (_ : list id) => Some 0%nat in
  let miss := fun (_ : rstate) (_ : N) (_ : list id) => @None nat in
  match rbuild ht hn hit hit txt tr rs_empty with
  | Some (st1, (_, r1)) =>
      match rbuild ht hn hit hit txt tr st1, rbuild ht hn miss miss txt tr st1 with
      | Some (st2, (_, r2)), Some (st3, (_, r3)) =>
          r2 = r1 /\ length (heap st2) = length (heap st1) /\ length (heap st1) = 4%nat (* a, ' ', Block, Chunk *) /\
          r3 <> r1 /\ length (heap st3) = 9%nat /\
          denote (heap st2) r2 = denote (heap st3) r3 /\ denote (heap st3) r3 = plain txt tr
      | _, _ => False
      end
  | None => False
  end.
Proof. vm_compute. repeat split; discriminate. Qed.
