(** C04/Model.v — model of rowan 0.16.1's [NodeCache] (green/node_cache.rs) as used by
    [LuaGreenNodeBuilder::with_cache] → [build_rowan_green] → [rowan::GreenNodeBuilder] (green/builder.rs).
    rowan itself is MODELLED, not verified (trusted base).  Definitions only.

    Memory: green elements are immutable heap objects; a pointer is the allocation index [id].  The heap only
    grows (rowan frees unreferenced nodes, but the cache keeps every interned node and, through it, its children
    alive; two live objects never share an address — so "never freed" is a sound abstraction of pointer identity).

    The hash functions and the outcome of hashbrown's raw-entry probe are PARAMETERS: [hash_token]/[hash_node]
    are arbitrary, and [pick_*] is an arbitrary oracle that, given the whole cache state, the hash and the list
    of interned candidates that satisfy the probe's equality closure, says which candidate (if any) the probe
    finds.  hashbrown only ever returns an entry on which the closure returned true; nothing else is assumed. *)
From EV Require Export C01.Model.
Local Open Scope N_scope.

Definition id := nat.

Inductive gdata : Type :=
| GTok (k : tkind) (txt : text)
| GNode (k : skind) (children : list id).

(** sharing-insensitive content of a green element *)
Inductive dtree : Type :=
| DTok (k : tkind) (txt : text)
| DNode (k : skind) (cs : list dtree).

Definition ddummy : dtree := DNode 0 [].

(** denotation of one heap cell given the denotations of all earlier cells *)
Definition den1 (acc : list dtree) (g : gdata) : dtree :=
  match g with
  | GTok k w => DTok k w
  | GNode k cs => DNode k (map (fun c => nth c acc ddummy) cs)
  end.

(** denotations of all cells, in allocation order *)
Definition dens (h : list gdata) : list dtree := fold_left (fun acc g => acc ++ [den1 acc g]) h [].

Definition denote (h : list gdata) (i : id) : option dtree := nth_error (dens h) i.

Record rstate : Type := {
  heap : list gdata;
  c_tokens : list id;    (* NodeCache.tokens *)
  c_nodes : list id      (* NodeCache.nodes  *)
}.

Definition rs_empty : rstate := {| heap := []; c_tokens := []; c_nodes := [] |}.

Definition text_eqb (a b : text) : bool :=
  Nat.eqb (length a) (length b) && forallb (fun p => fst p =? snd p) (combine a b).

Fixpoint ids_eqb (a b : list id) : bool :=
  match a, b with
  | [], [] => true
  | x :: r, y :: r' => Nat.eqb x y && ids_eqb r r'
  | _, _ => false
  end.

Section Cache.
  Variable hash_token : tkind -> text -> N.
  Variable hash_node : skind -> list N -> N.
  (** which of the candidates (entries on which the equality closure holds) the probe returns, if any *)
  Variable pick_token : rstate -> N -> list id -> option nat.
  Variable pick_node : rstate -> N -> list id -> option nat.

  Definition alloc (st : rstate) (g : gdata) : rstate * id :=
    ({| heap := heap st ++ [g]; c_tokens := c_tokens st; c_nodes := c_nodes st |}, length (heap st)).

  (** [NodeCache::token]: closure [token.kind() == kind && token.text() == text] *)
  Definition token_matches (st : rstate) (k : tkind) (w : text) (i : id) : bool :=
    match nth_error (heap st) i with
    | Some (GTok k' w') => (k' =? k) && text_eqb w' w
    | _ => false
    end.

  Definition cache_token (st : rstate) (k : tkind) (w : text) : rstate * (N * id) :=
    let h := hash_token k w in
    let cands := filter (token_matches st k w) (c_tokens st) in
    match match pick_token st h cands with Some j => nth_error cands j | None => None end with
    | Some i => (st, (h, i))                                     (* RawEntryMut::Occupied *)
    | None =>                                                    (* Vacant: GreenToken::new + insert *)
        let '(st1, i) := alloc st (GTok k w) in
        ({| heap := heap st1; c_tokens := i :: c_tokens st1; c_nodes := c_nodes st1 |}, (h, i))
    end.

  (** closure of [NodeCache::node]: same kind, same number of children, children pointer-equal *)
  Definition node_matches (st : rstate) (k : skind) (cs : list id) (i : id) : bool :=
    match nth_error (heap st) i with
    | Some (GNode k' cs') => (k' =? k) && ids_eqb cs' cs
    | _ => false
    end.

  (** [NodeCache::node(kind, children, first_child)] on the children [(hash, element)] *)
  Definition cache_node (st : rstate) (k : skind) (children : list (N * id)) : rstate * (N * id) :=
    let ids := map snd children in
    if Nat.ltb 3 (length children) then
      let '(st1, i) := alloc st (GNode k ids) in (st1, (0, i))
    else if existsb (fun c => fst c =? 0) children then
      let '(st1, i) := alloc st (GNode k ids) in (st1, (0, i))
    else
      let h := hash_node k (map fst children) in
      let cands := filter (node_matches st k ids) (c_nodes st) in
      match match pick_node st h cands with Some j => nth_error cands j | None => None end with
      | Some i => (st, (h, i))
      | None =>
          let '(st1, i) := alloc st (GNode k ids) in
          ({| heap := heap st1; c_tokens := c_tokens st1; c_nodes := i :: c_nodes st1 |}, (h, i))
      end.

  (** [build_rowan_green] driving [GreenNodeBuilder::{start_node, token, finish_node}]: an explicit-stack
      pre-order walk, i.e. this recursion.  [None] = the token's [&text[start..end]] panics. *)
  Fixpoint rbuild (txt : text) (t : tree) (st : rstate) : option (rstate * (N * id)) :=
    match t with
    | Tok k s l => match slice txt s (s + l) with
                   | None => None
                   | Some w => Some (cache_token st k w)
                   end
    | Node k cs =>
        match (fix go (l : list tree) (st : rstate) (acc : list (N * id)) : option (rstate * list (N * id)) :=
                 match l with
                 | [] => Some (st, acc)
                 | c :: r => match rbuild txt c st with
                             | None => None
                             | Some (st', e) => go r st' (acc ++ [e])
                             end
                 end) cs st [] with
        | None => None
        | Some (st', children) => Some (cache_node st' k children)
        end
    end.

  (** [LuaParser::parse] with a node cache: the event list and the error list are complete before the builder
      runs ([let errors = parser.get_errors(); let root = { builder.build(); builder.finish() }]), and the builder's
      [finish] is the only stage that touches the cache.  An error is (start, end, message). *)
  Definition cached_parse (st : rstate) (txt : text) (evs : list event) (errors : list (N * N * text))
    : option (rstate * (N * id)) * list (N * N * text) :=
    (match run evs with None => None | Some tr => rbuild txt tr st end, errors).
End Cache.

(** the content the tree is supposed to have: kinds and token texts *)
Fixpoint plain (txt : text) (t : tree) : option dtree :=
  match t with
  | Tok k s l => match slice txt s (s + l) with Some w => Some (DTok k w) | None => None end
  | Node k cs =>
      match (fix go (l : list tree) : option (list dtree) :=
               match l with
               | [] => Some []
               | c :: r => match plain txt c, go r with
                           | Some d, Some ds => Some (d :: ds)
                           | _, _ => None
                           end
               end) cs with
      | Some ds => Some (DNode k ds)
      | None => None
      end
  end.

(** the cache invariant *)
Definition heap_wf (h : list gdata) : Prop :=
  forall i k cs, nth_error h i = Some (GNode k cs) -> Forall (fun c => (c < i)%nat) cs.

Definition interned (st : rstate) (i : id) : Prop := In i (c_tokens st) \/ In i (c_nodes st).

Definition cache_inv (st : rstate) : Prop :=
  heap_wf (heap st) /\
  Forall (fun i => (i < length (heap st))%nat) (c_tokens st) /\
  Forall (fun i => (i < length (heap st))%nat) (c_nodes st) /\
  (* children of interned nodes are interned *)
  (forall i k cs, In i (c_nodes st) -> nth_error (heap st) i = Some (GNode k cs) -> Forall (interned st) cs).
