(** C04/Proofs.v — the node cache never changes what is built. *)
From Coq Require Import PeanoNat.
From EV Require Import C01.Model C01.Proofs C04.Model.
Local Open Scope N_scope.

(** *** equality tests *)
Lemma text_eqb_eq : forall a b, text_eqb a b = true -> a = b.
Proof.
  unfold text_eqb. induction a as [|x a IH]; intros [|y b] H; cbn in H; try discriminate; [reflexivity|].
  apply andb_true_iff in H. destruct H as [Hl H]. apply andb_true_iff in H. destruct H as [Hxy H].
  cbn in Hxy. apply N.eqb_eq in Hxy. subst y. f_equal. apply IH. rewrite Hl. exact H.
Qed.

Lemma ids_eqb_eq : forall a b, ids_eqb a b = true -> a = b.
Proof.
  induction a as [|x a IH]; intros [|y b] H; cbn in H; try discriminate; [reflexivity|].
  apply andb_true_iff in H. destruct H as [Hxy H]. apply Nat.eqb_eq in Hxy. subst. f_equal. apply IH. exact H.
Qed.

(** *** denotations are stable under allocation *)
Lemma dens_snoc : forall h g, dens (h ++ [g]) = dens h ++ [den1 (dens h) g].
Proof. intros. unfold dens. rewrite fold_left_app. reflexivity. Qed.

Lemma dens_length : forall h, length (dens h) = length h.
Proof.
  intros h. induction h as [|g h IH] using rev_ind; [reflexivity|].
  rewrite dens_snoc, !app_length, IH. reflexivity.
Qed.

Lemma dens_app_prefix : forall h ext, exists more, dens (h ++ ext) = dens h ++ more.
Proof.
  intros h ext. induction ext as [|g ext IH] using rev_ind.
  - exists []. rewrite !app_nil_r. reflexivity.
  - destruct IH as [more IH]. exists (more ++ [den1 (dens (h ++ ext)) g]).
    rewrite app_assoc, dens_snoc, IH, app_assoc. reflexivity.
Qed.

Lemma denote_stable : forall h ext i, (i < length h)%nat -> denote (h ++ ext) i = denote h i.
Proof.
  intros h ext i Hi. unfold denote. destruct (dens_app_prefix h ext) as [more E]. rewrite E.
  apply nth_error_app1. rewrite dens_length. exact Hi.
Qed.

Lemma nth_dens_stable : forall h ext i, (i < length h)%nat -> nth i (dens (h ++ ext)) ddummy = nth i (dens h) ddummy.
Proof.
  intros h ext i Hi. destruct (dens_app_prefix h ext) as [more E]. rewrite E.
  apply app_nth1. rewrite dens_length. exact Hi.
Qed.

Lemma denote_some_lt : forall h i d, denote h i = Some d -> (i < length h)%nat.
Proof. intros h i d H. unfold denote in H. rewrite <- dens_length. apply nth_error_Some. congruence. Qed.

Lemma denote_nth : forall h i d, denote h i = Some d -> nth i (dens h) ddummy = d.
Proof. intros h i d H. unfold denote in H. apply nth_error_nth. exact H. Qed.

Lemma denote_new : forall h g, denote (h ++ [g]) (length h) = Some (den1 (dens h) g).
Proof.
  intros. unfold denote. rewrite dens_snoc, nth_error_app2; rewrite dens_length; [|lia].
  rewrite Nat.sub_diag. reflexivity.
Qed.

(** a cell's denotation, from the cell *)
Lemma denote_cell : forall h i g, nth_error h i = Some g ->
  denote h i = Some (den1 (dens (firstn i h)) g).
Proof.
  intros h i g H. pose proof (nth_error_split h i H) as (l1 & l2 & E & Hl). subst h i.
  rewrite firstn_app, firstn_all, Nat.sub_diag, firstn_O, app_nil_r.
  change (l1 ++ g :: l2) with (l1 ++ [g] ++ l2). rewrite app_assoc.
  rewrite denote_stable by (rewrite app_length; cbn; lia). apply denote_new.
Qed.

Lemma denote_tok : forall h i k w, nth_error h i = Some (GTok k w) -> denote h i = Some (DTok k w).
Proof. intros. erewrite denote_cell by eassumption. reflexivity. Qed.

Lemma denote_node : forall h i k cs, heap_wf h -> nth_error h i = Some (GNode k cs) ->
  denote h i = Some (DNode k (map (fun c => nth c (dens h) ddummy) cs)).
Proof.
  intros h i k cs Hwf H. erewrite denote_cell by eassumption. cbn [den1]. do 2 f_equal.
  apply map_ext_in. intros c Hc. specialize (Hwf i k cs H). rewrite Forall_forall in Hwf. specialize (Hwf c Hc).
  assert (Hi : (i <= length h)%nat) by (apply Nat.lt_le_incl, nth_error_Some; congruence).
  rewrite <- (firstn_skipn i h) at 2. symmetry. apply nth_dens_stable. rewrite firstn_length. lia.
Qed.

(** *** state extension *)
Definition ext (st st' : rstate) : Prop :=
  (exists x, heap st' = heap st ++ x) /\ incl (c_tokens st) (c_tokens st') /\ incl (c_nodes st) (c_nodes st').

Lemma ext_refl : forall st, ext st st.
Proof. intros. split; [exists []; rewrite app_nil_r; reflexivity|split; apply incl_refl]. Qed.

Lemma ext_trans : forall a b c, ext a b -> ext b c -> ext a c.
Proof.
  intros a b c ([x Hx] & H1 & H2) ([y Hy] & G1 & G2). split; [|split; eapply incl_tran; eauto].
  exists (x ++ y). rewrite Hy, Hx, app_assoc. reflexivity.
Qed.

Lemma ext_interned : forall st st' i, ext st st' -> interned st i -> interned st' i.
Proof. intros st st' i (_ & H1 & H2) [H|H]; [left; apply H1|right; apply H2]; exact H. Qed.

Lemma ext_denote : forall st st' i d, ext st st' -> denote (heap st) i = Some d -> denote (heap st') i = Some d.
Proof.
  intros st st' i d ([x Hx] & _) H. rewrite Hx, denote_stable; [exact H|]. eapply denote_some_lt; eauto.
Qed.

(** a built element: its content and the meaning of a non-zero hash *)
Definition elem_ok (st : rstate) (d : dtree) (e : N * id) : Prop :=
  denote (heap st) (snd e) = Some d /\ (fst e <> 0 -> interned st (snd e)).

Lemma elem_ok_ext : forall st st' d e, ext st st' -> elem_ok st d e -> elem_ok st' d e.
Proof. intros st st' d e He [H1 H2]. split; [eapply ext_denote; eauto|intros H; eapply ext_interned; eauto]. Qed.

Lemma Forall2_impl' : forall A B (P Q : A -> B -> Prop) l l',
  (forall a b, P a b -> Q a b) -> Forall2 P l l' -> Forall2 Q l l'.
Proof. intros A B P Q l l' H F. induction F; constructor; auto. Qed.

Section Cache.
  Variable hash_token : tkind -> text -> N.
  Variable hash_node : skind -> list N -> N.
  Variable pick_token : rstate -> N -> list id -> option nat.
  Variable pick_node : rstate -> N -> list id -> option nat.

  Notation cache_token := (cache_token hash_token pick_token).
  Notation cache_node := (cache_node hash_node pick_node).
  Notation rbuild := (rbuild hash_token hash_node pick_token pick_node).

  Lemma alloc_inv : forall st g,
    cache_inv st ->
    (forall k cs, g = GNode k cs -> Forall (fun c => (c < length (heap st))%nat) cs) ->
    cache_inv (fst (alloc st g)) /\ ext st (fst (alloc st g)) /\ snd (alloc st g) = length (heap st).
  Proof.
    intros st g (Hwf & Ht & Hn & Hc) Hg. unfold alloc. cbn [fst snd heap c_tokens c_nodes].
    split; [|split; [split; [exists [g]; reflexivity|split; apply incl_refl]|reflexivity]].
    unfold cache_inv, heap_wf, interned. cbn [heap c_tokens c_nodes].
    split; [|split; [|split]].
    - intros i k cs H. destruct (Nat.lt_ge_cases i (length (heap st))) as [Hi|Hi].
      + rewrite nth_error_app1 in H by exact Hi. eapply Hwf; eauto.
      + rewrite nth_error_app2 in H by exact Hi. destruct (i - length (heap st))%nat eqn:E.
        * cbn in H. inversion H; subst g. specialize (Hg k cs eq_refl).
          eapply Forall_impl; [|exact Hg]. cbn. intros; lia.
        * cbn in H. destruct n; discriminate.
    - eapply Forall_impl; [|exact Ht]. cbn. intros. rewrite app_length. cbn. lia.
    - eapply Forall_impl; [|exact Hn]. cbn. intros. rewrite app_length. cbn. lia.
    - intros i k cs Hi H. rewrite Forall_forall in Hn. specialize (Hn i Hi).
      rewrite nth_error_app1 in H by exact Hn. specialize (Hc i k cs Hi H). exact Hc.
  Qed.

  (** interning a freshly allocated token *)
  Lemma intern_token_inv : forall st k w,
    cache_inv st ->
    let st2 := {| heap := heap st ++ [GTok k w]; c_tokens := length (heap st) :: c_tokens st; c_nodes := c_nodes st |} in
    cache_inv st2 /\ ext st st2 /\ denote (heap st2) (length (heap st)) = Some (DTok k w) /\ interned st2 (length (heap st)).
  Proof.
    intros st k w Hinv st2.
    destruct (alloc_inv st (GTok k w) Hinv) as ((Hwf & Ht & Hn & Hc) & Hext & Hi); [intros; discriminate|].
    unfold alloc in *. cbn [fst snd heap c_tokens c_nodes] in *. subst st2.
    split; [|split; [|split]].
    - unfold cache_inv, interned in *. cbn [heap c_tokens c_nodes] in *.
      split; [exact Hwf|split; [|split]].
      + constructor; [|exact Ht]. rewrite app_length. cbn. lia.
      + exact Hn.
      + intros j k' cs Hj H. specialize (Hc j k' cs Hj H).
        eapply Forall_impl; [|exact Hc]. intros a [Ha|Ha]; [left; right; exact Ha|right; exact Ha].
    - destruct Hext as (Hx & H1 & H2). unfold ext. cbn [heap c_tokens c_nodes] in *. split; [exact Hx|split; [|exact H2]].
      apply incl_tl. exact H1.
    - cbn [heap]. rewrite denote_new. reflexivity.
    - left. cbn [c_tokens]. left. reflexivity.
  Qed.

  Lemma cache_token_spec : forall st k w st' e,
    cache_inv st -> cache_token st k w = (st', e) ->
    cache_inv st' /\ ext st st' /\ elem_ok st' (DTok k w) e.
  Proof.
    intros st k w st' e Hinv H. unfold Model.cache_token in H.
    set (cands := filter (token_matches st k w) (c_tokens st)) in *.
    destruct (match pick_token st (hash_token k w) cands with Some j => nth_error cands j | None => None end) as [i|] eqn:Hp.
    - inversion H; subst st' e. split; [exact Hinv|split; [apply ext_refl|]].
      assert (Hin : In i cands).
      { destruct (pick_token st (hash_token k w) cands); [|discriminate]. eapply nth_error_In; eauto. }
      apply filter_In in Hin. destruct Hin as [Hin Hm]. unfold token_matches in Hm.
      destruct (nth_error (heap st) i) as [[k' w'|]|] eqn:Hn; try discriminate.
      apply andb_true_iff in Hm. destruct Hm as [Hk Hw]. apply N.eqb_eq in Hk. apply text_eqb_eq in Hw. subst k' w'.
      split; cbn [fst snd]; [apply denote_tok; exact Hn|intros _; left; exact Hin].
    - destruct (intern_token_inv st k w Hinv) as (H1 & H2 & H3 & H4).
      unfold alloc in H. cbn [fst snd heap c_tokens c_nodes] in H. inversion H; subst st' e.
      split; [exact H1|split; [exact H2|]]. split; cbn [fst snd]; [exact H3|intros _; exact H4].
  Qed.

  (** children of a node being built *)
  Lemma children_bounds : forall st ds children,
    Forall2 (elem_ok st) ds children -> Forall (fun c => (c < length (heap st))%nat) (map snd children).
  Proof.
    intros st ds children H. induction H as [|d e ds cs [Hd _] _ IH]; cbn [map]; constructor; [|exact IH].
    eapply denote_some_lt; eauto.
  Qed.

  Lemma children_dens : forall st ds children,
    Forall2 (elem_ok st) ds children -> map (fun c => nth c (dens (heap st)) ddummy) (map snd children) = ds.
  Proof.
    intros st ds children H. induction H as [|d e ds cs [Hd _] _ IH]; cbn [map]; [reflexivity|].
    f_equal; [apply denote_nth; exact Hd|exact IH].
  Qed.

  Lemma alloc_node_denote : forall st k ds children,
    cache_inv st -> Forall2 (elem_ok st) ds children ->
    let st1 := fst (alloc st (GNode k (map snd children))) in
    let i := snd (alloc st (GNode k (map snd children))) in
    cache_inv st1 /\ ext st st1 /\ denote (heap st1) i = Some (DNode k ds) /\ i = length (heap st) /\
    heap st1 = heap st ++ [GNode k (map snd children)] /\ c_tokens st1 = c_tokens st /\ c_nodes st1 = c_nodes st.
  Proof.
    intros st k ds children Hinv Hch st1 i.
    destruct (alloc_inv st (GNode k (map snd children)) Hinv) as (H1 & H2 & H3).
    { intros k' cs E. inversion E; subst. eapply children_bounds; eauto. }
    split; [exact H1|split; [exact H2|]]. split; [|split; [exact H3|repeat split]].
    unfold st1, i, alloc. cbn [fst snd heap]. rewrite denote_new. cbn [den1].
    rewrite (children_dens _ _ _ Hch). reflexivity.
  Qed.

  Lemma cache_node_spec : forall st k ds children st' e,
    cache_inv st -> Forall2 (elem_ok st) ds children -> cache_node st k children = (st', e) ->
    cache_inv st' /\ ext st st' /\ elem_ok st' (DNode k ds) e.
  Proof.
    intros st k ds children st' e Hinv Hch H. unfold Model.cache_node in H.
    pose proof (alloc_node_denote st k ds children Hinv Hch) as (A1 & A2 & A3 & A4 & A5 & A6 & A7).
    assert (Hnot_interned : forall st1 i, alloc st (GNode k (map snd children)) = (st1, i) ->
              (st1, (0, i)) = (st', e) -> cache_inv st' /\ ext st st' /\ elem_ok st' (DNode k ds) e).
    { intros st1 i Ea Ee. rewrite Ea in *. cbn [fst snd] in *. inversion Ee; subst st' e.
      split; [exact A1|split; [exact A2|]]. split; cbn [fst snd]; [exact A3|intros C; congruence]. }
    destruct (Nat.ltb 3 (length children)).
    { destruct (alloc st (GNode k (map snd children))) as [st1 i] eqn:Ea. eapply Hnot_interned; eauto. }
    destruct (existsb (fun c => fst c =? 0) children) eqn:Hz.
    { destruct (alloc st (GNode k (map snd children))) as [st1 i] eqn:Ea. eapply Hnot_interned; eauto. }
    clear Hnot_interned.
    set (ids := map snd children) in *.
    set (cands := filter (node_matches st k ids) (c_nodes st)) in *.
    destruct (match pick_node st (hash_node k (map fst children)) cands with Some j => nth_error cands j | None => None end) as [i|] eqn:Hp.
    - inversion H; subst st' e. split; [exact Hinv|split; [apply ext_refl|]].
      assert (Hin : In i cands).
      { destruct (pick_node st (hash_node k (map fst children)) cands); [|discriminate]. eapply nth_error_In; eauto. }
      apply filter_In in Hin. destruct Hin as [Hin Hm]. unfold node_matches in Hm.
      destruct (nth_error (heap st) i) as [[|k' cs']|] eqn:Hn; try discriminate.
      apply andb_true_iff in Hm. destruct Hm as [Hk Hcs]. apply N.eqb_eq in Hk. apply ids_eqb_eq in Hcs. subst k' cs'.
      split; cbn [fst snd]; [|intros _; right; exact Hin].
      rewrite (denote_node _ _ _ _ (proj1 Hinv) Hn). unfold ids. rewrite (children_dens _ _ _ Hch). reflexivity.
    - destruct (alloc st (GNode k ids)) as [st1 i] eqn:Ea. cbn [fst snd] in *.
      inversion H; subst st' e. clear H.
      destruct A1 as (Hwf & Ht & Hn & Hc).
      assert (Hext2 : ext st {| heap := heap st1; c_tokens := c_tokens st1; c_nodes := i :: c_nodes st1 |}).
      { destruct A2 as (Hx & H1 & H2). split; [exact Hx|split; [exact H1|]]. cbn [c_nodes]. apply incl_tl. exact H2. }
      split; [|split; [exact Hext2|]].
      + split; [exact Hwf|split; [exact Ht|split]]; cbn [heap c_tokens c_nodes].
        * constructor; [|exact Hn]. rewrite A4, A5, app_length. cbn. lia.
        * intros j k' cs Hj Hnth. destruct Hj as [Hj|Hj].
          -- subst j. rewrite A5, A4 in Hnth. rewrite nth_error_app2 in Hnth by lia.
             rewrite Nat.sub_diag in Hnth. cbn in Hnth. inversion Hnth; subst k' cs.
             (* every child has a non-zero hash, hence is interned *)
             clear - Hch Hz Hext2. unfold ids.
             induction Hch as [|d e ds cs [_ Hint] _ IH]; cbn [map]; [constructor|].
             cbn [existsb] in Hz. apply orb_false_iff in Hz. destruct Hz as [Hz1 Hz2].
             constructor; [|apply IH; exact Hz2].
             eapply ext_interned; [exact Hext2|]. apply Hint. intros C. rewrite C in Hz1. discriminate.
          -- specialize (Hc j k' cs Hj Hnth). eapply Forall_impl; [|exact Hc].
             intros a [Ha|Ha]; [left; exact Ha|right; right; exact Ha].
      + split; cbn [fst snd heap]; [exact A3|intros _; right; left; reflexivity].
  Qed.

  (** *** the walk *)
  Lemma tree_ind2 (P : tree -> Prop) :
    (forall k s l, P (Tok k s l)) -> (forall k cs, Forall P cs -> P (Node k cs)) -> forall t, P t.
  Proof.
    intros Ht Hn. fix IH 1. intros [k s l|k cs]; [apply Ht|]. apply Hn.
    induction cs as [|c cs IHcs]; constructor; [apply IH|exact IHcs].
  Qed.

  Definition post (txt : text) (t : tree) (st st' : rstate) (e : N * id) : Prop :=
    cache_inv st' /\ ext st st' /\ exists d, plain txt t = Some d /\ elem_ok st' d e.

  Lemma rbuild_spec : forall txt t st st' e,
    cache_inv st -> rbuild txt t st = Some (st', e) -> post txt t st st' e.
  Proof.
    intros txt t. induction t as [k s l|k cs IH] using tree_ind2; intros st st' e Hinv H.
    - cbn [Model.rbuild] in H. unfold post. cbn [plain]. destruct (slice txt s (s + l)) as [w|]; [|discriminate].
      inversion H as [H1]. destruct (cache_token st k w) as [st1 e1] eqn:Hc. inversion H1; subst st1 e1.
      apply cache_token_spec in Hc; [|exact Hinv]. destruct Hc as (A & B & C).
      split; [exact A|split; [exact B|]]. exists (DTok k w). split; [reflexivity|exact C].
    - cbn [Model.rbuild] in H. unfold post. cbn [plain].
      (* the loop over the children *)
      set (go := fix go (l : list tree) (st : rstate) (acc : list (N * id)) : option (rstate * list (N * id)) :=
                   match l with
                   | [] => Some (st, acc)
                   | c :: r => match rbuild txt c st with
                               | None => None
                               | Some (st', e) => go r st' (acc ++ [e])
                               end
                   end) in *.
      set (pgo := fix go (l : list tree) : option (list dtree) :=
                    match l with
                    | [] => Some []
                    | c :: r => match plain txt c, go r with
                                | Some d, Some ds => Some (d :: ds)
                                | _, _ => None
                                end
                    end).
      assert (Hgo : forall l, Forall (fun c => forall st st' e, cache_inv st -> rbuild txt c st = Some (st', e) -> post txt c st st' e) l ->
                forall st0 acc dacc st1 children,
                  cache_inv st0 -> Forall2 (elem_ok st0) dacc acc -> go l st0 acc = Some (st1, children) ->
                  cache_inv st1 /\ ext st0 st1 /\ exists ds, pgo l = Some ds /\ Forall2 (elem_ok st1) (dacc ++ ds) children).
      { clear. induction l as [|c r IHr]; intros HF st0 acc dacc st1 children Hinv Hacc Hg; cbn in Hg.
        - inversion Hg; subst. split; [exact Hinv|split; [apply ext_refl|]]. exists []. split; [reflexivity|].
          rewrite app_nil_r. exact Hacc.
        - inversion HF as [|? ? Hc Hr]; subst.
          destruct (rbuild txt c st0) as [[st2 e2]|] eqn:Hb; [|discriminate].
          apply Hc in Hb; [|exact Hinv]. destruct Hb as (B1 & B2 & d & B3 & B4).
          specialize (IHr Hr st2 (acc ++ [e2]) (dacc ++ [d]) st1 children B1).
          destruct IHr as (C1 & C2 & ds & C3 & C4); [|exact Hg|].
          { apply Forall2_app; [|constructor; [exact B4|constructor]].
            eapply Forall2_impl'; [|exact Hacc]. intros; eapply elem_ok_ext; eauto. }
          split; [exact C1|split; [eapply ext_trans; eauto|]].
          exists (d :: ds). split; [cbn; rewrite B3, C3; reflexivity|]. rewrite <- app_assoc in C4. exact C4. }
      destruct (go cs st []) as [[st1 children]|] eqn:Hg; [|discriminate].
      specialize (Hgo cs IH st [] [] st1 children Hinv (Forall2_nil _) Hg).
      destruct Hgo as (G1 & G2 & ds & G3 & G4). cbn [app] in G4.
      inversion H as [H1]. destruct (cache_node st1 k children) as [st2 e2] eqn:Hc. inversion H1; subst st2 e2.
      eapply cache_node_spec in Hc; eauto. destruct Hc as (A & B & C).
      split; [exact A|split; [eapply ext_trans; eauto|]]. exists (DNode k ds).
      split; [|exact C]. fold pgo. rewrite G3. reflexivity.
  Qed.

  Lemma cache_inv_empty : cache_inv rs_empty.
  Proof.
    split; [|split; [constructor|split; [constructor|]]].
    - intros i k cs H. destruct i; discriminate.
    - intros i k cs [].
  Qed.

  (** the cache does not decide whether the build panics either *)
  Lemma rbuild_none_iff : forall txt t st, cache_inv st -> (rbuild txt t st = None <-> plain txt t = None).
  Proof.
    intros txt t. induction t as [k s l|k cs IH] using tree_ind2; intros st Hinv.
    - cbn [Model.rbuild plain]. destruct (slice txt s (s + l)); split; intros; congruence.
    - cbn [Model.rbuild plain].
      set (go := fix go (l : list tree) (st : rstate) (acc : list (N * id)) : option (rstate * list (N * id)) :=
                   match l with
                   | [] => Some (st, acc)
                   | c :: r => match rbuild txt c st with
                               | None => None
                               | Some (st', e) => go r st' (acc ++ [e])
                               end
                   end).
      set (pgo := fix go (l : list tree) : option (list dtree) :=
                    match l with
                    | [] => Some []
                    | c :: r => match plain txt c, go r with
                                | Some d, Some ds => Some (d :: ds)
                                | _, _ => None
                                end
                    end).
      assert (Hgo : forall l, Forall (fun c => forall st, cache_inv st -> (rbuild txt c st = None <-> plain txt c = None)) l ->
                forall st0 acc, cache_inv st0 -> (go l st0 acc = None <-> pgo l = None)).
      { clear. induction l as [|c r IHr]; intros HF st0 acc Hinv; cbn.
        - split; discriminate.
        - inversion HF as [|? ? Hc Hr]; subst.
          destruct (rbuild txt c st0) as [[st2 e2]|] eqn:Hb.
          + pose proof (rbuild_spec _ _ _ _ _ Hinv Hb) as (B1 & _ & d & B3 & _). rewrite B3.
            rewrite (IHr Hr st2 (acc ++ [e2]) B1). destruct (pgo r); split; intros; congruence.
          + apply (Hc st0 Hinv) in Hb. rewrite Hb. split; reflexivity. }
      specialize (Hgo cs IH st [] Hinv).
      destruct (go cs st []) as [[st1 children]|]; destruct (pgo cs).
      + destruct (cache_node st1 k children). split; discriminate.
      + exfalso. destruct Hgo as [_ G]. specialize (G eq_refl). discriminate.
      + exfalso. destruct Hgo as [G _]. specialize (G eq_refl). discriminate.
      + split; reflexivity.
  Qed.
End Cache.
