(** C37/Corr.v — executable comparison of implementation observations with the model
    (used by the correspondence check; the plugin checks/C37.py writes [case] terms from
    the JSON lines of harness/vh_parser/src/bin/c37.rs). *)
From EV Require Import C37.Model.
Local Open Scope N_scope.

(** the predicates the harness passes to [eat_while] / [consume_n_times] *)
Definition is_digit (c : cp) : bool := (48 <=? c) && (c <=? 57).
Definition is_alnum (c : cp) : bool :=
  is_digit c || ((65 <=? c) && (c <=? 90)) || ((97 <=? c) && (c <=? 122)).
Definition pred_of (code : N) (arg : cp) : cp -> bool :=
  fun c =>
    if code =? 0 then is_ws c
    else if code =? 1 then is_digit c
    else if code =? 2 then true
    else if code =? 3 then c =? arg
    else if code =? 4 then negb (c =? arg)
    else if code =? 5 then is_alnum c || (c =? 46) || (c =? 58) || (c =? 43) || (c =? 95) || (c =? 45)
    else if code =? 6 then negb (is_ws c)
    else is_whitespace c.

Definition b2n (b : bool) : N := if b then 1 else 0.

Definition triple := (N * N * N)%type.
Definition item_triple (it : item) : triple := (i_start it, i_end it, i_kind it).
Definition triple_item (t : triple) : item :=
  let '(s, e, k) := t in {| i_start := s; i_end := e; i_kind := k |}.

Fixpoint list_eqb {A} (eqb : A -> A -> bool) (x y : list A) : bool :=
  match x, y with
  | [], [] => true
  | a :: r, b :: s => eqb a b && list_eqb eqb r s
  | _, _ => false
  end.
Definition triple_eqb (a b : triple) : bool :=
  let '(a1, a2, a3) := a in let '(b1, b2, b3) := b in (a1 =? b1) && (a2 =? b2) && (a3 =? b3).
Definition pair_eqb (a b : N * N) : bool := (fst a =? fst b) && (snd a =? snd b).

(** what the harness prints after each step: reader [i] and the tail of the result list *)
Definition observe (st : mstate) (i : nat) : list N :=
  match nth_error (m_readers st) i with
  | None => []
  | Some r =>
      let cr := current_range r in
      let '(ts, tl) := match tail_range r with Val rg => rg | _ => (0, 0) end in
      let '(ls, le, lk) := match last_opt (m_results st) with
                           | Some it => item_triple it
                           | None => (0, 0, 0)
                           end in
      [N.of_nat i; r_cur r; r_next r; r_prev r; b2n (is_eof r); sr_start cr; sr_len cr; ts; tl;
       get_current_end_pos r; b2n (is_start_of_line r); m_last st;
       N.of_nat (length (m_results st)); ls; le; lk]
  end.

Record mcase := {
  mc_text : text;
  mc_cursor : option N;
  mc_steps : list (list op * list N);   (* model ops of the step, observation after it *)
  mc_results : list triple;             (* the container's items at the end *)
  mc_sorted : list triple               (* after the real sort_result *)
}.

Fixpoint run_steps (T : text) (hi : N) (cursor : option N) (st : mstate) (steps : list (list op * list N))
  : option mstate :=
  match steps with
  | [] => Some st
  | (ops, obs) :: r =>
      match run T 0 hi cursor st ops with
      | Val st' =>
          (* the count of an eat operation is only meaningful for a step that has operations *)
          let st'' := match ops with
                      | [] => {| m_readers := m_readers st'; m_results := m_results st'; m_last := 0 |}
                      | _ => st'
                      end in
          match obs with
          | i :: _ => if list_eqb N.eqb (observe st'' (N.to_nat i)) obs
                      then run_steps T hi cursor st' r else None
          | [] => None
          end
      | _ => None
      end
  end.

Definition check_mcase (c : mcase) : bool :=
  match run_steps (mc_text c) (bytes (mc_text c)) (mc_cursor c) init (mc_steps c) with
  | None => false
  | Some st =>
      list_eqb triple_eqb (map item_triple (m_results st)) (mc_results c)
      && list_eqb triple_eqb (map item_triple (sort_result (m_results st))) (mc_sorted c)
  end.

Record dcase := {
  dc_text : text;
  dc_prev : option tok;
  dc_toks : list tok;
  dc_cursor : option N;
  dc_lines : res (list (N * N))
}.

Definition check_dcase (c : dcase) : bool :=
  match desc_to_lines (dc_text c) (dc_prev c) (dc_toks c) (dc_cursor c), dc_lines c with
  | Val a, Val b => list_eqb pair_eqb a b
  | Panic, Panic => true
  | _, _ => false
  end.

Record scase := { sc_items : list triple; sc_sorted : list triple }.

Definition check_scase (c : scase) : bool :=
  list_eqb triple_eqb (map item_triple (sort_result (map triple_item (sc_items c)))) (sc_sorted c).

Inductive case := CM (c : mcase) | CD (c : dcase) | CS (c : scase).

Definition check_case (c : case) : bool :=
  match c with
  | CM m => check_mcase m
  | CD d => check_dcase d
  | CS s => check_scase s
  end.
