(** C37/ReaderModel.v — transcription of [emmylua_parser::Reader]
    (crates/emmylua_parser/src/text/reader.rs as of commit 89e8607), function for function:
    end of input is decided by POSITION ([is_eof]: pos + len >= text.len(); a NUL character
    in the text is an ordinary character, ['\0'] is only what [current_char] returns past the
    end), [new_with_range] asserts [text.len() == range.length], slices of the text are [None]
    (a Rust panic) off a character boundary.
    Executable definitions only.  Offsets are unbounded [N] (Rust: usize).
    (Base/Reader.v, written later for C01, abstracts the text away; C37 needs the text itself —
    [current_text], [tail_text], sub-readers over a slice, character boundaries — hence this file.) *)
From EV Require Export Base.Text.
Local Open Scope N_scope.

Definition EOF : cp := 0.

(** [SourceRange] = (start_offset, length) *)
Definition srange := (N * N)%type.
Definition sr_start (r : srange) : N := fst r.
Definition sr_len (r : srange) : N := snd r.
Definition sr_end (r : srange) : N := fst r + snd r.

Record reader := {
  r_text : text;     (* text: &'a str *)
  r_start : N;       (* valid_range.start_offset *)
  r_len : N;         (* valid_range.length *)
  r_chars : text;    (* chars: Chars<'a> — what the iterator has not yielded yet *)
  r_pos : N;         (* current_buffer_byte_pos *)
  r_blen : N;        (* current_buffer_byte_len *)
  r_next : cp;
  r_cur : cp;
  r_prev : cp
}.

(** [self.chars.next().unwrap_or(EOF)] (a [Chars] iterator is fused) *)
Definition chars_next (s : text) : cp * text :=
  match s with [] => (EOF, []) | c :: r => (c, r) end.

(** [Reader::new_with_range]; [assert_eq!(text.len(), range.length)] *)
Definition new_with_range (t : text) (start len : N) : res reader :=
  if bytes t =? len then
    let '(c, s1) := chars_next t in
    let '(n, s2) := chars_next s1 in
    Val {| r_text := t; r_start := start; r_len := len; r_chars := s2;
           r_pos := 0; r_blen := 0; r_next := n; r_cur := c; r_prev := EOF |}
  else Panic.

(** [Reader::new] *)
Definition new_reader (t : text) : res reader := new_with_range t 0 (bytes t).

(** [Reader::is_eof]: [current_buffer_byte_pos + current_buffer_byte_len >= text.len()] *)
Definition is_eof (r : reader) : bool := bytes (r_text r) <=? r_pos r + r_blen r.

(** [Reader::bump] *)
Definition bump (r : reader) : reader :=
  if is_eof r then r
  else
    let '(n, s) := chars_next (r_chars r) in
    {| r_text := r_text r; r_start := r_start r; r_len := r_len r; r_chars := s;
       r_pos := r_pos r; r_blen := r_blen r + blen (r_cur r);
       r_next := n; r_cur := r_next r; r_prev := r_cur r |}.

(** [Reader::reset_buff] *)
Definition reset_buff (r : reader) : reader :=
  {| r_text := r_text r; r_start := r_start r; r_len := r_len r; r_chars := r_chars r;
     r_pos := r_pos r + r_blen r; r_blen := 0;
     r_next := r_next r; r_cur := r_cur r; r_prev := r_prev r |}.

Definition set_prev (r : reader) (p : cp) : reader :=
  {| r_text := r_text r; r_start := r_start r; r_len := r_len r; r_chars := r_chars r;
     r_pos := r_pos r; r_blen := r_blen r;
     r_next := r_next r; r_cur := r_cur r; r_prev := p |}.

(** [Reader::current_range] *)
Definition current_range (r : reader) : srange := (r_start r + r_pos r, r_blen r).

(** [SourceRange::moved]: [debug_assert!(offset <= self.length)]; the subtraction underflows
    otherwise (a panic with overflow checks, a wrapped value without) — [Panic] here *)
Definition moved (rg : srange) (offset : N) : res srange :=
  if offset <=? sr_len rg then Val (sr_start rg + offset, sr_len rg - offset) else Panic.

(** [Reader::tail_range] *)
Definition tail_range (r : reader) : res srange :=
  moved (r_start r, r_len r) (r_pos r + r_blen r).

(** [Reader::current_text]: [&self.text[pos..pos+len]] *)
Definition current_text (r : reader) : option text :=
  slice (r_text r) (r_pos r) (r_pos r + r_blen r).

(** [Reader::tail_text]: [&self.text[pos+len..]] *)
Definition tail_text (r : reader) : option text :=
  drop_bytes (r_text r) (r_pos r + r_blen r).

Definition get_current_end_pos (r : reader) : N := r_pos r + r_blen r.
Definition is_start_of_line (r : reader) : bool := r_pos r =? 0.

(** last char of a text: [chars().next_back()] *)
Fixpoint last_char (t : text) : option cp :=
  match t with
  | [] => None
  | [c] => Some c
  | _ :: r => last_char r
  end.

(** [Reader::reset_buff_into_sub_reader]: returns (the updated self, the sub-reader) *)
Definition reset_buff_into_sub_reader (r : reader) : res (reader * reader) :=
  match current_text r with
  | None => Panic
  | Some ct =>
      match new_with_range ct (sr_start (current_range r)) (sr_len (current_range r)) with
      | Val sub =>
          match take_bytes (r_text r) (r_pos r) with
          | None => Panic
          | Some pre =>
              let sub' := match last_char pre with Some p => set_prev sub p | None => sub end in
              Val (reset_buff r, sub')
          end
      | _ => Panic
      end
  end.

(** the [while !self.is_eof() && func(self.current_char()) [&& eaten < count]] loops.
    [fuel] bounds the number of iterations; [loop_fuel] is always enough (each iteration
    consumes one character of [cur :: next :: chars]). *)
Fixpoint eat_go (fuel : nat) (p : cp -> bool) (limit : option N) (r : reader) (eaten : N)
  : reader * N :=
  match fuel with
  | O => (r, eaten)
  | S f =>
      if negb (is_eof r) && p (r_cur r)
         && match limit with Some n => eaten <? n | None => true end
      then eat_go f p limit (bump r) (eaten + 1)
      else (r, eaten)
  end.

Definition loop_fuel (r : reader) : nat := S (S (S (length (r_chars r)))).

(** [Reader::eat_while] *)
Definition eat_while (p : cp -> bool) (r : reader) : reader * N :=
  eat_go (loop_fuel r) p None r 0.
(** [Reader::eat_when] *)
Definition eat_when (ch : cp) (r : reader) : reader * N := eat_while (N.eqb ch) r.
(** [Reader::consume_n_times] *)
Definition consume_n_times (p : cp -> bool) (count : N) (r : reader) : reader * N :=
  eat_go (loop_fuel r) p (Some count) r 0.
(** [Reader::consume_char_n_times] *)
Definition consume_char_n_times (ch : cp) (count : N) (r : reader) : reader * N :=
  consume_n_times (N.eqb ch) count r.
(** [Reader::eat_till_end] *)
Definition eat_till_end (r : reader) : reader * N := eat_while (fun _ => true) r.
