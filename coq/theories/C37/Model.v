(** C37/Model.v — the emission kernel of crates/emmylua_parser_desc:
    - the description parsers as CLIENTS of [Reader]: a machine whose programs are arbitrary
      sequences of reader operations, clones/rollbacks ([BacktrackPoint]), sub-readers,
      [emit]/[emit_range] calls and result truncations (the three markup grammars are such
      programs; they are not modelled themselves);
    - [ResultContainer::emit_range] / [emit] with coalescing (src/util.rs);
    - [sort_result] (src/util.rs);
    - [desc_to_lines] (src/util.rs) over the token list of a description node.
    Executable definitions only. *)
From EV Require Export C37.ReaderModel Gen.C37_Classes.
Local Open Scope N_scope.

(* ------------------------------------------------------------------ items *)

(** [DescItemKind] as a number: 0 Scope, 1 Ref, 2 Em, 3 Strong, 4 Code, 5 Link,
    6 JavadocLink, 7 Markup, 8 Arg, 9 CodeBlock, 100+k CodeBlockHl(k) *)
Definition kind := N.
Definition K_SCOPE : kind := 0.
Definition K_REF : kind := 1.
Definition K_JAVADOC : kind := 6.

(** [DescItem]: a rowan [TextRange] (start, end) and a kind *)
Record item := { i_start : N; i_end : N; i_kind : kind }.

(** [SourceRange::contains_inclusive] *)
Definition contains_inclusive (rg : srange) (o : N) : bool :=
  (sr_start rg <=? o) && (o <=? sr_end rg).

(** [TextRange::cover] *)
Definition cover (a : item) (s e : N) : item :=
  {| i_start := N.min (i_start a) s; i_end := N.max (i_end a) e; i_kind := i_kind a |}.

(** replace the last element *)
Fixpoint set_last (l : list item) (x : item) : list item :=
  match l with
  | [] => []
  | [_] => [x]
  | a :: r => a :: set_last r x
  end.

Fixpoint last_opt (l : list item) : option item :=
  match l with
  | [] => None
  | [a] => Some a
  | _ :: r => last_opt r
  end.

(** [ResultContainer::emit_range] *)
Definition emit_range (cursor : option N) (results : list item) (rg : srange) (k : kind)
  : list item :=
  let should_emit :=
    match cursor with
    | Some c => ((k =? K_REF) || (k =? K_JAVADOC)) && contains_inclusive rg c
    | None => negb (sr_len rg =? 0)
    end in
  if should_emit then
    let it := {| i_start := sr_start rg; i_end := sr_end rg; i_kind := k |} in
    match last_opt results with
    | None => results ++ [it]
    | Some lst =>
        if (i_kind lst =? k) && (i_end lst =? sr_start rg)
        then set_last results (cover lst (sr_start rg) (sr_end rg))
        else results ++ [it]
    end
  else results.

(* -------------------------------------------------------------- the machine *)

(** operations on one reader *)
Inductive rop :=
| RBump
| RReset
| REatWhile (p : cp -> bool)                 (* eat_while / eat_when / eat_till_end *)
| RConsumeN (p : cp -> bool) (n : N).        (* consume_n_times / consume_char_n_times *)

Definition run_rop (o : rop) (r : reader) : reader * N :=
  match o with
  | RBump => (bump r, 0)
  | RReset => (reset_buff r, 0)
  | REatWhile p => eat_while p r
  | RConsumeN p n => consume_n_times p n r
  end.

(** client programs *)
Inductive op :=
| ONew (a b : N)                (* Reader::new_with_range(&text[a..b], SourceRange::new(a, b-a)) *)
| OR (i : nat) (o : rop)        (* an operation on reader #i *)
| OClone (i : nat)              (* reader.clone() / BacktrackPoint::new: push a copy *)
| ORestore (i j : nat)          (* *reader_i = reader_j.clone()  (rollback) *)
| OSub (i : nat)                (* push reader_i.reset_buff_into_sub_reader() *)
| OEmit (i : nat) (k : kind)    (* c.emit(&mut reader_i, k) *)
| OEmitSpan (i j : nat) (k : kind)
    (* c.emit_range(SourceRange::from_start_end(reader_i.current_range().start_offset,
                                                reader_j.current_range().end_offset()), k) *)
| OEmitTail (i : nat) (k : kind)  (* c.emit_range(reader_i.tail_range(), k) *)
| OTruncate (n : nat).          (* c.results_mut().truncate(n)  (rollback) *)

Record mstate := { m_readers : list reader; m_results : list item; m_last : N }.

Fixpoint set_nth {A} (l : list A) (i : nat) (x : A) : list A :=
  match l, i with
  | [], _ => []
  | _ :: r, O => x :: r
  | a :: r, S k => a :: set_nth r k x
  end.

Fixpoint firstn_items (n : nat) (l : list item) : list item :=
  match n, l with
  | O, _ => []
  | _, [] => []
  | S k, a :: r => a :: firstn_items k r
  end.

(** one step.  [Nothing] = the program is ill-formed (index out of range, a reader created
    outside the region [lo, hi] of the description); [Panic] = the Rust code panics. *)
Definition step (T : text) (lo hi : N) (cursor : option N) (st : mstate) (o : op) : res mstate :=
  match o with
  | ONew a b =>
      if (lo <=? a) && (a <=? b) && (b <=? hi) then
        match slice T a b with
        | None => Panic
        | Some t =>
            match new_with_range t a (b - a) with
            | Val r => Val {| m_readers := m_readers st ++ [r]; m_results := m_results st; m_last := 0 |}
            | _ => Panic
            end
        end
      else Nothing
  | OR i ro =>
      match nth_error (m_readers st) i with
      | None => Nothing
      | Some r =>
          let '(r', c) := run_rop ro r in
          Val {| m_readers := set_nth (m_readers st) i r'; m_results := m_results st; m_last := c |}
      end
  | OClone i =>
      match nth_error (m_readers st) i with
      | None => Nothing
      | Some r => Val {| m_readers := m_readers st ++ [r]; m_results := m_results st; m_last := 0 |}
      end
  | ORestore i j =>
      match nth_error (m_readers st) i, nth_error (m_readers st) j with
      | Some _, Some rj =>
          Val {| m_readers := set_nth (m_readers st) i rj; m_results := m_results st; m_last := 0 |}
      | _, _ => Nothing
      end
  | OSub i =>
      match nth_error (m_readers st) i with
      | None => Nothing
      | Some r =>
          match reset_buff_into_sub_reader r with
          | Val (r', sub) =>
              Val {| m_readers := set_nth (m_readers st) i r' ++ [sub]; m_results := m_results st; m_last := 0 |}
          | _ => Panic
          end
      end
  | OEmit i k =>
      match nth_error (m_readers st) i with
      | None => Nothing
      | Some r =>
          Val {| m_readers := set_nth (m_readers st) i (reset_buff r);
                 m_results := emit_range cursor (m_results st) (current_range r) k; m_last := 0 |}
      end
  | OEmitSpan i j k =>
      match nth_error (m_readers st) i, nth_error (m_readers st) j with
      | Some ri, Some rj =>
          let s := sr_start (current_range ri) in
          let e := sr_end (current_range rj) in
          if s <=? e   (* SourceRange::from_start_end: assert!(start_offset <= end_offset) *)
          then Val {| m_readers := m_readers st;
                      m_results := emit_range cursor (m_results st) (s, e - s) k; m_last := 0 |}
          else Panic
      | _, _ => Nothing
      end
  | OEmitTail i k =>
      match nth_error (m_readers st) i with
      | None => Nothing
      | Some r =>
          match tail_range r with
          | Val rg => Val {| m_readers := m_readers st;
                             m_results := emit_range cursor (m_results st) rg k; m_last := 0 |}
          | _ => Panic
          end
      end
  | OTruncate n =>
      Val {| m_readers := m_readers st; m_results := firstn_items n (m_results st); m_last := 0 |}
  end.

Fixpoint run (T : text) (lo hi : N) (cursor : option N) (st : mstate) (ops : list op) : res mstate :=
  match ops with
  | [] => Val st
  | o :: r =>
      match step T lo hi cursor st o with
      | Val st' => run T lo hi cursor st' r
      | Nothing => Nothing
      | Panic => Panic
      end
  end.

Definition init : mstate := {| m_readers := []; m_results := []; m_last := 0 |}.

(* ------------------------------------------------------------------ sort_result *)

(** the key of [sort_result]: (start, usize::MAX - len, kind != Scope), compared
    lexicographically; [usize::MAX - len] ascending is [len] descending *)
Definition i_len (a : item) : N := i_end a - i_start a.
Definition nonscope (a : item) : N := if i_kind a =? K_SCOPE then 0 else 1.

Definition key_leb (a b : item) : bool :=
  (i_start a <? i_start b)
  || ((i_start a =? i_start b)
      && ((i_len b <? i_len a)
          || ((i_len a =? i_len b) && (nonscope a <=? nonscope b)))).

(** [slice::sort_by_key] is a stable sort; a stable sort by a total pre-order is unique, so
    a stable insertion sort computes the same list: the head (which came first) is inserted
    into the sorted tail BEFORE the elements whose key is equal to its own. *)
Fixpoint insert_left (x : item) (l : list item) : list item :=
  match l with
  | [] => [x]
  | a :: r => if key_leb x a then x :: a :: r else a :: insert_left x r
  end.

Fixpoint sort_result (l : list item) : list item :=
  match l with
  | [] => []
  | a :: r => insert_left a (sort_result r)
  end.

(* ------------------------------------------------------------------ desc_to_lines *)

Inductive tkind := TDetail | TEol | TNormalStart | TContinue | TOther.
Record tok := { t_kind : tkind; t_start : N; t_len : N }.

Definition DASH : cp := 45.
(** the character classes are TABLES regenerated from the source (Gen/C37_Classes.v, lib/c37_classes.py)
    and compared exhaustively with the real predicates over all Unicode scalar values by the harness *)
Definition in_table (tbl : list N) (c : cp) : bool := existsb (N.eqb c) tbl.
(** [util::is_ws] *)
Definition is_ws (c : cp) : bool := in_table is_ws_chars c.
(** [char::is_ascii_whitespace]: space, \t, \n, \x0C, \r *)
Definition is_ascii_whitespace (c : cp) : bool := in_table ascii_ws_chars c.
(** [char::is_whitespace] (Unicode White_Space) *)
Definition is_whitespace (c : cp) : bool := in_table unicode_ws_chars c.

Definition all_dash (t : text) : bool := forallb (fun c => c =? DASH) t.
(** [str::trim_end] *)
Fixpoint trim_end (t : text) : text :=
  match t with
  | [] => []
  | c :: r => match trim_end r with
              | [] => if is_whitespace c then [] else [c]
              | r' => c :: r'
              end
  end.
(** [util::is_blank] *)
Definition is_blank (t : text) : bool := forallb is_ascii_whitespace t.
(** [chars().take_while(p).count()] *)
Fixpoint count_while (p : cp -> bool) (t : text) : N :=
  match t with
  | [] => 0
  | c :: r => if p c then 1 + count_while p r else 0
  end.

Definition EMPTY : srange := (0, 0).
Definition srange_eqb (a b : srange) : bool := (fst a =? fst b) && (snd a =? snd b).

Record dstate := {
  d_lines : list srange;   (* in push order *)
  d_line : srange;
  d_skip : bool;
  d_seen : bool
}.

(** [&text[line.start_offset..line.end_offset()]] *)
Definition line_text (T : text) (l : srange) : option text := slice T (sr_start l) (sr_end l).

(** the closure [handle_token] *)
Definition handle_token (T : text) (st : dstate) (tk : tok) : res dstate :=
  match t_kind tk with
  | TDetail =>
      if d_skip st then Val st
      else
        let rg : srange := (t_start tk, t_len tk) in
        if sr_end (d_line st) =? sr_start rg then
          Val {| d_lines := d_lines st; d_line := (sr_start (d_line st), sr_len (d_line st) + sr_len rg);
                 d_skip := d_skip st; d_seen := d_seen st |}
        else if negb (srange_eqb (d_line st) EMPTY) then
          match line_text T (d_line st) with
          | None => Panic
          | Some lt =>
              Val {| d_lines := d_lines st ++ [d_line st]; d_line := rg; d_skip := d_skip st;
                     d_seen := d_seen st || negb (all_dash lt) |}
          end
        else Val {| d_lines := d_lines st; d_line := rg; d_skip := d_skip st; d_seen := d_seen st |}
  | TEol =>
      match line_text T (d_line st) with
      | None => Panic
      | Some lt =>
          Val {| d_lines := d_lines st ++ [d_line st]; d_line := EMPTY; d_skip := false;
                 d_seen := d_seen st || negb (all_dash lt) |}
      end
  | TNormalStart | TContinue =>
      match slice T (t_start tk) (t_start tk + t_len tk) with
      | None => Panic
      | Some tx =>
          let marks := count_while (fun c => c =? DASH) tx in
          let skip := negb (marks =? 3) in
          if skip then
            Val {| d_lines := d_lines st; d_line := (t_start tk, 0); d_skip := true; d_seen := d_seen st |}
          else
            Val {| d_lines := d_lines st; d_line := (t_start tk + marks, t_len tk - marks);
                   d_skip := false; d_seen := d_seen st |}
      end
  | TOther => Val st
  end.

Fixpoint handle_tokens (T : text) (st : dstate) (tks : list tok) : res dstate :=
  match tks with
  | [] => Val st
  | tk :: r =>
      match handle_token T st tk with
      | Val st' => handle_tokens T st' r
      | Nothing => Nothing
      | Panic => Panic
      end
  end.

(** the lazily evaluated strip loops: the first loop stops at the first non-dash line (later
    lines are not sliced), the second walks [lines[new_start..]] backwards *)
Fixpoint strip_front (T : text) (ls : list srange) : res (list srange) :=
  match ls with
  | [] => Val []
  | l :: r =>
      match line_text T l with
      | None => Panic
      | Some lt => if all_dash (trim_end lt) then strip_front T r else Val ls
      end
  end.

Definition strip_back (T : text) (ls : list srange) : res (list srange) :=
  match strip_front T (rev ls) with
  | Val r => Val (rev r)
  | Nothing => Nothing
  | Panic => Panic
  end.

(** minimum indent of the non-blank lines *)
Fixpoint common_indent (T : text) (ls : list srange) (acc : option N) : res (option N) :=
  match ls with
  | [] => Val acc
  | l :: r =>
      match line_text T l with
      | None => Panic
      | Some lt =>
          if is_blank lt then common_indent T r acc
          else
            let ind := count_while is_ws lt in
            common_indent T r (Some (match acc with None => ind | Some c => N.min c ind end))
      end
  end.

Definition dedent (ci : N) (l : srange) : srange :=
  if ci <=? sr_len l then (sr_start l + ci, sr_len l - ci) else l.

(** [lines.truncate(i)] at the first line whose start is past the cursor *)
Fixpoint cut_at_cursor (c : N) (ls : list srange) : list srange :=
  match ls with
  | [] => []
  | l :: r => if c <? sr_start l then [] else l :: cut_at_cursor c r
  end.

(** [desc_to_lines(text, desc, cursor_position)]; [prev] is the first non-whitespace token
    before the description node (handled first when it is a [TkNormalStart]), [tks] the
    tokens of the node in order *)
Definition desc_to_lines (T : text) (prev : option tok) (tks : list tok) (cursor : option N)
  : res (list srange) :=
  let st0 := {| d_lines := []; d_line := EMPTY; d_skip := false; d_seen := false |} in
  let r1 := match prev with
            | Some p => match t_kind p with TNormalStart => handle_token T st0 p | _ => Val st0 end
            | None => Val st0
            end in
  match r1 with
  | Val st1 =>
      match handle_tokens T st1 tks with
      | Val st2 =>
          let fin :=
            if negb (sr_len (d_line st2) =? 0) then
              match line_text T (d_line st2) with
              | None => Panic
              | Some lt => Val (d_lines st2 ++ [d_line st2], d_seen st2 || negb (all_dash (trim_end lt)))
              end
            else Val (d_lines st2, d_seen st2) in
          match fin with
          | Val (lines, seen) =>
              if negb seen then Val []
              else
                match strip_front T lines with
                | Val l1 =>
                    match strip_back T l1 with
                    | Val l2 =>
                        match common_indent T l2 None with
                        | Val ci =>
                            let ci := match ci with Some c => c | None => 0 end in
                            let l3 := if 0 <? ci then map (dedent ci) l2 else l2 in
                            Val (match cursor with Some c => cut_at_cursor c l3 | None => l3 end)
                        | Nothing => Nothing
                        | Panic => Panic
                        end
                    | Nothing => Nothing
                    | Panic => Panic
                    end
                | Nothing => Nothing
                | Panic => Panic
                end
          | Nothing => Nothing
          | Panic => Panic
          end
      | Nothing => Nothing
      | Panic => Panic
      end
  | Nothing => Nothing
  | Panic => Panic
  end.
