(** C37/Proofs.v — lemmas for the emission kernel (reader bounds, emit/coalescing, sort,
    desc_to_lines).  The property theorems are restated in Props.v. *)
From Coq Require Import Sorting.Permutation Sorting.Sorted.
From EV Require Import Base.TextFacts C37.Model.
Local Open Scope N_scope.

(* ------------------------------------------------------------------ text facts *)

Lemma drop_bytes_spec : forall t o s,
  drop_bytes t o = Some s -> exists p, t = p ++ s /\ bytes p = o.
Proof.
  induction t as [|c t IH]; intros o s H; cbn [drop_bytes] in H.
  - destruct (N.eqb_spec o 0) as [E|E]; [|discriminate].
    inversion H; subst. exists []. split; reflexivity.
  - destruct (N.eqb_spec o 0) as [E|E].
    + inversion H; subst. exists []. split; reflexivity.
    + destruct (N.ltb_spec o (blen c)) as [L|L]; [discriminate|].
      destruct (IH _ _ H) as [p [E1 E2]].
      exists (c :: p). split; [cbn [app]; f_equal; exact E1|]. cbn [bytes]. lia.
Qed.

Lemma slice_spec : forall t a b s,
  slice t a b = Some s -> exists p r, t = p ++ s ++ r /\ bytes p = a /\ a <= b /\ bytes s = b - a.
Proof.
  intros t a b s H. unfold slice in H.
  destruct (N.ltb_spec b a) as [L|L]; [discriminate|].
  destruct (drop_bytes t a) as [d|] eqn:D; [|discriminate].
  destruct (drop_bytes_spec _ _ _ D) as [p [E1 E2]].
  destruct (take_bytes_spec _ _ _ H) as [r [E3 E4]].
  exists p, r. subst t d. repeat split; assumption.
Qed.

Lemma boundaryb_mid : forall A X B o, o = bytes A -> boundaryb (A ++ X ++ B) o = true.
Proof. intros A X B o ->. apply boundaryb_app. Qed.

Lemma boundaryb_mid_end : forall A X B o,
  o = bytes A + bytes X -> boundaryb (A ++ X ++ B) o = true.
Proof.
  intros A X B o ->. rewrite app_assoc. rewrite <- bytes_app. apply boundaryb_app.
Qed.

(* ------------------------------------------------------------------ ranges *)

(** a range lies in the region [lo, hi] of [T] and both its ends are character boundaries *)
Definition range_ok (T : text) (lo hi : N) (rg : srange) : Prop :=
  lo <= sr_start rg /\ sr_end rg <= hi /\
  boundaryb T (sr_start rg) = true /\ boundaryb T (sr_end rg) = true.

Definition item_ok (T : text) (lo hi : N) (it : item) : Prop :=
  lo <= i_start it /\ i_start it <= i_end it /\ i_end it <= hi /\
  boundaryb T (i_start it) = true /\ boundaryb T (i_end it) = true.

(** a range lies in a reader's own valid range *)
Definition in_own_range (r : reader) (rg : srange) : Prop :=
  r_start r <= sr_start rg /\ sr_end rg <= r_start r + r_len r.

(* ------------------------------------------------------------------ reader invariant *)

(** the look-ahead registers describe the unread suffix [S] *)
Definition repr (r : reader) (S : text) : Prop :=
  r_cur r = hd EOF S /\ r_next r = hd EOF (tl S) /\ r_chars r = tl (tl S).

(** [T = A ++ (P ++ Bf ++ S) ++ B]: the reader's text is the middle part, [P] has been
    committed by [reset_buff], [Bf] is the current buffer, [S] is unread *)
Definition rinv (T : text) (lo hi : N) (r : reader) : Prop :=
  exists A P Bf S B,
    T = A ++ (P ++ Bf ++ S) ++ B /\ r_text r = P ++ Bf ++ S /\
    bytes A = r_start r /\ bytes (r_text r) = r_len r /\
    bytes P = r_pos r /\ bytes Bf = r_blen r /\ repr r S /\
    lo <= r_start r /\ r_start r + r_len r <= hi.

Lemma repr_of_text : forall t c s1 n s2,
  chars_next t = (c, s1) -> chars_next s1 = (n, s2) ->
  c = hd EOF t /\ n = hd EOF (tl t) /\ s2 = tl (tl t).
Proof.
  intros t c s1 n s2 H1 H2.
  destruct t as [|x [|y t]]; cbn in H1; inversion H1; subst c s1;
    cbn in H2; inversion H2; subst n s2; repeat split.
Qed.

Lemma rinv_new : forall T lo hi a b t r,
  slice T a b = Some t -> lo <= a -> b <= hi ->
  new_with_range t a (b - a) = Val r -> rinv T lo hi r.
Proof.
  intros T lo hi a b t r Hs Hlo Hhi Hn.
  destruct (slice_spec _ _ _ _ Hs) as [p [q [E1 [E2 [E3 E4]]]]].
  unfold new_with_range in Hn.
  destruct (N.eqb_spec (bytes t) (b - a)) as [E|E]; [|discriminate].
  destruct (chars_next t) as [c s1] eqn:C1. destruct (chars_next s1) as [n s2] eqn:C2.
  inversion Hn; subst r; clear Hn.
  destruct (repr_of_text _ _ _ _ _ C1 C2) as [R1 [R2 R3]].
  exists p, [], [], t, q. cbn [app r_text r_start r_len r_pos r_blen bytes].
  repeat split; try assumption; try reflexivity; try lia.
Qed.

Lemma new_with_range_ok : forall t a, exists r, new_with_range t a (bytes t) = Val r.
Proof.
  intros t a. unfold new_with_range. rewrite N.eqb_refl.
  destruct (chars_next t) as [c s1]. destruct (chars_next s1) as [n s2]. eexists. reflexivity.
Qed.

Lemma rinv_bump : forall T lo hi r, rinv T lo hi r -> rinv T lo hi (bump r).
Proof.
  intros T lo hi r [A [P [Bf [S [B [E1 [E2 [E3 [E4 [E5 [E6 [[R1 [R2 R3]] [L1 L2]]]]]]]]]]]]].
  unfold bump. destruct (N.eqb_spec (r_cur r) EOF) as [Z|Z].
  - exists A, P, Bf, S, B. repeat split; assumption.
  - destruct S as [|c S]; [cbn in R1; contradiction|].
    cbn [hd tl] in R1, R2, R3.
    destruct (chars_next (r_chars r)) as [n s] eqn:C.
    exists A, P, (Bf ++ [c]), S, B.
    cbn [r_text r_start r_len r_pos r_blen r_cur r_next r_chars].
    assert (X : (Bf ++ [c]) ++ S = Bf ++ c :: S) by (rewrite <- app_assoc; reflexivity).
    rewrite X. repeat split; try assumption.
    + rewrite bytes_app. cbn [bytes]. rewrite R1. lia.
    + unfold repr. cbn [r_cur r_next r_chars].
      rewrite R3 in C. destruct S as [|y S]; cbn [tl hd] in *.
      * cbn in C. inversion C; subst. repeat split; assumption.
      * destruct S as [|z S]; cbn in C; inversion C; subst; repeat split; assumption.
Qed.

Lemma rinv_reset : forall T lo hi r, rinv T lo hi r -> rinv T lo hi (reset_buff r).
Proof.
  intros T lo hi r [A [P [Bf [S [B [E1 [E2 [E3 [E4 [E5 [E6 [R [L1 L2]]]]]]]]]]]]].
  exists A, (P ++ Bf), [], S, B.
  cbn [r_text r_start r_len r_pos r_blen app].
  rewrite <- app_assoc. repeat split; try assumption.
  - rewrite bytes_app. lia.
Qed.

Lemma rinv_set_prev : forall T lo hi r p, rinv T lo hi r -> rinv T lo hi (set_prev r p).
Proof.
  intros T lo hi r p [A [P [Bf [S [B H]]]]]. exists A, P, Bf, S, B. exact H.
Qed.

Lemma rinv_eat_go : forall T lo hi fuel p limit r n,
  rinv T lo hi r -> rinv T lo hi (fst (eat_go fuel p limit r n)).
Proof.
  induction fuel as [|f IH]; intros p limit r n H; cbn [eat_go]; [exact H|].
  destruct (negb (is_eof r) && p (r_cur r) && match limit with Some k => n <? k | None => true end).
  - apply IH. apply rinv_bump. exact H.
  - exact H.
Qed.

Lemma rinv_run_rop : forall T lo hi o r, rinv T lo hi r -> rinv T lo hi (fst (run_rop o r)).
Proof.
  intros T lo hi o r H. destruct o; cbn [run_rop fst].
  - apply rinv_bump; exact H.
  - apply rinv_reset; exact H.
  - unfold eat_while. apply rinv_eat_go; exact H.
  - unfold consume_n_times. apply rinv_eat_go; exact H.
Qed.

Lemma rinv_current_range : forall T lo hi r,
  rinv T lo hi r -> range_ok T lo hi (current_range r) /\ in_own_range r (current_range r).
Proof.
  intros T lo hi r [A [P [Bf [S [B [E1 [E2 [E3 [E4 [E5 [E6 [R [L1 L2]]]]]]]]]]]]].
  assert (Hlen : r_len r = bytes P + bytes Bf + bytes S).
  { rewrite <- E4, E2. rewrite !bytes_app. lia. }
  unfold range_ok, in_own_range, current_range, sr_start, sr_end, sr_len. cbn [fst snd].
  repeat split; try lia.
  - subst T. rewrite <- !app_assoc. rewrite app_assoc.
    apply boundaryb_mid. rewrite bytes_app. lia.
  - subst T. rewrite <- !app_assoc. rewrite app_assoc.
    apply boundaryb_mid_end. rewrite bytes_app. lia.
Qed.

Lemma rinv_tail_range : forall T lo hi r,
  rinv T lo hi r -> exists rg, tail_range r = Val rg /\ range_ok T lo hi rg /\ in_own_range r rg.
Proof.
  intros T lo hi r [A [P [Bf [S [B [E1 [E2 [E3 [E4 [E5 [E6 [R [L1 L2]]]]]]]]]]]]].
  assert (Hlen : r_len r = bytes P + bytes Bf + bytes S).
  { rewrite <- E4, E2. rewrite !bytes_app. lia. }
  unfold tail_range, moved, sr_len, sr_start. cbn [fst snd].
  destruct (N.leb_spec (r_pos r + r_blen r) (r_len r)) as [L|L]; [|lia].
  eexists. split; [reflexivity|].
  unfold range_ok, in_own_range, sr_start, sr_end, sr_len. cbn [fst snd].
  repeat split; try lia.
  - subst T. replace (A ++ (P ++ Bf ++ S) ++ B) with ((A ++ P ++ Bf) ++ S ++ B)
      by (rewrite <- !app_assoc; reflexivity).
    apply boundaryb_mid. rewrite !bytes_app. lia.
  - subst T. replace (A ++ (P ++ Bf ++ S) ++ B) with ((A ++ P ++ Bf) ++ S ++ B)
      by (rewrite <- !app_assoc; reflexivity).
    apply boundaryb_mid_end. rewrite !bytes_app. lia.
Qed.

(** [reset_buff_into_sub_reader] never panics and both readers keep the invariant; the
    sub-reader's valid range is the parent's current range *)
Lemma rinv_sub : forall T lo hi r,
  rinv T lo hi r ->
  exists r' sub, reset_buff_into_sub_reader r = Val (r', sub) /\
                 rinv T lo hi r' /\ rinv T lo hi sub /\
                 (r_start sub, r_len sub) = current_range r.
Proof.
  intros T lo hi r H.
  pose proof (rinv_reset _ _ _ _ H) as Hreset.
  destruct H as [A [P [Bf [S [B [E1 [E2 [E3 [E4 [E5 [E6 [R [L1 L2]]]]]]]]]]]]].
  assert (Hlen : r_len r = bytes P + bytes Bf + bytes S).
  { rewrite <- E4, E2. rewrite !bytes_app. lia. }
  unfold reset_buff_into_sub_reader, current_text.
  rewrite E2. rewrite (slice_app P Bf S (r_pos r) (r_pos r + r_blen r)) by lia.
  unfold current_range, sr_start, sr_len. cbn [fst snd].
  rewrite <- E6.
  destruct (new_with_range_ok Bf (r_start r + r_pos r)) as [sub Hsub].
  rewrite Hsub. rewrite <- E5. rewrite take_bytes_app.
  assert (Hs : rinv T lo hi sub).
  { unfold new_with_range in Hsub. rewrite N.eqb_refl in Hsub.
    destruct (chars_next Bf) as [c s1] eqn:C1. destruct (chars_next s1) as [n s2] eqn:C2.
    inversion Hsub; subst sub; clear Hsub.
    destruct (repr_of_text _ _ _ _ _ C1 C2) as [R1 [R2 R3]].
    exists (A ++ P), [], [], Bf, (S ++ B).
    cbn [app r_text r_start r_len r_pos r_blen bytes].
    repeat split; try assumption; try reflexivity; try lia.
    - subst T. rewrite <- !app_assoc. reflexivity.
    - rewrite bytes_app. lia. }
  assert (Hse : r_start sub = r_start r + bytes P /\ r_len sub = bytes Bf).
  { unfold new_with_range in Hsub. rewrite N.eqb_refl in Hsub.
    destruct (chars_next Bf) as [c s1]. destruct (chars_next s1) as [n s2].
    inversion Hsub; subst sub. split; reflexivity. }
  destruct Hse as [Hs1 Hs2].
  destruct (last_char P) as [pc|].
  - eexists _, _. split; [reflexivity|]. split; [exact Hreset|]. split.
    + apply rinv_set_prev. exact Hs.
    + cbn [set_prev r_start r_len]. rewrite Hs1, Hs2. reflexivity.
  - eexists _, _. split; [reflexivity|]. split; [exact Hreset|]. split; [exact Hs|].
    rewrite Hs1, Hs2. reflexivity.
Qed.

(** the loops stop for the right reason: [loop_fuel] never runs out *)
Lemma eat_go_stops : forall fuel p limit r n S,
  repr r S -> (length S < fuel)%nat ->
  let '(r', n') := eat_go fuel p limit r n in
  is_eof r' = true \/ p (r_cur r') = false \/ (exists k, limit = Some k /\ k <= n').
Proof.
  induction fuel as [|f IH]; intros p limit r n S HR HL; [inversion HL|].
  cbn [eat_go]. unfold is_eof.
  destruct (N.eqb_spec (r_cur r) EOF) as [Z|Z]; cbn [negb andb].
  - left. unfold is_eof. apply N.eqb_eq. exact Z.
  - destruct (p (r_cur r)) eqn:Hp; cbn [andb]; [|right; left; exact Hp].
    destruct limit as [k|].
    + destruct (N.ltb_spec n k) as [L|L].
      * destruct HR as [R1 [R2 R3]].
        destruct S as [|c S]; [cbn in R1; contradiction|]. cbn [hd tl] in R1, R2, R3.
        apply (IH p (Some k) (bump r) (n + 1) S).
        -- unfold bump. destruct (N.eqb_spec (r_cur r) EOF) as [Z'|_]; [contradiction|].
           destruct (chars_next (r_chars r)) as [x s] eqn:C. unfold repr. cbn [r_cur r_next r_chars].
           rewrite R3 in C. destruct S as [|y S]; cbn [hd tl] in *.
           ++ cbn in C. inversion C; subst. repeat split; assumption.
           ++ destruct S as [|z S]; cbn in C; inversion C; subst; repeat split; assumption.
        -- cbn [length] in HL. lia.
      * right. right. exists k. split; [reflexivity|exact L].
    + destruct HR as [R1 [R2 R3]].
      destruct S as [|c S]; [cbn in R1; contradiction|]. cbn [hd tl] in R1, R2, R3.
      apply (IH p None (bump r) (n + 1) S).
      * unfold bump. destruct (N.eqb_spec (r_cur r) EOF) as [Z'|_]; [contradiction|].
        destruct (chars_next (r_chars r)) as [x s] eqn:C. unfold repr. cbn [r_cur r_next r_chars].
        rewrite R3 in C. destruct S as [|y S]; cbn [hd tl] in *.
        -- cbn in C. inversion C; subst. repeat split; assumption.
        -- destruct S as [|z S]; cbn in C; inversion C; subst; repeat split; assumption.
      * cbn [length] in HL. lia.
Qed.

(* ------------------------------------------------------------------ emit_range *)

Lemma last_opt_In : forall l x, last_opt l = Some x -> In x l.
Proof.
  induction l as [|a l IH]; intros x H; [discriminate|].
  cbn [last_opt] in H. destruct l as [|b l].
  - inversion H; subst. left; reflexivity.
  - right. apply IH. exact H.
Qed.

Lemma Forall_set_last : forall (P : item -> Prop) l x,
  Forall P l -> P x -> Forall P (set_last l x).
Proof.
  induction l as [|a l IH]; intros x Hl Hx; [constructor|].
  cbn [set_last]. destruct l as [|b l].
  - constructor; [exact Hx|constructor].
  - inversion Hl; subst. constructor; [assumption|]. apply IH; assumption.
Qed.

Lemma item_ok_of_range : forall T lo hi rg k,
  range_ok T lo hi rg ->
  item_ok T lo hi {| i_start := sr_start rg; i_end := sr_end rg; i_kind := k |}.
Proof.
  intros T lo hi rg k [H1 [H2 [H3 H4]]]. unfold item_ok. cbn [i_start i_end].
  unfold sr_end in *. repeat split; try assumption; lia.
Qed.

Lemma item_ok_cover : forall T lo hi a rg,
  item_ok T lo hi a -> range_ok T lo hi rg -> item_ok T lo hi (cover a (sr_start rg) (sr_end rg)).
Proof.
  intros T lo hi a rg [A1 [A2 [A3 [A4 A5]]]] [H1 [H2 [H3 H4]]].
  unfold item_ok, cover. cbn [i_start i_end]. unfold sr_end in *.
  destruct (N.min_spec (i_start a) (sr_start rg)) as [[_ E]|[_ E]];
  destruct (N.max_spec (i_end a) (sr_start rg + sr_len rg)) as [[_ F]|[_ F]];
  rewrite E, F; repeat split; try assumption; lia.
Qed.

Lemma emit_range_ok : forall T lo hi cursor results rg k,
  Forall (item_ok T lo hi) results -> range_ok T lo hi rg ->
  Forall (item_ok T lo hi) (emit_range cursor results rg k).
Proof.
  intros T lo hi cursor results rg k Hr Hrg. unfold emit_range.
  match goal with |- context [if ?c then _ else _] => destruct c end; [|exact Hr].
  destruct (last_opt results) as [lst|] eqn:L.
  - destruct ((i_kind lst =? k) && (i_end lst =? sr_start rg)).
    + apply Forall_set_last; [exact Hr|].
      apply item_ok_cover; [|exact Hrg].
      apply (proj1 (Forall_forall _ _) Hr). apply last_opt_In. exact L.
    + apply Forall_app. split; [exact Hr|]. constructor; [|constructor].
      apply item_ok_of_range. exact Hrg.
  - apply Forall_app. split; [exact Hr|]. constructor; [|constructor].
    apply item_ok_of_range. exact Hrg.
Qed.

(* ------------------------------------------------------------------ the machine *)

Definition minv (T : text) (lo hi : N) (st : mstate) : Prop :=
  Forall (rinv T lo hi) (m_readers st) /\ Forall (item_ok T lo hi) (m_results st).

Lemma Forall_set_nth : forall {A} (P : A -> Prop) l i x,
  Forall P l -> P x -> Forall P (set_nth l i x).
Proof.
  induction l as [|a l IH]; intros i x Hl Hx; [destruct i; constructor|].
  inversion Hl; subst. destruct i; cbn [set_nth]; constructor; try assumption.
  apply IH; assumption.
Qed.

Lemma Forall_nth_error : forall {A} (P : A -> Prop) l i x,
  Forall P l -> nth_error l i = Some x -> P x.
Proof.
  intros A P l i x Hl Hn. apply nth_error_In in Hn.
  apply (proj1 (Forall_forall _ _) Hl). exact Hn.
Qed.

Lemma Forall_firstn_items : forall (P : item -> Prop) n l, Forall P l -> Forall P (firstn_items n l).
Proof.
  induction n as [|n IH]; intros l H; [constructor|].
  destruct l as [|a l]; cbn [firstn_items]; [constructor|].
  inversion H; subst. constructor; [assumption|]. apply IH; assumption.
Qed.

Lemma minv_step : forall T lo hi cursor st o st',
  minv T lo hi st -> step T lo hi cursor st o = Val st' -> minv T lo hi st'.
Proof.
  intros T lo hi cursor st o st' [HR HI] H. destruct o; cbn [step] in H.
  - (* ONew *)
    destruct ((lo <=? a) && (a <=? b) && (b <=? hi)) eqn:G; [|discriminate].
    apply andb_true_iff in G. destruct G as [G G3]. apply andb_true_iff in G. destruct G as [G1 G2].
    apply N.leb_le in G1, G2, G3.
    destruct (slice T a b) as [t|] eqn:S; [|discriminate].
    destruct (new_with_range t a (b - a)) as [r| |] eqn:Nw; try discriminate.
    inversion H; subst st'. split; cbn [m_readers m_results]; [|exact HI].
    apply Forall_app. split; [exact HR|]. constructor; [|constructor].
    eapply rinv_new; eassumption.
  - (* OR *)
    destruct (nth_error (m_readers st) i) as [r|] eqn:Nt; [|discriminate].
    destruct (run_rop o r) as [r' c] eqn:RR. inversion H; subst st'.
    split; cbn [m_readers m_results]; [|exact HI].
    apply Forall_set_nth; [exact HR|].
    replace r' with (fst (run_rop o r)) by (rewrite RR; reflexivity).
    apply rinv_run_rop. eapply Forall_nth_error; eassumption.
  - (* OClone *)
    destruct (nth_error (m_readers st) i) as [r|] eqn:Nt; [|discriminate].
    inversion H; subst st'. split; cbn [m_readers m_results]; [|exact HI].
    apply Forall_app. split; [exact HR|]. constructor; [|constructor].
    eapply Forall_nth_error; eassumption.
  - (* ORestore *)
    destruct (nth_error (m_readers st) i) as [ri|] eqn:Ni; [|discriminate].
    destruct (nth_error (m_readers st) j) as [rj|] eqn:Nj; [|discriminate].
    inversion H; subst st'. split; cbn [m_readers m_results]; [|exact HI].
    apply Forall_set_nth; [exact HR|]. eapply Forall_nth_error; eassumption.
  - (* OSub *)
    destruct (nth_error (m_readers st) i) as [r|] eqn:Nt; [|discriminate].
    assert (Hr : rinv T lo hi r) by (eapply Forall_nth_error; eassumption).
    destruct (rinv_sub _ _ _ _ Hr) as [r' [sub [E [H1 [H2 _]]]]]. rewrite E in H.
    inversion H; subst st'. split; cbn [m_readers m_results]; [|exact HI].
    apply Forall_app. split; [apply Forall_set_nth; assumption|]. constructor; [assumption|constructor].
  - (* OEmit *)
    destruct (nth_error (m_readers st) i) as [r|] eqn:Nt; [|discriminate].
    assert (Hr : rinv T lo hi r) by (eapply Forall_nth_error; eassumption).
    inversion H; subst st'. split; cbn [m_readers m_results].
    + apply Forall_set_nth; [exact HR|]. apply rinv_reset. exact Hr.
    + apply emit_range_ok; [exact HI|]. apply rinv_current_range. exact Hr.
  - (* OEmitSpan *)
    destruct (nth_error (m_readers st) i) as [ri|] eqn:Ni; [|discriminate].
    destruct (nth_error (m_readers st) j) as [rj|] eqn:Nj; [|discriminate].
    assert (Hri : rinv T lo hi ri) by (eapply Forall_nth_error; eassumption).
    assert (Hrj : rinv T lo hi rj) by (eapply Forall_nth_error; eassumption).
    destruct (N.leb_spec (sr_start (current_range ri)) (sr_end (current_range rj))) as [L|L]; [|discriminate].
    inversion H; subst st'. split; cbn [m_readers m_results]; [exact HR|].
    apply emit_range_ok; [exact HI|].
    destruct (proj1 (rinv_current_range _ _ _ _ Hri)) as [A1 [A2 [A3 A4]]].
    destruct (proj1 (rinv_current_range _ _ _ _ Hrj)) as [B1 [B2 [B3 B4]]].
    unfold range_ok, sr_start, sr_end, sr_len in *. cbn [fst snd] in *.
    replace (fst (current_range ri) + (fst (current_range rj) + snd (current_range rj) - fst (current_range ri)))
      with (fst (current_range rj) + snd (current_range rj)) by lia.
    repeat split; assumption.
  - (* OEmitTail *)
    destruct (nth_error (m_readers st) i) as [r|] eqn:Nt; [|discriminate].
    assert (Hr : rinv T lo hi r) by (eapply Forall_nth_error; eassumption).
    destruct (rinv_tail_range _ _ _ _ Hr) as [rg [E [Hrg _]]]. rewrite E in H.
    inversion H; subst st'. split; cbn [m_readers m_results]; [exact HR|].
    apply emit_range_ok; assumption.
  - (* OTruncate *)
    inversion H; subst st'. split; cbn [m_readers m_results]; [exact HR|].
    apply Forall_firstn_items. exact HI.
Qed.

Lemma minv_run : forall T lo hi cursor ops st st',
  minv T lo hi st -> run T lo hi cursor st ops = Val st' -> minv T lo hi st'.
Proof.
  intros T lo hi cursor. induction ops as [|o ops IH]; intros st st' Hm H; cbn [run] in H.
  - inversion H; subst. exact Hm.
  - destruct (step T lo hi cursor st o) as [st1| |] eqn:S; try discriminate.
    eapply IH; [|exact H]. eapply minv_step; eassumption.
Qed.

Lemma minv_init : forall T lo hi, minv T lo hi init.
Proof. intros. split; constructor. Qed.

(** a step panics only on the two client-side assertions: [from_start_end] with
    [start > end] (OEmitSpan) and slicing the text off a character boundary when a reader is
    created (ONew); reader operations, sub-readers and [tail_range] never panic *)
Definition may_panic (o : op) : bool :=
  match o with ONew _ _ | OEmitSpan _ _ _ => true | _ => false end.

Lemma step_no_panic : forall T lo hi cursor st o,
  minv T lo hi st -> may_panic o = false -> step T lo hi cursor st o <> Panic.
Proof.
  intros T lo hi cursor st o [HR HI] Hp. destruct o; cbn [may_panic] in Hp; try discriminate; cbn [step].
  - destruct (nth_error (m_readers st) i); [|discriminate]. destruct (run_rop o r). discriminate.
  - destruct (nth_error (m_readers st) i); discriminate.
  - destruct (nth_error (m_readers st) i); destruct (nth_error (m_readers st) j); discriminate.
  - destruct (nth_error (m_readers st) i) as [r|] eqn:Nt; [|discriminate].
    assert (Hr : rinv T lo hi r) by (eapply Forall_nth_error; eassumption).
    destruct (rinv_sub _ _ _ _ Hr) as [r' [sub [E _]]]. rewrite E. discriminate.
  - destruct (nth_error (m_readers st) i); discriminate.
  - destruct (nth_error (m_readers st) i) as [r|] eqn:Nt; [|discriminate].
    assert (Hr : rinv T lo hi r) by (eapply Forall_nth_error; eassumption).
    destruct (rinv_tail_range _ _ _ _ Hr) as [rg [E _]]. rewrite E. discriminate.
  - discriminate.
Qed.

Lemma run_no_panic : forall T lo hi cursor ops st,
  minv T lo hi st -> forallb (fun o => negb (may_panic o)) ops = true ->
  run T lo hi cursor st ops <> Panic.
Proof.
  intros T lo hi cursor. induction ops as [|o ops IH]; intros st Hm Hf; cbn [run]; [discriminate|].
  cbn [forallb] in Hf. apply andb_true_iff in Hf. destruct Hf as [Ho Hf].
  apply negb_true_iff in Ho.
  destruct (step T lo hi cursor st o) as [st1| |] eqn:S; [| discriminate |].
  - apply IH; [|exact Hf]. eapply minv_step; eassumption.
  - exfalso. eapply step_no_panic; eassumption.
Qed.

(* ------------------------------------------------------------------ sort_result *)

Definition key_le (a b : item) : Prop := key_leb a b = true.

Lemma key_leb_spec : forall a b,
  key_leb a b = true <->
  (i_start a < i_start b \/
   (i_start a = i_start b /\ (i_len b < i_len a \/ (i_len a = i_len b /\ nonscope a <= nonscope b)))).
Proof.
  intros a b. unfold key_leb.
  rewrite !orb_true_iff, !andb_true_iff, !orb_true_iff, !andb_true_iff.
  rewrite !N.ltb_lt, !N.eqb_eq, N.leb_le. tauto.
Qed.

Lemma key_leb_total : forall a b, key_leb a b = false -> key_leb b a = true.
Proof.
  intros a b H. apply key_leb_spec.
  destruct (key_leb a b) eqn:E; [discriminate|].
  assert (N : ~ (i_start a < i_start b \/
   (i_start a = i_start b /\ (i_len b < i_len a \/ (i_len a = i_len b /\ nonscope a <= nonscope b))))).
  { intro X. apply key_leb_spec in X. congruence. }
  lia.
Qed.

Lemma key_le_trans : forall a b c, key_le a b -> key_le b c -> key_le a c.
Proof.
  unfold key_le. intros a b c H1 H2.
  apply key_leb_spec in H1. apply key_leb_spec in H2. apply key_leb_spec. lia.
Qed.

Lemma key_le_start : forall a b, key_le a b -> i_start a <= i_start b.
Proof. unfold key_le. intros a b H. apply key_leb_spec in H. lia. Qed.

Lemma insert_left_perm : forall x l, Permutation (x :: l) (insert_left x l).
Proof.
  induction l as [|a l IH]; cbn [insert_left]; [apply Permutation_refl|].
  destruct (key_leb x a); [apply Permutation_refl|].
  eapply Permutation_trans; [apply perm_swap|]. apply perm_skip. exact IH.
Qed.

Lemma sort_result_perm : forall l, Permutation l (sort_result l).
Proof.
  induction l as [|a l IH]; cbn [sort_result]; [apply Permutation_refl|].
  eapply Permutation_trans; [apply perm_skip; exact IH|]. apply insert_left_perm.
Qed.

Lemma insert_left_sorted : forall x l, Sorted key_le l -> Sorted key_le (insert_left x l).
Proof.
  induction l as [|a l IH]; intros H; cbn [insert_left].
  - constructor; constructor.
  - destruct (key_leb x a) eqn:E.
    + constructor; [exact H|]. constructor. exact E.
    + inversion H as [|? ? Hs Hh]; subst. constructor; [apply IH; exact Hs|].
      destruct l as [|b l]; cbn [insert_left].
      * constructor. apply key_leb_total. exact E.
      * destruct (key_leb x b).
        -- constructor. apply key_leb_total. exact E.
        -- inversion Hh; subst. constructor. assumption.
Qed.

Lemma sort_result_sorted : forall l, Sorted key_le (sort_result l).
Proof.
  induction l as [|a l IH]; cbn [sort_result]; [constructor|].
  apply insert_left_sorted. exact IH.
Qed.

Lemma sort_result_strongly_sorted : forall l, StronglySorted key_le (sort_result l).
Proof.
  intros l. apply Sorted_StronglySorted.
  - intros a b c. apply key_le_trans.
  - apply sort_result_sorted.
Qed.

Lemma StronglySorted_weaken : forall (R R' : item -> item -> Prop) l,
  (forall a b, R a b -> R' a b) -> StronglySorted R l -> StronglySorted R' l.
Proof.
  intros R R' l HW H. induction H as [|a l Hs IH Hf]; constructor; [exact IH|].
  eapply Forall_impl; [|exact Hf]. intros b. apply HW.
Qed.

(** stability: items with equal keys keep their relative order — the sorted list is THE
    stable sort, which is what [slice::sort_by_key] computes *)
Lemma insert_left_stable_head : forall x l,
  Forall (fun a => key_leb x a = true) l -> insert_left x l = x :: l.
Proof.
  intros x l H. destruct l as [|a l]; [reflexivity|].
  inversion H; subst. cbn [insert_left]. rewrite H2. reflexivity.
Qed.
