(** C37/Proofs.v — lemmas for the emission kernel (reader bounds, emit/coalescing, sort,
    desc_to_lines).  The property theorems are restated in Props.v. *)
From Coq Require Import Sorting.Permutation Sorting.Sorted.
From EV Require Import Base.TextFacts C37.Model.
Local Open Scope N_scope.

(* ------------------------------------------------------------------ text facts *)

Lemma drop_bytes_spec : forall t o s,
  drop_bytes t o = Some s -> exists p, t = p ++ s /\ bytes p = o.
Proof.
  induction t as [|c t IH]; intros o s H; cbn [drop_bytes] in H.
  - destruct (N.eqb_spec o 0) as [E|E]; [|discriminate].
    inversion H; subst. exists []. split; reflexivity.
  - destruct (N.eqb_spec o 0) as [E|E].
    + inversion H; subst. exists []. split; reflexivity.
    + destruct (N.ltb_spec o (blen c)) as [L|L]; [discriminate|].
      destruct (IH _ _ H) as [p [E1 E2]].
      exists (c :: p). split; [cbn [app]; f_equal; exact E1|]. cbn [bytes]. lia.
Qed.

Lemma slice_spec : forall t a b s,
  slice t a b = Some s -> exists p r, t = p ++ s ++ r /\ bytes p = a /\ a <= b /\ bytes s = b - a.
Proof.
  intros t a b s H. unfold slice in H.
  destruct (N.ltb_spec b a) as [L|L]; [discriminate|].
  destruct (drop_bytes t a) as [d|] eqn:D; [|discriminate].
  destruct (drop_bytes_spec _ _ _ D) as [p [E1 E2]].
  destruct (take_bytes_spec _ _ _ H) as [r [E3 E4]].
  exists p, r. subst t d. repeat split; assumption.
Qed.

Lemma boundaryb_mid : forall A X B o, o = bytes A -> boundaryb (A ++ X ++ B) o = true.
Proof. intros A X B o ->. apply boundaryb_app. Qed.

Lemma boundaryb_mid_end : forall A X B o,
  o = bytes A + bytes X -> boundaryb (A ++ X ++ B) o = true.
Proof.
  intros A X B o ->. rewrite app_assoc. rewrite <- bytes_app. apply boundaryb_app.
Qed.

(* ------------------------------------------------------------------ ranges *)

(** a range lies in the region [lo, hi] of [T] and both its ends are character boundaries *)
Definition range_ok (T : text) (lo hi : N) (rg : srange) : Prop :=
  lo <= sr_start rg /\ sr_end rg <= hi /\
  boundaryb T (sr_start rg) = true /\ boundaryb T (sr_end rg) = true.

Definition item_ok (T : text) (lo hi : N) (it : item) : Prop :=
  lo <= i_start it /\ i_start it <= i_end it /\ i_end it <= hi /\
  boundaryb T (i_start it) = true /\ boundaryb T (i_end it) = true.

(** a range lies in a reader's own valid range *)
Definition in_own_range (r : reader) (rg : srange) : Prop :=
  r_start r <= sr_start rg /\ sr_end rg <= r_start r + r_len r.

(* ------------------------------------------------------------------ reader invariant *)

(** the look-ahead registers describe the unread suffix [S] *)
Definition repr (r : reader) (S : text) : Prop :=
  r_cur r = hd EOF S /\ r_next r = hd EOF (tl S) /\ r_chars r = tl (tl S).

(** [T = A ++ (P ++ Bf ++ S) ++ B]: the reader's text is the middle part, [P] has been
    committed by [reset_buff], [Bf] is the current buffer, [S] is unread *)
Definition rinv (T : text) (lo hi : N) (r : reader) : Prop :=
  exists A P Bf S B,
    T = A ++ (P ++ Bf ++ S) ++ B /\ r_text r = P ++ Bf ++ S /\
    bytes A = r_start r /\ bytes (r_text r) = r_len r /\
    bytes P = r_pos r /\ bytes Bf = r_blen r /\ repr r S /\
    lo <= r_start r /\ r_start r + r_len r <= hi.

Lemma repr_of_text : forall t c s1 n s2,
  chars_next t = (c, s1) -> chars_next s1 = (n, s2) ->
  c = hd EOF t /\ n = hd EOF (tl t) /\ s2 = tl (tl t).
Proof.
  intros t c s1 n s2 H1 H2.
  destruct t as [|x [|y t]]; cbn in H1; inversion H1; subst c s1;
    cbn in H2; inversion H2; subst n s2; repeat split.
Qed.

Lemma rinv_new : forall T lo hi a b t r,
  slice T a b = Some t -> lo <= a -> b <= hi ->
  new_with_range t a (b - a) = Val r -> rinv T lo hi r.
Proof.
  intros T lo hi a b t r Hs Hlo Hhi Hn.
  destruct (slice_spec _ _ _ _ Hs) as [p [q [E1 [E2 [E3 E4]]]]].
  unfold new_with_range in Hn.
  destruct (N.eqb_spec (bytes t) (b - a)) as [E|E]; [|discriminate].
  destruct (chars_next t) as [c s1] eqn:C1. destruct (chars_next s1) as [n s2] eqn:C2.
  inversion Hn; subst r; clear Hn.
  destruct (repr_of_text _ _ _ _ _ C1 C2) as [R1 [R2 R3]].
  exists p, [], [], t, q. cbn [app r_text r_start r_len r_pos r_blen bytes].
  repeat split; try assumption; try reflexivity; try lia.
Qed.

Lemma new_with_range_ok : forall t a, exists r, new_with_range t a (bytes t) = Val r.
Proof.
  intros t a. unfold new_with_range. rewrite N.eqb_refl.
  destruct (chars_next t) as [c s1]. destruct (chars_next s1) as [n s2]. eexists. reflexivity.
Qed.

(** the local part of the invariant: the reader's text splits into committed, buffered, unread *)
Definition linv (r : reader) (P Bf S : text) : Prop :=
  r_text r = P ++ Bf ++ S /\ bytes P = r_pos r /\ bytes Bf = r_blen r /\ repr r S.

Lemma bytes_nonempty : forall c (S : text), 1 <= bytes (c :: S).
Proof. intros c S. cbn [bytes]. pose proof (blen_pos c). lia. Qed.

Lemma linv_not_eof : forall r P Bf S, linv r P Bf S -> is_eof r = false ->
  exists c S', S = c :: S' /\ r_cur r = c.
Proof.
  intros r P Bf S [E1 [E2 [E3 [R1 _]]]] Z. unfold is_eof in Z. apply N.leb_gt in Z.
  rewrite E1 in Z. rewrite !bytes_app in Z.
  destruct S as [|c S']; [cbn [bytes] in Z; lia|].
  exists c, S'. split; [reflexivity|exact R1].
Qed.

Lemma linv_eof : forall r P Bf S, linv r P Bf S -> is_eof r = true -> S = [].
Proof.
  intros r P Bf S [E1 [E2 [E3 _]]] Z. unfold is_eof in Z. apply N.leb_le in Z.
  rewrite E1 in Z. rewrite !bytes_app in Z.
  destruct S as [|c S']; [reflexivity|]. pose proof (bytes_nonempty c S'). lia.
Qed.

Lemma repr_bump : forall r c S, repr r (c :: S) -> is_eof r = false -> repr (bump r) S.
Proof.
  intros r c S [R1 [R2 R3]] Z. cbn [hd tl] in R1, R2, R3.
  unfold bump. rewrite Z.
  destruct (chars_next (r_chars r)) as [n s] eqn:C. unfold repr. cbn [r_cur r_next r_chars].
  rewrite R3 in C.
  destruct S as [|y [|z S]]; cbn [hd tl] in *; cbn in C; inversion C; subst n s.
  - split; [exact R2|]. split; reflexivity.
  - split; [exact R2|]. split; reflexivity.
  - split; [exact R2|]. split; reflexivity.
Qed.

Lemma bump_fields : forall r, is_eof r = false ->
  r_text (bump r) = r_text r /\ r_start (bump r) = r_start r /\ r_len (bump r) = r_len r /\
  r_pos (bump r) = r_pos r /\ r_blen (bump r) = r_blen r + blen (r_cur r).
Proof.
  intros r Z. unfold bump. rewrite Z.
  destruct (chars_next (r_chars r)) as [n s]. cbn. repeat split.
Qed.

Lemma linv_bump : forall r P Bf c S, linv r P Bf (c :: S) -> is_eof r = false ->
  linv (bump r) P (Bf ++ [c]) S.
Proof.
  intros r P Bf c S [E1 [E2 [E3 R]]] Z.
  destruct (bump_fields r Z) as [F1 [F2 [F3 [F4 F5]]]].
  pose proof R as [R1 _]. cbn [hd] in R1.
  assert (X : (Bf ++ [c]) ++ S = Bf ++ c :: S) by (rewrite <- app_assoc; reflexivity).
  unfold linv. rewrite X, F1, F4, F5.
  split; [exact E1|]. split; [exact E2|]. split; [rewrite bytes_app; cbn [bytes]; rewrite R1; lia|].
  eapply repr_bump; eassumption.
Qed.

Lemma rinv_linv : forall T lo hi r, rinv T lo hi r -> exists P Bf S, linv r P Bf S.
Proof.
  intros T lo hi r [A [P [Bf [S [B [E1 [E2 [E3 [E4 [E5 [E6 [R _]]]]]]]]]]]].
  exists P, Bf, S. split; [exact E2|]. split; [exact E5|]. split; [exact E6|exact R].
Qed.

Lemma rinv_bump : forall T lo hi r, rinv T lo hi r -> rinv T lo hi (bump r).
Proof.
  intros T lo hi r H.
  destruct (is_eof r) eqn:Z.
  - unfold bump. rewrite Z. exact H.
  - destruct H as [A [P [Bf [S [B [E1 [E2 [E3 [E4 [E5 [E6 [R [L1 L2]]]]]]]]]]]]].
    assert (LI : linv r P Bf S) by (split; [exact E2|]; split; [exact E5|]; split; [exact E6|exact R]).
    destruct (linv_not_eof _ _ _ _ LI Z) as [c [S' [ES EC]]]. subst S.
    destruct (linv_bump _ _ _ _ _ LI Z) as [G1 [G2 [G3 G4]]].
    destruct (bump_fields r Z) as [F1 [F2 [F3 [F4 F5]]]].
    assert (X : (Bf ++ [c]) ++ S' = Bf ++ c :: S') by (rewrite <- app_assoc; reflexivity).
    exists A, P, (Bf ++ [c]), S', B. rewrite X, F1, F2, F3.
    split; [exact E1|]. split; [exact E2|]. split; [exact E3|]. split; [exact E4|].
    split; [exact G2|]. split; [exact G3|]. split; [exact G4|]. split; assumption.
Qed.

Lemma rinv_reset : forall T lo hi r, rinv T lo hi r -> rinv T lo hi (reset_buff r).
Proof.
  intros T lo hi r [A [P [Bf [S [B [E1 [E2 [E3 [E4 [E5 [E6 [R [L1 L2]]]]]]]]]]]]].
  exists A, (P ++ Bf), [], S, B.
  cbn [reset_buff r_text r_start r_len r_pos r_blen app].
  assert (X : (P ++ Bf) ++ S = P ++ Bf ++ S) by (rewrite <- app_assoc; reflexivity).
  rewrite X.
  split; [exact E1|]. split; [exact E2|]. split; [exact E3|]. split; [exact E4|].
  split; [rewrite bytes_app; lia|]. split; [reflexivity|].
  split; [exact R|]. split; assumption.
Qed.

Lemma rinv_set_prev : forall T lo hi r p, rinv T lo hi r -> rinv T lo hi (set_prev r p).
Proof.
  intros T lo hi r p [A [P [Bf [S [B H]]]]]. exists A, P, Bf, S, B. exact H.
Qed.

Lemma rinv_eat_go : forall T lo hi fuel p limit r n,
  rinv T lo hi r -> rinv T lo hi (fst (eat_go fuel p limit r n)).
Proof.
  induction fuel as [|f IH]; intros p limit r n H; cbn [eat_go]; [exact H|].
  destruct (negb (is_eof r) && p (r_cur r) && match limit with Some k => n <? k | None => true end).
  - apply IH. apply rinv_bump. exact H.
  - exact H.
Qed.

Lemma rinv_run_rop : forall T lo hi o r, rinv T lo hi r -> rinv T lo hi (fst (run_rop o r)).
Proof.
  intros T lo hi o r H. destruct o; cbn [run_rop fst].
  - apply rinv_bump; exact H.
  - apply rinv_reset; exact H.
  - unfold eat_while. apply rinv_eat_go; exact H.
  - unfold consume_n_times. apply rinv_eat_go; exact H.
Qed.

Lemma rinv_current_range : forall T lo hi r,
  rinv T lo hi r -> range_ok T lo hi (current_range r) /\ in_own_range r (current_range r).
Proof.
  intros T lo hi r [A [P [Bf [S [B [E1 [E2 [E3 [E4 [E5 [E6 [R [L1 L2]]]]]]]]]]]]].
  assert (Hlen : r_len r = bytes P + bytes Bf + bytes S).
  { rewrite <- E4, E2. rewrite !bytes_app. lia. }
  unfold range_ok, in_own_range, current_range, sr_start, sr_end, sr_len. cbn [fst snd].
  repeat split; try lia.
  - subst T. rewrite <- !app_assoc. rewrite app_assoc.
    apply boundaryb_mid. rewrite bytes_app. lia.
  - subst T. rewrite <- !app_assoc. rewrite app_assoc.
    apply boundaryb_mid_end. rewrite bytes_app. lia.
Qed.

Lemma rinv_tail_range : forall T lo hi r,
  rinv T lo hi r -> exists rg, tail_range r = Val rg /\ range_ok T lo hi rg /\ in_own_range r rg.
Proof.
  intros T lo hi r [A [P [Bf [S [B [E1 [E2 [E3 [E4 [E5 [E6 [R [L1 L2]]]]]]]]]]]]].
  assert (Hlen : r_len r = bytes P + bytes Bf + bytes S).
  { rewrite <- E4, E2. rewrite !bytes_app. lia. }
  unfold tail_range, moved, sr_len, sr_start. cbn [fst snd].
  destruct (N.leb_spec (r_pos r + r_blen r) (r_len r)) as [L|L]; [|lia].
  eexists. split; [reflexivity|].
  unfold range_ok, in_own_range, sr_start, sr_end, sr_len. cbn [fst snd].
  repeat split; try lia.
  - subst T. replace (A ++ (P ++ Bf ++ S) ++ B) with ((A ++ P ++ Bf) ++ S ++ B)
      by (rewrite <- !app_assoc; reflexivity).
    apply boundaryb_mid. rewrite !bytes_app. lia.
  - subst T. replace (A ++ (P ++ Bf ++ S) ++ B) with ((A ++ P ++ Bf) ++ S ++ B)
      by (rewrite <- !app_assoc; reflexivity).
    apply boundaryb_mid_end. rewrite !bytes_app. lia.
Qed.

(** [reset_buff_into_sub_reader] never panics and both readers keep the invariant; the
    sub-reader's valid range is the parent's current range *)
Lemma new_with_range_fields : forall t a l r, new_with_range t a l = Val r ->
  r_text r = t /\ r_start r = a /\ r_len r = l /\ r_pos r = 0 /\ r_blen r = 0 /\ repr r t.
Proof.
  intros t a l r H. unfold new_with_range in H.
  destruct (bytes t =? l); [|discriminate].
  destruct (chars_next t) as [c s1] eqn:C1. destruct (chars_next s1) as [n s2] eqn:C2.
  inversion H; subst r; clear H. cbn [r_text r_start r_len r_pos r_blen].
  destruct (repr_of_text _ _ _ _ _ C1 C2) as [R1 [R2 R3]].
  split; [reflexivity|]. split; [reflexivity|]. split; [reflexivity|].
  split; [reflexivity|]. split; [reflexivity|].
  unfold repr. cbn [r_cur r_next r_chars]. split; [exact R1|]. split; [exact R2|exact R3].
Qed.

Lemma rinv_sub : forall T lo hi r,
  rinv T lo hi r ->
  exists r' sub, reset_buff_into_sub_reader r = Val (r', sub) /\
                 rinv T lo hi r' /\ rinv T lo hi sub /\
                 (r_start sub, r_len sub) = current_range r.
Proof.
  intros T lo hi r H.
  pose proof (rinv_reset _ _ _ _ H) as Hreset.
  destruct H as [A [P [Bf [S [B [E1 [E2 [E3 [E4 [E5 [E6 [R [L1 L2]]]]]]]]]]]]].
  assert (Hlen : r_len r = bytes P + bytes Bf + bytes S).
  { rewrite <- E4, E2. rewrite !bytes_app. lia. }
  assert (Hct : current_text r = Some Bf).
  { unfold current_text. rewrite E2. apply slice_app; lia. }
  assert (Htk : take_bytes (r_text r) (r_pos r) = Some P).
  { rewrite E2, <- E5. apply take_bytes_app. }
  destruct (new_with_range_ok Bf (r_start r + r_pos r)) as [sub Hsub].
  assert (Hcr : current_range r = (r_start r + r_pos r, bytes Bf)).
  { unfold current_range. rewrite E6. reflexivity. }
  destruct (new_with_range_fields _ _ _ _ Hsub) as [F1 [F2 [F3 [F4 [F5 F6]]]]].
  assert (Hs : rinv T lo hi sub).
  { exists (A ++ P), [], [], Bf, (S ++ B). cbn [app bytes].
    split; [subst T; rewrite <- !app_assoc; reflexivity|].
    split; [exact F1|]. split; [rewrite bytes_app; lia|]. split; [rewrite F1, F3; reflexivity|].
    split; [lia|]. split; [lia|]. split; [exact F6|]. split; lia. }
  unfold reset_buff_into_sub_reader. rewrite Hct, Hcr. unfold sr_start, sr_len. cbn [fst snd].
  rewrite Hsub, Htk.
  destruct (last_char P) as [pc|].
  - eexists _, _. split; [reflexivity|]. split; [exact Hreset|]. split.
    + apply rinv_set_prev. exact Hs.
    + cbn [set_prev r_start r_len]. rewrite F2, F3. reflexivity.
  - eexists _, _. split; [reflexivity|]. split; [exact Hreset|]. split; [exact Hs|].
    rewrite F2, F3. reflexivity.
Qed.

(** the loops stop for the right reason: [loop_fuel] never runs out *)
Lemma eat_go_stops : forall fuel p limit r n P Bf S,
  linv r P Bf S -> (length S < fuel)%nat ->
  is_eof (fst (eat_go fuel p limit r n)) = true \/
  p (r_cur (fst (eat_go fuel p limit r n))) = false \/
  (exists k, limit = Some k /\ k <= snd (eat_go fuel p limit r n)).
Proof.
  induction fuel as [|f IH]; intros p limit r n P Bf S HR HL; [inversion HL|].
  cbn [eat_go].
  destruct (negb (is_eof r) && p (r_cur r) && match limit with Some k => n <? k | None => true end) eqn:G.
  - apply andb_true_iff in G. destruct G as [G G3]. apply andb_true_iff in G. destruct G as [G1 G2].
    apply negb_true_iff in G1.
    destruct (linv_not_eof _ _ _ _ HR G1) as [c [S' [ES EC]]]. subst S.
    pose proof (linv_bump _ _ _ _ _ HR G1) as R'. cbn [length] in HL.
    apply (IH p limit (bump r) (n + 1) P (Bf ++ [c]) S' R'). lia.
  - cbn [fst snd]. apply andb_false_iff in G. destruct G as [G|G].
    + apply andb_false_iff in G. destruct G as [G|G].
      * left. apply negb_false_iff in G. exact G.
      * right. left. exact G.
    + right. right. destruct limit as [k|]; [|discriminate].
      exists k. split; [reflexivity|]. apply N.ltb_ge in G. exact G.
Qed.

(* ------------------------------------------------------------------ emit_range *)

Lemma last_opt_In : forall l x, last_opt l = Some x -> In x l.
Proof.
  induction l as [|a l IH]; intros x H; [discriminate|].
  cbn [last_opt] in H. destruct l as [|b l].
  - inversion H; subst. left; reflexivity.
  - right. apply IH. exact H.
Qed.

Lemma Forall_set_last : forall (P : item -> Prop) l x,
  Forall P l -> P x -> Forall P (set_last l x).
Proof.
  induction l as [|a l IH]; intros x Hl Hx; [constructor|].
  cbn [set_last]. destruct l as [|b l].
  - constructor; [exact Hx|constructor].
  - inversion Hl; subst. constructor; [assumption|]. apply IH; assumption.
Qed.

Lemma item_ok_of_range : forall T lo hi rg k,
  range_ok T lo hi rg ->
  item_ok T lo hi {| i_start := sr_start rg; i_end := sr_end rg; i_kind := k |}.
Proof.
  intros T lo hi rg k [H1 [H2 [H3 H4]]]. unfold item_ok. cbn [i_start i_end].
  split; [exact H1|]. split; [unfold sr_end, sr_start, sr_len; lia|]. split; [exact H2|]. split; assumption.
Qed.

Lemma item_ok_cover : forall T lo hi a rg,
  item_ok T lo hi a -> range_ok T lo hi rg -> item_ok T lo hi (cover a (sr_start rg) (sr_end rg)).
Proof.
  intros T lo hi a rg [A1 [A2 [A3 [A4 A5]]]] [H1 [H2 [H3 H4]]].
  assert (H0 : sr_start rg <= sr_end rg) by (unfold sr_end, sr_start, sr_len; lia).
  unfold item_ok, cover. cbn [i_start i_end].
  destruct (N.min_spec (i_start a) (sr_start rg)) as [[M1 E]|[M1 E]];
  destruct (N.max_spec (i_end a) (sr_end rg)) as [[M2 F]|[M2 F]];
  rewrite E, F.
  - split; [lia|]. split; [lia|]. split; [lia|]. split; assumption.
  - split; [lia|]. split; [lia|]. split; [lia|]. split; assumption.
  - split; [lia|]. split; [lia|]. split; [lia|]. split; assumption.
  - split; [lia|]. split; [lia|]. split; [lia|]. split; assumption.
Qed.

Lemma emit_range_ok : forall T lo hi cursor results rg k,
  Forall (item_ok T lo hi) results -> range_ok T lo hi rg ->
  Forall (item_ok T lo hi) (emit_range cursor results rg k).
Proof.
  intros T lo hi cursor results rg k Hr Hrg. unfold emit_range.
  match goal with |- context [if ?c then _ else _] => destruct c end; [|exact Hr].
  destruct (last_opt results) as [lst|] eqn:L.
  - destruct ((i_kind lst =? k) && (i_end lst =? sr_start rg)).
    + apply Forall_set_last; [exact Hr|].
      apply item_ok_cover; [|exact Hrg].
      apply (proj1 (Forall_forall _ _) Hr). apply last_opt_In. exact L.
    + apply Forall_app. split; [exact Hr|]. constructor; [|constructor].
      apply item_ok_of_range. exact Hrg.
  - apply Forall_app. split; [exact Hr|]. constructor; [|constructor].
    apply item_ok_of_range. exact Hrg.
Qed.

(* ------------------------------------------------------------------ the machine *)

Definition minv (T : text) (lo hi : N) (st : mstate) : Prop :=
  Forall (rinv T lo hi) (m_readers st) /\ Forall (item_ok T lo hi) (m_results st).

Lemma Forall_set_nth : forall {A} (P : A -> Prop) l i x,
  Forall P l -> P x -> Forall P (set_nth l i x).
Proof.
  induction l as [|a l IH]; intros i x Hl Hx; [destruct i; constructor|].
  inversion Hl; subst. destruct i; cbn [set_nth]; constructor; try assumption.
  apply IH; assumption.
Qed.

Lemma Forall_nth_error : forall {A} (P : A -> Prop) l i x,
  Forall P l -> nth_error l i = Some x -> P x.
Proof.
  intros A P l i x Hl Hn. apply nth_error_In in Hn.
  apply (proj1 (Forall_forall _ _) Hl). exact Hn.
Qed.

Lemma Forall_firstn_items : forall (P : item -> Prop) n l, Forall P l -> Forall P (firstn_items n l).
Proof.
  induction n as [|n IH]; intros l H; [constructor|].
  destruct l as [|a l]; cbn [firstn_items]; [constructor|].
  inversion H; subst. constructor; [assumption|]. apply IH; assumption.
Qed.

Lemma minv_step : forall T lo hi cursor st o st',
  minv T lo hi st -> step T lo hi cursor st o = Val st' -> minv T lo hi st'.
Proof.
  intros T lo hi cursor st o st' [HR HI] H. destruct o; cbn [step] in H.
  - (* ONew *)
    destruct ((lo <=? a) && (a <=? b) && (b <=? hi)) eqn:G; [|discriminate].
    apply andb_true_iff in G. destruct G as [G G3]. apply andb_true_iff in G. destruct G as [G1 G2].
    apply N.leb_le in G1, G2, G3.
    destruct (slice T a b) as [t|] eqn:S; [|discriminate].
    destruct (new_with_range t a (b - a)) as [r| |] eqn:Nw; try discriminate.
    inversion H; subst st'. split; cbn [m_readers m_results]; [|exact HI].
    apply Forall_app. split; [exact HR|]. constructor; [|constructor].
    eapply rinv_new; eassumption.
  - (* OR *)
    destruct (nth_error (m_readers st) i) as [r|] eqn:Nt; [|discriminate].
    destruct (run_rop o r) as [r' c] eqn:RR. inversion H; subst st'.
    split; cbn [m_readers m_results]; [|exact HI].
    apply Forall_set_nth; [exact HR|].
    replace r' with (fst (run_rop o r)) by (rewrite RR; reflexivity).
    apply rinv_run_rop. eapply Forall_nth_error; eassumption.
  - (* OClone *)
    destruct (nth_error (m_readers st) i) as [r|] eqn:Nt; [|discriminate].
    inversion H; subst st'. split; cbn [m_readers m_results]; [|exact HI].
    apply Forall_app. split; [exact HR|]. constructor; [|constructor].
    eapply Forall_nth_error; eassumption.
  - (* ORestore *)
    destruct (nth_error (m_readers st) i) as [ri|] eqn:Ni; [|discriminate].
    destruct (nth_error (m_readers st) j) as [rj|] eqn:Nj; [|discriminate].
    inversion H; subst st'. split; cbn [m_readers m_results]; [|exact HI].
    apply Forall_set_nth; [exact HR|]. eapply Forall_nth_error; eassumption.
  - (* OSub *)
    destruct (nth_error (m_readers st) i) as [r|] eqn:Nt; [|discriminate].
    assert (Hr : rinv T lo hi r) by (eapply Forall_nth_error; eassumption).
    destruct (rinv_sub _ _ _ _ Hr) as [r' [sub [E [H1 [H2 _]]]]]. rewrite E in H.
    inversion H; subst st'. split; cbn [m_readers m_results]; [|exact HI].
    apply Forall_app. split; [apply Forall_set_nth; assumption|]. constructor; [assumption|constructor].
  - (* OEmit *)
    destruct (nth_error (m_readers st) i) as [r|] eqn:Nt; [|discriminate].
    assert (Hr : rinv T lo hi r) by (eapply Forall_nth_error; eassumption).
    inversion H; subst st'. split; cbn [m_readers m_results].
    + apply Forall_set_nth; [exact HR|]. apply rinv_reset. exact Hr.
    + apply emit_range_ok; [exact HI|]. apply rinv_current_range. exact Hr.
  - (* OEmitSpan *)
    destruct (nth_error (m_readers st) i) as [ri|] eqn:Ni; [|discriminate].
    destruct (nth_error (m_readers st) j) as [rj|] eqn:Nj; [|discriminate].
    assert (Hri : rinv T lo hi ri) by (eapply Forall_nth_error; eassumption).
    assert (Hrj : rinv T lo hi rj) by (eapply Forall_nth_error; eassumption).
    destruct (proj1 (rinv_current_range _ _ _ _ Hri)) as [A1 [A2 [A3 A4]]].
    destruct (proj1 (rinv_current_range _ _ _ _ Hrj)) as [B1 [B2 [B3 B4]]].
    remember (sr_start (current_range ri)) as s eqn:Es.
    remember (sr_end (current_range rj)) as e eqn:Ee.
    destruct (N.leb_spec s e) as [L|L]; [|discriminate].
    injection H as H'. subst st'. split; cbn [m_readers m_results]; [exact HR|].
    apply emit_range_ok; [exact HI|].
    unfold range_ok. unfold sr_end, sr_start, sr_len. cbn [fst snd].
    replace (s + (e - s)) with e by lia.
    split; [exact A1|]. split; [exact B2|]. split; [exact A3|exact B4].
  - (* OEmitTail *)
    destruct (nth_error (m_readers st) i) as [r|] eqn:Nt; [|discriminate].
    assert (Hr : rinv T lo hi r) by (eapply Forall_nth_error; eassumption).
    destruct (rinv_tail_range _ _ _ _ Hr) as [rg [E [Hrg _]]]. rewrite E in H.
    inversion H; subst st'. split; cbn [m_readers m_results]; [exact HR|].
    apply emit_range_ok; assumption.
  - (* OTruncate *)
    inversion H; subst st'. split; cbn [m_readers m_results]; [exact HR|].
    apply Forall_firstn_items. exact HI.
Qed.

Lemma minv_run : forall T lo hi cursor ops st st',
  minv T lo hi st -> run T lo hi cursor st ops = Val st' -> minv T lo hi st'.
Proof.
  intros T lo hi cursor. induction ops as [|o ops IH]; intros st st' Hm H; cbn [run] in H.
  - inversion H; subst. exact Hm.
  - destruct (step T lo hi cursor st o) as [st1| |] eqn:S; try discriminate.
    eapply IH; [|exact H]. eapply minv_step; eassumption.
Qed.

Lemma minv_init : forall T lo hi, minv T lo hi init.
Proof. intros. split; constructor. Qed.

(** a step panics only on the two client-side assertions: [from_start_end] with
    [start > end] (OEmitSpan) and slicing the text off a character boundary when a reader is
    created (ONew); reader operations, sub-readers and [tail_range] never panic *)
Definition may_panic (o : op) : bool :=
  match o with ONew _ _ | OEmitSpan _ _ _ => true | _ => false end.

Lemma step_no_panic : forall T lo hi cursor st o,
  minv T lo hi st -> may_panic o = false -> step T lo hi cursor st o <> Panic.
Proof.
  intros T lo hi cursor st o [HR HI] Hp. destruct o; cbn [may_panic] in Hp; try discriminate; cbn [step].
  - destruct (nth_error (m_readers st) i); [|discriminate]. destruct (run_rop o r). discriminate.
  - destruct (nth_error (m_readers st) i); discriminate.
  - destruct (nth_error (m_readers st) i); destruct (nth_error (m_readers st) j); discriminate.
  - destruct (nth_error (m_readers st) i) as [r|] eqn:Nt; [|discriminate].
    assert (Hr : rinv T lo hi r) by (eapply Forall_nth_error; eassumption).
    destruct (rinv_sub _ _ _ _ Hr) as [r' [sub [E _]]]. rewrite E. discriminate.
  - destruct (nth_error (m_readers st) i); discriminate.
  - destruct (nth_error (m_readers st) i) as [r|] eqn:Nt; [|discriminate].
    assert (Hr : rinv T lo hi r) by (eapply Forall_nth_error; eassumption).
    destruct (rinv_tail_range _ _ _ _ Hr) as [rg [E _]]. rewrite E. discriminate.
Qed.

Lemma run_no_panic : forall T lo hi cursor ops st,
  minv T lo hi st -> forallb (fun o => negb (may_panic o)) ops = true ->
  run T lo hi cursor st ops <> Panic.
Proof.
  intros T lo hi cursor. induction ops as [|o ops IH]; intros st Hm Hf; cbn [run]; [discriminate|].
  cbn [forallb] in Hf. apply andb_true_iff in Hf. destruct Hf as [Ho Hf].
  apply negb_true_iff in Ho.
  destruct (step T lo hi cursor st o) as [st1| |] eqn:S; [| discriminate |].
  - apply IH; [|exact Hf]. eapply minv_step; eassumption.
  - exfalso. eapply step_no_panic; eassumption.
Qed.

(* ------------------------------------------------------------------ sort_result *)

Definition key_le (a b : item) : Prop := key_leb a b = true.

Lemma key_leb_spec : forall a b,
  key_leb a b = true <->
  (i_start a < i_start b \/
   (i_start a = i_start b /\ (i_len b < i_len a \/ (i_len a = i_len b /\ nonscope a <= nonscope b)))).
Proof.
  intros a b. unfold key_leb.
  rewrite !orb_true_iff, !andb_true_iff, !orb_true_iff, !andb_true_iff.
  rewrite !N.ltb_lt, !N.eqb_eq, N.leb_le. tauto.
Qed.

Lemma key_leb_total : forall a b, key_leb a b = false -> key_leb b a = true.
Proof.
  intros a b H. apply key_leb_spec.
  destruct (key_leb a b) eqn:E; [discriminate|].
  assert (N : ~ (i_start a < i_start b \/
   (i_start a = i_start b /\ (i_len b < i_len a \/ (i_len a = i_len b /\ nonscope a <= nonscope b))))).
  { intro X. apply key_leb_spec in X. congruence. }
  lia.
Qed.

Lemma key_le_trans : forall a b c, key_le a b -> key_le b c -> key_le a c.
Proof.
  unfold key_le. intros a b c H1 H2.
  apply key_leb_spec in H1. apply key_leb_spec in H2. apply key_leb_spec. lia.
Qed.

Lemma key_le_start : forall a b, key_le a b -> i_start a <= i_start b.
Proof. unfold key_le. intros a b H. apply key_leb_spec in H. lia. Qed.

Lemma insert_left_perm : forall x l, Permutation (x :: l) (insert_left x l).
Proof.
  induction l as [|a l IH]; cbn [insert_left]; [apply Permutation_refl|].
  destruct (key_leb x a); [apply Permutation_refl|].
  eapply Permutation_trans; [apply perm_swap|]. apply perm_skip. exact IH.
Qed.

Lemma sort_result_perm : forall l, Permutation l (sort_result l).
Proof.
  induction l as [|a l IH]; cbn [sort_result]; [apply Permutation_refl|].
  eapply Permutation_trans; [apply perm_skip; exact IH|]. apply insert_left_perm.
Qed.

Lemma insert_left_sorted : forall x l, Sorted key_le l -> Sorted key_le (insert_left x l).
Proof.
  induction l as [|a l IH]; intros H; cbn [insert_left].
  - constructor; constructor.
  - destruct (key_leb x a) eqn:E.
    + constructor; [exact H|]. constructor. exact E.
    + inversion H as [|? ? Hs Hh]; subst. constructor; [apply IH; exact Hs|].
      destruct l as [|b l]; cbn [insert_left].
      * constructor. apply key_leb_total. exact E.
      * destruct (key_leb x b).
        -- constructor. apply key_leb_total. exact E.
        -- inversion Hh; subst. constructor. assumption.
Qed.

Lemma sort_result_sorted : forall l, Sorted key_le (sort_result l).
Proof.
  induction l as [|a l IH]; cbn [sort_result]; [constructor|].
  apply insert_left_sorted. exact IH.
Qed.

Lemma sort_result_strongly_sorted : forall l, StronglySorted key_le (sort_result l).
Proof.
  intros l. apply Sorted_StronglySorted.
  - intros a b c. apply key_le_trans.
  - apply sort_result_sorted.
Qed.

Lemma StronglySorted_weaken : forall (R R' : item -> item -> Prop) l,
  (forall a b, R a b -> R' a b) -> StronglySorted R l -> StronglySorted R' l.
Proof.
  intros R R' l HW H. induction H as [|a l Hs IH Hf]; constructor; [exact IH|].
  eapply Forall_impl; [|exact Hf]. intros b. apply HW.
Qed.

(** stability: items with equal keys keep their relative order — the sorted list is THE
    stable sort, which is what [slice::sort_by_key] computes *)
Lemma insert_left_stable_head : forall x l,
  Forall (fun a => key_leb x a = true) l -> insert_left x l = x :: l.
Proof.
  intros x l H. destruct l as [|a l]; [reflexivity|].
  inversion H; subst. cbn [insert_left]. rewrite H2. reflexivity.
Qed.

(* ------------------------------------------------------------------ desc_to_lines *)

Lemma slice_of_boundaries : forall T a b,
  boundaryb T a = true -> boundaryb T b = true -> a <= b -> exists s, slice T a b = Some s.
Proof.
  induction T as [|c T IH]; intros a b Ha Hb L; unfold boundaryb in Ha, Hb.
  - cbn [take_bytes] in Ha, Hb.
    destruct (N.eqb_spec a 0) as [Ea|Ea]; [|discriminate].
    destruct (N.eqb_spec b 0) as [Eb|Eb]; [|discriminate].
    subst. exists []. reflexivity.
  - destruct (N.eqb_spec a 0) as [Ea|Ea].
    + subst a. unfold slice. destruct (N.ltb_spec b 0) as [X|_]; [lia|].
      rewrite drop_bytes_0. rewrite N.sub_0_r.
      destruct (take_bytes (c :: T) b) as [s|]; [exists s; reflexivity|discriminate].
    + assert (Eb : b <> 0) by lia.
      cbn [take_bytes] in Ha, Hb.
      destruct (N.eqb_spec a 0) as [X|_]; [contradiction|].
      destruct (N.eqb_spec b 0) as [X|_]; [contradiction|].
      destruct (N.ltb_spec a (blen c)) as [X|La]; [discriminate|].
      destruct (N.ltb_spec b (blen c)) as [X|Lb]; [discriminate|].
      destruct (take_bytes T (a - blen c)) as [pa|] eqn:Ta; [|discriminate].
      destruct (take_bytes T (b - blen c)) as [pb|] eqn:Tb; [|discriminate].
      assert (Ha' : boundaryb T (a - blen c) = true) by (unfold boundaryb; rewrite Ta; reflexivity).
      assert (Hb' : boundaryb T (b - blen c) = true) by (unfold boundaryb; rewrite Tb; reflexivity).
      destruct (IH (a - blen c) (b - blen c) Ha' Hb') as [s Hs]; [lia|].
      exists s. unfold slice in *.
      destruct (N.ltb_spec b a) as [X|_]; [lia|].
      destruct (N.ltb_spec (b - blen c) (a - blen c)) as [X|_]; [lia|].
      cbn [drop_bytes].
      destruct (N.eqb_spec a 0) as [X|_]; [contradiction|].
      destruct (N.ltb_spec a (blen c)) as [X|_]; [lia|].
      replace (b - a) with (b - blen c - (a - blen c)) by lia. exact Hs.
Qed.

Definition tok_ok (T : text) (lo hi : N) (tk : tok) : Prop :=
  range_ok T lo hi (t_start tk, t_len tk).

(** a line is inside the region on character boundaries, or it is the sentinel [EMPTY] that
    an end-of-line token pushes when no start/detail token preceded it *)
Definition line_ok' (T : text) (lo hi : N) (l : srange) : Prop :=
  l = EMPTY \/ range_ok T lo hi l.

Lemma line_text_some : forall T lo hi l, line_ok' T lo hi l -> exists lt, line_text T l = Some lt.
Proof.
  intros T lo hi l [E|[H1 [H2 [H3 H4]]]].
  - subst l. exists []. unfold line_text, EMPTY, sr_start, sr_end, slice. cbn [fst snd].
    rewrite N.add_0_r. cbn. rewrite drop_bytes_0. apply take_bytes_0.
  - unfold line_text. apply slice_of_boundaries; try assumption.
    unfold sr_end, sr_start, sr_len. lia.
Qed.

Lemma count_while_prefix : forall p (t : text) k,
  k <= count_while p t ->
  exists (w rest : text), t = w ++ rest /\ forallb p w = true /\ N.of_nat (length w) = k.
Proof.
  induction t as [|c t IH]; intros k Hk; cbn [count_while] in Hk.
  - exists [], []. split; [reflexivity|]. split; [reflexivity|]. cbn. lia.
  - destruct (N.eqb_spec k 0) as [E|E].
    + exists [], (c :: t). split; [reflexivity|]. split; [reflexivity|]. cbn. lia.
    + destruct (p c) eqn:Pc; [|lia].
      destruct (IH (k - 1)) as [w [rest [E1 [E2 E3]]]]; [lia|].
      exists (c :: w), rest. split; [cbn [app]; f_equal; exact E1|].
      split; [cbn [forallb]; rewrite Pc, E2; reflexivity|].
      cbn [length]. lia.
Qed.

Lemma forallb_count_while : forall p (t : text), forallb p t = true -> count_while p t = N.of_nat (length t).
Proof.
  induction t as [|c t IH]; intros H; [reflexivity|].
  cbn [forallb] in H. apply andb_true_iff in H. destruct H as [Hc Ht].
  cbn [count_while length]. rewrite Hc, (IH Ht). lia.
Qed.

Lemma ascii_bytes_len : forall (w : text), forallb (fun c => c <? 128) w = true -> bytes w = N.of_nat (length w).
Proof.
  induction w as [|c w IH]; intros H; [reflexivity|].
  cbn [forallb] in H. apply andb_true_iff in H. destruct H as [Hc Hw].
  cbn [bytes length]. rewrite (ascii_blen _ Hc), (IH Hw). lia.
Qed.

Lemma forallb_impl : forall (p q : cp -> bool) w,
  (forall c, p c = true -> q c = true) -> forallb p w = true -> forallb q w = true.
Proof.
  intros p q w Hpq. induction w as [|c w IH]; intros H; [reflexivity|].
  cbn [forallb] in *. apply andb_true_iff in H. destruct H as [Hc Hw].
  rewrite (Hpq _ Hc), (IH Hw). reflexivity.
Qed.

Lemma small_is_ascii : forall c, c < 128 -> (c <? 128) = true.
Proof. intros c H. apply N.ltb_lt. exact H. Qed.

Lemma in_table_forallb : forall (q : cp -> bool) tbl c,
  forallb q tbl = true -> in_table tbl c = true -> q c = true.
Proof.
  intros q tbl c Hf Hin. unfold in_table in Hin. apply existsb_exists in Hin.
  destruct Hin as [x [Hx Hc]]. apply N.eqb_eq in Hc. subst x.
  apply (proj1 (forallb_forall _ _) Hf). exact Hx.
Qed.

(** TABLE OBLIGATIONS (re-checked on every run against the regenerated Gen/C37_Classes.v).
    [desc_to_lines] counts the common indentation in CHARACTERS ([take_while(is_ws).count()]) and strips
    it in BYTES ([start_offset += common_indent]); that is only correct while every [is_ws]
    character (and every [is_ascii_whitespace] character, for blank lines) is ONE byte long. *)
Lemma is_ws_chars_one_byte : forallb (fun c => blen c =? 1) is_ws_chars = true.
Proof. vm_compute. reflexivity. Qed.

Lemma ascii_ws_chars_one_byte : forallb (fun c => blen c =? 1) ascii_ws_chars = true.
Proof. vm_compute. reflexivity. Qed.

Lemma blen_one_ascii : forall c, (blen c =? 1) = true -> (c <? 128) = true.
Proof.
  intros c H. apply N.eqb_eq in H. unfold blen in H.
  destruct (c <? 128); [reflexivity|].
  destruct (c <? 2048); [discriminate|]. destruct (c <? 65536); discriminate.
Qed.

Lemma is_ws_ascii : forall c, is_ws c = true -> (c <? 128) = true.
Proof.
  intros c H. apply blen_one_ascii.
  exact (in_table_forallb _ _ _ is_ws_chars_one_byte H).
Qed.

Lemma dash_ascii : forall c, (c =? DASH) = true -> (c <? 128) = true.
Proof. intros c H. apply N.eqb_eq in H. apply small_is_ascii. unfold DASH in H. lia. Qed.

Lemma is_ascii_whitespace_ascii : forall c, is_ascii_whitespace c = true -> (c <? 128) = true.
Proof.
  intros c H. apply blen_one_ascii.
  exact (in_table_forallb _ _ _ ascii_ws_chars_one_byte H).
Qed.

(** an ASCII prefix of [k] characters of the slice [a..b] ends on a boundary inside it *)
Lemma ascii_prefix_boundary : forall (T : text) a b (w rest : text),
  slice T a b = Some (w ++ rest) -> forallb (fun c => c <? 128) w = true ->
  boundaryb T (a + N.of_nat (length w)) = true /\ a + N.of_nat (length w) <= b.
Proof.
  intros T a b w rest Hs Hw.
  destruct (slice_spec _ _ _ _ Hs) as [p [r [E1 [E2 [E3 E4]]]]].
  rewrite <- (ascii_bytes_len _ Hw). split.
  - subst T. replace (p ++ (w ++ rest) ++ r) with (p ++ w ++ (rest ++ r))
      by (rewrite <- !app_assoc; reflexivity).
    apply boundaryb_mid_end. lia.
  - rewrite bytes_app in E4. lia.
Qed.

Definition dinv (T : text) (lo hi : N) (st : dstate) : Prop :=
  Forall (line_ok' T lo hi) (d_lines st) /\ line_ok' T lo hi (d_line st).

Lemma Forall_snoc : forall {A} (P : A -> Prop) l x, Forall P l -> P x -> Forall P (l ++ [x]).
Proof. intros. apply Forall_app. split; [assumption|]. constructor; [assumption|constructor]. Qed.

Lemma merge_ok : forall T lo hi (l : srange) tk,
  line_ok' T lo hi l -> tok_ok T lo hi tk -> sr_end l = t_start tk ->
  range_ok T lo hi (sr_start l, sr_len l + t_len tk).
Proof.
  intros T lo hi [s n] tk Hl [K1 [K2 [K3 K4]]] E.
  unfold range_ok, sr_start, sr_end, sr_len in *. cbn [fst snd] in *.
  assert (X : s + (n + t_len tk) = t_start tk + t_len tk) by lia. rewrite X.
  destruct Hl as [Hl|[A1 [A2 [A3 A4]]]].
  - unfold EMPTY in Hl. injection Hl as Hs Hn. subst s n.
    assert (Y : t_start tk = 0) by lia. rewrite Y in *.
    split; [lia|]. split; [exact K2|]. split; [exact K3|exact K4].
  - split; [exact A1|]. split; [exact K2|]. split; [exact A3|exact K4].
Qed.

Lemma handle_token_ok : forall T lo hi st tk,
  dinv T lo hi st -> tok_ok T lo hi tk ->
  exists st', handle_token T st tk = Val st' /\ dinv T lo hi st'.
Proof.
  intros T lo hi st tk [HL Hl] Htk.
  pose proof Htk as [K1 [K2 [K3 K4]]].
  unfold sr_start, sr_end, sr_len in K1, K2, K3, K4. cbn [fst snd] in K1, K2, K3, K4.
  unfold handle_token. destruct (t_kind tk).
  - (* TDetail *)
    destruct (d_skip st); [eexists; split; [reflexivity|split; assumption]|].
    unfold sr_start at 1. cbn [fst].
    destruct (N.eqb_spec (sr_end (d_line st)) (t_start tk)) as [E|E].
    + eexists. split; [reflexivity|]. split; cbn [d_lines d_line]; [exact HL|]. right.
      unfold sr_len at 2. cbn [snd]. apply merge_ok; assumption.
    + destruct (srange_eqb (d_line st) EMPTY) eqn:Q; cbn [negb].
      * eexists. split; [reflexivity|]. split; cbn [d_lines d_line]; [exact HL|]. right. exact Htk.
      * destruct (line_text_some _ _ _ _ Hl) as [lt Hlt]. rewrite Hlt.
        eexists. split; [reflexivity|]. split; cbn [d_lines d_line].
        -- apply Forall_snoc; assumption.
        -- right. exact Htk.
  - (* TEol *)
    destruct (line_text_some _ _ _ _ Hl) as [lt Hlt]. rewrite Hlt.
    eexists. split; [reflexivity|]. split; cbn [d_lines d_line].
    + apply Forall_snoc; assumption.
    + left. reflexivity.
  - (* TNormalStart *)
    destruct (slice_of_boundaries T (t_start tk) (t_start tk + t_len tk) K3 K4) as [tx Htx]; [lia|].
    rewrite Htx.
    destruct (N.eqb_spec (count_while (fun c => c =? DASH) tx) 3) as [M|M]; cbn [negb].
    + eexists. split; [reflexivity|]. split; cbn [d_lines d_line]; [exact HL|]. right.
      destruct (count_while_prefix (fun c => c =? DASH) tx 3) as [w [rest [E1 [E2 E3]]]]; [lia|].
      subst tx. pose proof (forallb_impl _ _ _ dash_ascii E2) as Hw.
      destruct (ascii_prefix_boundary _ _ _ _ _ Htx Hw) as [B1 B2]. rewrite E3 in B1, B2.
      rewrite M. unfold range_ok, sr_start, sr_end, sr_len. cbn [fst snd].
      replace (t_start tk + 3 + (t_len tk - 3)) with (t_start tk + t_len tk) by lia.
      split; [lia|]. split; [exact K2|]. split; [exact B1|exact K4].
    + eexists. split; [reflexivity|]. split; cbn [d_lines d_line]; [exact HL|]. right.
      unfold range_ok, sr_start, sr_end, sr_len. cbn [fst snd]. rewrite N.add_0_r.
      split; [exact K1|]. split; [lia|]. split; exact K3.
  - (* TContinue *)
    destruct (slice_of_boundaries T (t_start tk) (t_start tk + t_len tk) K3 K4) as [tx Htx]; [lia|].
    rewrite Htx.
    destruct (N.eqb_spec (count_while (fun c => c =? DASH) tx) 3) as [M|M]; cbn [negb].
    + eexists. split; [reflexivity|]. split; cbn [d_lines d_line]; [exact HL|]. right.
      destruct (count_while_prefix (fun c => c =? DASH) tx 3) as [w [rest [E1 [E2 E3]]]]; [lia|].
      subst tx. pose proof (forallb_impl _ _ _ dash_ascii E2) as Hw.
      destruct (ascii_prefix_boundary _ _ _ _ _ Htx Hw) as [B1 B2]. rewrite E3 in B1, B2.
      rewrite M. unfold range_ok, sr_start, sr_end, sr_len. cbn [fst snd].
      replace (t_start tk + 3 + (t_len tk - 3)) with (t_start tk + t_len tk) by lia.
      split; [lia|]. split; [exact K2|]. split; [exact B1|exact K4].
    + eexists. split; [reflexivity|]. split; cbn [d_lines d_line]; [exact HL|]. right.
      unfold range_ok, sr_start, sr_end, sr_len. cbn [fst snd]. rewrite N.add_0_r.
      split; [exact K1|]. split; [lia|]. split; exact K3.
  - (* TOther *)
    eexists. split; [reflexivity|]. split; assumption.
Qed.

Lemma handle_tokens_ok : forall T lo hi tks st,
  dinv T lo hi st -> Forall (tok_ok T lo hi) tks ->
  exists st', handle_tokens T st tks = Val st' /\ dinv T lo hi st'.
Proof.
  intros T lo hi. induction tks as [|tk tks IH]; intros st Hd Ht; cbn [handle_tokens].
  - exists st. split; [reflexivity|exact Hd].
  - inversion Ht; subst.
    destruct (handle_token_ok _ _ _ _ _ Hd H1) as [st1 [E1 D1]]. rewrite E1.
    apply IH; assumption.
Qed.

Lemma strip_front_ok : forall T lo hi ls,
  Forall (line_ok' T lo hi) ls ->
  exists r, strip_front T ls = Val r /\ Forall (line_ok' T lo hi) r.
Proof.
  intros T lo hi. induction ls as [|l ls IH]; intros H; cbn [strip_front].
  - exists []. split; [reflexivity|constructor].
  - inversion H; subst. destruct (line_text_some _ _ _ _ H2) as [lt Hlt]. rewrite Hlt.
    destruct (all_dash (trim_end lt)).
    + apply IH. assumption.
    + exists (l :: ls). split; [reflexivity|exact H].
Qed.

Lemma strip_back_ok : forall T lo hi ls,
  Forall (line_ok' T lo hi) ls ->
  exists r, strip_back T ls = Val r /\ Forall (line_ok' T lo hi) r.
Proof.
  intros T lo hi ls H. unfold strip_back.
  destruct (strip_front_ok T lo hi (rev ls)) as [r [E Hr]]; [apply Forall_rev; exact H|].
  rewrite E. exists (rev r). split; [reflexivity|]. apply Forall_rev. exact Hr.
Qed.

(** the common indent is at most the indent of every non-blank line *)
Definition indent_bound (T : text) (ls : list srange) (c : N) : Prop :=
  forall l lt, In l ls -> line_text T l = Some lt -> is_blank lt = false -> c <= count_while is_ws lt.

Lemma common_indent_ok : forall T lo hi ls acc,
  Forall (line_ok' T lo hi) ls ->
  exists r, common_indent T ls acc = Val r /\
    (forall c, r = Some c -> indent_bound T ls c /\ (forall a, acc = Some a -> c <= a)) /\
    (r = None -> acc = None).
Proof.
  intros T lo hi. induction ls as [|l ls IH]; intros acc H; cbn [common_indent].
  - exists acc. split; [reflexivity|]. split.
    + intros c Hc. split; [intros l lt []|]. intros a Ha. rewrite Hc in Ha. inversion Ha; subst. lia.
    + intros Hn. exact Hn.
  - inversion H; subst. destruct (line_text_some _ _ _ _ H2) as [lt Hlt]. rewrite Hlt.
    destruct (is_blank lt) eqn:Bl.
    + destruct (IH acc H3) as [r [E [P1 P2]]]. exists r. split; [exact E|]. split; [|exact P2].
      intros c Hc. destruct (P1 c Hc) as [Q1 Q2]. split; [|exact Q2].
      intros l' lt' [Hin|Hin] Hlt' Hb.
      * subst l'. rewrite Hlt in Hlt'. inversion Hlt'; subst. congruence.
      * eapply Q1; eassumption.
    + set (acc' := Some (match acc with None => count_while is_ws lt | Some c => N.min c (count_while is_ws lt) end)).
      destruct (IH acc' H3) as [r [E [P1 P2]]]. exists r. split; [exact E|]. split.
      * intros c Hc. destruct (P1 c Hc) as [Q1 Q2]. specialize (Q2 _ eq_refl). split.
        -- intros l' lt' [Hin|Hin] Hlt' Hb.
           ++ subst l'. rewrite Hlt in Hlt'. inversion Hlt'; subst. destruct acc; lia.
           ++ eapply Q1; eassumption.
        -- intros a Ha. subst acc. lia.
      * intros Hn. specialize (P2 Hn). discriminate.
Qed.

Lemma dedent_ok : forall T lo hi ls ci l,
  0 < ci -> indent_bound T ls ci -> In l ls -> line_ok' T lo hi l -> line_ok' T lo hi (dedent ci l).
Proof.
  intros T lo hi ls ci l Hci Hb Hin Hl. unfold dedent.
  destruct (N.leb_spec ci (sr_len l)) as [L|L]; [|exact Hl].
  destruct Hl as [E|Hr].
  - subst l. unfold EMPTY, sr_len in L. cbn in L. lia.
  - right. pose proof Hr as [H1 [H2 [H3 H4]]].
    destruct (line_text_some T lo hi l (or_intror Hr)) as [lt Hlt].
    assert (Hpre : exists w rest, lt = w ++ rest /\ forallb (fun c => c <? 128) w = true /\ N.of_nat (length w) = ci).
    { destruct (is_blank lt) eqn:Bl.
      - unfold is_blank in Bl.
        assert (Hb' : bytes lt = N.of_nat (length lt)).
        { apply ascii_bytes_len. eapply forallb_impl; [|exact Bl]. apply is_ascii_whitespace_ascii. }
        unfold line_text in Hlt. destruct (slice_spec _ _ _ _ Hlt) as [p [r [_ [_ [_ E4]]]]].
        unfold sr_end, sr_start, sr_len in E4, L.
        destruct (count_while_prefix is_ascii_whitespace lt ci) as [w [rest [E1 [E2 E3]]]].
        { rewrite (forallb_count_while _ _ Bl). lia. }
        exists w, rest. split; [exact E1|]. split; [|exact E3].
        eapply forallb_impl; [|exact E2]. apply is_ascii_whitespace_ascii.
      - destruct (count_while_prefix is_ws lt ci) as [w [rest [E1 [E2 E3]]]].
        { eapply Hb; eassumption. }
        exists w, rest. split; [exact E1|]. split; [|exact E3].
        eapply forallb_impl; [|exact E2]. apply is_ws_ascii. }
    destruct Hpre as [w [rest [E1 [E2 E3]]]]. subst lt.
    unfold line_text in Hlt.
    destruct (ascii_prefix_boundary _ _ _ _ _ Hlt E2) as [B1 B2]. rewrite E3 in B1, B2.
    unfold range_ok, sr_start, sr_end, sr_len in *. cbn [fst snd].
    replace (fst l + ci + (snd l - ci)) with (fst l + snd l) by lia.
    split; [lia|]. split; [exact H2|]. split; [exact B1|exact H4].
Qed.

Lemma cut_at_cursor_ok : forall (P : srange -> Prop) c ls, Forall P ls -> Forall P (cut_at_cursor c ls).
Proof.
  intros P c. induction ls as [|l ls IH]; intros H; cbn [cut_at_cursor]; [constructor|].
  inversion H; subst. destruct (c <? sr_start l); [constructor|]. constructor; [assumption|].
  apply IH. assumption.
Qed.

Lemma Forall_map_dedent : forall T lo hi ci ls,
  0 < ci -> indent_bound T ls ci -> Forall (line_ok' T lo hi) ls ->
  Forall (line_ok' T lo hi) (map (dedent ci) ls).
Proof.
  intros T lo hi ci ls Hci Hb H. apply Forall_forall. intros x Hx.
  apply in_map_iff in Hx. destruct Hx as [l [E Hin]]. subst x.
  eapply dedent_ok; try eassumption. apply (proj1 (Forall_forall _ _) H). exact Hin.
Qed.

Definition prev_toks (prev : option tok) : list tok :=
  match prev with Some p => [p] | None => [] end.

Lemma desc_to_lines_ok : forall T lo hi prev tks cursor,
  Forall (tok_ok T lo hi) (prev_toks prev ++ tks) ->
  exists ls, desc_to_lines T prev tks cursor = Val ls /\ Forall (line_ok' T lo hi) ls.
Proof.
  intros T lo hi prev tks cursor Hall.
  apply Forall_app in Hall. destruct Hall as [Hp Ht].
  set (st0 := {| d_lines := []; d_line := EMPTY; d_skip := false; d_seen := false |}).
  assert (D0 : dinv T lo hi st0) by (split; [constructor|left; reflexivity]).
  assert (H1 : exists st1,
    match prev with
    | Some p => match t_kind p with TNormalStart => handle_token T st0 p | _ => Val st0 end
    | None => Val st0
    end = Val st1 /\ dinv T lo hi st1).
  { destruct prev as [p|]; [|exists st0; split; [reflexivity|exact D0]].
    cbn [prev_toks] in Hp. inversion Hp; subst.
    destruct (t_kind p); try (exists st0; split; [reflexivity|exact D0]).
    apply handle_token_ok; assumption. }
  destruct H1 as [st1 [E1 D1]].
  unfold desc_to_lines. fold st0. rewrite E1.
  destruct (handle_tokens_ok _ _ _ _ _ D1 Ht) as [st2 [E2 [DL Dl]]]. rewrite E2.
  assert (Hfin : exists lines seen,
    (if negb (sr_len (d_line st2) =? 0) then
       match line_text T (d_line st2) with
       | None => Panic
       | Some lt => Val (d_lines st2 ++ [d_line st2], d_seen st2 || negb (all_dash (trim_end lt)))
       end
     else Val (d_lines st2, d_seen st2)) = Val (lines, seen) /\ Forall (line_ok' T lo hi) lines).
  { destruct (negb (sr_len (d_line st2) =? 0)).
    - destruct (line_text_some _ _ _ _ Dl) as [lt Hlt]. rewrite Hlt.
      eexists _, _. split; [reflexivity|]. apply Forall_snoc; assumption.
    - eexists _, _. split; [reflexivity|]. exact DL. }
  destruct Hfin as [lines [seen [E3 HL]]]. rewrite E3.
  destruct (negb seen); [exists []; split; [reflexivity|constructor]|].
  destruct (strip_front_ok _ _ _ _ HL) as [l1 [E4 H4]]. rewrite E4.
  destruct (strip_back_ok _ _ _ _ H4) as [l2 [E5 H5]]. rewrite E5.
  destruct (common_indent_ok T lo hi l2 None H5) as [ci [E6 [P1 P2]]]. rewrite E6.
  eexists. split; [reflexivity|].
  assert (H6 : Forall (line_ok' T lo hi)
            (if 0 <? match ci with Some c => c | None => 0 end
             then map (dedent match ci with Some c => c | None => 0 end) l2 else l2)).
  { destruct ci as [c|].
    - destruct (N.ltb_spec 0 c) as [L|L]; [|exact H5].
      destruct (P1 c eq_refl) as [Q _]. apply Forall_map_dedent; assumption.
    - cbn. exact H5. }
  destruct cursor as [c|]; [apply cut_at_cursor_ok|]; exact H6.
Qed.

(* ------------------------------------------------------------------ statements of Props.v *)

Lemma reader_range_in_bounds : forall (T : text) (lo hi : N) (cursor : option N) (ops : list op) (st : mstate),
  run T lo hi cursor init ops = Val st ->
  forall r, In r (m_readers st) ->
    (range_ok T lo hi (current_range r) /\ in_own_range r (current_range r)) /\
    (exists rg, tail_range r = Val rg /\ range_ok T lo hi rg /\ in_own_range r rg).
Proof.
  intros T lo hi cursor ops st H r Hin.
  destruct (minv_run _ _ _ _ _ _ _ (minv_init T lo hi) H) as [HR _].
  pose proof (proj1 (Forall_forall _ _) HR r Hin) as Hr.
  split; [apply rinv_current_range; exact Hr|apply rinv_tail_range; exact Hr].
Qed.

Lemma emitted_items_in_bounds : forall (T : text) (lo hi : N) (cursor : option N) (ops : list op) (st : mstate),
  run T lo hi cursor init ops = Val st -> Forall (item_ok T lo hi) (m_results st).
Proof.
  intros T lo hi cursor ops st H.
  exact (proj2 (minv_run _ _ _ _ _ _ _ (minv_init T lo hi) H)).
Qed.

Lemma kernel_never_panics : forall (T : text) (lo hi : N) (cursor : option N) (ops : list op),
  forallb (fun o => negb (may_panic o)) ops = true -> run T lo hi cursor init ops <> Panic.
Proof. intros T lo hi cursor ops Hf. exact (run_no_panic T lo hi cursor ops init (minv_init T lo hi) Hf). Qed.

Lemma eat_loops_complete : forall (T : text) (lo hi : N) (r : reader) (p : cp -> bool) (limit : option N),
  rinv T lo hi r ->
  is_eof (fst (eat_go (loop_fuel r) p limit r 0)) = true \/
  p (r_cur (fst (eat_go (loop_fuel r) p limit r 0))) = false \/
  (exists k, limit = Some k /\ k <= snd (eat_go (loop_fuel r) p limit r 0)).
Proof.
  intros T lo hi r p limit H. destruct (rinv_linv _ _ _ _ H) as [P [Bf [S LI]]].
  apply (eat_go_stops _ p limit r 0 P Bf S LI).
  destruct LI as [_ [_ [_ [_ [_ R3]]]]]. unfold loop_fuel. rewrite R3.
  destruct S as [|x [|y S]]; cbn [tl length]; lia.
Qed.

Lemma sort_result_starts_sorted : forall (l : list item),
  StronglySorted (fun a b => i_start a <= i_start b) (sort_result l).
Proof.
  intros l. eapply StronglySorted_weaken; [|apply sort_result_strongly_sorted].
  exact key_le_start.
Qed.

Lemma sort_result_in_bounds : forall (T : text) (lo hi : N) (l : list item),
  Forall (item_ok T lo hi) l -> Forall (item_ok T lo hi) (sort_result l).
Proof.
  intros T lo hi l H. eapply Permutation_Forall; [apply sort_result_perm|exact H].
Qed.
