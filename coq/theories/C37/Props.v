(** C37/Props.v — property theorems only.  Each is closed by [exact] of a lemma of Proofs.v.

    The description parsers (Markdown, MyST, reStructuredText) are CLIENTS of the kernel
    modelled in Model.v: they create readers on the lines computed by [desc_to_lines], drive
    them with [bump]/[reset_buff]/[eat_*]/clone-and-rollback/sub-readers, and report ranges
    only through [emit]/[emit_range]; [parse] finally sorts the items.  The theorems below
    quantify over ALL texts, ALL regions and ALL client programs, so they hold for the three
    present grammars and for any rewrite of them that keeps going through this API. *)
From Coq Require Import Sorting.Permutation Sorting.Sorted.
From EV Require Import C37.Model C37.Proofs.
Local Open Scope N_scope.

(** Whatever a client does with readers created inside the region [lo, hi] of the text
    (any sequence of reader operations, clones, rollbacks, sub-readers, emissions,
    truncations), every reader's [current_range] and [tail_range] lies inside the region
    AND inside the reader's own valid range, on character boundaries of the text; and
    [tail_range] does not panic. *)
Theorem reader_range_in_bounds : forall (T : text) (lo hi : N) (cursor : option N) (ops : list op) (st : mstate),
  run T lo hi cursor init ops = Val st ->
  forall r, In r (m_readers st) ->
    (range_ok T lo hi (current_range r) /\ in_own_range r (current_range r)) /\
    (exists rg, tail_range r = Val rg /\ range_ok T lo hi rg /\ in_own_range r rg).
Proof. exact Proofs.reader_range_in_bounds. Qed.

(** A sub-reader never panics to create, and its valid range is exactly its parent's current
    range (so, by the theorem above, nested sub-readers stay inside every ancestor). *)
Theorem sub_reader_in_parent : forall (T : text) (lo hi : N) (r : reader),
  rinv T lo hi r ->
  exists r' sub, reset_buff_into_sub_reader r = Val (r', sub) /\
                 rinv T lo hi r' /\ rinv T lo hi sub /\
                 (r_start sub, r_len sub) = current_range r.
Proof. exact Proofs.rinv_sub. Qed.

(** The scanning loops ([eat_while], [eat_when], [consume_n_times], [eat_till_end]) stop for
    the reason the Rust [while] condition states — the model's fuel never runs out. *)
Theorem eat_loops_complete : forall (T : text) (lo hi : N) (r : reader) (p : cp -> bool) (limit : option N),
  rinv T lo hi r ->
  is_eof (fst (eat_go (loop_fuel r) p limit r 0)) = true \/
  p (r_cur (fst (eat_go (loop_fuel r) p limit r 0))) = false \/
  (exists k, limit = Some k /\ k <= snd (eat_go (loop_fuel r) p limit r 0)).
Proof. exact Proofs.eat_loops_complete. Qed.

(** [emit_range] (with its coalescing of an adjacent range of the same kind, and with or
    without a cursor) keeps every item inside the region and on character boundaries,
    provided the emitted range is. *)
Theorem emit_range_in_bounds : forall (T : text) (lo hi : N) (cursor : option N) (results : list item) (rg : srange) (k : kind),
  Forall (item_ok T lo hi) results -> range_ok T lo hi rg ->
  Forall (item_ok T lo hi) (emit_range cursor results rg k).
Proof. exact Proofs.emit_range_ok. Qed.

(** Hence every item a client program ever holds is inside the region, on boundaries,
    with start <= end. *)
Theorem emitted_items_in_bounds : forall (T : text) (lo hi : N) (cursor : option N) (ops : list op) (st : mstate),
  run T lo hi cursor init ops = Val st -> Forall (item_ok T lo hi) (m_results st).
Proof. exact Proofs.emitted_items_in_bounds. Qed.

(** Totality of the kernel: the only panics reachable through the API are the two
    client-side assertions (a [from_start_end] with start > end, slicing the text off a
    boundary when creating a reader); reader operations, sub-readers, [tail_range], [emit]
    never panic. *)
Theorem kernel_never_panics : forall (T : text) (lo hi : N) (cursor : option N) (ops : list op),
  forallb (fun o => negb (may_panic o)) ops = true -> run T lo hi cursor init ops <> Panic.
Proof. exact Proofs.kernel_never_panics. Qed.

(** TABLE OBLIGATIONS on today's source (Gen/C37_Classes.v is regenerated from util.rs on every run):
    every character [util::is_ws] accepts, and every [char::is_ascii_whitespace] character, is ONE
    byte long.  [desc_to_lines] needs exactly this: it counts the common indentation in characters
    and strips it in bytes. *)
Theorem is_ws_chars_one_byte : forallb (fun c => blen c =? 1) is_ws_chars = true.
Proof. exact Proofs.is_ws_chars_one_byte. Qed.

Theorem ascii_ws_chars_one_byte : forallb (fun c => blen c =? 1) ascii_ws_chars = true.
Proof. exact Proofs.ascii_ws_chars_one_byte. Qed.

(** [desc_to_lines] never panics (all its slices are on character boundaries) and every
    line it returns lies inside the region spanned by the tokens it walked, on character
    boundaries — or is the sentinel [EMPTY] = (0,0) that an end-of-line token pushes when no
    start/detail token came before it on that line.  (Depends on the two table obligations
    above: with a multi-byte [is_ws] character the stripped indentation would end inside a
    character and the next slice of the line would panic.) *)
Theorem desc_lines_in_desc : forall (T : text) (lo hi : N) (prev : option tok) (tks : list tok) (cursor : option N),
  Forall (tok_ok T lo hi) (prev_toks prev ++ tks) ->
  exists ls, desc_to_lines T prev tks cursor = Val ls /\ Forall (line_ok' T lo hi) ls.
Proof. exact Proofs.desc_to_lines_ok. Qed.

(** [sort_result] sorts by its key (start, longer first, scopes first) ... *)
Theorem sort_result_sorted : forall (l : list item), StronglySorted key_le (sort_result l).
Proof. exact Proofs.sort_result_strongly_sorted. Qed.

(** ... in particular the items come out in order of start offset ... *)
Theorem sort_result_starts_sorted : forall (l : list item),
  StronglySorted (fun a b => i_start a <= i_start b) (sort_result l).
Proof. exact Proofs.sort_result_starts_sorted. Qed.

(** ... it keeps the multiset of items ... *)
Theorem sort_result_permutation : forall (l : list item), Permutation l (sort_result l).
Proof. exact Proofs.sort_result_perm. Qed.

(** ... and therefore keeps them in bounds. *)
Theorem sort_result_in_bounds : forall (T : text) (lo hi : N) (l : list item),
  Forall (item_ok T lo hi) l -> Forall (item_ok T lo hi) (sort_result l).
Proof. exact Proofs.sort_result_in_bounds. Qed.

(** non-vacuity: a client program on ["a`é😀`b"] (region = the whole text) with a rollback, a
    sub-reader, coalescing emissions; a NUL character; a description with a dashed frame, a
    common indent and multi-byte text; a sort with equal keys *)
Example machine_example :
  let T := [97; 96; 233; 128512; 96; 98] in
  match run T 0 10 None init
          [ONew 0 10; OR 0 RBump; OEmit 0 7; OClone 0; OR 0 (REatWhile (fun c => negb (c =? 98)));
           OSub 0; OR 2 RBump; OEmit 2 7; OR 2 (REatWhile (fun c => negb (c =? 96))); OEmit 2 4;
           OR 2 (REatWhile (fun _ => true)); OEmit 2 7; OEmitSpan 1 0 0; ORestore 0 1; OTruncate 3;
           OR 0 RBump; OR 0 RBump; OEmit 0 7] with
  | Val st => map (fun it => (i_start it, i_end it, i_kind it)) (m_results st)
  | _ => []
  end = [(0, 2, 7); (2, 8, 4); (8, 9, 7); (1, 4, 7)].
Proof. vm_compute. reflexivity. Qed.

(** a NUL character is an ordinary character (end of input is decided by position) *)
Example nul_is_not_eof_example :
  match new_with_range [97; 0; 98] 5 3 with
  | Val r => let r1 := bump r in let r2 := fst (eat_till_end r) in
             ((is_eof r1, r_cur r1, current_range r1), (is_eof r2, current_range r2, tail_range r2))
  | _ => ((true, 0, (0, 0)), (false, (0, 0), Panic))
  end = ((false, 0, (5, 1)), (true, (5, 3), Val (8, 0))).
Proof. vm_compute. reflexivity. Qed.

Example desc_lines_example :
  (* "-----\n---  é *x*\n---   y\n-----" : tokens as the doc lexer produces them *)
  let T := [45;45;45;45;45;10; 45;45;45;32;32;233;32;42;120;42;10; 45;45;45;32;32;32;121;10; 45;45;45;45;45] in
  desc_to_lines T None
    [ {| t_kind := TNormalStart; t_start := 0; t_len := 3 |}; {| t_kind := TDetail; t_start := 3; t_len := 2 |};
      {| t_kind := TEol; t_start := 5; t_len := 1 |};
      {| t_kind := TNormalStart; t_start := 6; t_len := 5 |}; {| t_kind := TDetail; t_start := 11; t_len := 6 |};
      {| t_kind := TEol; t_start := 17; t_len := 1 |};
      {| t_kind := TContinue; t_start := 18; t_len := 6 |}; {| t_kind := TDetail; t_start := 24; t_len := 1 |};
      {| t_kind := TEol; t_start := 25; t_len := 1 |};
      {| t_kind := TNormalStart; t_start := 26; t_len := 3 |}; {| t_kind := TDetail; t_start := 29; t_len := 2 |} ]
    None = Val [(11, 6); (23, 2)].
Proof. vm_compute. reflexivity. Qed.

Example sort_example :
  map (fun it => (i_start it, i_end it, i_kind it))
    (sort_result [ {| i_start := 4; i_end := 5; i_kind := 7 |}; {| i_start := 0; i_end := 2; i_kind := 7 |};
                   {| i_start := 0; i_end := 9; i_kind := 2 |}; {| i_start := 0; i_end := 9; i_kind := 0 |};
                   {| i_start := 0; i_end := 9; i_kind := 3 |}; {| i_start := 4; i_end := 5; i_kind := 4 |} ])
  = [(0, 9, 0); (0, 9, 2); (0, 9, 3); (0, 2, 7); (4, 5, 7); (4, 5, 4)].
Proof. vm_compute. reflexivity. Qed.
