(** C05/Res.v — structural induction over the nested IR type, and the "resolution" relation:
    [Res d a] holds when [a] is the text of [d] in document order with every [IfBreak] replaced by
    one of its two branches. *)
From EV Require Import C05.Model C05.Facts.
Local Open Scope N_scope.

(** * induction principle for [doc] with its nested lists, options and entries *)
Section DocInd.
  Variable P : doc -> Prop.
  Variable PL : list doc -> Prop.
  Variable PO : option (list doc) -> Prop.
  Variable PE : list entry -> Prop.
  Hypothesis H_atom : forall k s, P (Atom k s).
  Hypothesis H_hard : P HardLine.
  Hypothesis H_soft : P SoftLine.
  Hypothesis H_softe : P SoftLineOrEmpty.
  Hypothesis H_space : P Space.
  Hypothesis H_indent : forall ds, PL ds -> P (Indent ds).
  Hypothesis H_group : forall ds sb id, PL ds -> P (Group ds sb id).
  Hypothesis H_list : forall ds, PL ds -> P (DList ds).
  Hypothesis H_ifb : forall b f g, P b -> P f -> P (IfBreak b f g).
  Hypothesis H_fill : forall ds, PL ds -> P (Fill ds).
  Hypothesis H_ls : forall ds, PL ds -> P (LineSuffix ds).
  Hypothesis H_ag : forall es, PE es -> P (AlignGroup es).
  Hypothesis H_nil : PL [].
  Hypothesis H_cons : forall d r, P d -> PL r -> PL (d :: r).
  Hypothesis H_none : PO None.
  Hypothesis H_some : forall l, PL l -> PO (Some l).
  Hypothesis H_enil : PE [].
  Hypothesis H_ealigned : forall b a t r, PL b -> PL a -> PO t -> PE r -> PE (Aligned b a t :: r).
  Hypothesis H_eline : forall ct t r, PL ct -> PO t -> PE r -> PE (ALine ct t :: r).

  Fixpoint doc_ind2 (d : doc) : P d :=
    let fl := fix fl (l : list doc) : PL l :=
      match l with [] => H_nil | x :: r => H_cons x r (doc_ind2 x) (fl r) end in
    let fo := fun t : option (list doc) =>
      match t return PO t with Some l => H_some l (fl l) | None => H_none end in
    match d return P d with
    | Atom k s => H_atom k s
    | HardLine => H_hard
    | SoftLine => H_soft
    | SoftLineOrEmpty => H_softe
    | Space => H_space
    | Indent ds => H_indent ds (fl ds)
    | Group ds sb id => H_group ds sb id (fl ds)
    | DList ds => H_list ds (fl ds)
    | IfBreak b f g => H_ifb b f g (doc_ind2 b) (doc_ind2 f)
    | Fill ds => H_fill ds (fl ds)
    | LineSuffix ds => H_ls ds (fl ds)
    | AlignGroup es =>
        H_ag es ((fix fe (l : list entry) : PE l :=
                    match l return PE l with
                    | [] => H_enil
                    | Aligned b a t :: r => H_ealigned b a t r (fl b) (fl a) (fo t) (fe r)
                    | ALine ct t :: r => H_eline ct t r (fl ct) (fo t) (fe r)
                    end) es)
    end.

  Fixpoint docs_ind2 (l : list doc) : PL l :=
    match l with [] => H_nil | x :: r => H_cons x r (doc_ind2 x) (docs_ind2 r) end.
End DocInd.

(** * the resolution relation *)

Scheme Res_mut := Induction for Res Sort Prop
  with ResL_mut := Induction for ResL Sort Prop
  with ResO_mut := Induction for ResO Sort Prop
  with ResE_mut := Induction for ResE Sort Prop.

Lemma ResL_app : forall l1 a1, ResL l1 a1 -> forall l2 a2, ResL l2 a2 -> ResL (l1 ++ l2) (a1 ++ a2).
Proof.
  induction 1; intros l2 a2 H2; cbn [app].
  - exact H2.
  - rewrite <- app_assoc. constructor; [assumption|]. apply IHResL. exact H2.
Qed.

(** ** unfolding equations of the structural functions (their inline fixpoints are the list
    versions) *)

Lemma atoms_indent : forall ds, atoms (Indent ds) = atoms_list ds. Proof. reflexivity. Qed.
Lemma atoms_group : forall ds sb id, atoms (Group ds sb id) = atoms_list ds. Proof. reflexivity. Qed.
Lemma atoms_dlist : forall ds, atoms (DList ds) = atoms_list ds. Proof. reflexivity. Qed.
Lemma atoms_fill : forall ds, atoms (Fill ds) = atoms_list ds. Proof. reflexivity. Qed.
Lemma atoms_ls : forall ds, atoms (LineSuffix ds) = atoms_list ds. Proof. reflexivity. Qed.
Lemma atoms_ag : forall es, atoms (AlignGroup es) = atoms_entries es. Proof. reflexivity. Qed.

Fixpoint plain_entries (l : list entry) : bool :=
  match l with
  | [] => true
  | Aligned b a t :: r =>
      plain_list b && plain_list a && (match t with Some x => plain_list x | None => true end) && plain_entries r
  | ALine ct t :: r =>
      plain_list ct && (match t with Some x => plain_list x | None => true end) && plain_entries r
  end.

Lemma plain_ag : forall es, plain (AlignGroup es) = plain_entries es. Proof. reflexivity. Qed.
Lemma plain_indent : forall ds, plain (Indent ds) = plain_list ds. Proof. reflexivity. Qed.
Lemma plain_group : forall ds sb id, plain (Group ds sb id) = plain_list ds. Proof. reflexivity. Qed.
Lemma plain_dlist : forall ds, plain (DList ds) = plain_list ds. Proof. reflexivity. Qed.
Lemma plain_fill : forall ds, plain (Fill ds) = plain_list ds. Proof. reflexivity. Qed.

Definition plain_opt (t : option (list doc)) : bool :=
  match t with Some x => plain_list x | None => true end.

Fixpoint ifbreak_ok_entries (l : list entry) : bool :=
  match l with
  | [] => true
  | Aligned b a t :: r =>
      ifbreak_ok_list b && ifbreak_ok_list a && (match t with Some x => ifbreak_ok_list x | None => true end)
      && ifbreak_ok_entries r
  | ALine ct t :: r =>
      ifbreak_ok_list ct && (match t with Some x => ifbreak_ok_list x | None => true end) && ifbreak_ok_entries r
  end.

Lemma ifbreak_ok_ag : forall es, ifbreak_ok (AlignGroup es) = ifbreak_ok_entries es. Proof. reflexivity. Qed.
Lemma ifbreak_ok_indent : forall ds, ifbreak_ok (Indent ds) = ifbreak_ok_list ds. Proof. reflexivity. Qed.
Lemma ifbreak_ok_group : forall ds sb id, ifbreak_ok (Group ds sb id) = ifbreak_ok_list ds. Proof. reflexivity. Qed.
Lemma ifbreak_ok_dlist : forall ds, ifbreak_ok (DList ds) = ifbreak_ok_list ds. Proof. reflexivity. Qed.
Lemma ifbreak_ok_fill : forall ds, ifbreak_ok (Fill ds) = ifbreak_ok_list ds. Proof. reflexivity. Qed.
Lemma ifbreak_ok_ls : forall ds, ifbreak_ok (LineSuffix ds) = ifbreak_ok_list ds. Proof. reflexivity. Qed.

Definition sok_opt (t : option (list doc)) (p : bool) : option bool :=
  match t with Some l => sok_list l p | None => Some p end.

Definition sok_entry (e : entry) (p0 : bool) : option bool :=
  match e with
  | Aligned b a t => do p1 <- sok_list b p0; do p2 <- sok_list a p1; sok_opt t p2
  | ALine ct t => do p1 <- sok_list ct p0; sok_opt t p1
  end.

Fixpoint sok_entries (l : list entry) (first : bool) (p : bool) : option bool :=
  match l with
  | [] => Some p
  | e :: r =>
      do p' <- sok_entry e (if first then p else false);
      sok_entries r false p'
  end.

Lemma sok_ag : forall es p, sok (AlignGroup es) p = sok_entries es true p.
Proof.
  intros es p. cbn [sok]. generalize true as first. revert p.
  induction es as [|e es IH]; intros p first; [reflexivity|].
  match goal with
  | |- bind ?X ?K = _ => transitivity (bind (sok_entry e (if first then p else false)) K)
  end.
  - destruct e; reflexivity.
  - cbn [sok_entries]. destruct (sok_entry e (if first then p else false)); cbn [bind]; [apply IH|reflexivity].
Qed.

Lemma sok_indent : forall ds p, sok (Indent ds) p = sok_list ds p. Proof. reflexivity. Qed.
Lemma sok_group : forall ds sb id p, sok (Group ds sb id) p = sok_list ds p. Proof. reflexivity. Qed.
Lemma sok_dlist : forall ds p, sok (DList ds) p = sok_list ds p. Proof. reflexivity. Qed.
Lemma sok_fill : forall ds p, sok (Fill ds) p = sok_list ds p. Proof. reflexivity. Qed.

(** * text equality *)

Lemma text_eqb_eq : forall a b, text_eqb a b = true -> a = b.
Proof.
  unfold text_eqb. induction a as [|x a IH]; intros [|y b] H; try discriminate; [reflexivity|].
  apply andb_true_iff in H. destruct H as [H1 H2]. apply N.eqb_eq in H1. subst y.
  f_equal. apply IH. exact H2.
Qed.

Lemma text_eqb_refl : forall a, text_eqb a a = true.
Proof.
  unfold text_eqb. induction a as [|x a IH]; [reflexivity|]. rewrite N.eqb_refl. exact IH.
Qed.

(** * for an IR satisfying [IfBreakOk], every resolution has the non-blank text of [atoms] *)

Lemma res_ifbreak_ok :
  forall d a, Res d a -> ifbreak_ok d = true -> nonblank a = nonblank (atoms d).
Proof.
  apply (Res_mut
           (fun d a _ => ifbreak_ok d = true -> nonblank a = nonblank (atoms d))
           (fun l a _ => ifbreak_ok_list l = true -> nonblank a = nonblank (atoms_list l))
           (fun t a _ => (match t with Some x => ifbreak_ok_list x | None => true end) = true ->
                         nonblank a = nonblank (atoms_opt t))
           (fun es a _ => ifbreak_ok_entries es = true -> nonblank a = nonblank (atoms_entries es))).
  - reflexivity.
  - reflexivity.
  - reflexivity.
  - reflexivity.
  - reflexivity.
  - intros ds a _ IH H. rewrite atoms_indent. apply IH. exact H.
  - intros ds sb id a _ IH H. rewrite atoms_group. apply IH. exact H.
  - intros ds a _ IH H. rewrite atoms_dlist. apply IH. exact H.
  - intros b f g a _ IH H. cbn [ifbreak_ok] in H.
    apply andb_true_iff in H. destruct H as [H H3]. apply andb_true_iff in H. destruct H as [H1 H2].
    apply text_eqb_eq in H3. cbn [atoms]. rewrite <- H3. apply IH. exact H1.
  - intros b f g a _ IH H. cbn [ifbreak_ok] in H.
    apply andb_true_iff in H. destruct H as [H H3]. apply andb_true_iff in H. destruct H as [H1 H2].
    cbn [atoms]. apply IH. exact H2.
  - intros ds a _ IH H. rewrite atoms_fill. apply IH. exact H.
  - intros ds a _ IH H. rewrite atoms_ls. apply IH. exact H.
  - intros es a _ IH H. rewrite atoms_ag. apply IH. rewrite <- ifbreak_ok_ag. exact H.
  - reflexivity.
  - intros d r a b _ IH1 _ IH2 H. cbn [ifbreak_ok_list] in H.
    apply andb_true_iff in H. destruct H as [H1 H2].
    cbn [atoms_list]. rewrite !nonblank_app, IH1, IH2 by assumption. reflexivity.
  - reflexivity.
  - intros l a _ IH H. cbn [atoms_opt]. apply IH. exact H.
  - reflexivity.
  - intros b a t r x y z w _ IH1 _ IH2 _ IH3 _ IH4 H. cbn [ifbreak_ok_entries] in H.
    apply andb_true_iff in H. destruct H as [H H4]. apply andb_true_iff in H. destruct H as [H H3].
    apply andb_true_iff in H. destruct H as [H1 H2].
    cbn [atoms_entries]. rewrite !nonblank_app, IH1, IH2, IH3, IH4 by assumption. reflexivity.
  - intros ct t r x z w _ IH1 _ IH3 _ IH4 H. cbn [ifbreak_ok_entries] in H.
    apply andb_true_iff in H. destruct H as [H H4]. apply andb_true_iff in H. destruct H as [H1 H3].
    cbn [atoms_entries]. rewrite !nonblank_app, IH1, IH3, IH4 by assumption. reflexivity.
Qed.

Lemma resl_ifbreak_ok :
  forall l a, ResL l a -> ifbreak_ok_list l = true -> nonblank a = nonblank (atoms_list l).
Proof.
  induction 1; intros Hok; [reflexivity|].
  cbn [ifbreak_ok_list] in Hok. apply andb_true_iff in Hok. destruct Hok as [H1 H2].
  cbn [atoms_list]. rewrite !nonblank_app, IHResL by assumption.
  rewrite (res_ifbreak_ok _ _ H H1). reflexivity.
Qed.

(** * plain documents: the only resolution is [atoms]; the suffix discipline accepts them *)

Lemma res_plain : forall d a, Res d a -> plain d = true -> a = atoms d.
Proof.
  apply (Res_mut
           (fun d a _ => plain d = true -> a = atoms d)
           (fun l a _ => plain_list l = true -> a = atoms_list l)
           (fun t a _ => plain_opt t = true -> a = atoms_opt t)
           (fun es a _ => plain_entries es = true -> a = atoms_entries es)).
  - reflexivity.
  - reflexivity.
  - reflexivity.
  - reflexivity.
  - reflexivity.
  - intros ds a _ IH H. apply IH. exact H.
  - intros ds sb id a _ IH H. apply IH. exact H.
  - intros ds a _ IH H. apply IH. exact H.
  - intros b f g a _ _ H. discriminate H.
  - intros b f g a _ _ H. discriminate H.
  - intros ds a _ IH H. apply IH. exact H.
  - intros ds a _ _ H. discriminate H.
  - intros es a _ IH H. rewrite atoms_ag. apply IH. rewrite <- plain_ag. exact H.
  - reflexivity.
  - intros d r a b _ IH1 _ IH2 H. cbn [plain_list] in H.
    apply andb_true_iff in H. destruct H as [H1 H2].
    cbn [atoms_list]. rewrite IH1, IH2 by assumption. reflexivity.
  - reflexivity.
  - intros l a _ IH H. apply IH. exact H.
  - reflexivity.
  - intros b a t r x y z w _ IH1 _ IH2 _ IH3 _ IH4 H. cbn [plain_entries] in H.
    apply andb_true_iff in H. destruct H as [H H4]. apply andb_true_iff in H. destruct H as [H H3].
    apply andb_true_iff in H. destruct H as [H1 H2].
    cbn [atoms_entries]. rewrite IH1, IH2, IH3, IH4 by assumption. reflexivity.
  - intros ct t r x z w _ IH1 _ IH3 _ IH4 H. cbn [plain_entries] in H.
    apply andb_true_iff in H. destruct H as [H H4]. apply andb_true_iff in H. destruct H as [H1 H3].
    cbn [atoms_entries]. rewrite IH1, IH3, IH4 by assumption. reflexivity.
Qed.

Lemma resl_plain : forall l a, ResL l a -> plain_list l = true -> a = atoms_list l.
Proof.
  induction 1; intros Hok; [reflexivity|].
  cbn [plain_list] in Hok. apply andb_true_iff in Hok. destruct Hok as [H1 H2].
  cbn [atoms_list]. rewrite IHResL by assumption. rewrite (res_plain _ _ H H1). reflexivity.
Qed.

(** plain documents resolve to their [atoms] *)
Lemma plain_res : forall d, plain d = true -> Res d (atoms d).
Proof.
  apply (doc_ind2
           (fun d => plain d = true -> Res d (atoms d))
           (fun l => plain_list l = true -> ResL l (atoms_list l))
           (fun t => plain_opt t = true -> ResO t (atoms_opt t))
           (fun es => plain_entries es = true -> ResE es (atoms_entries es))).
  - intros; constructor.
  - intros; constructor.
  - intros; constructor.
  - intros; constructor.
  - intros; constructor.
  - intros ds IH H. rewrite atoms_indent. constructor. apply IH. exact H.
  - intros ds sb id IH H. rewrite atoms_group. constructor. apply IH. exact H.
  - intros ds IH H. rewrite atoms_dlist. constructor. apply IH. exact H.
  - intros b f g _ _ H. discriminate H.
  - intros ds IH H. rewrite atoms_fill. constructor. apply IH. exact H.
  - intros ds _ H. discriminate H.
  - intros es IH H. rewrite atoms_ag. constructor. apply IH. rewrite <- plain_ag. exact H.
  - intros; constructor.
  - intros d r IH1 IH2 H. cbn [plain_list] in H. apply andb_true_iff in H. destruct H as [H1 H2].
    cbn [atoms_list]. constructor; [apply IH1|apply IH2]; assumption.
  - intros; constructor.
  - intros l IH H. constructor. apply IH. exact H.
  - intros; constructor.
  - intros b a t r IH1 IH2 IH3 IH4 H. cbn [plain_entries] in H.
    apply andb_true_iff in H. destruct H as [H H4]. apply andb_true_iff in H. destruct H as [H H3].
    apply andb_true_iff in H. destruct H as [H1 H2].
    cbn [atoms_entries]. constructor; [apply IH1|apply IH2|apply IH3|apply IH4]; assumption.
  - intros ct t r IH1 IH3 IH4 H. cbn [plain_entries] in H.
    apply andb_true_iff in H. destruct H as [H H4]. apply andb_true_iff in H. destruct H as [H1 H3].
    cbn [atoms_entries]. constructor; [apply IH1|apply IH3|apply IH4]; assumption.
Qed.

Lemma plain_resl : forall l, plain_list l = true -> ResL l (atoms_list l).
Proof.
  induction l as [|d l IH]; intros H; [constructor|].
  cbn [plain_list] in H. apply andb_true_iff in H. destruct H as [H1 H2].
  cbn [atoms_list]. constructor; [apply plain_res; exact H1|apply IH; exact H2].
Qed.

(** a plain document passes the suffix discipline when nothing is pending, and leaves nothing pending *)
Lemma plain_sok_false : forall d, plain d = true -> sok d false = Some false.
Proof.
  apply (doc_ind2
           (fun d => plain d = true -> sok d false = Some false)
           (fun l => plain_list l = true -> sok_list l false = Some false)
           (fun t => plain_opt t = true -> sok_opt t false = Some false)
           (fun es => plain_entries es = true -> forall first, sok_entries es first false = Some false)).
  - reflexivity.
  - reflexivity.
  - reflexivity.
  - reflexivity.
  - reflexivity.
  - intros ds IH H. rewrite sok_indent. apply IH. exact H.
  - intros ds sb id IH H. rewrite sok_group. apply IH. exact H.
  - intros ds IH H. rewrite sok_dlist. apply IH. exact H.
  - intros b f g _ _ H. discriminate H.
  - intros ds IH H. rewrite sok_fill. apply IH. exact H.
  - intros ds _ H. discriminate H.
  - intros es IH H. rewrite sok_ag. apply IH. rewrite <- plain_ag. exact H.
  - reflexivity.
  - intros d r IH1 IH2 H. cbn [plain_list] in H. apply andb_true_iff in H. destruct H as [H1 H2].
    cbn [sok_list]. rewrite (IH1 H1). apply IH2. exact H2.
  - reflexivity.
  - intros l IH H. apply IH. exact H.
  - reflexivity.
  - intros b a t r IH1 IH2 IH3 IH4 H first. cbn [plain_entries] in H.
    apply andb_true_iff in H. destruct H as [H H4]. apply andb_true_iff in H. destruct H as [H H3].
    apply andb_true_iff in H. destruct H as [H1 H2].
    cbn [sok_entries sok_entry]. replace (if first then false else false) with false by (destruct first; reflexivity).
    rewrite (IH1 H1). cbn [bind]. rewrite (IH2 H2). cbn [bind]. rewrite (IH3 H3). cbn [bind].
    apply IH4. exact H4.
  - intros ct t r IH1 IH3 IH4 H first. cbn [plain_entries] in H.
    apply andb_true_iff in H. destruct H as [H H4]. apply andb_true_iff in H. destruct H as [H1 H3].
    cbn [sok_entries sok_entry]. replace (if first then false else false) with false by (destruct first; reflexivity).
    rewrite (IH1 H1). cbn [bind]. rewrite (IH3 H3). cbn [bind].
    apply IH4. exact H4.
Qed.

Lemma plain_sok_list_false : forall l, plain_list l = true -> sok_list l false = Some false.
Proof.
  induction l as [|d l IH]; intros H; [reflexivity|].
  cbn [plain_list] in H. apply andb_true_iff in H. destruct H as [H1 H2].
  cbn [sok_list]. rewrite (plain_sok_false _ H1). apply IH. exact H2.
Qed.
