(** C05/Corr.v — executable comparison of implementation observations with the model.
    A case carries a printer configuration, an IR (dumped from the real IR builder by the hook
    [verif::dump_ir], or generated and printed by the real [Printer] through [verif::print_ir]),
    and the text the Rust printer produced for it.  For real IRs the case also carries the source
    text, and the client obligations of the theorems are evaluated on the IR. *)
From EV Require Import C05.Model.
Local Open Scope N_scope.

Record case := mkCase {
  c_cfg : cfg;
  c_ir : list doc;
  c_out : text;          (* what the Rust printer printed *)
  c_real : bool;         (* IR comes from the real builder *)
  c_src : text;          (* source text (real IRs) *)
  c_ign : list cp        (* characters the enabled normalisations may add or drop *)
}.

Definition strip (ign : list cp) (t : text) : text :=
  filter (fun ch => negb (existsb (N.eqb ch) ign)) t.

(** every [IfBreak] either has branches with equal non-blank text, or chooses between nothing and
    one separator character ([,] or [;]) — the trailing-separator normalisation *)
Definition is_sep (t : text) : bool :=
  match t with [ch] => (ch =? 44) || (ch =? 59) | _ => false end.

Fixpoint ifbreak_sep_ok (d : doc) : bool :=
  let ol := fix ol (l : list doc) : bool := match l with [] => true | x :: r => ifbreak_sep_ok x && ol r end in
  let oo := fun t => match t with Some l => ol l | None => true end in
  match d with
  | Atom _ _ | HardLine | SoftLine | SoftLineOrEmpty | Space => true
  | Indent ds | DList ds | Fill ds | LineSuffix ds => ol ds
  | Group ds _ _ => ol ds
  | IfBreak b f _ =>
      ifbreak_sep_ok b && ifbreak_sep_ok f &&
      (let x := nonblank (atoms b) in let y := nonblank (atoms f) in
       text_eqb x y || (isnil x && is_sep y) || (is_sep x && isnil y))
  | AlignGroup es =>
      (fix oe (l : list entry) : bool :=
         match l with
         | [] => true
         | Aligned b a t :: r => ol b && ol a && oo t && oe r
         | ALine ct t :: r => ol ct && oo t && oe r
         end) es
  end.

Definition print_agrees (c : case) : bool :=
  match print (c_cfg c) (c_ir c) with
  | Some o => text_eqb o (c_out c)
  | None => false
  end.

(** client obligations, evaluated on a real IR: the line-suffix discipline, the [IfBreak]
    discipline, and "the IR's text is the source's text" up to blanks and [c_ign] *)
Definition client_ok (c : case) : bool :=
  suffix_ok (c_ir c)
  && forallb ifbreak_sep_ok (c_ir c)
  && text_eqb (strip (c_ign c) (nonblank (atoms_list (c_ir c)))) (strip (c_ign c) (nonblank (c_src c))).

Definition check_case (c : case) : bool :=
  print_agrees c && (if c_real c then client_ok c else true).

(** diagnosis helper used by the plugin when a case fails: which part failed *)
Definition diagnose (c : case) : N * N * N * N :=
  ((if print_agrees c then 1 else 0),
   (if suffix_ok (c_ir c) then 1 else 0),
   (if forallb ifbreak_sep_ok (c_ir c) then 1 else 0),
   (if text_eqb (strip (c_ign c) (nonblank (atoms_list (c_ir c)))) (strip (c_ign c) (nonblank (c_src c))) then 1 else 0)).
