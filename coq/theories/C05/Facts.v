(** C05/Facts.v — the "blank edit" relation, the primitives of the printer state, and a generic
    preservation lemma for state invariants (used for the add-only-blank theorem). *)
From EV Require Import C05.Model.
From Coq Require Import ZArith.
Local Open Scope N_scope.

Ltac bind_inv H :=
  match type of H with
  | bind ?x _ = Some _ =>
      let E := fresh "E" in destruct x eqn:E; cbn [bind] in H; [|discriminate H]
  end.

Tactic Notation "bind_as" hyp(H) ident(x) ident(E) :=
  match type of H with
  | bind ?y _ = Some _ => destruct y as [x|] eqn:E; cbn [bind] in H; [|discriminate H]
  end.

(** * BlankEdit a o : [o] is [a] with blank characters inserted and space characters deleted *)

Lemma be_refl : forall a, BlankEdit a a.
Proof. induction a; constructor; assumption. Qed.

Lemma be_app : forall a o a' o', BlankEdit a o -> BlankEdit a' o' -> BlankEdit (a ++ a') (o ++ o').
Proof.
  intros a o a' o' H H'. induction H; cbn [app].
  - exact H'.
  - apply BE_keep. exact IHBlankEdit.
  - apply BE_ins; assumption.
  - apply BE_del. exact IHBlankEdit.
Qed.

Lemma be_rev : forall a o, BlankEdit a o -> BlankEdit (rev a) (rev o).
Proof.
  intros a o H. induction H; cbn [rev].
  - constructor.
  - apply be_app; [exact IHBlankEdit|]. apply BE_keep. constructor.
  - rewrite <- (app_nil_r (rev a)). apply be_app; [exact IHBlankEdit|]. apply BE_ins; [assumption|constructor].
  - rewrite <- (app_nil_r (rev o)). apply be_app; [exact IHBlankEdit|]. apply BE_del. constructor.
Qed.

Lemma is_blank_SP : is_blank SPc = true.
Proof. reflexivity. Qed.

Lemma nonblank_cons : forall ch t, nonblank (ch :: t) = if is_blank ch then nonblank t else ch :: nonblank t.
Proof. intros ch t. unfold nonblank. cbn [filter]. destruct (is_blank ch); reflexivity. Qed.

Lemma nonblank_app : forall a b, nonblank (a ++ b) = nonblank a ++ nonblank b.
Proof. intros a b. unfold nonblank. apply filter_app. Qed.

Lemma be_nonblank : forall a o, BlankEdit a o -> nonblank a = nonblank o.
Proof.
  intros a o H. induction H.
  - reflexivity.
  - rewrite !nonblank_cons. destruct (is_blank ch); [assumption|f_equal; assumption].
  - rewrite nonblank_cons, H. assumption.
  - rewrite nonblank_cons, is_blank_SP. assumption.
Qed.

Lemma be_drop_spaces : forall a o, BlankEdit a o -> BlankEdit a (drop_spaces o).
Proof.
  intros a o H. induction H.
  - constructor.
  - cbn [drop_spaces]. destruct (N.eqb_spec ch SPc) as [E|E].
    + subst ch. apply BE_del. exact IHBlankEdit.
    + apply BE_keep. exact H.
  - cbn [drop_spaces]. destruct (N.eqb_spec ch SPc) as [E|E].
    + exact IHBlankEdit.
    + apply BE_ins; assumption.
  - apply BE_del. exact IHBlankEdit.
Qed.

Lemma be_rev_append_keep : forall s a o, BlankEdit a o -> BlankEdit (rev_append s a) (rev_append s o).
Proof.
  induction s as [|x s IH]; intros a o H; cbn [rev_append]; [exact H|].
  apply IH. apply BE_keep. exact H.
Qed.

Lemma be_rev_append_ins : forall s a o, forallb is_blank s = true -> BlankEdit a o -> BlankEdit a (rev_append s o).
Proof.
  induction s as [|x s IH]; intros a o Hs H; cbn [rev_append]; [exact H|].
  cbn [forallb] in Hs. apply andb_true_iff in Hs. destruct Hs as [Hx Hs].
  apply IH; [exact Hs|]. apply BE_ins; assumption.
Qed.

(** * ghost projections *)

Fixpoint remit (l : list ev) : text :=
  match l with
  | [] => []
  | EvAtom s :: r => rev_append s (remit r)
  | _ :: r => remit r
  end.

Lemma remit_rev : forall l, remit l = rev (atoms_of_evs l).
Proof.
  induction l as [|e l IH]; [reflexivity|].
  destruct e; cbn [remit atoms_of_evs]; try exact IH.
  rewrite rev_append_rev, rev_app_distr, IH. reflexivity.
Qed.

Definition emit (st : state) : text := atoms_of_evs (evs st).

(** * blank texts *)

Lemma forallb_blank_app : forall a b, forallb is_blank (a ++ b) = forallb is_blank a && forallb is_blank b.
Proof. intros. apply forallb_app. Qed.

Lemma spaces_blank : forall k, forallb is_blank (spaces k) = true.
Proof.
  intros k. unfold spaces. induction (N.to_nat k) as [|n IH]; [reflexivity|].
  cbn [repeat forallb]. rewrite IH. reflexivity.
Qed.

Lemma indent_str_blank : forall c, forallb is_blank (indent_str c) = true.
Proof. intros c. unfold indent_str. destruct (use_tab c); [reflexivity|apply spaces_blank]. Qed.

Lemma repeat_text_blank : forall s k, forallb is_blank s = true -> forallb is_blank (repeat_text s k) = true.
Proof.
  intros s k Hs. induction k as [|k IH]; [reflexivity|].
  cbn [repeat_text]. rewrite forallb_blank_app, Hs, IH. reflexivity.
Qed.

Lemma newline_blank : forall c, forallb is_blank (newline_str c) = true.
Proof. intros c. unfold newline_str. destruct (use_crlf c); reflexivity. Qed.

(** * generic preservation of a state invariant by the printer *)

Section Preserve.
  Variable c : cfg.
  Variable I : state -> Prop.
  Hypothesis I_atom : forall s st, I st -> I (push_text c true s st).
  Hypothesis I_blank : forall s st, forallb is_blank s = true -> I st -> I (push_text c false s st).
  Hypothesis I_newline : forall st, I st -> I (push_newline c st).
  Hypothesis I_level : forall l st, I st -> I (set_level l st).
  Hypothesis I_sfx_nil : forall st, I st -> I (set_sfx [] st).
  Hypothesis I_sfx_push : forall ds st, I st -> I (set_sfx (sfx st ++ [ds]) st).
  Hypothesis I_gm : forall g b st, I st -> I (gm_insert g b st).

  Lemma fold_docs_pres : forall f,
    (forall d st st', f d st = Some st' -> I st -> I st') ->
    forall l st st', fold_docs f l st = Some st' -> I st -> I st'.
  Proof.
    intros f Hf. induction l as [|d l IH]; intros st st' H HI; cbn [fold_docs] in H.
    - inversion H; subst. exact HI.
    - bind_inv H. eapply IH; [exact H|]. eapply Hf; eassumption.
  Qed.

  Lemma fold_lists_pres : forall f,
    (forall d st st', f d st = Some st' -> I st -> I st') ->
    forall l st st', fold_lists f l st = Some st' -> I st -> I st'.
  Proof.
    intros f Hf. induction l as [|d l IH]; intros st st' H HI; cbn [fold_lists] in H.
    - inversion H; subst. exact HI.
    - bind_inv H. eapply IH; [exact H|]. eapply Hf; eassumption.
  Qed.

  Lemma push_spaces_pres : forall k st, I st -> I (push_spaces c k st).
  Proof.
    intros k st HI. unfold push_spaces. destruct (0 <? k); [|exact HI].
    apply I_blank; [apply spaces_blank|exact HI].
  Qed.

  Variable pd : doc -> mode -> state -> option state.
  Variable fw : list doc -> option N.
  Variable fit : list (N * bool) -> list doc -> Z -> option bool.
  Variable hh : list doc -> option bool.
  Hypothesis Hpd : forall d m st st', pd d m st = Some st' -> I st -> I st'.

  Lemma docs_with_pres : forall ds m st st', docs_with pd ds m st = Some st' -> I st -> I st'.
  Proof.
    intros ds m st st' H HI. unfold docs_with in H.
    eapply fold_docs_pres; [|exact H|exact HI]. intros d s s' Hd Hs. cbn beta in Hd. eapply Hpd; eassumption.
  Qed.

  Lemma flush_with_pres : forall st st', flush_with pd st = Some st' -> I st -> I st'.
  Proof.
    intros st st' H HI. unfold flush_with in H. destruct (sfx st) as [|s l] eqn:E.
    - inversion H; subst. exact HI.
    - eapply fold_lists_pres; [|exact H|apply I_sfx_nil; exact HI].
      intros d s0 s1 Hd Hs. eapply docs_with_pres; eassumption.
  Qed.

  Lemma newline_with_pres : forall st st', newline_with c pd st = Some st' -> I st -> I st'.
  Proof.
    intros st st' H HI. unfold newline_with in H. bind_inv H. inversion H; subst.
    apply I_newline. eapply flush_with_pres; eassumption.
  Qed.

  Lemma fill_with_pres : forall k l st st', (length l <= k)%nat -> fill_with c pd fit l st = Some st' -> I st -> I st'.
  Proof.
    induction k as [|k IH]; intros l st st' Hk H HI.
    - destruct l; [|cbn [length] in Hk; lia]. cbn [fill_with] in H. inversion H; subst. exact HI.
    - destruct l as [|content rest]; cbn [fill_with] in H.
      + inversion H; subst. exact HI.
      + bind_inv H. bind_inv H.
        assert (I s) as Hs by (eapply Hpd; eassumption).
        destruct rest as [|sep rest2].
        * inversion H; subst. exact Hs.
        * bind_inv H. bind_inv H.
          eapply (IH rest2); [cbn [length] in Hk; lia|exact H|]. eapply Hpd; eassumption.
  Qed.

  Lemma trail_with_pres : forall m mc t cw st st', trail_with c pd m mc t cw st = Some st' -> I st -> I st'.
  Proof.
    intros m mc t cw st st' H HI. unfold trail_with in H. destruct t as [tr|].
    - eapply docs_with_pres; [exact H|]. apply push_spaces_pres. exact HI.
    - inversion H; subst. exact HI.
  Qed.

  Lemma entry_with_pres : forall m mb mc e st st', entry_with c pd fw m mb mc e st = Some st' -> I st -> I st'.
  Proof.
    intros m mb mc e st st' H HI. unfold entry_with in H. destruct e as [b a t|ct t].
    - bind_inv H. bind_inv H. bind_inv H. bind_inv H.
      eapply trail_with_pres; [exact H|].
      eapply docs_with_pres; [eassumption|].
      apply I_blank; [reflexivity|]. apply push_spaces_pres.
      eapply docs_with_pres; eassumption.
    - bind_inv H. bind_inv H.
      eapply trail_with_pres; [exact H|]. eapply docs_with_pres; eassumption.
  Qed.

  Lemma align_with_pres : forall m mb mc l first st st',
    align_with c pd fw m mb mc l first st = Some st' -> I st -> I st'.
  Proof.
    intros m mb mc. induction l as [|e l IH]; intros first st st' H HI; cbn [align_with] in H.
    - inversion H; subst. exact HI.
    - bind_inv H. bind_inv H.
      eapply IH; [exact H|]. eapply entry_with_pres; [eassumption|].
      destruct first.
      + inversion E; subst. exact HI.
      + eapply newline_with_pres; eassumption.
  Qed.

  Lemma step_pres : forall d m st st', step c pd fw fit hh d m st = Some st' -> I st -> I st'.
  Proof.
    intros d m st st' H HI. destruct d; cbn [step] in H.
    - inversion H; subst. apply I_atom. exact HI.
    - eapply newline_with_pres; eassumption.
    - destruct m.
      + inversion H; subst. apply I_blank; [reflexivity|exact HI].
      + eapply newline_with_pres; eassumption.
    - destruct m.
      + inversion H; subst. exact HI.
      + eapply newline_with_pres; eassumption.
    - inversion H; subst. apply I_blank; [reflexivity|exact HI].
    - bind_inv H. inversion H; subst. apply I_level.
      eapply docs_with_pres; [eassumption|]. apply I_level. exact HI.
    - bind_inv H. bind_inv H.
      eapply docs_with_pres; [exact H|]. destruct id; [apply I_gm|]; exact HI.
    - eapply docs_with_pres; eassumption.
    - eapply Hpd; eassumption.
    - eapply fill_with_pres; [apply le_n|exact H|exact HI].
    - inversion H; subst. apply I_sfx_push. exact HI.
    - bind_inv H. bind_inv H. eapply align_with_pres; eassumption.
  Qed.
End Preserve.

Lemma print_doc_pres : forall (c : cfg) (I : state -> Prop),
  (forall s st, I st -> I (push_text c true s st)) ->
  (forall s st, forallb is_blank s = true -> I st -> I (push_text c false s st)) ->
  (forall st, I st -> I (push_newline c st)) ->
  (forall l st, I st -> I (set_level l st)) ->
  (forall st, I st -> I (set_sfx [] st)) ->
  (forall ds st, I st -> I (set_sfx (sfx st ++ [ds]) st)) ->
  (forall g b st, I st -> I (gm_insert g b st)) ->
  forall n d m st st', print_doc n c d m st = Some st' -> I st -> I st'.
Proof.
  intros c I H1 H2 H3 H4 H5 H6 H7. induction n as [|n IH]; intros d m st st' H HI; cbn [print_doc] in H.
  - discriminate.
  - eapply (step_pres c I H1 H2 H3 H4 H5 H6 H7); [|exact H|exact HI].
    intros d0 m0 s s' Hd Hs. eapply IH; eassumption.
Qed.

(** * the add-only-blank invariant *)

Definition I1 (st : state) : Prop := BlankEdit (remit (evs st)) (rout st).

Lemma I1_flush_pending : forall c s st, I1 st -> I1 (flush_pending c s st).
Proof.
  intros c s st H. unfold flush_pending. destruct (pending st) as [w|]; [|exact H].
  destruct s as [|x s]; [exact H|].
  unfold I1. cbn [evs rout remit].
  apply be_rev_append_ins; [|exact H].
  apply repeat_text_blank. apply indent_str_blank.
Qed.

Lemma I1_atom : forall c s st, I1 st -> I1 (push_text c true s st).
Proof.
  intros c s st H. unfold push_text, I1. cbn [evs rout remit].
  apply be_rev_append_keep. apply I1_flush_pending. exact H.
Qed.

Lemma I1_blank : forall c s st, forallb is_blank s = true -> I1 st -> I1 (push_text c false s st).
Proof.
  intros c s st Hs H. unfold push_text, I1. cbn [evs rout remit].
  apply be_rev_append_ins; [exact Hs|]. apply I1_flush_pending. exact H.
Qed.

Lemma I1_newline : forall c st, I1 st -> I1 (push_newline c st).
Proof.
  intros c st H. unfold push_newline, I1. cbn [evs rout remit].
  apply be_rev_append_ins; [apply newline_blank|]. apply be_drop_spaces. exact H.
Qed.

Lemma print_doc_I1 : forall n c d m st st', print_doc n c d m st = Some st' -> I1 st -> I1 st'.
Proof.
  intros n c. revert n. apply (print_doc_pres c I1).
  - apply I1_atom.
  - apply I1_blank.
  - apply I1_newline.
  - intros l st H. exact H.
  - intros st H. exact H.
  - intros ds st H. exact H.
  - intros g b st H. exact H.
Qed.

Lemma run_I1 : forall c ds st, run c ds = Some st -> I1 st.
Proof.
  intros c ds st H. unfold run in H. bind_inv H.
  eapply (flush_with_pres I1); [| |exact H|].
  - intros s0 H0. exact H0.
  - intros d m s0 s1 Hd Hs. eapply print_doc_I1; eassumption.
  - unfold print_docs in E.
    eapply (docs_with_pres I1); [|exact E|].
    + intros d m s0 s1 Hd Hs. eapply print_doc_I1; eassumption.
    + unfold I1, init. cbn [evs rout remit]. constructor.
Qed.

(** the text printed is the pushed atom texts with blanks inserted and spaces deleted *)
Lemma run_blank_edit : forall c ds e out,
  emitted c ds = Some e -> print c ds = Some out -> BlankEdit e out.
Proof.
  intros c ds e out He Ho. unfold emitted in He. unfold print in Ho.
  destruct (run c ds) as [st|] eqn:R; cbn [bind] in He, Ho; [|discriminate].
  inversion He; subst e. inversion Ho; subst out.
  pose proof (run_I1 _ _ _ R) as H. unfold I1 in H. rewrite remit_rev in H.
  apply be_rev in H. rewrite rev_involutive in H. exact H.
Qed.
