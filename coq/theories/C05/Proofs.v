(** C05/Proofs.v — assembly of the property theorems from Facts (add-only-blank), Layer2
    (document order under the line-suffix discipline), Res (resolutions) and Total. *)
From EV Require Import C05.Model C05.Facts C05.Res C05.Layer2 C05.Total.
From Coq Require String Ascii.
Import String.StringSyntax.
Delimit Scope string_scope with str.
Local Open Scope N_scope.

Lemma print_only_adds_blank : forall c ds e out,
  emitted c ds = Some e -> print c ds = Some out -> BlankEdit e out.
Proof. exact run_blank_edit. Qed.

Lemma print_run : forall c ds out, print c ds = Some out ->
  exists st, run c ds = Some st /\ out = rev (rout st) /\ nonblank out = nonblank (emit st).
Proof.
  intros c ds out H. unfold print in H. destruct (run c ds) as [st|] eqn:R; cbn [bind] in H; [|discriminate].
  inversion H; subst out. exists st. split; [reflexivity|]. split; [reflexivity|].
  symmetry. apply be_nonblank. apply (run_blank_edit c ds).
  - unfold emitted. rewrite R. reflexivity.
  - unfold print. rewrite R. reflexivity.
Qed.

Lemma print_preserves_atoms_gen : forall c ds out,
  print c ds = Some out -> suffix_ok ds = true ->
  exists a, ResL ds a /\ nonblank out = nonblank a.
Proof.
  intros c ds out H Hok. destruct (print_run _ _ _ H) as [st [R [_ Hn]]].
  destruct (run_resolution _ _ _ R Hok) as [a [Ha Hb]].
  exists a. split; [exact Ha|]. rewrite Hn. exact Hb.
Qed.

Lemma print_preserves_atoms : forall c ds out,
  print c ds = Some out -> ifbreak_ok_list ds = true -> suffix_ok ds = true ->
  nonblank out = nonblank (atoms_list ds).
Proof.
  intros c ds out H Hib Hok. destruct (print_preserves_atoms_gen _ _ _ H Hok) as [a [Ha Hb]].
  rewrite Hb. apply resl_ifbreak_ok; assumption.
Qed.

Lemma print_total : forall c ds, exists out, print c ds = Some out.
Proof.
  intros c ds. destruct (run_total c ds) as [st H]. unfold print. rewrite H. cbn [bind]. eexists; reflexivity.
Qed.

Lemma errors_returned_unchanged : forall builder c src, reformat true builder c src = Some src.
Proof. reflexivity. Qed.

(** without the line-suffix discipline the printer can lose text: a line suffix pushed while the
    final flush is running is never printed *)
Lemma print_preserves_atoms_refuted_without_suffix_ok :
  exists c ds out, print c ds = Some out /\ ifbreak_ok_list ds = true /\
                   nonblank out <> nonblank (atoms_list ds).
Proof.
  exists (mkCfg 80 false 4 false 1 0), [LineSuffix [LineSuffix [Atom KText [120]]]], [].
  split; [vm_compute; reflexivity|]. split; [reflexivity|]. vm_compute. discriminate.
Qed.

(** ... and can reorder it: text printed after a pending line suffix overtakes it *)
Lemma print_reorders_without_suffix_ok :
  exists c ds out, print c ds = Some out /\ ifbreak_ok_list ds = true /\
                   nonblank out <> nonblank (atoms_list ds).
Proof.
  exists (mkCfg 80 false 4 false 1 0), [LineSuffix [Atom KText [120]]; Atom KText [121]; HardLine], [121; 120; 10].
  split; [vm_compute; reflexivity|]. split; [reflexivity|]. vm_compute. discriminate.
Qed.

(** * example *)

Definition t_of (s : String.string) : text := map (fun a => Ascii.N_of_ascii a) (String.list_ascii_of_string s).

Definition example_ir : list doc :=
  [Atom KSourceToken (t_of "local"%str); Space; Atom KSourceToken (t_of "t"%str); Space; Atom KSyntaxToken (t_of "="%str); Space;
   Group [Atom KSyntaxToken (t_of "{"%str);
          Indent [SoftLine; Atom KSourceToken (t_of "a"%str); Atom KSyntaxToken (t_of ","%str); SoftLine;
                  Atom KSourceToken (t_of "b"%str); IfBreak (Atom KSyntaxToken (t_of ","%str)) (DList []) None];
          SoftLine; Atom KSyntaxToken (t_of "}"%str)] false None;
   LineSuffix [Space; Atom KText (t_of "-- c"%str)];
   HardLine].

Lemma print_example :
  suffix_ok example_ir = true /\ ifbreak_ok_list example_ir = false /\
  print (mkCfg 80 false 4 false 1 0) example_ir = Some (t_of "local t = { a, b } -- c"%str ++ [10]) /\
  print (mkCfg 10 true 4 true 1 0) example_ir =
    Some (t_of "local t = {"%str ++ [13; 10; 9] ++ t_of "a,"%str ++ [13; 10; 9] ++ t_of "b,"%str ++ [13; 10] ++ t_of "} -- c"%str ++ [13; 10]) /\
  exists a, ResL example_ir a /\ nonblank a = t_of "localt={a,b,}--c"%str.
Proof.
  split; [vm_compute; reflexivity|]. split; [vm_compute; reflexivity|].
  split; [vm_compute; reflexivity|]. split; [vm_compute; reflexivity|].
  destruct (print_preserves_atoms_gen (mkCfg 10 true 4 true 1 0) example_ir
              (t_of "local t = {"%str ++ [13; 10; 9] ++ t_of "a,"%str ++ [13; 10; 9] ++ t_of "b,"%str ++ [13; 10] ++ t_of "} -- c"%str ++ [13; 10]))
    as [a [Ha Hb]]; [vm_compute; reflexivity|vm_compute; reflexivity|].
  exists a. split; [exact Ha|]. rewrite <- Hb. vm_compute. reflexivity.
Qed.
