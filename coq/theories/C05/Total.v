(** C05/Total.v — the depth budget [size + 2] given by [print] always suffices: printing
    terminates with an output for every IR and configuration. *)
From EV Require Import C05.Model C05.Facts.
From Coq Require Import ZArith.
Local Open Scope N_scope.

(** * sizes *)

Definition osize (t : option (list doc)) : nat :=
  match t with Some l => S (size_list l) | None => O end.

Definition entry_size (e : entry) : nat :=
  match e with
  | Aligned b a t => S (size_list b + size_list a + osize t)
  | ALine ct t => S (size_list ct + osize t)
  end.

Fixpoint size_entries (l : list entry) : nat :=
  match l with [] => O | e :: r => (entry_size e + size_entries r)%nat end.

Lemma size_indent : forall ds, size (Indent ds) = S (size_list ds). Proof. reflexivity. Qed.
Lemma size_group : forall ds sb id, size (Group ds sb id) = S (size_list ds). Proof. reflexivity. Qed.
Lemma size_dlist : forall ds, size (DList ds) = S (size_list ds). Proof. reflexivity. Qed.
Lemma size_fill : forall ds, size (Fill ds) = S (size_list ds). Proof. reflexivity. Qed.
Lemma size_ls : forall ds, size (LineSuffix ds) = S (size_list ds). Proof. reflexivity. Qed.
Lemma size_ifb : forall b f g, size (IfBreak b f g) = S (size b + size f). Proof. reflexivity. Qed.

Lemma size_ag : forall es, size (AlignGroup es) = S (size_entries es).
Proof.
  intros es. cbn [size]. f_equal.
  induction es as [|e es IH]; [reflexivity|].
  destruct e as [b a t|ct t]; cbn [size_entries entry_size]; rewrite <- IH; destruct t; reflexivity.
Qed.

Lemma size_pos : forall d, (1 <= size d)%nat.
Proof. destruct d; cbn [size]; lia. Qed.

Lemma in_size_list : forall d l, In d l -> (size d <= size_list l)%nat.
Proof.
  induction l as [|x l IH]; intros H; [destruct H|].
  cbn [size_list]. destruct H as [H|H]; [subst; lia|]. apply IH in H. lia.
Qed.

Lemma in_size_entries : forall e l, In e l -> (entry_size e <= size_entries l)%nat.
Proof.
  induction l as [|x l IH]; intros H; [destruct H|].
  cbn [size_entries]. destruct H as [H|H]; [subst; lia|]. apply IH in H. lia.
Qed.

Fixpoint lsize (L : list (list doc)) : nat :=
  match L with [] => O | s :: r => (S (size_list s) + lsize r)%nat end.

Definition psize (st : state) : nat := lsize (sfx st).

Lemma lsize_app : forall a b, lsize (a ++ b) = (lsize a + lsize b)%nat.
Proof. induction a as [|x a IH]; intros b; cbn [app lsize]; [reflexivity|]. rewrite IH. lia. Qed.

(** * the list combinators are total when their function is total on the elements *)

Lemma sum_opt_total : forall f l, (forall d, In d l -> exists w, f d = Some w) -> exists w, sum_opt f l = Some w.
Proof.
  induction l as [|d l IH]; intros H; cbn [sum_opt]; [eexists; reflexivity|].
  destruct (H d (or_introl eq_refl)) as [a Ha]. rewrite Ha. cbn [bind].
  destruct IH as [b Hb]; [intros x Hx; apply H; right; exact Hx|]. rewrite Hb. cbn [bind]. eexists; reflexivity.
Qed.

Lemma max_opt_total : forall A (f : A -> option N) l,
  (forall d, In d l -> exists w, f d = Some w) -> exists w, max_opt f l = Some w.
Proof.
  induction l as [|d l IH]; intros H; cbn [max_opt]; [eexists; reflexivity|].
  destruct (H d (or_introl eq_refl)) as [a Ha]. rewrite Ha. cbn [bind].
  destruct IH as [b Hb]; [intros x Hx; apply H; right; exact Hx|]. rewrite Hb. cbn [bind]. eexists; reflexivity.
Qed.

Lemma any_opt_total : forall f l, (forall d, In d l -> exists w, f d = Some w) -> exists w, any_opt f l = Some w.
Proof.
  induction l as [|d l IH]; intros H; cbn [any_opt]; [eexists; reflexivity|].
  destruct (H d (or_introl eq_refl)) as [a Ha]. rewrite Ha. cbn [bind].
  destruct a; [eexists; reflexivity|]. apply IH. intros x Hx. apply H. right. exact Hx.
Qed.

Lemma fits_list_total : forall f l,
  (forall d m rem, In d l -> exists r, f d m rem = Some r) ->
  forall m rem, exists r, fits_list f l m rem = Some r.
Proof.
  induction l as [|d l IH]; intros H m rem; cbn [fits_list]; [eexists; reflexivity|].
  destruct (H d m rem (or_introl eq_refl)) as [a Ha]. rewrite Ha. cbn [bind].
  destruct a; [eexists; reflexivity|]. apply IH. intros x m0 r0 Hx. apply H. right. exact Hx.
Qed.

Lemma fits_rev_total : forall A (f : A -> Z -> option fres) l,
  (forall e rem, In e l -> exists r, f e rem = Some r) ->
  forall rem, exists r, fits_rev f l rem = Some r.
Proof.
  induction l as [|e l IH]; intros H rem; cbn [fits_rev]; [eexists; reflexivity|].
  destruct (IH (fun x r0 Hx => H x r0 (or_intror Hx)) rem) as [a Ha]. rewrite Ha. cbn [bind].
  destruct a; [eexists; reflexivity|]. apply H. left. reflexivity.
Qed.

(** * the pure functions *)

Lemma fw_doc_total : forall n d, (size d <= n)%nat -> exists w, fw_doc n d = Some w.
Proof.
  induction n as [|n IH]; intros d Hd; [pose proof (size_pos d); lia|].
  assert (forall l, (size_list l <= n)%nat -> exists w, sum_opt (fw_doc n) l = Some w) as HL.
  { intros l Hl. apply sum_opt_total. intros x Hx. apply IH. apply in_size_list in Hx. lia. }
  assert (forall t, (osize t <= S n)%nat ->
            exists w, match t with Some tr => do w <- sum_opt (fw_doc n) tr; Some (1 + w) | None => Some 0 end = Some w) as HT.
  { intros [tr|] Ht; [|eexists; reflexivity]. cbn [osize] in Ht.
    destruct (HL tr) as [w Hw]; [lia|]. rewrite Hw. cbn [bind]. eexists; reflexivity. }
  destruct d; cbn [fw_doc]; try (eexists; reflexivity).
  - apply HL. rewrite size_indent in Hd. lia.
  - apply HL. rewrite size_group in Hd. lia.
  - apply HL. rewrite size_dlist in Hd. lia.
  - apply IH. rewrite size_ifb in Hd. lia.
  - apply HL. rewrite size_fill in Hd. lia.
  - rewrite size_ag in Hd. apply max_opt_total. intros e He. apply in_size_entries in He.
    destruct e as [b a t|ct t]; cbn [entry_size] in He.
    + destruct (HL b) as [x Hx]; [lia|]. destruct (HL a) as [y Hy]; [lia|]. destruct (HT t) as [z Hz]; [lia|].
      rewrite Hx. cbn [bind]. rewrite Hy. cbn [bind]. rewrite Hz. cbn [bind]. eexists; reflexivity.
    + destruct (HL ct) as [x Hx]; [lia|]. destruct (HT t) as [z Hz]; [lia|].
      rewrite Hx. cbn [bind]. rewrite Hz. cbn [bind]. eexists; reflexivity.
Qed.

Lemma flat_width_total : forall n ds, (size_list ds <= n)%nat -> exists w, flat_width n ds = Some w.
Proof.
  intros n ds H. unfold flat_width. apply sum_opt_total. intros d Hd. apply fw_doc_total.
  apply in_size_list in Hd. lia.
Qed.

Lemma hh_doc_total : forall n d, (size d <= n)%nat -> exists w, hh_doc n d = Some w.
Proof.
  induction n as [|n IH]; intros d Hd; [pose proof (size_pos d); lia|].
  assert (forall l, (size_list l <= n)%nat -> exists w, any_opt (hh_doc n) l = Some w) as HL.
  { intros l Hl. apply any_opt_total. intros x Hx. apply IH. apply in_size_list in Hx. lia. }
  destruct d; cbn [hh_doc]; try (eexists; reflexivity).
  - apply HL. rewrite size_indent in Hd. lia.
  - apply HL. rewrite size_group in Hd. lia.
  - apply HL. rewrite size_dlist in Hd. lia.
Qed.

Lemma has_hard_line_total : forall n ds, (size_list ds <= n)%nat -> exists w, has_hard_line n ds = Some w.
Proof.
  intros n ds H. unfold has_hard_line. apply any_opt_total. intros d Hd. apply hh_doc_total.
  apply in_size_list in Hd. lia.
Qed.

Lemma fseq_total : forall x k, (exists r, x = Some r) -> (forall r, exists y, k r = Some y) -> exists y, fseq x k = Some y.
Proof.
  intros x k [r Hr] Hk. unfold fseq. rewrite Hr. cbn [bind]. destruct r; [eexists; reflexivity|apply Hk].
Qed.

Lemma fits_doc_total : forall n gm d m rem, (size d <= n)%nat -> exists r, fits_doc n gm d m rem = Some r.
Proof.
  induction n as [|n IH]; intros gm d m rem Hd; [pose proof (size_pos d); lia|].
  cbn [fits_doc]. destruct (rem <? 0)%Z; [eexists; reflexivity|].
  assert (forall l m rem, (size_list l <= n)%nat -> exists r, fits_list (fits_doc n gm) l m rem = Some r) as HL.
  { intros l m0 r0 Hl. apply fits_list_total. intros x m1 r1 Hx. apply IH. apply in_size_list in Hx. lia. }
  assert (forall (t : option (list doc)) m rem, (osize t <= S n)%nat ->
            exists r, match t with Some tr => fits_list (fits_doc n gm) tr m rem | None => Some (Cont rem) end = Some r) as HT.
  { intros [tr|] m0 r0 Ht; [|eexists; reflexivity]. cbn [osize] in Ht. apply HL. lia. }
  destruct d; try (eexists; reflexivity).
  - destruct m; eexists; reflexivity.
  - destruct m; eexists; reflexivity.
  - apply HL. rewrite size_indent in Hd. lia.
  - apply HL. rewrite size_group in Hd. lia.
  - apply HL. rewrite size_dlist in Hd. lia.
  - apply IH. rewrite size_ifb in Hd.
    destruct (match gid with Some g => gm_get gm g | None => mode_eqb m Break end); lia.
  - apply HL. rewrite size_fill in Hd. lia.
  - rewrite size_ag in Hd. apply fits_rev_total. intros e r0 He. apply in_size_entries in He.
    destruct e as [b a t|ct t]; cbn [entry_size] in He.
    + apply fseq_total; [apply HT; lia|]. intros r1.
      apply fseq_total; [apply HL; lia|]. intros r2. apply HL. lia.
    + apply fseq_total; [apply HT; lia|]. intros r1. apply HL. lia.
Qed.

Lemma fits_impl_total : forall n gm ds rem, (size_list ds <= n)%nat -> exists b, fits_impl n gm ds rem = Some b.
Proof.
  intros n gm ds rem H. unfold fits_impl.
  destruct (fits_list_total (fits_doc n gm) ds) with (m := Flat) (rem := rem) as [r Hr].
  - intros d m0 r0 Hd. apply fits_doc_total. apply in_size_list in Hd. lia.
  - rewrite Hr. cbn [bind]. destruct r; eexists; reflexivity.
Qed.

(** * the printer *)

Lemma psize_push_text : forall c b s st, psize (push_text c b s st) = psize st.
Proof.
  intros. unfold psize, push_text. cbn [sfx]. unfold flush_pending.
  destruct (pending st); [|reflexivity]. destruct s; reflexivity.
Qed.

Lemma psize_push_spaces : forall c k st, psize (push_spaces c k st) = psize st.
Proof. intros. unfold push_spaces. destruct (0 <? k); [apply psize_push_text|reflexivity]. Qed.

Section Total.
  Variable c : cfg.
  Variable lvl : nat.
  Variable pd : doc -> mode -> state -> option state.
  Variable fw : list doc -> option N.
  Variable fit : list (N * bool) -> list doc -> Z -> option bool.
  Variable hh : list doc -> option bool.
  Hypothesis Hpd : forall d m st, (size d + psize st <= lvl)%nat ->
    exists st', pd d m st = Some st' /\ (psize st' <= psize st + size d)%nat.
  Hypothesis Hfw : forall ds, (size_list ds <= lvl)%nat -> exists w, fw ds = Some w.
  Hypothesis Hfit : forall gm ds rem, (size_list ds <= lvl)%nat -> exists b, fit gm ds rem = Some b.
  Hypothesis Hhh : forall ds, (size_list ds <= lvl)%nat -> exists b, hh ds = Some b.

  Lemma docs_total : forall ds m st, (size_list ds + psize st <= lvl)%nat ->
    exists st', docs_with pd ds m st = Some st' /\ (psize st' <= psize st + size_list ds)%nat.
  Proof.
    unfold docs_with. induction ds as [|d ds IH]; intros m st H; cbn [fold_docs].
    - exists st. split; [reflexivity|cbn [size_list]; lia].
    - cbn [size_list] in H. destruct (Hpd d m st) as [s1 [H1 H2]]; [lia|].
      rewrite H1. cbn [bind]. destruct (IH m s1) as [s2 [H3 H4]]; [lia|].
      exists s2. split; [exact H3|]. cbn [size_list]. lia.
  Qed.

  Lemma flush_fold_total : forall L st0, (lsize L + psize st0 <= lvl)%nat ->
    exists st', fold_lists (fun s st => docs_with pd s Break st) L st0 = Some st' /\
                (psize st' <= psize st0 + lsize L)%nat.
  Proof.
    induction L as [|s L IH]; intros st0 H; cbn [fold_lists].
    - exists st0. split; [reflexivity|cbn [lsize]; lia].
    - cbn [lsize] in H. destruct (docs_total s Break st0) as [s1 [H1 H2]]; [lia|].
      rewrite H1. cbn [bind]. destruct (IH s1) as [s2 [H3 H4]]; [lia|].
      exists s2. split; [exact H3|]. cbn [lsize]. lia.
  Qed.

  Lemma flush_total : forall st, (psize st <= lvl)%nat ->
    exists st', flush_with pd st = Some st' /\ (psize st' <= psize st)%nat.
  Proof.
    intros st H. unfold flush_with. destruct (sfx st) as [|s L] eqn:E.
    - exists st. split; [reflexivity|lia].
    - destruct (flush_fold_total (s :: L) (set_sfx [] st)) as [s1 [H1 H2]].
      + unfold psize in *. cbn [set_sfx sfx]. rewrite E in H. cbn [lsize] in *. lia.
      + exists s1. split; [exact H1|]. unfold psize in *. cbn [set_sfx sfx] in H2. rewrite E.
        cbn [lsize] in *. lia.
  Qed.

  Lemma newline_total : forall st, (psize st <= lvl)%nat ->
    exists st', newline_with c pd st = Some st' /\ (psize st' <= psize st)%nat.
  Proof.
    intros st H. unfold newline_with. destruct (flush_total st H) as [s1 [H1 H2]].
    rewrite H1. cbn [bind]. eexists. split; [reflexivity|]. exact H2.
  Qed.

  Lemma fill_total : forall k l st, (length l <= k)%nat -> (size_list l + psize st <= lvl)%nat ->
    exists st', fill_with c pd fit l st = Some st' /\ (psize st' <= psize st + size_list l)%nat.
  Proof.
    induction k as [|k IH]; intros l st Hk H.
    - destruct l; [|cbn [length] in Hk; lia]. cbn [fill_with]. exists st. split; [reflexivity|lia].
    - destruct l as [|content rest]; cbn [fill_with].
      + exists st. split; [reflexivity|lia].
      + cbn [size_list] in H.
        destruct (Hfit (gmap st) [content] (remaining c st)) as [cf Hcf]; [cbn [size_list]; lia|].
        rewrite Hcf. cbn [bind].
        destruct (Hpd content (if cf then Flat else Break) st) as [s1 [H1 H2]]; [lia|].
        rewrite H1. cbn [bind].
        destruct rest as [|sep rest2].
        * exists s1. split; [reflexivity|]. cbn [size_list]. lia.
        * cbn [size_list] in H.
          assert (exists nf, match rest2 with
                             | [] => Some true
                             | nxt :: _ => fit (gmap s1) [sep; nxt] (remaining c s1)
                             end = Some nf) as [nf Hnf].
          { destruct rest2 as [|nxt rest3]; [eexists; reflexivity|].
            apply Hfit. cbn [size_list] in *. lia. }
          rewrite Hnf. cbn [bind].
          destruct (Hpd sep (if nf then Flat else Break) s1) as [s2 [H3 H4]]; [lia|].
          rewrite H3. cbn [bind].
          destruct (IH rest2 s2) as [s3 [H5 H6]]; [cbn [length] in Hk; lia|lia|].
          exists s3. split; [exact H5|]. cbn [size_list]. lia.
  Qed.

  Lemma trail_total : forall m mc t cw st, (osize t + psize st <= S lvl)%nat ->
    exists st', trail_with c pd m mc t cw st = Some st' /\ (psize st' <= psize st + osize t)%nat.
  Proof.
    intros m mc t cw st H. unfold trail_with. destruct t as [tr|]; cbn [osize] in *.
    - destruct (docs_total tr m (push_spaces c (trailing_comment_padding c cw mc) st)) as [s1 [H1 H2]].
      + rewrite psize_push_spaces. lia.
      + exists s1. split; [exact H1|]. rewrite psize_push_spaces in H2. lia.
    - exists st. split; [reflexivity|lia].
  Qed.

  Lemma entry_total : forall m mb mc e st, (entry_size e + psize st <= S lvl)%nat ->
    exists st', entry_with c pd fw m mb mc e st = Some st' /\ (psize st' <= psize st + entry_size e)%nat.
  Proof.
    intros m mb mc e st H. unfold entry_with. destruct e as [b a t|ct t]; cbn [entry_size] in *.
    - destruct (Hfw b) as [bw Hbw]; [lia|]. rewrite Hbw. cbn [bind].
      destruct (docs_total b m st) as [s1 [H1 H2]]; [lia|]. rewrite H1. cbn [bind].
      set (s2 := push_text c false [SPc] (push_spaces c (mb - bw) s1)).
      assert (psize s2 = psize s1) as Hs2 by (unfold s2; rewrite psize_push_text, psize_push_spaces; reflexivity).
      destruct (docs_total a m s2) as [s3 [H3 H4]]; [lia|]. rewrite H3. cbn [bind].
      destruct (Hfw a) as [aw Haw]; [lia|]. rewrite Haw. cbn [bind].
      destruct (trail_total m mc t (mb + 1 + aw) s3) as [s4 [H5 H6]]; [lia|].
      exists s4. split; [exact H5|]. lia.
    - destruct (docs_total ct m st) as [s1 [H1 H2]]; [lia|]. rewrite H1. cbn [bind].
      destruct (Hfw ct) as [cw Hcw]; [lia|]. rewrite Hcw. cbn [bind].
      destruct (trail_total m mc t cw s1) as [s4 [H5 H6]]; [lia|].
      exists s4. split; [exact H5|]. lia.
  Qed.

  Lemma align_total : forall m mb mc l first st, (size_entries l + psize st <= lvl)%nat ->
    exists st', align_with c pd fw m mb mc l first st = Some st' /\ (psize st' <= psize st + size_entries l)%nat.
  Proof.
    intros m mb mc. induction l as [|e l IH]; intros first st H; cbn [align_with].
    - exists st. split; [reflexivity|lia].
    - cbn [size_entries] in H.
      assert (exists s0, (if first then Some st else newline_with c pd st) = Some s0 /\ (psize s0 <= psize st)%nat)
        as [s0 [H0 H0']].
      { destruct first; [exists st; split; [reflexivity|lia]|]. apply newline_total. lia. }
      rewrite H0. cbn [bind].
      destruct (entry_total m mb mc e s0) as [s1 [H1 H2]]; [lia|]. rewrite H1. cbn [bind].
      destruct (IH false s1) as [s2 [H3 H4]]; [lia|].
      exists s2. split; [exact H3|]. cbn [size_entries]. lia.
  Qed.

  Lemma step_total : forall d m st, (size d + psize st <= S lvl)%nat ->
    exists st', step c pd fw fit hh d m st = Some st' /\ (psize st' <= psize st + size d)%nat.
  Proof.
    intros d m st H. pose proof (size_pos d) as Hp.
    assert (forall st, (psize st <= lvl)%nat ->
              exists st', newline_with c pd st = Some st' /\ (psize st' <= psize st + 1)%nat) as HN.
    { intros s Hs. destruct (newline_total s Hs) as [s1 [H1 H2]]. exists s1. split; [exact H1|lia]. }
    destruct d; cbn [step].
    - eexists. split; [reflexivity|]. rewrite psize_push_text. lia.
    - cbn [size] in *. apply HN. lia.
    - cbn [size] in *. destruct m.
      + eexists. split; [reflexivity|]. rewrite psize_push_text. lia.
      + apply HN. lia.
    - cbn [size] in *. destruct m.
      + eexists. split; [reflexivity|]. lia.
      + apply HN. lia.
    - eexists. split; [reflexivity|]. rewrite psize_push_text. lia.
    - rewrite size_indent in *.
      destruct (docs_total ds m (set_level (level st + 1) st)) as [s1 [H1 H2]]; [unfold psize in *; cbn [set_level sfx]; lia|].
      rewrite H1. cbn [bind]. eexists. split; [reflexivity|]. unfold psize in *. cbn [set_level sfx] in *. lia.
    - rewrite size_group in *.
      destruct (Hhh ds) as [h Hh]; [lia|]. rewrite Hh. cbn [bind].
      assert (exists child, (if should_break || h then Some Break
                             else do f <- fit (gmap st) ds (remaining c st); Some (if f then Flat else Break)) = Some child)
        as [child Hc].
      { destruct (should_break || h); [eexists; reflexivity|].
        destruct (Hfit (gmap st) ds (remaining c st)) as [f Hf]; [lia|]. rewrite Hf. cbn [bind]. eexists; reflexivity. }
      rewrite Hc. cbn [bind].
      set (st1 := match id with Some g => gm_insert g (mode_eqb child Break) st | None => st end).
      assert (psize st1 = psize st) as Hst1 by (unfold st1; destruct id; reflexivity).
      destruct (docs_total ds child st1) as [s1 [H1 H2]]; [lia|].
      exists s1. split; [exact H1|]. lia.
    - rewrite size_dlist in *. destruct (docs_total ds m st) as [s1 [H1 H2]]; [lia|].
      exists s1. split; [exact H1|]. lia.
    - rewrite size_ifb in *.
      destruct (match gid with Some g => gm_get (gmap st) g | None => mode_eqb m Break end).
      + destruct (Hpd d1 m st) as [s1 [H1 H2]]; [lia|]. exists s1. split; [exact H1|]. lia.
      + destruct (Hpd d2 m st) as [s1 [H1 H2]]; [lia|]. exists s1. split; [exact H1|]. lia.
    - rewrite size_fill in *. destruct (fill_total (length ds) ds st (le_n _)) as [s1 [H1 H2]]; [lia|].
      exists s1. split; [exact H1|]. lia.
    - rewrite size_ls in *. eexists. split; [reflexivity|].
      unfold psize. cbn [set_sfx sfx]. rewrite lsize_app. cbn [lsize]. lia.
    - rewrite size_ag in *.
      assert (forall e, In e es -> (entry_size e <= lvl)%nat) as He.
      { intros e Hin. apply in_size_entries in Hin. lia. }
      assert (exists mb, max_before_of fw es = Some mb) as [mb Hmb].
      { unfold max_before_of. apply max_opt_total. intros e Hin. apply He in Hin.
        destruct e as [b a t|ct t]; [|eexists; reflexivity]. cbn [entry_size] in Hin. apply Hfw. lia. }
      rewrite Hmb. cbn [bind].
      assert (exists mc, max_content_of fw mb es = Some mc) as [mc Hmc].
      { unfold max_content_of. destruct (existsb has_trailing es); [|eexists; reflexivity].
        apply max_opt_total. intros e Hin. apply He in Hin.
        destruct e as [b a t|ct t]; cbn [entry_size] in Hin.
        - destruct (Hfw a) as [w Hw]; [lia|]. rewrite Hw. cbn [bind]. eexists; reflexivity.
        - apply Hfw. lia. }
      rewrite Hmc. cbn [bind].
      destruct (align_total m mb mc es true st) as [s1 [H1 H2]]; [lia|].
      exists s1. split; [exact H1|]. lia.
  Qed.
End Total.

Lemma print_doc_total : forall n c d m st, (size d + psize st <= n)%nat ->
  exists st', print_doc n c d m st = Some st' /\ (psize st' <= psize st + size d)%nat.
Proof.
  induction n as [|n IH]; intros c d m st H; [pose proof (size_pos d); lia|].
  cbn [print_doc]. apply (step_total c n); [| | | |exact H].
  - intros d0 m0 s0 H0. apply IH. exact H0.
  - intros ds H0. apply flat_width_total. exact H0.
  - intros gm ds rem H0. apply fits_impl_total. exact H0.
  - intros ds H0. apply has_hard_line_total. exact H0.
Qed.

Lemma run_total : forall c ds, exists st, run c ds = Some st.
Proof.
  intros c ds. unfold run. set (n := S (S (size_list ds))).
  destruct (docs_total n (print_doc n c) (fun d m st H => print_doc_total n c d m st H) ds Break init) as [s1 [H1 H2]].
  - unfold psize, init. cbn [sfx lsize]. unfold n. lia.
  - unfold print_docs. rewrite H1. cbn [bind].
    destruct (flush_total n (print_doc n c) (fun d m st H => print_doc_total n c d m st H) s1) as [s2 [H3 H4]].
    + unfold psize, init in H2. cbn [sfx lsize] in H2. unfold n. unfold psize. lia.
    + exists s2. exact H3.
Qed.
