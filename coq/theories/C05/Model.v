(** C05/Model.v — transcription of the formatter's intermediate representation
    (crates/emmylua_formatter/src/ir/doc_ir.rs: [DocIR], [AlignEntry], [ir_flat_width]) and of the
    printer (crates/emmylua_formatter/src/printer/mod.rs: [Printer::print], [print_doc],
    [push_text], [push_newline], [flush_pending_indent_for_text], [flush_line_suffixes],
    [fits_impl], [has_hard_line], [print_fill], [print_align_group],
    [trailing_comment_padding]) and of the guard of [reformat_lua_code] (src/lib.rs).
    Executable definitions only.

    Texts are lists of code points; every width of the Rust code is a byte length ([str::len]),
    here [bytes].  The four atom constructors ([Text], [SourceNode], [SourceToken],
    [SyntaxToken]) all print the text they denote; the dump hook resolves that text, the model
    keeps the constructor as a tag.

    The printer recurses into documents stored in its own state (pending line suffixes), so
    the recursion is not structural: every recursive function takes a depth budget [n : nat]
    and returns [None] when it runs out; [print] supplies [size + 2], which is proved sufficient
    (Proofs.print_total).

    The state carries one ghost field, [evs]: the list of pushes in order (atom text, blank
    text, newline).  It is never read by the printer. *)
From EV Require Export Base.Text.
From Coq Require Import ZArith.
Local Open Scope N_scope.

Definition SPc : cp := 32.
Definition TABc : cp := 9.
Definition NLc : cp := 10.
Definition CRc : cp := 13.

Inductive akind := KText | KSourceNode | KSourceToken | KSyntaxToken.

Inductive doc :=
| Atom (k : akind) (s : text)
| HardLine
| SoftLine
| SoftLineOrEmpty
| Space
| Indent (ds : list doc)
| Group (ds : list doc) (should_break : bool) (id : option N)
| DList (ds : list doc)
| IfBreak (brk flat : doc) (gid : option N)
| Fill (ds : list doc)
| LineSuffix (ds : list doc)
| AlignGroup (es : list entry)
with entry :=
| Aligned (before after : list doc) (trailing : option (list doc))
| ALine (content : list doc) (trailing : option (list doc)).

Inductive mode := Flat | Break.

Definition mode_eqb (a b : mode) : bool :=
  match a, b with Flat, Flat => true | Break, Break => true | _, _ => false end.

(** what [Printer::new] reads from the configuration; [min_spaces] is already [max 1] *)
Record cfg := mkCfg {
  max_width : N;
  use_tab : bool;
  indent_width : N;
  use_crlf : bool;
  min_spaces : N;
  min_column : N
}.

Definition spaces (k : N) : text := repeat SPc (N.to_nat k).

(** [LuaFormatConfig::indent_str] *)
Definition indent_str (c : cfg) : text := if use_tab c then [TABc] else spaces (indent_width c).
(** [LuaFormatConfig::newline_str] *)
Definition newline_str (c : cfg) : text := if use_crlf c then [CRc; NLc] else [NLc].

Fixpoint repeat_text (s : text) (k : nat) : text :=
  match k with O => [] | S k' => s ++ repeat_text s k' end.

Definition bind {A B} (o : option A) (f : A -> option B) : option B :=
  match o with Some a => f a | None => None end.
Notation "'do' x <- e ; k" := (bind e (fun x => k)) (at level 200, x pattern, e at level 100, k at level 200).

(** * ir_flat_width *)

Fixpoint sum_opt (f : doc -> option N) (l : list doc) : option N :=
  match l with
  | [] => Some 0
  | d :: r => do a <- f d; do b <- sum_opt f r; Some (a + b)
  end.

Fixpoint max_opt {A} (f : A -> option N) (l : list A) : option N :=
  match l with
  | [] => Some 0
  | e :: r => do a <- f e; do b <- max_opt f r; Some (N.max a b)
  end.

Fixpoint fw_doc (n : nat) (d : doc) : option N :=
  match n with
  | O => None
  | S n' =>
      let fwl := sum_opt (fw_doc n') in
      let trail := fun t => match t with Some tr => do w <- fwl tr; Some (1 + w) | None => Some 0 end in
      match d with
      | Atom _ s => Some (bytes s)
      | HardLine => Some 0
      | SoftLine => Some 1
      | SoftLineOrEmpty => Some 0
      | Space => Some 1
      | Indent ds => fwl ds
      | Group ds _ _ => fwl ds
      | DList ds => fwl ds
      | IfBreak _ f _ => fw_doc n' f
      | Fill ds => fwl ds
      | LineSuffix _ => Some 0
      | AlignGroup es =>
          max_opt (fun e => match e with
                            | Aligned b a t => do x <- fwl b; do y <- fwl a; do z <- trail t; Some (x + y + z)
                            | ALine c t => do x <- fwl c; do z <- trail t; Some (x + z)
                            end) es
      end
  end.

(** [ir_flat_width(docs)] *)
Definition flat_width (n : nat) (ds : list doc) : option N := sum_opt (fw_doc n) ds.

(** * Printer::has_hard_line *)

Fixpoint any_opt (f : doc -> option bool) (l : list doc) : option bool :=
  match l with
  | [] => Some false
  | d :: r => do a <- f d; if a then Some true else any_opt f r
  end.

Fixpoint hh_doc (n : nat) (d : doc) : option bool :=
  match n with
  | O => None
  | S n' =>
      match d with
      | HardLine => Some true
      | DList ds | Indent ds => any_opt (hh_doc n') ds
      | Group ds _ _ => any_opt (hh_doc n') ds
      | AlignGroup es => Some (2 <=? N.of_nat (length es))
      | _ => Some false
      end
  end.

Definition has_hard_line (n : nat) (ds : list doc) : option bool := any_opt (hh_doc n) ds.

(** * Printer::fits_impl — the explicit stack is a pre-order walk; [Stop b] is an early
    [return b], [Cont r] carries the remaining width to the next stack element *)

Inductive fres := Stop (b : bool) | Cont (r : Z).

Definition gm_get (gm : list (N * bool)) (g : N) : bool :=
  match find (fun p => fst p =? g) gm with Some p => snd p | None => false end.

Fixpoint fits_list (f : doc -> mode -> Z -> option fres) (l : list doc) (m : mode) (rem : Z) : option fres :=
  match l with
  | [] => Some (Cont rem)
  | d :: r => do x <- f d m rem; match x with Stop b => Some (Stop b) | Cont rem' => fits_list f r m rem' end
  end.

(** entries are pushed in order, so they are popped last entry first *)
Fixpoint fits_rev {A} (f : A -> Z -> option fres) (l : list A) (rem : Z) : option fres :=
  match l with
  | [] => Some (Cont rem)
  | e :: r => do x <- fits_rev f r rem; match x with Stop b => Some (Stop b) | Cont rem' => f e rem' end
  end.

Definition fseq (x : option fres) (k : Z -> option fres) : option fres :=
  do y <- x; match y with Stop b => Some (Stop b) | Cont r => k r end.

Fixpoint fits_doc (n : nat) (gm : list (N * bool)) (d : doc) (m : mode) (rem : Z) : option fres :=
  match n with
  | O => None
  | S n' =>
      if (rem <? 0)%Z then Some (Stop false)
      else
        let fl := fits_list (fits_doc n' gm) in
        let ft := fun t m rem => match t with Some tr => fl tr m rem | None => Some (Cont rem) end in
        match d with
        | Atom _ s => Some (Cont (rem - Z.of_N (bytes s)))
        | Space => Some (Cont (rem - 1))
        | HardLine => Some (Stop true)
        | SoftLine => match m with Break => Some (Stop true) | Flat => Some (Cont (rem - 1)) end
        | SoftLineOrEmpty => match m with Break => Some (Stop true) | Flat => Some (Cont rem) end
        | Group ds sb _ => fl ds (if sb then Break else Flat) rem
        | Indent ds | DList ds => fl ds m rem
        | IfBreak b f gid =>
            let is_break := match gid with Some g => gm_get gm g | None => mode_eqb m Break end in
            fits_doc n' gm (if is_break then b else f) m rem
        | Fill ds => fl ds m rem
        | LineSuffix _ => Some (Cont rem)
        | AlignGroup es =>
            fits_rev (fun e rem =>
                        match e with
                        | Aligned b a t => fseq (ft t m rem) (fun r1 => fseq (fl a m r1) (fun r2 => fl b m r2))
                        | ALine c t => fseq (ft t m rem) (fun r1 => fl c m r1)
                        end) es rem
        end
  end.

Definition fits_impl (n : nat) (gm : list (N * bool)) (ds : list doc) (rem : Z) : option bool :=
  do x <- fits_list (fits_doc n gm) ds Flat rem;
  match x with Stop b => Some b | Cont r => Some (0 <=? r)%Z end.

(** * printer state *)

Inductive ev := EvAtom (s : text) | EvBlank (s : text) | EvNewline.

Record state := mkState {
  rout : text;                    (* output, reversed *)
  col : N;                        (* current_column *)
  level : N;                      (* indent_level *)
  pending : option N;             (* pending_indent_width *)
  gmap : list (N * bool);         (* group_break_map: latest insertion first *)
  sfx : list (list doc);          (* line_suffixes *)
  evs : list ev                   (* ghost: pushes so far, latest first *)
}.

Definition init : state :=
  {| rout := []; col := 0; level := 0; pending := None; gmap := []; sfx := []; evs := [] |}.

(** bytes after the last ['\n'] of [s] ([s.len() - s.rfind('\n') - 1]) *)
Fixpoint after_last_nl (s : text) (acc : option N) : option N :=
  match s with
  | [] => acc
  | ch :: r => if ch =? NLc then after_last_nl r (Some 0) else after_last_nl r (option_map (N.add (blen ch)) acc)
  end.

(** [flush_pending_indent_for_text] *)
Definition flush_pending (c : cfg) (s : text) (st : state) : state :=
  match pending st with
  | None => st
  | Some w =>
      match s with
      | [] => st
      | _ :: _ =>
          let lvl := if indent_width c =? 0 then 0 else w / indent_width c in
          let ind := repeat_text (indent_str c) (N.to_nat lvl) in
          {| rout := rev_append ind (rout st); col := w; level := level st; pending := None;
             gmap := gmap st; sfx := sfx st; evs := EvBlank ind :: evs st |}
      end
  end.

(** [push_text]; [isatom] only selects the ghost event *)
Definition push_text (c : cfg) (isatom : bool) (s : text) (st : state) : state :=
  let st1 := flush_pending c s st in
  {| rout := rev_append s (rout st1);
     col := match after_last_nl s None with Some k => k | None => col st1 + bytes s end;
     level := level st1; pending := pending st1; gmap := gmap st1; sfx := sfx st1;
     evs := (if isatom then EvAtom s else EvBlank s) :: evs st1 |}.

Fixpoint drop_spaces (r : text) : text :=
  match r with
  | ch :: r' => if ch =? SPc then drop_spaces r' else r
  | [] => []
  end.

(** [push_newline]: trims trailing spaces of the whole output first *)
Definition push_newline (c : cfg) (st : state) : state :=
  {| rout := rev_append (newline_str c) (drop_spaces (rout st)); col := 0; level := level st;
     pending := Some (level st * indent_width c); gmap := gmap st; sfx := sfx st;
     evs := EvNewline :: evs st |}.

Definition set_level (l : N) (st : state) : state :=
  {| rout := rout st; col := col st; level := l; pending := pending st; gmap := gmap st; sfx := sfx st; evs := evs st |}.
Definition set_sfx (x : list (list doc)) (st : state) : state :=
  {| rout := rout st; col := col st; level := level st; pending := pending st; gmap := gmap st; sfx := x; evs := evs st |}.
Definition gm_insert (g : N) (b : bool) (st : state) : state :=
  {| rout := rout st; col := col st; level := level st; pending := pending st; gmap := (g, b) :: gmap st;
     sfx := sfx st; evs := evs st |}.

(** [trailing_comment_padding] *)
Definition trailing_comment_padding (c : cfg) (content_width aligned : N) : N :=
  let natural := (aligned - content_width) + min_spaces c in
  if min_column c =? 0 then natural else N.max natural (min_column c - content_width).

Definition remaining (c : cfg) (st : state) : Z := Z.of_N (max_width c - col st).

Fixpoint fold_docs (f : doc -> state -> option state) (l : list doc) (st : state) : option state :=
  match l with
  | [] => Some st
  | d :: r => do st' <- f d st; fold_docs f r st'
  end.

Fixpoint fold_lists (f : list doc -> state -> option state) (l : list (list doc)) (st : state) : option state :=
  match l with
  | [] => Some st
  | d :: r => do st' <- f d st; fold_lists f r st'
  end.

Definition push_spaces (c : cfg) (k : N) (st : state) : state :=
  if 0 <? k then push_text c false (spaces k) st else st.

Definition has_trailing (e : entry) : bool :=
  match e with Aligned _ _ (Some _) | ALine _ (Some _) => true | _ => false end.

(** One level of [print_doc].  The recursive calls go through the parameters: [pd] is
    [print_doc] at the smaller budget, [fw] is [ir_flat_width], [fit] is [fits_impl], [hh] is
    [has_hard_line]. *)
Section Printer.
  Variable c : cfg.
  Variable pd : doc -> mode -> state -> option state.
  Variable fw : list doc -> option N.
  Variable fit : list (N * bool) -> list doc -> Z -> option bool.
  Variable hh : list doc -> option bool.

  (** [print_docs] *)
  Definition docs_with (ds : list doc) (m : mode) (st : state) : option state :=
    fold_docs (fun d st => pd d m st) ds st.

  (** [flush_line_suffixes]: take the pending list, print each suffix in Break mode *)
  Definition flush_with (st : state) : option state :=
    match sfx st with
    | [] => Some st
    | l => fold_lists (fun s st => docs_with s Break st) l (set_sfx [] st)
    end.

  (** [flush_line_suffixes(); push_newline()] *)
  Definition newline_with (st : state) : option state :=
    do st1 <- flush_with st; Some (push_newline c st1).

  (** [print_fill]: content, separator, content, ... *)
  Fixpoint fill_with (l : list doc) (st : state) : option state :=
    match l with
    | [] => Some st
    | content :: rest =>
        do cf <- fit (gmap st) [content] (remaining c st);
        do st1 <- pd content (if cf then Flat else Break) st;
        match rest with
        | [] => Some st1
        | sep :: rest2 =>
            do nf <- match rest2 with
                     | [] => Some true
                     | nxt :: _ => fit (gmap st1) [sep; nxt] (remaining c st1)
                     end;
            do st2 <- pd sep (if nf then Flat else Break) st1;
            fill_with rest2 st2
        end
    end.

  (** [print_align_group], phase 1 and 2 *)
  Definition max_before_of (es : list entry) : option N :=
    max_opt (fun e => match e with Aligned b _ _ => fw b | ALine _ _ => Some 0 end) es.

  Definition max_content_of (max_before : N) (es : list entry) : option N :=
    if existsb has_trailing es
    then max_opt (fun e => match e with
                           | Aligned _ a _ => do w <- fw a; Some (max_before + 1 + w)
                           | ALine ct _ => fw ct
                           end) es
    else Some 0.

  (** the trailing comment of an entry *)
  Definition trail_with (m : mode) (max_content : N) (t : option (list doc)) (cw : N) (st : state) : option state :=
    match t with
    | None => Some st
    | Some tr => docs_with tr m (push_spaces c (trailing_comment_padding c cw max_content) st)
    end.

  (** phase 3, one entry *)
  Definition entry_with (m : mode) (max_before max_content : N) (e : entry) (st0 : state) : option state :=
    match e with
    | Aligned b a t =>
        do bw <- fw b;
        do st1 <- docs_with b m st0;
        let st2 := push_text c false [SPc] (push_spaces c (max_before - bw) st1) in
        do st3 <- docs_with a m st2;
        do aw <- fw a;
        trail_with m max_content t (max_before + 1 + aw) st3
    | ALine ct t =>
        do st1 <- docs_with ct m st0;
        do cw <- fw ct;
        trail_with m max_content t cw st1
    end.

  (** phase 3: a newline (after flushing line suffixes) between entries *)
  Fixpoint align_with (m : mode) (max_before max_content : N) (l : list entry) (first : bool) (st : state) : option state :=
    match l with
    | [] => Some st
    | e :: r =>
        do st0 <- (if first then Some st else newline_with st);
        do st' <- entry_with m max_before max_content e st0;
        align_with m max_before max_content r false st'
    end.

  (** [print_doc] *)
  Definition step (d : doc) (m : mode) (st : state) : option state :=
    match d with
    | Atom _ s => Some (push_text c true s st)
    | Space => Some (push_text c false [SPc] st)
    | HardLine => newline_with st
    | SoftLine => match m with Flat => Some (push_text c false [SPc] st) | Break => newline_with st end
    | SoftLineOrEmpty => match m with Flat => Some st | Break => newline_with st end
    | Group ds sb id =>
        do h <- hh ds;
        do child <- (if sb || h then Some Break
                     else do f <- fit (gmap st) ds (remaining c st); Some (if f then Flat else Break));
        let st1 := match id with Some g => gm_insert g (mode_eqb child Break) st | None => st end in
        docs_with ds child st1
    | Indent ds =>
        do st1 <- docs_with ds m (set_level (level st + 1) st);
        Some (set_level (level st1 - 1) st1)
    | DList ds => docs_with ds m st
    | IfBreak b f gid =>
        let is_break := match gid with Some g => gm_get (gmap st) g | None => mode_eqb m Break end in
        pd (if is_break then b else f) m st
    | Fill parts => fill_with parts st
    | LineSuffix ds => Some (set_sfx (sfx st ++ [ds]) st)
    | AlignGroup es =>
        do max_before <- max_before_of es;
        do max_content <- max_content_of max_before es;
        align_with m max_before max_content es true st
    end.
End Printer.

Fixpoint print_doc (n : nat) (c : cfg) (d : doc) (m : mode) (st : state) : option state :=
  match n with
  | O => None
  | S n' => step c (print_doc n' c) (flat_width n') (fits_impl n') (has_hard_line n') d m st
  end.

Definition print_docs (n : nat) (c : cfg) (ds : list doc) (m : mode) (st : state) : option state :=
  docs_with (print_doc n c) ds m st.

(** * sizes (for the depth budget) *)

Fixpoint size (d : doc) : nat :=
  let sl := fix sl (l : list doc) : nat := match l with [] => O | x :: r => (size x + sl r)%nat end in
  let so := fun t => match t with Some l => S (sl l) | None => O end in
  match d with
  | Atom _ _ | HardLine | SoftLine | SoftLineOrEmpty | Space => 1%nat
  | Indent ds | DList ds | Fill ds | LineSuffix ds => S (sl ds)
  | Group ds _ _ => S (sl ds)
  | IfBreak b f _ => S (size b + size f)
  | AlignGroup es =>
      S ((fix se (l : list entry) : nat :=
            match l with
            | [] => O
            | Aligned b a t :: r => (S (sl b + sl a + so t) + se r)%nat
            | ALine ct t :: r => (S (sl ct + so t) + se r)%nat
            end) es)
  end.

Fixpoint size_list (l : list doc) : nat :=
  match l with [] => O | x :: r => (size x + size_list r)%nat end.

(** [Printer::print]: print in Break mode, then flush the remaining line suffixes once
    (suffixes pushed by that last flush are dropped, as in the Rust code) *)
Definition run (c : cfg) (ds : list doc) : option state :=
  let n := S (S (size_list ds)) in
  do st <- print_docs n c ds Break init;
  flush_with (print_doc n c) st.

Definition print (c : cfg) (ds : list doc) : option text :=
  do st <- run c ds; Some (rev (rout st)).

(** ghost: the atom texts pushed, in push order *)
Fixpoint atoms_of_evs (l : list ev) : text :=
  match l with
  | [] => []
  | EvAtom s :: r => atoms_of_evs r ++ s
  | _ :: r => atoms_of_evs r
  end.

Definition emitted (c : cfg) (ds : list doc) : option text :=
  do st <- run c ds; Some (atoms_of_evs (evs st)).

(** * the guard of [reformat_lua_code]: a tree with syntax errors is returned as it is;
    [builder] stands for [format_chunk] (the IR builder, not modelled) *)
Definition reformat (has_syntax_errors : bool) (builder : text -> list doc) (c : cfg) (src : text) : option text :=
  if has_syntax_errors then Some src else print c (builder src).

(** * specification side (structural) *)

Definition is_blank (ch : cp) : bool := (ch =? SPc) || (ch =? TABc) || (ch =? NLc) || (ch =? CRc).
Definition nonblank (t : text) : text := filter (fun ch => negb (is_blank ch)) t.

(** the text of an IR in document order: line suffixes in place, [IfBreak] read as its flat branch *)
Fixpoint atoms (d : doc) : text :=
  let al := fix al (l : list doc) : text := match l with [] => [] | x :: r => atoms x ++ al r end in
  let ao := fun t => match t with Some l => al l | None => [] end in
  match d with
  | Atom _ s => s
  | HardLine | SoftLine | SoftLineOrEmpty | Space => []
  | Indent ds | DList ds | Fill ds | LineSuffix ds => al ds
  | Group ds _ _ => al ds
  | IfBreak _ f _ => atoms f
  | AlignGroup es =>
      (fix ae (l : list entry) : text :=
         match l with
         | [] => []
         | Aligned b a t :: r => al b ++ al a ++ ao t ++ ae r
         | ALine ct t :: r => al ct ++ ao t ++ ae r
         end) es
  end.

Fixpoint atoms_list (l : list doc) : text :=
  match l with [] => [] | x :: r => atoms x ++ atoms_list r end.

Definition atoms_opt (t : option (list doc)) : text :=
  match t with Some l => atoms_list l | None => [] end.

Fixpoint atoms_entries (l : list entry) : text :=
  match l with
  | [] => []
  | Aligned b a t :: r => atoms_list b ++ atoms_list a ++ atoms_opt t ++ atoms_entries r
  | ALine ct t :: r => atoms_list ct ++ atoms_opt t ++ atoms_entries r
  end.

Definition text_eqb (a b : text) : bool :=
  (fix go (a b : text) : bool :=
     match a, b with
     | [], [] => true
     | x :: a', y :: b' => (x =? y) && go a' b'
     | _, _ => false
     end) a b.

(** [IfBreakOk]: both branches of every [IfBreak] have the same non-blank text *)
Fixpoint ifbreak_ok (d : doc) : bool :=
  let ol := fix ol (l : list doc) : bool := match l with [] => true | x :: r => ifbreak_ok x && ol r end in
  let oo := fun t => match t with Some l => ol l | None => true end in
  match d with
  | Atom _ _ | HardLine | SoftLine | SoftLineOrEmpty | Space => true
  | Indent ds | DList ds | Fill ds | LineSuffix ds => ol ds
  | Group ds _ _ => ol ds
  | IfBreak b f _ => ifbreak_ok b && ifbreak_ok f && text_eqb (nonblank (atoms b)) (nonblank (atoms f))
  | AlignGroup es =>
      (fix oe (l : list entry) : bool :=
         match l with
         | [] => true
         | Aligned b a t :: r => ol b && ol a && oo t && oe r
         | ALine ct t :: r => ol ct && oo t && oe r
         end) es
  end.

Fixpoint ifbreak_ok_list (l : list doc) : bool :=
  match l with [] => true | x :: r => ifbreak_ok x && ifbreak_ok_list r end.

(** [plain]: no [LineSuffix] and no [IfBreak] inside (required of line-suffix contents) *)
Fixpoint plain (d : doc) : bool :=
  let pl := fix pl (l : list doc) : bool := match l with [] => true | x :: r => plain x && pl r end in
  let po := fun t => match t with Some l => pl l | None => true end in
  match d with
  | Atom _ _ | HardLine | SoftLine | SoftLineOrEmpty | Space => true
  | Indent ds | DList ds | Fill ds => pl ds
  | Group ds _ _ => pl ds
  | IfBreak _ _ _ => false
  | LineSuffix _ => false
  | AlignGroup es =>
      (fix pe (l : list entry) : bool :=
         match l with
         | [] => true
         | Aligned b a t :: r => pl b && pl a && po t && pe r
         | ALine ct t :: r => pl ct && po t && pe r
         end) es
  end.

Fixpoint plain_list (l : list doc) : bool :=
  match l with [] => true | x :: r => plain x && plain_list r end.

(** [SuffixOk]: a conservative, layout-independent discipline for [LineSuffix]:
    its contents are [plain], and no atom with non-blank text is printed between a
    [LineSuffix] and the next certain flush ([HardLine], the boundary between two entries of an
    alignment group, the end of the document).  [sok d p] threads "a suffix with non-blank text
    may be pending" and fails ([None]) on a violation. *)
Definition isnil (t : text) : bool := match t with [] => true | _ => false end.

Fixpoint sok (d : doc) (p : bool) {struct d} : option bool :=
  let sl := fix sl (l : list doc) (p : bool) {struct l} : option bool :=
    match l with [] => Some p | x :: r => match sok x p with Some p' => sl r p' | None => None end end in
  let so := fun t p => match t with Some l => sl l p | None => Some p end in
  match d with
  | Atom _ s => if p && negb (isnil (nonblank s)) then None else Some p
  | HardLine => Some false
  | SoftLine | SoftLineOrEmpty | Space => Some p
  | Indent ds | DList ds | Fill ds => sl ds p
  | Group ds _ _ => sl ds p
  | IfBreak b f _ => do p1 <- sok b p; do p2 <- sok f p; Some (p1 || p2)
  | LineSuffix ds => if plain_list ds then Some (p || negb (isnil (nonblank (atoms_list ds)))) else None
  | AlignGroup es =>
      (fix se (l : list entry) (first : bool) (p : bool) : option bool :=
         match l with
         | [] => Some p
         | e :: r =>
             let p0 := if first then p else false in
             do p' <- match e with
                      | Aligned b a t => do p1 <- sl b p0; do p2 <- sl a p1; so t p2
                      | ALine ct t => do p1 <- sl ct p0; so t p1
                      end;
             se r false p'
         end) es true p
  end.

Fixpoint sok_list (l : list doc) (p : bool) : option bool :=
  match l with [] => Some p | x :: r => match sok x p with Some p' => sok_list r p' | None => None end end.

Definition suffix_ok (ds : list doc) : bool :=
  match sok_list ds false with Some _ => true | None => false end.

(** [BlankEdit a o]: [o] is [a] with blank characters inserted and space characters deleted *)
Inductive BlankEdit : text -> text -> Prop :=
| BE_nil : BlankEdit [] []
| BE_keep : forall ch a o, BlankEdit a o -> BlankEdit (ch :: a) (ch :: o)
| BE_ins : forall ch a o, is_blank ch = true -> BlankEdit a o -> BlankEdit a (ch :: o)
| BE_del : forall a o, BlankEdit a o -> BlankEdit (SPc :: a) o.


(** [Res d a]: [a] is the text of [d] in document order (line suffixes in place) with every
    [IfBreak] replaced by one of its two branches; [ResL], [ResO], [ResE] are the same for lists,
    optional trailing parts and alignment entries *)
Inductive Res : doc -> text -> Prop :=
| R_atom : forall k s, Res (Atom k s) s
| R_hard : Res HardLine []
| R_soft : Res SoftLine []
| R_softe : Res SoftLineOrEmpty []
| R_space : Res Space []
| R_indent : forall ds a, ResL ds a -> Res (Indent ds) a
| R_group : forall ds sb id a, ResL ds a -> Res (Group ds sb id) a
| R_list : forall ds a, ResL ds a -> Res (DList ds) a
| R_ifb_b : forall b f g a, Res b a -> Res (IfBreak b f g) a
| R_ifb_f : forall b f g a, Res f a -> Res (IfBreak b f g) a
| R_fill : forall ds a, ResL ds a -> Res (Fill ds) a
| R_ls : forall ds a, ResL ds a -> Res (LineSuffix ds) a
| R_ag : forall es a, ResE es a -> Res (AlignGroup es) a
with ResL : list doc -> text -> Prop :=
| RL_nil : ResL [] []
| RL_cons : forall d r a b, Res d a -> ResL r b -> ResL (d :: r) (a ++ b)
with ResO : option (list doc) -> text -> Prop :=
| RO_none : ResO None []
| RO_some : forall l a, ResL l a -> ResO (Some l) a
with ResE : list entry -> text -> Prop :=
| RE_nil : ResE [] []
| RE_aligned : forall b a t r x y z w,
    ResL b x -> ResL a y -> ResO t z -> ResE r w -> ResE (Aligned b a t :: r) (x ++ y ++ z ++ w)
| RE_line : forall ct t r x z w,
    ResL ct x -> ResO t z -> ResE r w -> ResE (ALine ct t :: r) (x ++ z ++ w).

