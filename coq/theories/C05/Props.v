(** C05/Props.v — property theorems only.  Each is closed by [exact] of a lemma of Proofs.v.

    Printer kernel proved; the IR builder (the formatter directory) is a client whose obligations
    ([suffix_ok], the [IfBreak] discipline, atoms(IR) = source text) are checked per run on real
    IRs, not proved.  The comment/doc re-rendering flows through [Atom KText] and is not
    covered. *)
From EV Require Import C05.Model.
From EV Require C05.Proofs.
From Coq Require String.
Import String.StringSyntax.
Delimit Scope string_scope with str.
Local Open Scope N_scope.

(** The text printed is the atom texts the printer pushed ([emitted], ghost), in push order, with
    only blank characters (space, tab, CR, LF) inserted and only space characters deleted — for
    every IR, width, indent and alignment setting. *)
Theorem print_only_adds_blank : forall (c : cfg) (ds : list doc) (e out : text),
  emitted c ds = Some e -> print c ds = Some out -> BlankEdit e out.
Proof. exact Proofs.print_only_adds_blank. Qed.

(** For every IR that obeys the line-suffix discipline ([suffix_ok], decidable) the non-blank
    output is the non-blank text of the IR in document order with each [IfBreak] replaced by one
    of its branches: nothing is dropped, duplicated or reordered. *)
Theorem print_preserves_atoms_gen : forall (c : cfg) (ds : list doc) (out : text),
  print c ds = Some out -> suffix_ok ds = true ->
  exists a, ResL ds a /\ nonblank out = nonblank a.
Proof. exact Proofs.print_preserves_atoms_gen. Qed.

(** When moreover both branches of every [IfBreak] have the same non-blank text ([IfBreakOk]):
    [nonblank (print cfg ir) = nonblank (atoms ir)]. *)
Theorem print_preserves_atoms : forall (c : cfg) (ds : list doc) (out : text),
  print c ds = Some out -> ifbreak_ok_list ds = true -> suffix_ok ds = true ->
  nonblank out = nonblank (atoms_list ds).
Proof. exact Proofs.print_preserves_atoms. Qed.

(** The depth budget of the model always suffices: printing yields an output for every IR. *)
Theorem print_total : forall (c : cfg) (ds : list doc), exists out, print c ds = Some out.
Proof. exact Proofs.print_total. Qed.

(** [reformat_lua_code] returns a text with syntax errors unchanged, whatever the builder does. *)
Theorem errors_returned_unchanged : forall (builder : text -> list doc) (c : cfg) (src : text),
  reformat true builder c src = Some src.
Proof. exact Proofs.errors_returned_unchanged. Qed.

(** The discipline is needed: without it the printer loses text (a line suffix nested in the last
    line suffix is never flushed) — the full statement is false of the faithful model, and
    [print_preserves_atoms] is the statement outside that class. *)
Theorem print_preserves_atoms_refuted_without_suffix_ok :
  exists c ds out, print c ds = Some out /\ ifbreak_ok_list ds = true /\
                   nonblank out <> nonblank (atoms_list ds).
Proof. exact Proofs.print_preserves_atoms_refuted_without_suffix_ok. Qed.

(** non-vacuity: a statement with a table, a trailing-separator [IfBreak] and a trailing comment,
    printed flat at width 80 and broken (tabs, CRLF) at width 10 *)
Example print_example :
  suffix_ok Proofs.example_ir = true /\ ifbreak_ok_list Proofs.example_ir = false /\
  print (mkCfg 80 false 4 false 1 0) Proofs.example_ir = Some (Proofs.t_of "local t = { a, b } -- c"%str ++ [10]) /\
  print (mkCfg 10 true 4 true 1 0) Proofs.example_ir =
    Some (Proofs.t_of "local t = {"%str ++ [13; 10; 9] ++ Proofs.t_of "a,"%str ++ [13; 10; 9] ++ Proofs.t_of "b,"%str ++ [13; 10]
          ++ Proofs.t_of "} -- c"%str ++ [13; 10]) /\
  exists a, ResL Proofs.example_ir a /\ nonblank a = Proofs.t_of "localt={a,b,}--c"%str.
Proof. exact Proofs.print_example. Qed.
