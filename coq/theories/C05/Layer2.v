(** C05/Layer2.v — the printer pushes the text of the IR, in document order, for every IR that
    obeys the line-suffix discipline: after printing [d] from a state [st] the non-blank text
    "pushed so far ++ still pending in line suffixes" has grown by the non-blank text of a
    resolution of [d]. *)
From EV Require Import C05.Model C05.Facts C05.Res.
From Coq Require Import ZArith.
Local Open Scope N_scope.

Definition pend (st : state) : text := flat_map atoms_list (sfx st).
Definition tot (st : state) : text := nonblank (emit st) ++ nonblank (pend st).

Definition Inv (st : state) (p : bool) : Prop :=
  Forall (fun s => plain_list s = true) (sfx st) /\ (p = false -> nonblank (pend st) = []).

(** [eqv st st']: a step that pushed only blanks and did not touch the pending suffixes *)
Definition eqv (st st' : state) : Prop := emit st' = emit st /\ sfx st' = sfx st.

Lemma eqv_refl : forall st, eqv st st.
Proof. intros st. split; reflexivity. Qed.

Lemma eqv_trans : forall a b c, eqv a b -> eqv b c -> eqv a c.
Proof. intros a b c [H1 H2] [H3 H4]. split; congruence. Qed.

Lemma tot_eqv : forall st st', eqv st st' -> tot st' = tot st.
Proof. intros st st' [H1 H2]. unfold tot, pend. rewrite H1, H2. reflexivity. Qed.

Lemma Inv_eqv : forall st st' p, eqv st st' -> Inv st p -> Inv st' p.
Proof. intros st st' p [H1 H2] [H3 H4]. unfold Inv, pend in *. rewrite H2. split; assumption. Qed.

Lemma emit_flush_pending : forall c s st, emit (flush_pending c s st) = emit st.
Proof.
  intros c s st. unfold flush_pending. destruct (pending st); [|reflexivity].
  destruct s; reflexivity.
Qed.

Lemma sfx_flush_pending : forall c s st, sfx (flush_pending c s st) = sfx st.
Proof.
  intros c s st. unfold flush_pending. destruct (pending st); [|reflexivity].
  destruct s; reflexivity.
Qed.

Lemma eqv_push_blank : forall c s st, eqv st (push_text c false s st).
Proof.
  intros c s st. split.
  - unfold push_text, emit. cbn [evs atoms_of_evs]. apply emit_flush_pending.
  - unfold push_text. cbn [sfx]. apply sfx_flush_pending.
Qed.

Lemma emit_push_atom : forall c s st, emit (push_text c true s st) = emit st ++ s.
Proof.
  intros c s st. unfold push_text, emit. cbn [evs atoms_of_evs].
  fold (emit (flush_pending c s st)). rewrite emit_flush_pending. reflexivity.
Qed.

Lemma sfx_push_text : forall c b s st, sfx (push_text c b s st) = sfx st.
Proof. intros. unfold push_text. cbn [sfx]. apply sfx_flush_pending. Qed.

Lemma eqv_push_newline : forall c st, eqv st (push_newline c st).
Proof. intros c st. split; reflexivity. Qed.

Lemma eqv_set_level : forall l st, eqv st (set_level l st).
Proof. intros. split; reflexivity. Qed.

Lemma eqv_gm_insert : forall g b st, eqv st (gm_insert g b st).
Proof. intros. split; reflexivity. Qed.

Lemma eqv_push_spaces : forall c k st, eqv st (push_spaces c k st).
Proof.
  intros c k st. unfold push_spaces. destruct (0 <? k); [apply eqv_push_blank|apply eqv_refl].
Qed.

Lemma Inv_weaken_false : forall st p, Inv st false -> Inv st p.
Proof. intros st p [H1 H2]. split; [exact H1|]. intros _. apply H2. reflexivity. Qed.

Lemma Inv_or_l : forall st p q, Inv st p -> Inv st (p || q).
Proof.
  intros st p q [H1 H2]. split; [exact H1|]. intros H. apply orb_false_iff in H. apply H2. apply H.
Qed.

Lemma Inv_or_r : forall st p q, Inv st q -> Inv st (p || q).
Proof.
  intros st p q [H1 H2]. split; [exact H1|]. intros H. apply orb_false_iff in H. apply H2. apply H.
Qed.

(** the specification of a printing function for a piece of IR with resolutions [R] and
    discipline [so] *)
Definition Spec (R : text -> Prop) (so : bool -> option bool) (f : state -> option state) : Prop :=
  forall st st' p p', f st = Some st' -> so p = Some p' -> Inv st p ->
    exists a, R a /\ tot st' = tot st ++ nonblank a /\ Inv st' p'.

Section Layer2.
  Variable c : cfg.
  Variable pd : doc -> mode -> state -> option state.
  Variable fw : list doc -> option N.
  Variable fit : list (N * bool) -> list doc -> Z -> option bool.
  Variable hh : list doc -> option bool.
  Hypothesis Hpd : forall d m, Spec (Res d) (sok d) (pd d m).

  Lemma docs_spec : forall ds m, Spec (ResL ds) (sok_list ds) (docs_with pd ds m).
  Proof.
    unfold docs_with. induction ds as [|d ds IH]; intros m st st' p p' H Hs HI.
    - cbn [fold_docs] in H. inversion H; subst. cbn [sok_list] in Hs. inversion Hs; subst.
      exists []. split; [constructor|]. split; [rewrite app_nil_r; reflexivity|exact HI].
    - cbn [fold_docs] in H. bind_as H s1 E. cbn [sok_list] in Hs.
      destruct (sok d p) as [p1|] eqn:E1; [|discriminate].
      destruct (Hpd d m st s1 p p1 E E1 HI) as [a [Ha [Ht Hi]]].
      destruct (IH m s1 st' p1 p' H Hs Hi) as [b [Hb [Ht' Hi']]].
      exists (a ++ b). split; [constructor; assumption|]. split; [|exact Hi'].
      rewrite Ht', Ht, nonblank_app, app_assoc. reflexivity.
  Qed.

  Lemma flush_fold : forall L st0 st',
    fold_lists (fun s st => docs_with pd s Break st) L st0 = Some st' ->
    Forall (fun s => plain_list s = true) L -> Inv st0 false ->
    tot st' = tot st0 ++ nonblank (flat_map atoms_list L) /\ Inv st' false.
  Proof.
    induction L as [|s L IH]; intros st0 st' H HL HI; cbn [fold_lists] in H.
    - inversion H; subst. cbn [flat_map]. rewrite app_nil_r. split; [reflexivity|exact HI].
    - bind_as H s1 E. inversion HL as [|x l Hs HL']; subst.
      destruct (docs_spec s Break st0 s1 false false E (plain_sok_list_false _ Hs) HI) as [a [Ha [Ht Hi]]].
      rewrite (resl_plain _ _ Ha Hs) in Ht.
      destruct (IH s1 st' H HL' Hi) as [Ht' Hi'].
      split; [|exact Hi']. cbn [flat_map]. rewrite Ht', Ht, nonblank_app, app_assoc. reflexivity.
  Qed.

  Lemma flush_spec : forall st st' p, flush_with pd st = Some st' -> Inv st p -> tot st' = tot st /\ Inv st' false.
  Proof.
    intros st st' p H [HI1 HI2]. unfold flush_with in H. destruct (sfx st) as [|s L] eqn:E.
    - inversion H; subst. split; [reflexivity|]. split; [rewrite E; constructor|].
      intros _. unfold pend. rewrite E. reflexivity.
    - assert (Inv (set_sfx [] st) false) as H0.
      { split; [constructor|]. intros _. reflexivity. }
      destruct (flush_fold (s :: L) (set_sfx [] st) st' H HI1 H0) as [Ht Hi].
      split; [|exact Hi]. rewrite Ht. unfold tot at 1 2. unfold pend. cbn [set_sfx sfx emit evs flat_map].
      rewrite E. rewrite app_nil_r. reflexivity.
  Qed.

  Lemma newline_spec : forall st st' p, newline_with c pd st = Some st' -> Inv st p -> tot st' = tot st /\ Inv st' false.
  Proof.
    intros st st' p H HI. unfold newline_with in H. bind_as H s1 E. inversion H; subst.
    destruct (flush_spec st s1 p E HI) as [Ht Hi].
    split.
    - rewrite (tot_eqv _ _ (eqv_push_newline c s1)). exact Ht.
    - eapply Inv_eqv; [apply eqv_push_newline|exact Hi].
  Qed.

  Lemma fill_spec : forall k l, (length l <= k)%nat -> Spec (ResL l) (sok_list l) (fill_with c pd fit l).
  Proof.
    induction k as [|k IH]; intros l Hk st st' p p' H Hs HI.
    - destruct l; [|cbn [length] in Hk; lia]. cbn [fill_with] in H. inversion H; subst.
      cbn [sok_list] in Hs. inversion Hs; subst.
      exists []. split; [constructor|]. split; [rewrite app_nil_r; reflexivity|exact HI].
    - destruct l as [|content rest]; cbn [fill_with] in H.
      + inversion H; subst. cbn [sok_list] in Hs. inversion Hs; subst.
        exists []. split; [constructor|]. split; [rewrite app_nil_r; reflexivity|exact HI].
      + bind_as H cf Ecf. bind_as H s1 Es1. cbn [sok_list] in Hs.
        destruct (sok content p) as [p1|] eqn:E1; [|discriminate].
        destruct (Hpd content _ st s1 p p1 Es1 E1 HI) as [a [Ha [Ht Hi]]].
        destruct rest as [|sep rest2].
        * inversion H; subst. cbn [sok_list] in Hs. inversion Hs; subst.
          exists (a ++ []). split; [constructor; [exact Ha|constructor]|].
          split; [rewrite app_nil_r; exact Ht|exact Hi].
        * bind_as H nf Enf. bind_as H s2 Es2. cbn [sok_list] in Hs.
          destruct (sok sep p1) as [p2|] eqn:E4; [|discriminate].
          destruct (Hpd sep _ s1 s2 p1 p2 Es2 E4 Hi) as [b [Hb [Ht2 Hi2]]].
          assert (length rest2 <= k)%nat as Hk' by (cbn [length] in Hk; lia).
          destruct (IH rest2 Hk' s2 st' p2 p' H Hs Hi2) as [r [Hr [Ht3 Hi3]]].
          exists (a ++ b ++ r). split; [constructor; [exact Ha|constructor; assumption]|].
          split; [|exact Hi3].
          rewrite Ht3, Ht2, Ht, !nonblank_app, !app_assoc. reflexivity.
  Qed.

  Lemma trail_spec : forall m mc t cw, Spec (ResO t) (sok_opt t) (trail_with c pd m mc t cw).
  Proof.
    intros m mc t cw st st' p p' H Hs HI. unfold trail_with in H. destruct t as [tr|]; cbn [sok_opt] in Hs.
    - assert (eqv st (push_spaces c (trailing_comment_padding c cw mc) st)) as He by apply eqv_push_spaces.
      destruct (docs_spec tr m _ st' p p' H Hs (Inv_eqv _ _ _ He HI)) as [a [Ha [Ht Hi]]].
      exists a. split; [constructor; exact Ha|]. split; [|exact Hi].
      rewrite Ht, (tot_eqv _ _ He). reflexivity.
    - inversion H; subst. inversion Hs; subst.
      exists []. split; [constructor|]. split; [rewrite app_nil_r; reflexivity|exact HI].
  Qed.

  Lemma entry_spec : forall m mb mc e st st' p p',
    entry_with c pd fw m mb mc e st = Some st' -> sok_entry e p = Some p' -> Inv st p ->
    exists a, (forall r w, ResE r w -> ResE (e :: r) (a ++ w)) /\ tot st' = tot st ++ nonblank a /\ Inv st' p'.
  Proof.
    intros m mb mc e st st' p p' H Hs HI. unfold entry_with in H. destruct e as [b a t|ct t]; cbn [sok_entry] in Hs.
    - bind_as H bw Ebw. bind_as H s1 Es1. bind_as H s3 Es3. bind_as H aw Eaw.
      bind_as Hs p1 Ep1. bind_as Hs p2 Ep2.
      destruct (docs_spec b m st s1 p p1 Es1 Ep1 HI) as [x [Hx [Ht1 Hi1]]].
      set (s' := push_text c false [SPc] (push_spaces c (mb - bw) s1)) in *.
      assert (eqv s1 s') as He.
      { eapply eqv_trans; [apply eqv_push_spaces|apply eqv_push_blank]. }
      destruct (docs_spec a m s' s3 p1 p2 Es3 Ep2 (Inv_eqv _ _ _ He Hi1)) as [y [Hy [Ht2 Hi2]]].
      destruct (trail_spec m mc t _ s3 st' p2 p' H Hs Hi2) as [z [Hz [Ht3 Hi3]]].
      exists (x ++ y ++ z). split.
      + intros r w Hr. rewrite <- !app_assoc. constructor; assumption.
      + split; [|exact Hi3].
        rewrite Ht3, Ht2, (tot_eqv _ _ He), Ht1, !nonblank_app, !app_assoc. reflexivity.
    - bind_as H s1 Es1. bind_as H cw Ecw. bind_as Hs p1 Ep1.
      destruct (docs_spec ct m st s1 p p1 Es1 Ep1 HI) as [x [Hx [Ht1 Hi1]]].
      destruct (trail_spec m mc t _ s1 st' p1 p' H Hs Hi1) as [z [Hz [Ht3 Hi3]]].
      exists (x ++ z). split.
      + intros r w Hr. rewrite <- !app_assoc. constructor; assumption.
      + split; [|exact Hi3].
        rewrite Ht3, Ht1, !nonblank_app, !app_assoc. reflexivity.
  Qed.

  Lemma align_spec : forall m mb mc l first st st' p p',
    align_with c pd fw m mb mc l first st = Some st' -> sok_entries l first p = Some p' -> Inv st p ->
    exists a, ResE l a /\ tot st' = tot st ++ nonblank a /\ Inv st' p'.
  Proof.
    intros m mb mc. induction l as [|e l IH]; intros first st st' p p' H Hs HI.
    - cbn [align_with] in H. inversion H; subst. cbn [sok_entries] in Hs. inversion Hs; subst.
      exists []. split; [constructor|]. split; [rewrite app_nil_r; reflexivity|exact HI].
    - cbn [align_with] in H. bind_as H s0 Es0. bind_as H s1 Es1. cbn [sok_entries] in Hs. bind_as Hs p1 Ep1.
      assert (tot s0 = tot st /\ Inv s0 (if first then p else false)) as [Ht0 Hi0].
      { destruct first.
        - inversion Es0; subst. split; [reflexivity|exact HI].
        - destruct (newline_spec st s0 p Es0 HI) as [Ha Hb]. split; assumption. }
      destruct (entry_spec m mb mc e s0 s1 _ p1 Es1 Ep1 Hi0) as [a [Ha [Ht1 Hi1]]].
      destruct (IH false s1 st' p1 p' H Hs Hi1) as [w [Hw [Ht2 Hi2]]].
      exists (a ++ w). split; [apply Ha; exact Hw|]. split; [|exact Hi2].
      rewrite Ht2, Ht1, Ht0, nonblank_app, !app_assoc. reflexivity.
  Qed.

  Lemma step_spec : forall d m, Spec (Res d) (sok d) (step c pd fw fit hh d m).
  Proof.
    intros d m st st' p p' H Hs HI. destruct d; cbn [step] in H.
    - (* Atom *)
      inversion H; subst. cbn [sok] in Hs.
      exists s. split; [constructor|].
      destruct HI as [HI1 HI2].
      assert (nonblank (pend st) = [] \/ nonblank s = []) as Hcase.
      { destruct p; cbn [andb] in Hs.
        - destruct (nonblank s) eqn:En; cbn [isnil negb] in Hs; [right; reflexivity|discriminate].
        - left. apply HI2. reflexivity. }
      assert (p' = p) as Hp.
      { destruct (p && negb (isnil (nonblank s))); [discriminate|]. inversion Hs. reflexivity. }
      subst p'. split.
      + unfold tot, pend. rewrite emit_push_atom, sfx_push_text, nonblank_app. fold (pend st).
        destruct Hcase as [Hc|Hc]; rewrite Hc, ?app_nil_r; reflexivity.
      + split; [rewrite sfx_push_text; exact HI1|]. unfold pend. rewrite sfx_push_text. exact HI2.
    - (* HardLine *)
      cbn [sok] in Hs. inversion Hs; subst. destruct (newline_spec st st' p H HI) as [Ht Hi].
      exists []. split; [constructor|]. split; [rewrite app_nil_r; exact Ht|exact Hi].
    - (* SoftLine *)
      cbn [sok] in Hs. inversion Hs; subst. exists []. split; [constructor|]. rewrite app_nil_r.
      destruct m.
      + inversion H; subst. split; [apply tot_eqv; apply eqv_push_blank|].
        eapply Inv_eqv; [apply eqv_push_blank|exact HI].
      + destruct (newline_spec st st' p' H HI) as [Ht Hi]. split; [exact Ht|apply Inv_weaken_false; exact Hi].
    - (* SoftLineOrEmpty *)
      cbn [sok] in Hs. inversion Hs; subst. exists []. split; [constructor|]. rewrite app_nil_r.
      destruct m.
      + inversion H; subst. split; [reflexivity|exact HI].
      + destruct (newline_spec st st' p' H HI) as [Ht Hi]. split; [exact Ht|apply Inv_weaken_false; exact Hi].
    - (* Space *)
      cbn [sok] in Hs. inversion Hs; subst. inversion H; subst.
      exists []. split; [constructor|]. rewrite app_nil_r.
      split; [apply tot_eqv; apply eqv_push_blank|eapply Inv_eqv; [apply eqv_push_blank|exact HI]].
    - (* Indent *)
      bind_as H s1 Es1. inversion H; subst. rewrite sok_indent in Hs.
      assert (eqv st (set_level (level st + 1) st)) as He by apply eqv_set_level.
      destruct (docs_spec ds m _ s1 p p' Es1 Hs (Inv_eqv _ _ _ He HI)) as [a [Ha [Ht Hi]]].
      exists a. split; [constructor; exact Ha|]. split.
      + rewrite (tot_eqv _ _ (eqv_set_level (level s1 - 1) s1)), Ht, (tot_eqv _ _ He). reflexivity.
      + eapply Inv_eqv; [apply eqv_set_level|exact Hi].
    - (* Group *)
      bind_as H h Eh. bind_as H child Ech. rewrite sok_group in Hs.
      set (st1 := match id with Some g => gm_insert g (mode_eqb child Break) st | None => st end) in *.
      assert (eqv st st1) as He by (unfold st1; destruct id; [apply eqv_gm_insert|apply eqv_refl]).
      destruct (docs_spec ds child st1 st' p p' H Hs (Inv_eqv _ _ _ He HI)) as [a [Ha [Ht Hi]]].
      exists a. split; [constructor; exact Ha|]. split; [|exact Hi].
      rewrite Ht, (tot_eqv _ _ He). reflexivity.
    - (* DList *)
      rewrite sok_dlist in Hs.
      destruct (docs_spec ds m st st' p p' H Hs HI) as [a [Ha [Ht Hi]]].
      exists a. split; [constructor; exact Ha|]. split; assumption.
    - (* IfBreak *)
      cbn [sok] in Hs. bind_as Hs p1 Ep1. bind_as Hs p2 Ep2. inversion Hs; subst.
      destruct (match gid with Some g => gm_get (gmap st) g | None => mode_eqb m Break end).
      + destruct (Hpd d1 m st st' p p1 H Ep1 HI) as [a [Ha [Ht Hi]]].
        exists a. split; [apply R_ifb_b; exact Ha|]. split; [exact Ht|apply Inv_or_l; exact Hi].
      + destruct (Hpd d2 m st st' p p2 H Ep2 HI) as [a [Ha [Ht Hi]]].
        exists a. split; [apply R_ifb_f; exact Ha|]. split; [exact Ht|apply Inv_or_r; exact Hi].
    - (* Fill *)
      rewrite sok_fill in Hs.
      destruct (fill_spec (length ds) ds (le_n _) st st' p p' H Hs HI) as [a [Ha [Ht Hi]]].
      exists a. split; [constructor; exact Ha|]. split; assumption.
    - (* LineSuffix *)
      inversion H; subst. cbn [sok] in Hs.
      destruct (plain_list ds) eqn:Ep; [|discriminate]. inversion Hs; subst.
      exists (atoms_list ds). split; [constructor; apply plain_resl; exact Ep|].
      destruct HI as [HI1 HI2].
      assert (pend (set_sfx (sfx st ++ [ds]) st) = pend st ++ atoms_list ds) as Hp.
      { unfold pend. cbn [set_sfx sfx]. rewrite flat_map_app. cbn [flat_map]. rewrite app_nil_r. reflexivity. }
      split.
      + unfold tot. rewrite Hp, nonblank_app, app_assoc. reflexivity.
      + split.
        * cbn [set_sfx sfx]. apply Forall_app. split; [exact HI1|]. constructor; [exact Ep|constructor].
        * intros Hf. apply orb_false_iff in Hf. destruct Hf as [Hf1 Hf2].
          rewrite Hp, nonblank_app, (HI2 Hf1).
          destruct (nonblank (atoms_list ds)); [reflexivity|discriminate Hf2].
    - (* AlignGroup *)
      bind_as H mb Emb. bind_as H mc Emc. rewrite sok_ag in Hs.
      destruct (align_spec m mb mc es true st st' p p' H Hs HI) as [a [Ha [Ht Hi]]].
      exists a. split; [constructor; exact Ha|]. split; assumption.
  Qed.
End Layer2.

Lemma print_doc_spec : forall n c d m, Spec (Res d) (sok d) (print_doc n c d m).
Proof.
  induction n as [|n IH]; intros c d m st st' p p' H Hs HI; cbn [print_doc] in H; [discriminate|].
  eapply step_spec; [|exact H|exact Hs|exact HI].
  intros d0 m0. apply IH.
Qed.

(** after [Printer::print] of an IR obeying the discipline, the pushed atoms are, up to blanks,
    the text of a resolution of the IR *)
Lemma run_resolution : forall c ds st,
  run c ds = Some st -> suffix_ok ds = true ->
  exists a, ResL ds a /\ nonblank (emit st) = nonblank a.
Proof.
  intros c ds st H Hok. unfold run in H. bind_as H s E.
  unfold suffix_ok in Hok. destruct (sok_list ds false) as [p'|] eqn:Es; [|discriminate].
  unfold print_docs in E.
  assert (Inv init false) as H0.
  { split; [constructor|]. intros _. reflexivity. }
  destruct (docs_spec (print_doc _ c) (fun d m => print_doc_spec _ c d m) ds Break init s false p' E Es H0)
    as [a [Ha [Ht Hi]]].
  destruct (flush_spec (print_doc _ c) (fun d m => print_doc_spec _ c d m) s st p' H Hi) as [Ht2 [Hi1 Hi2]].
  exists a. split; [exact Ha|].
  assert (tot st = nonblank a) as Hfin by (rewrite Ht2, Ht; reflexivity).
  unfold tot in Hfin. rewrite (Hi2 eq_refl), app_nil_r in Hfin. exact Hfin.
Qed.
