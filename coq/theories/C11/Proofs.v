(** C11/Proofs.v — lemmas about the update-driver model (see Props.v for the property theorems) *)
From Coq Require Import List NArith Bool Lia Permutation Sorting.Sorted.
From EV Require Import Base.Perm Gen.C11_Sort C11.Model.
Import ListNotations.
Local Open Scope N_scope.

(** * small facts *)
Lemma memN_In : forall x l, memN x l = true <-> In x l.
Proof.
  intros x l. unfold memN. rewrite existsb_exists. split.
  - intros (y & Hy & E). apply N.eqb_eq in E. subst. exact Hy.
  - intros H. exists x. split; [exact H|apply N.eqb_refl].
Qed.

Lemma memN_perm : forall x l l', Permutation l l' -> memN x l = memN x l'.
Proof.
  intros x l l' Hp. destruct (memN x l) eqn:E1; destruct (memN x l') eqn:E2; try reflexivity.
  - apply memN_In in E1. apply (Permutation_in _ Hp) in E1. apply memN_In in E1. congruence.
  - apply memN_In in E2. apply (Permutation_in _ (Permutation_sym Hp)) in E2. apply memN_In in E2. congruence.
Qed.

Lemma perm_filter : forall A (p : A -> bool) l l', Permutation l l' -> Permutation (filter p l) (filter p l').
Proof.
  induction 1; cbn [filter].
  - constructor.
  - destruct (p x); [apply perm_skip|]; assumption.
  - destruct (p x); destruct (p y); try apply Permutation_refl. apply perm_swap.
  - eapply perm_trans; eassumption.
Qed.

Lemma perm_short : forall A (l l' : list A), (length l <= 1)%nat -> Permutation l l' -> l = l'.
Proof.
  intros A [|a [|b r]] l' Hl Hp.
  - apply Permutation_nil in Hp. subst. reflexivity.
  - apply Permutation_length_1_inv in Hp. subst. reflexivity.
  - cbn in Hl. lia.
Qed.

Lemma sort_ids_perm : forall l l', NoDup l -> Permutation l l' -> sort_ids l = sort_ids l'.
Proof.
  intros l l' Hnd Hp. unfold sort_ids.
  apply (isort_perm_invariant _ _ (fun x : fid => x) N.compare N_total_order); [|exact Hp].
  rewrite map_id. exact Hnd.
Qed.

Lemma sort_ids_hasher : forall h s, is_hasher h -> NoDup s -> sort_ids (h s) = sort_ids s.
Proof.
  intros h s Hh Hnd. apply sort_ids_perm; [|apply Hh].
  eapply Permutation_NoDup; [apply Permutation_sym; apply Hh|exact Hnd].
Qed.

(** * the hash sets of the registration loop have no duplicates *)
Lemma set_insert_nodup : forall x s, NoDup s -> NoDup (set_insert x s).
Proof.
  intros x s Hnd. unfold set_insert. destruct (memN x s) eqn:E; [exact Hnd|].
  eapply Permutation_NoDup; [apply Permutation_cons_append|].
  constructor; [|exact Hnd]. intros Hin. apply memN_In in Hin. congruence.
Qed.

Lemma collect_nodup : forall batch v rem upd v' r u,
  NoDup rem -> NoDup upd -> collect v batch rem upd = (v', r, u) -> NoDup r /\ NoDup u.
Proof.
  induction batch as [|[uu b] rest IH]; intros v rem upd v' r u Hr Hu H; cbn [collect] in H.
  - inversion H; subst. split; assumption.
  - destruct (set_file_content v uu b) as [v1 id].
    eapply IH; [| |exact H].
    + apply set_insert_nodup. exact Hr.
    + destruct b; [apply set_insert_nodup|]; exact Hu.
Qed.

(** * driver *)
Section DriverFacts.
  Variable S : Type.
  Variable remove_index : S -> list fid -> S.
  Variable analyze : S -> list fid -> S.

  Lemma driver_is_spec : forall h1 h2 v st batch,
    is_hasher h1 -> is_hasher h2 ->
    update_files_by_uri S remove_index analyze true true h1 h2 v st batch =
    update_files_spec S remove_index analyze v st batch.
  Proof.
    intros h1 h2 v st batch H1 H2. unfold update_files_by_uri, update_files_spec.
    destruct (collect v batch [] []) as [[v' rem] upd] eqn:E.
    destruct (collect_nodup _ _ _ _ _ _ _ (NoDup_nil _) (NoDup_nil _) E) as [Hr Hu].
    unfold arrange. rewrite (sort_ids_hasher h1 rem H1 Hr), (sort_ids_hasher h2 upd H2 Hu). reflexivity.
  Qed.

  Lemma driver_deterministic : forall h1 h2 h1' h2' v st batch,
    is_hasher h1 -> is_hasher h2 -> is_hasher h1' -> is_hasher h2' ->
    update_files_by_uri S remove_index analyze true true h1 h2 v st batch =
    update_files_by_uri S remove_index analyze true true h1' h2' v st batch.
  Proof.
    intros. rewrite !driver_is_spec; auto.
  Qed.
End DriverFacts.

(** the list handed to [update_index] is strictly ascending: it lists the updated files in registration order *)
Lemma update_order_ascending : forall S rm an h1 h2 v st batch v' st' ids,
  is_hasher h1 -> is_hasher h2 ->
  update_files_by_uri S rm an true true h1 h2 v st batch = (v', st', ids) ->
  StronglySorted N.lt ids.
Proof.
  intros S rm an h1 h2 v st batch v' st' ids H1 H2 H. rewrite driver_is_spec in H by assumption.
  unfold update_files_spec in H.
  destruct (collect v batch [] []) as [[v1 rem] upd] eqn:E. inversion H; subst.
  destruct (collect_nodup _ _ _ _ _ _ _ (NoDup_nil _) (NoDup_nil _) E) as [_ Hu].
  unfold sort_ids.
  assert (StronglySorted (ltk (fun x : fid => x) N.compare) (isort (fun x : fid => x) N.compare upd)) as Hs.
  { apply isort_sorted; [exact N_total_order|]. rewrite map_id. exact Hu. }
  clear -Hs. induction Hs as [|a l Hl IH Ha]; constructor; [exact IH|].
  eapply Forall_impl; [|exact Ha]. intros z Hz. unfold ltk in Hz. apply N.compare_lt_iff. exact Hz.
Qed.

Lemma nodup_app : forall A (l1 l2 : list A),
  NoDup l1 -> NoDup l2 -> (forall x, In x l1 -> In x l2 -> False) -> NoDup (l1 ++ l2).
Proof.
  induction l1 as [|a r IH]; intros l2 H1 H2 Hd; cbn [app]; [exact H2|].
  inversion H1 as [|? ? Ha Hr]; subst. constructor.
  - intros Hin. apply in_app_or in Hin. destruct Hin as [Hin|Hin]; [contradiction|].
    apply (Hd a); [left; reflexivity|exact Hin].
  - apply IH; [exact Hr|exact H2|]. intros x Hx1 Hx2. apply (Hd x); [right; exact Hx1|exact Hx2].
Qed.

(** * per-workspace grouping *)
Section GroupingFacts.
  Variable file_ws : fid -> option ws.

  Lemma group_insert_keys : forall w f m x,
    In x (map fst (group_insert w f m)) <-> (x = w \/ In x (map fst m)).
  Proof.
    induction m as [|[w' l] r IH]; intros x; cbn [group_insert map fst In].
    - split; [intros [H|[]]; left; symmetry; exact H|intros [H|[]]; left; symmetry; exact H].
    - destruct (N.eqb_spec w' w) as [E|E]; cbn [map fst In].
      + subst w'. split; [intros [H|H]; [left; symmetry; exact H|right; right; exact H]|].
        intros [H|[H|H]]; [left; symmetry; exact H|left; exact H|right; exact H].
      + rewrite IH. split; [intros [H|[H|H]]|intros [H|[H|H]]]; tauto.
  Qed.

  Lemma group_insert_nodup : forall w f m, NoDup (map fst m) -> NoDup (map fst (group_insert w f m)).
  Proof.
    induction m as [|[w' l] r IH]; intros Hnd; cbn [group_insert map fst].
    - constructor; [intros []|constructor].
    - cbn [map fst] in Hnd. inversion Hnd as [|? ? Hx Hr]; subst.
      destruct (N.eqb_spec w' w) as [E|E]; cbn [map fst].
      + constructor; assumption.
      + constructor; [|apply IH; exact Hr].
        intros Hin. apply group_insert_keys in Hin. destruct Hin as [Hin|Hin]; [apply E; exact Hin|apply Hx; exact Hin].
  Qed.

  Lemma build_map_nodup : forall files, NoDup (map fst (build_map file_ws files)).
  Proof.
    intros files. unfold build_map.
    assert (forall m, NoDup (map fst m) ->
            NoDup (map fst (fold_left (fun m f => match file_ws f with Some w => group_insert w f m | None => m end) files m))) as H.
    { induction files as [|f r IH]; intros m Hm; cbn [fold_left]; [exact Hm|].
      apply IH. destruct (file_ws f); [apply group_insert_nodup|]; exact Hm. }
    apply H. constructor.
  Qed.

  Lemma nodup_keys_filter : forall (p : ws * list fid -> bool) m,
    NoDup (map fst m) -> NoDup (map fst (filter p m)).
  Proof.
    induction m as [|e r IH]; intros Hnd; cbn [filter map]; [constructor|].
    cbn [map] in Hnd. inversion Hnd as [|? ? Hx Hr]; subst.
    destruct (p e); cbn [map]; [|apply IH; exact Hr].
    constructor; [|apply IH; exact Hr].
    intros Hin. apply Hx. apply in_map_iff in Hin. destruct Hin as (z & Hz1 & Hz2).
    apply filter_In in Hz2. rewrite <- Hz1. apply in_map. tauto.
  Qed.

  (** the bucket that is NOT sorted holds the MAIN workspace only (constants regenerated from workspace.rs) *)
  Lemma main_bucket_is_main : forall w,
    negb (w =? ws_std) = true -> negb (is_library w || is_remote w) = true -> w = ws_main.
  Proof.
    intros w H1 H2. unfold is_library, is_remote, ws_std, ws_main, ws_remote, ws_library_start in *.
    apply negb_true_iff in H1. apply negb_true_iff in H2. apply orb_false_iff in H2. destruct H2 as [H2 H3].
    apply N.eqb_neq in H1. apply N.eqb_neq in H3. apply N.leb_gt in H2. lia.
  Qed.

  Lemma same_key_short : forall (k : ws) (m : list (ws * list fid)),
    NoDup (map fst m) -> (forall e, In e m -> fst e = k) -> (length m <= 1)%nat.
  Proof.
    intros k [|a [|b r]] Hnd Hk; cbn [length]; try lia.
    exfalso. cbn [map] in Hnd. inversion Hnd as [|? ? Hx _]; subst. apply Hx. left.
    rewrite (Hk a), (Hk b); [reflexivity|right; left; reflexivity|left; reflexivity].
  Qed.

  Definition general_branch (h : list (ws * list fid) -> list (ws * list fid)) (files : list fid) : list (ws * list fid) :=
    let m := build_map file_ws files in
    let std := filter (fun e => fst e =? ws_std) m in
    let rest := h (filter (fun e => negb (fst e =? ws_std)) m) in
    let libs := filter (fun e => is_library (fst e) || is_remote (fst e)) rest in
    let mains := filter (fun e => negb (is_library (fst e) || is_remote (fst e))) rest in
    isort (fun e : ws * list fid => fst e) N.compare (std ++ libs) ++ mains.

  Lemma general_branch_deterministic : forall h h' files,
    is_hasher h -> is_hasher h' -> general_branch h files = general_branch h' files.
  Proof.
    intros h h' files Hh Hh'. unfold general_branch. cbv zeta.
    set (m := build_map file_ws files).
    set (L := filter (fun e : ws * list fid => negb (fst e =? ws_std)) m).
    set (pl := fun e : ws * list fid => is_library (fst e) || is_remote (fst e)).
    set (pm := fun e : ws * list fid => negb (is_library (fst e) || is_remote (fst e))).
    assert (NoDup (map fst m)) as Hm by apply build_map_nodup.
    assert (NoDup (map fst L)) as HL by (apply nodup_keys_filter; exact Hm).
    assert (Permutation (h L) (h' L)) as Hp.
    { eapply perm_trans; [apply Hh|apply Permutation_sym, Hh']. }
    assert (filter pm (h L) = filter pm (h' L)) as Emain.
    { apply perm_short; [|apply perm_filter; exact Hp].
      apply (same_key_short ws_main).
      - apply nodup_keys_filter. eapply Permutation_NoDup; [apply Permutation_map, Permutation_sym, Hh|exact HL].
      - intros e He. apply filter_In in He. destruct He as [He Hpm].
        apply (Permutation_in _ (Hh L)) in He. apply filter_In in He. destruct He as [_ Hns].
        apply main_bucket_is_main; assumption. }
    assert (isort (fun e : ws * list fid => fst e) N.compare (filter (fun e => fst e =? ws_std) m ++ filter pl (h L)) =
            isort (fun e : ws * list fid => fst e) N.compare (filter (fun e => fst e =? ws_std) m ++ filter pl (h' L))) as Esort.
    { apply (isort_perm_invariant _ _ _ _ N_total_order).
      - rewrite map_app. apply nodup_app.
        + apply nodup_keys_filter. exact Hm.
        + apply nodup_keys_filter. eapply Permutation_NoDup; [apply Permutation_map, Permutation_sym, Hh|exact HL].
        + intros x Hx1 Hx2.
          apply in_map_iff in Hx1. destruct Hx1 as (e1 & E1 & I1). apply filter_In in I1. destruct I1 as [_ I1].
          apply in_map_iff in Hx2. destruct Hx2 as (e2 & E2 & I2). apply filter_In in I2. destruct I2 as [I2 _].
          apply (Permutation_in _ (Hh L)) in I2. apply filter_In in I2. destruct I2 as [_ I2].
          apply N.eqb_eq in I1. apply negb_true_iff in I2. apply N.eqb_neq in I2. apply I2. rewrite E2, <- E1. exact I1.
      - apply Permutation_app_head. apply perm_filter. exact Hp. }
    change (isort (fun e : ws * list fid => fst e) N.compare (filter (fun e => fst e =? ws_std) m ++ filter pl (h L)) ++ filter pm (h L) =
            isort (fun e : ws * list fid => fst e) N.compare (filter (fun e => fst e =? ws_std) m ++ filter pl (h' L)) ++ filter pm (h' L)).
    rewrite Emain, Esort. reflexivity.
  Qed.

  Lemma module_analyze_deterministic : forall h h' files,
    is_hasher h -> is_hasher h' ->
    module_analyze file_ws true h files = module_analyze file_ws true h' files.
  Proof.
    intros h h' files Hh Hh'.
    destruct files as [|f [|g r]]; [|reflexivity|].
    - exact (general_branch_deterministic h h' [] Hh Hh').
    - exact (general_branch_deterministic h h' (f :: g :: r) Hh Hh').
  Qed.
End GroupingFacts.

(** * refutation: without the sort two iteration orders give different diagnostics *)
Lemma rev_is_hasher : forall A, is_hasher (@rev A).
Proof. intros A l. apply Permutation_sym, Permutation_rev. Qed.

Lemma id_is_hasher : forall A, is_hasher (fun l : list A => l).
Proof. intros A l. apply Permutation_refl. Qed.

Lemma witness_runs :
  witness_run (fun l => l) = [(2, 1, 0)] /\ witness_run (@rev fid) = [(1, 0, 1)].
Proof. split; vm_compute; reflexivity. Qed.

Lemma driver_order_dependent_refuted :
  exists h h' : list fid -> list fid,
    is_hasher h /\ is_hasher h' /\ witness_run h <> witness_run h'.
Proof.
  exists (fun l => l), (@rev fid). split; [apply id_is_hasher|]. split; [apply rev_is_hasher|].
  destruct witness_runs as [-> ->]. discriminate.
Qed.
