(** C11/Model.v — the update driver of emmylua_code_analysis, definitions only.

    Transcribed from
      crates/emmylua_code_analysis/src/vfs/mod.rs            Vfs::file_id, Vfs::set_file_content
      crates/emmylua_code_analysis/src/lib.rs                EmmyLuaAnalysis::update_files_by_uri / update_file_by_uri / reindex
      crates/emmylua_code_analysis/src/compilation/mod.rs    LuaCompilation::update_index
      crates/emmylua_code_analysis/src/compilation/analyzer/mod.rs   analyze, module_analyze
      crates/emmylua_code_analysis/src/compilation/analyzer/lua/mod.rs   LuaAnalysisPipeline::analyze
      crates/emmylua_code_analysis/src/db_index/dependency/file_dependency_relation.rs   get_best_analysis_order
      crates/emmylua_code_analysis/src/db_index/member/mod.rs   LuaMemberIndex::add_member_to_owner (witness step)

    Hash containers: a [HashSet]/[HashMap] is represented by the list of its elements in first-insertion order
    (a canonical representative of the set); ITERATING it yields [h elements] for a "hasher" [h] about which
    nothing is known except that [h l] is a permutation of [l].  FileId = N (allocated in registration order). *)
From Coq Require Import List NArith Bool Lia Permutation.
From EV Require Import Base.Perm Gen.C11_Sort.
Import ListNotations.
Local Open Scope N_scope.

Definition fid := N.
Definition uri := N.

Definition memN (x : N) (l : list N) : bool := existsb (N.eqb x) l.

(** [Vec<FileId>::sort()] *)
Definition sort_ids (l : list fid) : list fid := isort (fun x : fid => x) N.compare l.

(** iteration order of a hash container: any permutation *)
Definition is_hasher {A : Type} (h : list A -> list A) : Prop := forall l, Permutation (h l) l.

(** * Vfs: [file_data : Vec<Option<FileContent>>]; the position is the FileId *)
Definition vfs := list (uri * bool).

Fixpoint vfs_find (u : uri) (v : vfs) (i : N) : option fid :=
  match v with
  | [] => None
  | (u', _) :: r => if u' =? u then Some i else vfs_find u r (i + 1)
  end.

Fixpoint vfs_set (v : vfs) (i : nat) (b : bool) : vfs :=
  match v with
  | [] => []
  | (u, c) :: r => match i with
                   | O => (u, b) :: r
                   | S k => (u, c) :: vfs_set r k b
                   end
  end.

(** [Vfs::set_file_content]: [file_id(uri)] (existing id or a fresh one = [file_data.len()]), then
    [file_data[id] = data]; the bool says whether a text (and thus a syntax tree) is present *)
Definition set_file_content (v : vfs) (u : uri) (b : bool) : vfs * fid :=
  match vfs_find u v 0 with
  | Some i => (vfs_set v (N.to_nat i) b, i)
  | None => (v ++ [(u, b)], N.of_nat (length v))
  end.

Definition has_tree (v : vfs) (i : fid) : bool :=
  match nth_error v (N.to_nat i) with
  | Some (_, b) => b
  | None => false
  end.

(** [Vfs::get_all_file_ids]: enumerate [file_data], keep the ids with content — ascending *)
Fixpoint all_file_ids (v : vfs) (i : N) : list fid :=
  match v with
  | [] => []
  | (_, b) :: r => if b then i :: all_file_ids r (i + 1) else all_file_ids r (i + 1)
  end.

(** [HashSet::insert] *)
Definition set_insert (x : fid) (s : list fid) : list fid := if memN x s then s else s ++ [x].

(** the registration loop of [update_files_by_uri]: every entry goes to [removed_files], entries with a text to
    [updated_files] *)
Fixpoint collect (v : vfs) (batch : list (uri * bool)) (rem upd : list fid) : vfs * list fid * list fid :=
  match batch with
  | [] => (v, rem, upd)
  | (u, b) :: r =>
      let '(v', id) := set_file_content v u b in
      collect v' r (set_insert id rem) (if b then set_insert id upd else upd)
  end.

(** a hash set listed by the hasher, then sorted or not *)
Definition arrange (sorted : bool) (h : list fid -> list fid) (s : list fid) : list fid :=
  if sorted then sort_ids (h s) else h s.

Section Driver.
  Variable S : Type.                             (* DbIndex *)
  Variable remove_index : S -> list fid -> S.    (* DbIndex::remove_index, any function *)
  Variable analyze : S -> list fid -> S.         (* analyzer::analyze on the chunks of these files, any function *)

  (** [LuaCompilation::update_index]: ids without a syntax tree are skipped; [analyze] returns at once on an
      empty list *)
  Definition update_index (v : vfs) (st : S) (ids : list fid) : S :=
    match filter (has_tree v) ids with
    | [] => st
    | need => analyze st need
    end.

  (** [EmmyLuaAnalysis::update_files_by_uri]; [sort_rem]/[sort_upd]: is the id list sorted before
      [remove_index] / [update_index]; [h1]/[h2]: iteration orders of the two hash sets.
      Result: the Vfs, the index, the id list handed to [update_index] (also the return value) *)
  Definition update_files_by_uri (sort_rem sort_upd : bool) (h1 h2 : list fid -> list fid)
      (v : vfs) (st : S) (batch : list (uri * bool)) : vfs * S * list fid :=
    let '(v', rem, upd) := collect v batch [] [] in
    let st1 := remove_index st (arrange sort_rem h1 rem) in
    let ids := arrange sort_upd h2 upd in
    (v', update_index v' st1 ids, ids).

  (** the same without any hasher: what the result is a function of *)
  Definition update_files_spec (v : vfs) (st : S) (batch : list (uri * bool)) : vfs * S * list fid :=
    let '(v', rem, upd) := collect v batch [] [] in
    let st1 := remove_index st (sort_ids rem) in
    let ids := sort_ids upd in
    (v', update_index v' st1 ids, ids).
End Driver.

(** the id lists that reach [update_index] (what the hook records), per entry point.
    mode 0: update_files_by_uri / update_files_by_path; 1: update_file_by_uri per entry; 2: mode 0 then reindex *)
Fixpoint single_orders (v : vfs) (batch : list (uri * bool)) : list (list fid) :=
  match batch with
  | [] => []
  | (u, b) :: r => let '(v', id) := set_file_content v u b in
                   if b then [id] :: single_orders v' r else single_orders v' r
  end.

Definition recorded_orders (mode : N) (batch : list (uri * bool)) : list (list fid) :=
  let '(v', _, upd) := collect [] batch [] [] in
  match mode with
  | 0 => [arrange uri_sorts_updated (fun l => l) upd]
  | 1 => single_orders [] batch
  | _ => [arrange uri_sorts_updated (fun l => l) upd; all_file_ids v' 0]
  end.

(** * module_analyze: per-workspace grouping *)
Definition ws := N.
Definition is_library (w : ws) : bool := ws_library_start <=? w.
Definition is_remote (w : ws) : bool := w =? ws_remote.

Section Grouping.
  (** workspace of a file: [add_module_by_path(..).unwrap_or(MAIN)] for a local file, REMOTE for a remote
      one, [None] when the file has neither a path nor a remote uri *)
  Variable file_ws : fid -> option ws.

  (** [file_tree_map.entry(w).or_default().push(f)] *)
  Fixpoint group_insert (w : ws) (f : fid) (m : list (ws * list fid)) : list (ws * list fid) :=
    match m with
    | [] => [(w, [f])]
    | (w', l) :: r => if w' =? w then (w', l ++ [f]) :: r else (w', l) :: group_insert w f r
    end.

  Definition build_map (files : list fid) : list (ws * list fid) :=
    fold_left (fun m f => match file_ws f with Some w => group_insert w f m | None => m end) files [].

  (** [sorted]: is [contexts.sort_by_key(|a| a.0)] present; [h]: iteration order of [file_tree_map] *)
  Definition module_analyze (sorted : bool) (h : list (ws * list fid) -> list (ws * list fid))
      (files : list fid) : list (ws * list fid) :=
    match files with
    | [f] => match file_ws f with Some w => [(w, [f])] | None => [] end
    | _ =>
        let m := build_map files in
        let std := filter (fun e => fst e =? ws_std) m in                    (* file_tree_map.remove(&STD) *)
        let rest := h (filter (fun e => negb (fst e =? ws_std)) m) in          (* for (w, l) in file_tree_map *)
        let libs := filter (fun e => is_library (fst e) || is_remote (fst e)) rest in
        let mains := filter (fun e => negb (is_library (fst e) || is_remote (fst e))) rest in
        let contexts := std ++ libs in
        (if sorted then isort (fun e : ws * list fid => fst e) N.compare contexts else contexts) ++ mains
    end.
End Grouping.

(** * get_best_analysis_order *)
Section BestOrder.
  (** [dependencies.get(&f)]: the files [f] requires, a HashSet listed in its iteration order ([] when absent) *)
  Variable deps : fid -> list fid.
  Variable metas : list fid.

  (** tie-break of both [sort_by] closures: meta files first, then by FileId *)
  Definition mkey (f : fid) : bool * N := (negb (memN f metas), f).
  Definition mcmp : bool * N -> bool * N -> comparison := pair_cmp bool_cmp N.compare.
  Definition sort_meta (l : list fid) : list fid := isort mkey mcmp l.

  (** [in_degree[idx]] after the build loop: the dependencies of the file that are in the list *)
  Definition in_degree (ids : list fid) (f : fid) : N :=
    N.of_nat (length (filter (fun d => memN d ids) (deps f))).

  (** [adjacency[idx(d)]] after the build loop.  The loop pushes [idx] onto [adjacency[dep_idx]] for
      idx = 0..n and, inside, for every dep of the HashSet: a given list receives a given idx at most once
      and in ascending idx order, whatever the iteration order of the inner sets *)
  Definition adjacency (ids : list fid) (d : fid) : list fid :=
    filter (fun f => memN d (deps f)) ids.

  (** the inner [for &neighbor in &adjacency[idx]]: decrement, collect those that reach zero *)
  Fixpoint relax (nbrs : list fid) (deg : fid -> N) : (fid -> N) * list fid :=
    match nbrs with
    | [] => (deg, [])
    | x :: r =>
        let deg' := fun y => if y =? x then deg y - 1 else deg y in
        let '(deg'', nz) := relax r deg' in
        (deg'', if deg' x =? 0 then x :: nz else nz)
    end.

  (** [if new_zero.len() > 1 { new_zero.sort_by(..) }] *)
  Definition norm (l : list fid) : list fid := if 1 <? N.of_nat (length l) then sort_meta l else l.

  (** the [while let Some(idx) = queue.pop_front()] loop; [None] = out of fuel (never with the fuel below) *)
  Fixpoint bfs (fuel : nat) (adj : fid -> list fid) (queue : list fid) (deg : fid -> N) (acc : list fid)
      : option (list fid * (fid -> N)) :=
    match queue with
    | [] => Some (acc, deg)
    | f :: q =>
        match fuel with
        | O => None
        | S k => let '(deg', nz) := relax (adj f) deg in bfs k adj (q ++ norm nz) deg' (acc ++ [f])
        end
    end.

  (** (files reached by the queue, files left with a positive in-degree — in INPUT order) *)
  Definition best_order_parts (ids : list fid) : option (list fid * list fid) :=
    if N.of_nat (length ids) <? 2 then Some (ids, []) else
    let deg := in_degree ids in
    let zero := sort_meta (filter (fun f => deg f =? 0) ids) in
    match bfs (2 * length ids + 2) (adjacency ids) zero deg [] with
    | None => None
    | Some (res, deg') =>
        Some (res, if N.of_nat (length res) <? N.of_nat (length ids)
                   then filter (fun f => negb (deg' f =? 0)) ids else [])
    end.

  Definition best_order (ids : list fid) : option (list fid) :=
    match best_order_parts ids with
    | Some (top, rest) => Some (top ++ rest)
    | None => None
    end.
End BestOrder.

(** * the analysis of one batch: grouping, then per group the file-ordered pipelines *)
Section Pipeline.
  Variable S : Type.
  Variable file_ws : fid -> option ws.
  Variable step_list : S -> fid -> S.     (* decl / doc / flow pipelines: [for tree in context.tree_list] *)
  Variable step_lua : S -> fid -> S.      (* LuaAnalysisPipeline: [for file_id in order] *)
  Variable step_end : S -> list fid -> S. (* unresolve pipeline, any function of the group *)

  Definition analyze_group (deps : fid -> list fid) (metas : list fid) (st : S) (l : list fid) : option S :=
    let st1 := fold_left step_list l st in
    match best_order deps metas l with
    | Some order => Some (step_end (fold_left step_lua order st1) l)
    | None => None
    end.

  Fixpoint analyze_groups (deps : fid -> list fid) (metas : list fid) (st : S) (gs : list (ws * list fid)) : option S :=
    match gs with
    | [] => Some st
    | (_, l) :: r => match analyze_group deps metas st l with
                     | Some st' => analyze_groups deps metas st' r
                     | None => None
                     end
    end.

  (** [analyzer::analyze]: [hg] iteration order of the workspace map *)
  Definition analyze_model (sorted_ctx : bool) (hg : list (ws * list fid) -> list (ws * list fid))
      (deps : fid -> list fid) (metas : list fid) (st : S) (files : list fid) : option S :=
    analyze_groups deps metas st (module_analyze file_ws sorted_ctx hg files).
End Pipeline.

(** * the witness step: "the first assignment types the member"
    [LuaMemberIndex::add_member_to_owner] for a member that is not a declaration: when the owner already has a
    member with this key the new one is NOT added, so [C.x]'s type is the type assigned by the file that the Lua
    pipeline analysed first; the assign-type-mismatch checker then reports every other file's assignment. *)
Definition ty := N.   (* 0 = integer, 1 = string, ... *)

Definition first_assignment_step (assigns : fid -> option ty) (st : option ty) (f : fid) : option ty :=
  match st with
  | Some t => Some t
  | None => assigns f
  end.

(** diagnostics keyed by file: (file, assigned type, member type) for every file that assigns another type *)
Definition mismatch_diags (assigns : fid -> option ty) (files : list fid) (member : option ty) : list (fid * ty * ty) :=
  match member with
  | None => []
  | Some t0 =>
      flat_map (fun f => match assigns f with
                         | Some t => if t =? t0 then [] else [(f, t, t0)]
                         | None => []
                         end) (sort_ids files)
  end.

(** * the refutation witness (replayed on the implementation: corpus/C11/w1_cycle_member_mismatch.json)
    file 0:  ---@class C  C = {}
    file 1:  local o = require("f2")   C.x = 1      (integer)
    file 2:  local o = require("f1")   C.x = "s"    (string)                                     *)
Definition witness_deps (f : fid) : list fid :=
  if f =? 1 then [2] else if f =? 2 then [1] else [].
Definition witness_assigns (f : fid) : option ty :=
  if f =? 1 then Some 0 else if f =? 2 then Some 1 else None.
(** the Lua pipeline of [analyze]: files in best-analysis order, first assignment wins *)
Definition witness_analyze (st : option ty) (ids : list fid) : option ty :=
  match best_order witness_deps [] ids with
  | Some order => fold_left (first_assignment_step witness_assigns) order st
  | None => st
  end.
Definition witness_batch : list (uri * bool) := [(10, true); (11, true); (12, true)].
Definition witness_run (h : list fid -> list fid) : list (fid * ty * ty) :=
  let '(_, member, _) :=
    update_files_by_uri (option ty) (fun st _ => st) witness_analyze false false (fun l => l) h [] None witness_batch in
  mismatch_diags witness_assigns [0; 1; 2] member.
