(** C11/BestOrderIdx.v — the literal (index based) transcription of get_best_analysis_order equals the closed form *)
From Coq Require Import List NArith Bool Lia Permutation Arith.PeanoNat.
From EV Require Import Base.Perm Gen.C11_Sort C11.Model C11.Proofs C11.BestOrder C11.ModelIdx.
Import ListNotations.
Local Open Scope N_scope.

Definition gidx (ids : list fid) (i : nat) : fid := nth i ids 0.

(** * file_to_idx *)
Lemma idx_last_some : forall f ids b j, idx_last f ids b = Some j ->
  (b <= j)%nat /\ (j < b + length ids)%nat /\ nth_error ids (j - b) = Some f.
Proof.
  induction ids as [|g r IH]; intros b j H; cbn [idx_last] in H; [discriminate|].
  destruct (idx_last f r (S b)) as [j'|] eqn:E.
  - inversion H; subst j'. destruct (IH _ _ E) as (A & B & C). cbn [length]. split; [lia|]. split; [lia|].
    replace (j - b)%nat with (S (j - S b)) by lia. exact C.
  - destruct (N.eqb_spec g f) as [->|]; [|discriminate]. inversion H; subst. cbn [length].
    split; [lia|]. split; [lia|]. rewrite Nat.sub_diag. reflexivity.
Qed.

Lemma idx_last_none : forall f ids b, idx_last f ids b = None -> ~ In f ids.
Proof.
  induction ids as [|g r IH]; intros b H; cbn [idx_last] in H; [intros []|].
  destruct (idx_last f r (S b)) eqn:E; [discriminate|].
  destruct (N.eqb_spec g f) as [->|Hn]; [discriminate|]. intros [Hin|Hin]; [contradiction|]. exact (IH _ E Hin).
Qed.

Lemma idx_last_nodup : forall ids, NoDup ids -> forall i b, (i < length ids)%nat ->
  idx_last (gidx ids i) ids b = Some (b + i)%nat.
Proof.
  induction ids as [|g r IH]; intros Hnd i b Hi; cbn [length] in Hi; [lia|].
  inversion Hnd as [|? ? Hg Hr]; subst. cbn [idx_last]. destruct i as [|i]; unfold gidx; cbn [nth].
  - destruct (idx_last g r (S b)) eqn:E.
    + apply idx_last_some in E. destruct E as (_ & _ & E). apply nth_error_In in E. contradiction.
    + rewrite N.eqb_refl. f_equal. lia.
  - fold (gidx r i). rewrite (IH Hr i (S b)) by lia. f_equal. lia.
Qed.

Lemma gidx_inj : forall ids, NoDup ids -> forall i j, (i < length ids)%nat -> (j < length ids)%nat ->
  gidx ids i = gidx ids j -> i = j.
Proof.
  intros ids Hnd i j Hi Hj E. unfold gidx in E.
  apply (proj1 (NoDup_nth ids 0) Hnd); assumption.
Qed.

Lemma map_gidx_seq : forall ids, map (gidx ids) (seq 0 (length ids)) = ids.
Proof.
  intros ids. apply nth_ext with (d := 0) (d' := 0).
  - rewrite map_length, seq_length. reflexivity.
  - intros k Hk. rewrite map_length, seq_length in Hk.
    rewrite (nth_indep _ 0 (gidx ids 0)) by (rewrite map_length, seq_length; exact Hk).
    rewrite map_nth, seq_nth by exact Hk. reflexivity.
Qed.

Lemma map_filter_comm : forall A B (g : A -> B) (p : B -> bool) l,
  map g (filter (fun x => p (g x)) l) = filter p (map g l).
Proof.
  induction l as [|x r IH]; cbn [filter map]; [reflexivity|].
  destruct (p (g x)); cbn [map]; rewrite IH; reflexivity.
Qed.

(** * the build loop *)
Section Build.
  Variable deps : fid -> list fid.
  Variable ids : list fid.
  Hypothesis ids_nodup : NoDup ids.
  Hypothesis deps_nodup : forall f, NoDup (deps f).
  Let n := length ids.
  Let g := gidx ids.

  Lemma build_deps_spec : forall idx ds adj deg,
    NoDup ds ->
    (forall di, (di < n)%nat -> fst (fold_left (build_dep ids idx) ds (adj, deg)) di = adj di ++ (if memN (g di) ds then [idx] else [])) /\
    (forall i, snd (fold_left (build_dep ids idx) ds (adj, deg)) i =
               if Nat.eqb i idx then deg i + N.of_nat (length (filter (fun d => memN d ids) ds)) else deg i).
  Proof.
    intros idx. induction ds as [|d r IH]; intros adj deg Hnd; cbn [fold_left].
    - cbn [memN existsb filter length fst snd]. split.
      + intros di _. rewrite app_nil_r. reflexivity.
      + intros i. destruct (Nat.eqb i idx); [rewrite N.add_0_r|]; reflexivity.
    - inversion Hnd as [|? ? Hd Hr]; subst.
      destruct (idx_last d ids 0) as [j|] eqn:E.
      + replace (build_dep ids idx (adj, deg) d) with (updf adj j (fun l => l ++ [idx]), updf deg idx (fun x => x + 1))
          by (unfold build_dep; cbn [fst snd]; rewrite E; reflexivity).
        destruct (idx_last_some _ _ _ _ E) as (_ & Hj & Hnth). cbn [plus] in Hj. rewrite Nat.sub_0_r in Hnth.
        assert (g j = d) as Hgj by (unfold g, gidx; apply nth_error_nth; exact Hnth).
        assert (memN d ids = true) as Hin by (apply memN_In; eapply nth_error_In; exact Hnth).
        destruct (IH (updf adj j (fun l => l ++ [idx])) (updf deg idx (fun x => x + 1)) Hr) as [I1 I2].
        split.
        * intros di Hdi. rewrite (I1 di Hdi). unfold updf, memN. cbn [existsb]. fold (memN (g di) r).
          destruct (Nat.eqb_spec di j) as [->|Hne].
          -- rewrite Hgj, N.eqb_refl. cbn [orb].
             destruct (memN d r) eqn:M; [apply memN_In in M; contradiction|]. rewrite app_nil_r. reflexivity.
          -- destruct (N.eqb_spec (g di) d) as [Eq|Nq]; [|reflexivity].
             exfalso. apply Hne. apply (gidx_inj ids ids_nodup); [exact Hdi|exact Hj|]. fold g. congruence.
        * intros i. rewrite I2. unfold updf. cbn [filter]. rewrite Hin. cbn [length].
          destruct (Nat.eqb i idx); [|reflexivity]. lia.
      + replace (build_dep ids idx (adj, deg) d) with (adj, deg) by (unfold build_dep; rewrite E; reflexivity).
        assert (memN d ids = false) as Hin.
        { destruct (memN d ids) eqn:M; [|reflexivity]. apply memN_In in M. exfalso. exact (idx_last_none _ _ _ E M). }
        destruct (IH adj deg Hr) as [I1 I2]. split.
        * intros di Hdi. rewrite (I1 di Hdi). unfold memN. cbn [existsb]. fold (memN (g di) r).
          destruct (N.eqb_spec (g di) d) as [Eq|Nq]; [|reflexivity].
          exfalso. apply (idx_last_none _ _ _ E). rewrite <- Eq. unfold g, gidx. apply nth_In. exact Hdi.
        * intros i. rewrite I2. cbn [filter]. rewrite Hin. reflexivity.
  Qed.

  Lemma build_files_spec : forall rest pre adj deg,
    ids = pre ++ rest ->
    (forall di, (di < n)%nat -> adj di = filter (fun i => memN (g di) (deps (g i))) (seq 0 (length pre))) ->
    (forall i, deg i = if Nat.ltb i (length pre) then in_degree deps ids (g i) else 0) ->
    (forall di, (di < n)%nat -> fst (build_files deps ids rest (length pre) (adj, deg)) di =
                                filter (fun i => memN (g di) (deps (g i))) (seq 0 n)) /\
    (forall i, (i < n)%nat -> snd (build_files deps ids rest (length pre) (adj, deg)) i = in_degree deps ids (g i)).
  Proof.
    induction rest as [|f r IH]; intros pre adj deg Hids Hadj Hdeg; cbn [build_files].
    - rewrite app_nil_r in Hids. subst pre. cbn [fst snd]. split; [exact Hadj|].
      intros i Hi. rewrite Hdeg. fold n. destruct (Nat.ltb_spec i n); [reflexivity|lia].
    - assert (g (length pre) = f) as Hgf by (unfold g, gidx; rewrite Hids; apply nth_middle).
      destruct (build_deps_spec (length pre) (deps f) adj deg (deps_nodup f)) as [B1 B2].
      destruct (fold_left (build_dep ids (length pre)) (deps f) (adj, deg)) as [adj1 deg1]. cbn [fst snd] in B1, B2.
      assert (S (length pre) = length (pre ++ [f])) as Hl by (rewrite app_length; cbn; lia).
      rewrite Hl. apply IH.
      + rewrite <- app_assoc. exact Hids.
      + intros di Hdi. rewrite <- Hl, seq_S, filter_app. cbn [filter plus]. rewrite Hgf.
        rewrite (B1 di Hdi), (Hadj di Hdi). reflexivity.
      + intros i. rewrite B2, Hdeg, <- Hl.
        destruct (Nat.eqb_spec i (length pre)) as [->|Hne].
        * rewrite Nat.ltb_irrefl. destruct (Nat.ltb_spec (length pre) (S (length pre))); [|lia].
          unfold in_degree. rewrite Hgf. rewrite N.add_0_l. reflexivity.
        * destruct (Nat.ltb_spec i (length pre)); destruct (Nat.ltb_spec i (S (length pre))); try reflexivity; lia.
  Qed.

  (** what the build loop leaves in the two vectors *)
  Lemma build_idx_spec :
    (forall di, (di < n)%nat -> map g (fst (build_idx deps ids) di) = adjacency deps ids (g di)) /\
    (forall di, (di < n)%nat -> Forall (fun i => (i < n)%nat) (fst (build_idx deps ids) di)) /\
    (forall di, (di < n)%nat -> NoDup (fst (build_idx deps ids) di)) /\
    (forall i, (i < n)%nat -> snd (build_idx deps ids) i = in_degree deps ids (g i)).
  Proof.
    unfold build_idx.
    destruct (build_files_spec ids [] (fun _ => []) (fun _ => 0) eq_refl) as [S1 S2].
    { intros di _. reflexivity. }
    { intros i. reflexivity. }
    cbn [length] in S1, S2. split; [|split; [|split]].
    - intros di Hdi. rewrite (S1 di Hdi). unfold adjacency.
      rewrite (map_filter_comm _ _ g (fun f => memN (g di) (deps f))). unfold g, n. rewrite map_gidx_seq. reflexivity.
    - intros di Hdi. rewrite (S1 di Hdi). apply Forall_forall. intros i Hi. apply filter_In in Hi.
      destruct Hi as [Hi _]. apply in_seq in Hi. lia.
    - intros di Hdi. rewrite (S1 di Hdi). apply NoDup_filter. apply seq_NoDup.
    - exact S2.
  Qed.
End Build.

(** * sorting indices by the key of their file = sorting the files *)
Lemma map_insert : forall A B K (h : A -> B) (key : B -> K) cmp x l,
  map h (insert (fun a => key (h a)) cmp x l) = insert key cmp (h x) (map h l).
Proof.
  induction l as [|y r IH]; cbn [insert map]; [reflexivity|].
  destruct (cmp (key (h x)) (key (h y))); cbn [map]; try reflexivity. rewrite IH. reflexivity.
Qed.

Lemma map_isort : forall A B K (h : A -> B) (key : B -> K) cmp l,
  map h (isort (fun a => key (h a)) cmp l) = isort key cmp (map h l).
Proof.
  induction l as [|x r IH]; cbn [isort map]; [reflexivity|]. rewrite map_insert, IH. reflexivity.
Qed.

Lemma map_sort_idx : forall metas ids l, map (gidx ids) (sort_idx metas ids l) = sort_meta metas (map (gidx ids) l).
Proof. intros. unfold sort_idx, sort_meta, ikey. apply (map_isort _ _ _ (gidx ids) (mkey metas)). Qed.

Lemma map_norm_idx : forall metas ids l, map (gidx ids) (norm_idx metas ids l) = norm metas (map (gidx ids) l).
Proof.
  intros. unfold norm_idx, norm. rewrite map_length. destruct (1 <? N.of_nat (length l)); [apply map_sort_idx|reflexivity].
Qed.

Lemma forall_norm_idx : forall metas ids (P : nat -> Prop) l, Forall P l -> Forall P (norm_idx metas ids l).
Proof.
  intros metas ids P l H. unfold norm_idx. destruct (1 <? N.of_nat (length l)); [|exact H].
  unfold sort_idx. rewrite Forall_forall in *. intros x Hx. apply H.
  eapply Permutation_in; [apply isort_perm|exact Hx].
Qed.

(** * the relaxation loop and the queue loop simulate their closed-form counterparts *)
Lemma relax_idx_cons : forall x r deg,
  relax_idx (x :: r) deg =
  (fst (relax_idx r (updf deg x (fun d => d - 1))),
   if updf deg x (fun d => d - 1) x =? 0 then x :: snd (relax_idx r (updf deg x (fun d => d - 1)))
   else snd (relax_idx r (updf deg x (fun d => d - 1)))).
Proof. intros. cbn [relax_idx]. destruct (relax_idx r _). reflexivity. Qed.

Section Sim.
  Variable metas : list fid.
  Variable ids : list fid.
  Hypothesis ids_nodup : NoDup ids.
  Let n := length ids.
  Let g := gidx ids.

  Definition deg_rel (degI : nat -> N) (deg : fid -> N) : Prop := forall i, (i < n)%nat -> degI i = deg (g i).

  Lemma relax_idx_sim : forall nbrs degI deg,
    Forall (fun i => (i < n)%nat) nbrs -> deg_rel degI deg ->
    deg_rel (fst (relax_idx nbrs degI)) (fst (relax (map g nbrs) deg)) /\
    map g (snd (relax_idx nbrs degI)) = snd (relax (map g nbrs) deg) /\
    Forall (fun i => (i < n)%nat) (snd (relax_idx nbrs degI)).
  Proof.
    induction nbrs as [|x r IH]; intros degI deg Hall Hrel.
    - cbn [relax_idx relax map fst snd]. split; [exact Hrel|]. split; [reflexivity|constructor].
    - inversion Hall as [|? ? Hx Hr]; subst. cbn [map]. rewrite relax_idx_cons, relax_cons. cbn [fst snd].
      assert (deg_rel (updf degI x (fun d => d - 1)) (dec1 deg (g x))) as Hrel1.
      { intros i Hi. unfold updf, dec1. rewrite (Hrel i Hi).
        destruct (Nat.eqb_spec i x) as [->|Hne]; [rewrite N.eqb_refl; reflexivity|].
        destruct (N.eqb_spec (g i) (g x)) as [E|E]; [|reflexivity].
        exfalso. apply Hne. apply (gidx_inj ids ids_nodup); assumption. }
      destruct (IH _ _ Hr Hrel1) as (I1 & I2 & I3).
      split; [exact I1|]. rewrite <- (Hrel1 x Hx).
      destruct (updf degI x (fun d => d - 1) x =? 0); cbn [map].
      + split; [rewrite I2; reflexivity|constructor; assumption].
      + split; assumption.
  Qed.

  Definition sim_rel (a : option (list fid * (nat -> N))) (b : option (list fid * (fid -> N))) : Prop :=
    match a, b with
    | Some (r, dI), Some (r', d) => r = r' /\ deg_rel dI d
    | None, None => True
    | _, _ => False
    end.

  Lemma bfs_idx_sim : forall (adjI : nat -> list nat) (adj : fid -> list fid),
    (forall i, (i < n)%nat -> map g (adjI i) = adj (g i) /\ Forall (fun j => (j < n)%nat) (adjI i)) ->
    forall fuel qI degI deg acc,
      Forall (fun i => (i < n)%nat) qI -> deg_rel degI deg ->
      sim_rel (bfs_idx metas fuel ids adjI qI degI acc) (bfs metas fuel adj (map g qI) deg acc).
  Proof.
    intros adjI adj Hadj. induction fuel as [|k IH]; intros qI degI deg acc Hq Hrel.
    - destruct qI; cbn [bfs_idx bfs map sim_rel]; [split; [reflexivity|exact Hrel]|exact I].
    - destruct qI as [|i q]; cbn [bfs_idx bfs map sim_rel]; [split; [reflexivity|exact Hrel]|].
      inversion Hq as [|? ? Hi Hq']; subst. destruct (Hadj i Hi) as [A1 A2].
      destruct (relax_idx_sim (adjI i) degI deg A2 Hrel) as (R1 & R2 & R3).
      rewrite <- A1.
      destruct (relax_idx (adjI i) degI) as [dI1 nzI]. destruct (relax (map g (adjI i)) deg) as [d1 nz].
      cbn [fst snd] in R1, R2, R3.
      replace (map g q ++ norm metas nz) with (map g (q ++ norm_idx metas ids nzI))
        by (rewrite map_app; unfold g; rewrite map_norm_idx; fold g; rewrite R2; reflexivity).
      apply IH; [|exact R1].
      apply Forall_app. split; [exact Hq'|apply forall_norm_idx; exact R3].
  Qed.
End Sim.

(** * the literal transcription computes the closed form *)
Theorem best_order_idx_equiv : forall deps metas ids,
  NoDup ids -> (forall f, NoDup (deps f)) ->
  best_order_idx deps metas ids = best_order deps metas ids.
Proof.
  intros deps metas ids Hnd Hdeps. unfold best_order_idx, best_order, best_order_parts.
  destruct (N.of_nat (length ids) <? 2); [rewrite app_nil_r; reflexivity|].
  destruct (build_idx_spec deps ids Hnd Hdeps) as (B1 & B2 & _ & B4).
  destruct (build_idx deps ids) as [adjI degI]. cbn [fst snd] in B1, B2, B4.
  set (n := length ids) in *. set (g := gidx ids) in *.
  assert (map g (sort_idx metas ids (filter (fun i => degI i =? 0) (seq 0 n))) =
          sort_meta metas (filter (fun f => in_degree deps ids f =? 0) ids)) as Ez.
  { unfold g. rewrite map_sort_idx. f_equal.
    rewrite (filter_ext_in (fun i => degI i =? 0) (fun i => in_degree deps ids (gidx ids i) =? 0)).
    - rewrite (map_filter_comm _ _ (gidx ids) (fun f => in_degree deps ids f =? 0)). unfold n. rewrite map_gidx_seq. reflexivity.
    - intros i Hi. apply in_seq in Hi. rewrite B4 by lia. reflexivity. }
  pose proof (bfs_idx_sim metas ids Hnd adjI (adjacency deps ids)) as Sim.
  specialize (Sim ltac:(intros i Hi; split; [apply B1; exact Hi|apply B2; exact Hi])).
  specialize (Sim (2 * n + 2)%nat (sort_idx metas ids (filter (fun i => degI i =? 0) (seq 0 n))) degI (in_degree deps ids) []).
  specialize (Sim ltac:(unfold sort_idx; apply Forall_forall; intros x Hx;
                        apply (Permutation_in _ (isort_perm _ _ _ _ _)) in Hx; apply filter_In in Hx;
                        destruct Hx as [Hx _]; apply in_seq in Hx; fold n; lia)).
  specialize (Sim ltac:(intros i Hi; apply B4; exact Hi)).
  fold g in Sim. rewrite Ez in Sim.
  destruct (bfs_idx metas (2 * n + 2) ids adjI _ degI []) as [[r dI]|];
  destruct (bfs metas (2 * n + 2) (adjacency deps ids) _ (in_degree deps ids) []) as [[r' d]|];
  cbn [sim_rel] in Sim; try contradiction; [|reflexivity].
  destruct Sim as [-> Hrel]. f_equal.
  destruct (N.of_nat (length r') <? N.of_nat n); [|rewrite app_nil_r; reflexivity].
  f_equal.
  rewrite (filter_ext_in (fun i => negb (dI i =? 0)) (fun i => negb (d (gidx ids i) =? 0))).
  - change (fun i => nth i ids 0) with (gidx ids).
    rewrite (map_filter_comm _ _ (gidx ids) (fun f => negb (d f =? 0))). unfold n. rewrite map_gidx_seq. reflexivity.
  - intros i Hi. apply in_seq in Hi. rewrite (Hrel i) by (fold n; lia). reflexivity.
Qed.

(** ... hence the determinism results hold for the literal transcription *)
Lemma sort_ids_nodup : forall l, NoDup l -> NoDup (sort_ids l).
Proof. intros l H. unfold sort_ids. eapply Permutation_NoDup; [apply Permutation_sym, isort_perm|exact H]. Qed.

Theorem best_order_idx_deterministic : forall deps deps' metas metas' ids ids',
  NoDup ids -> Permutation ids ids' ->
  (forall f, NoDup (deps f)) -> (forall f, Permutation (deps f) (deps' f)) -> Permutation metas metas' ->
  best_order_idx deps metas (sort_ids ids) = best_order_idx deps' metas' (sort_ids ids').
Proof.
  intros deps deps' metas metas' ids ids' Hnd Hp Hd Hdp Hm.
  assert (NoDup ids') as Hnd' by (eapply Permutation_NoDup; eassumption).
  assert (forall f, NoDup (deps' f)) as Hd' by (intros f; eapply Permutation_NoDup; [apply Hdp|apply Hd]).
  rewrite !best_order_idx_equiv by (try apply sort_ids_nodup; assumption).
  apply best_order_sorted_deterministic; assumption.
Qed.
