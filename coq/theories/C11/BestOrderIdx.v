(** C11/BestOrderIdx.v — the literal (index based) transcription of get_best_analysis_order equals the closed form *)
From Coq Require Import List NArith Bool Lia Permutation Arith.PeanoNat.
From EV Require Import Base.Perm Gen.C11_Sort C11.Model C11.Proofs C11.BestOrder C11.ModelIdx.
Import ListNotations.
Local Open Scope N_scope.

Definition gidx (ids : list fid) (i : nat) : fid := nth i ids 0.

(** * file_to_idx *)
Lemma idx_last_some : forall f ids b j, idx_last f ids b = Some j ->
  (b <= j)%nat /\ (j < b + length ids)%nat /\ nth_error ids (j - b) = Some f.
Proof.
  induction ids as [|g r IH]; intros b j H; cbn [idx_last] in H; [discriminate|].
  destruct (idx_last f r (S b)) as [j'|] eqn:E.
  - inversion H; subst j'. destruct (IH _ _ E) as (A & B & C). cbn [length]. split; [lia|]. split; [lia|].
    replace (j - b)%nat with (S (j - S b)) by lia. exact C.
  - destruct (N.eqb_spec g f) as [->|]; [|discriminate]. inversion H; subst. cbn [length].
    split; [lia|]. split; [lia|]. rewrite Nat.sub_diag. reflexivity.
Qed.

Lemma idx_last_none : forall f ids b, idx_last f ids b = None -> ~ In f ids.
Proof.
  induction ids as [|g r IH]; intros b H; cbn [idx_last] in H; [intros []|].
  destruct (idx_last f r (S b)) eqn:E; [discriminate|].
  destruct (N.eqb_spec g f) as [->|Hn]; [discriminate|]. intros [Hin|Hin]; [contradiction|]. exact (IH _ E Hin).
Qed.

Lemma idx_last_nodup : forall ids, NoDup ids -> forall i b, (i < length ids)%nat ->
  idx_last (gidx ids i) ids b = Some (b + i)%nat.
Proof.
  induction ids as [|g r IH]; intros Hnd i b Hi; cbn [length] in Hi; [lia|].
  inversion Hnd as [|? ? Hg Hr]; subst. cbn [idx_last]. destruct i as [|i]; unfold gidx; cbn [nth].
  - destruct (idx_last g r (S b)) eqn:E.
    + apply idx_last_some in E. destruct E as (_ & _ & E). apply nth_error_In in E. contradiction.
    + rewrite N.eqb_refl. f_equal. lia.
  - fold (gidx r i). rewrite (IH Hr i (S b)) by lia. f_equal. lia.
Qed.

Lemma gidx_inj : forall ids, NoDup ids -> forall i j, (i < length ids)%nat -> (j < length ids)%nat ->
  gidx ids i = gidx ids j -> i = j.
Proof.
  intros ids Hnd i j Hi Hj E. unfold gidx in E.
  apply (proj1 (NoDup_nth ids 0) Hnd); assumption.
Qed.

Lemma map_gidx_seq : forall ids, map (gidx ids) (seq 0 (length ids)) = ids.
Proof.
  intros ids. apply nth_ext with (d := 0) (d' := 0).
  - rewrite map_length, seq_length. reflexivity.
  - intros k Hk. rewrite map_length, seq_length in Hk.
    rewrite (nth_indep _ 0 (gidx ids 0)) by (rewrite map_length, seq_length; exact Hk).
    rewrite map_nth, seq_nth by exact Hk. reflexivity.
Qed.

Lemma map_filter_comm : forall A B (g : A -> B) (p : B -> bool) l,
  map g (filter (fun x => p (g x)) l) = filter p (map g l).
Proof.
  induction l as [|x r IH]; cbn [filter map]; [reflexivity|].
  destruct (p (g x)); cbn [map]; rewrite IH; reflexivity.
Qed.

(** * the build loop *)
Section Build.
  Variable deps : fid -> list fid.
  Variable ids : list fid.
  Hypothesis ids_nodup : NoDup ids.
  Hypothesis deps_nodup : forall f, NoDup (deps f).
  Let n := length ids.
  Let g := gidx ids.

  Lemma build_deps_spec : forall idx ds adj deg,
    NoDup ds ->
    let st := fold_left (build_dep ids idx) ds (adj, deg) in
    (forall di, (di < n)%nat -> fst st di = adj di ++ (if memN (g di) ds then [idx] else [])) /\
    (forall i, snd st i = if Nat.eqb i idx then deg i + N.of_nat (length (filter (fun d => memN d ids) ds)) else deg i).
  Proof.
    intros idx. induction ds as [|d r IH]; intros adj deg Hnd; cbn [fold_left].
    - cbn [memN existsb filter length fst snd]. split.
      + intros di _. rewrite app_nil_r. reflexivity.
      + intros i. destruct (Nat.eqb i idx); [rewrite N.add_0_r|]; reflexivity.
    - inversion Hnd as [|? ? Hd Hr]; subst.
      unfold build_dep at 2. cbn [fst snd].
      destruct (idx_last d ids 0) as [j|] eqn:E.
      + destruct (idx_last_some _ _ _ _ E) as (_ & Hj & Hnth). cbn [plus] in Hj. rewrite Nat.sub_0_r in Hnth.
        assert (g j = d) as Hgj by (unfold g, gidx; apply nth_error_nth; exact Hnth).
        assert (memN d ids = true) as Hin by (apply memN_In; eapply nth_error_In; exact Hnth).
        destruct (IH (updf adj j (fun l => l ++ [idx])) (updf deg idx (fun x => x + 1)) Hr) as [I1 I2].
        split.
        * intros di Hdi. rewrite (I1 di Hdi). unfold updf, memN. cbn [existsb]. fold (memN (g di) r).
          destruct (Nat.eqb_spec di j) as [->|Hne].
          -- rewrite Hgj, N.eqb_refl. cbn [orb].
             destruct (memN d r) eqn:M; [apply memN_In in M; contradiction|]. rewrite app_nil_r. reflexivity.
          -- destruct (N.eqb_spec (g di) d) as [Eq|Nq]; [|reflexivity].
             exfalso. apply Hne. apply (gidx_inj ids ids_nodup); [exact Hdi|exact Hj|]. fold g. congruence.
        * intros i. rewrite I2. unfold updf. cbn [filter]. rewrite Hin. cbn [length].
          destruct (Nat.eqb i idx); [|reflexivity]. lia.
      + assert (memN d ids = false) as Hin.
        { destruct (memN d ids) eqn:M; [|reflexivity]. apply memN_In in M. exfalso. exact (idx_last_none _ _ _ E M). }
        destruct (IH adj deg Hr) as [I1 I2]. split.
        * intros di Hdi. rewrite (I1 di Hdi). unfold memN. cbn [existsb]. fold (memN (g di) r).
          destruct (N.eqb_spec (g di) d) as [Eq|Nq]; [|reflexivity].
          exfalso. apply (idx_last_none _ _ _ E). rewrite <- Eq. unfold g, gidx. apply nth_In. exact Hdi.
        * intros i. rewrite I2. cbn [filter]. rewrite Hin. reflexivity.
  Qed.

  Lemma build_files_spec : forall rest pre adj deg,
    ids = pre ++ rest ->
    (forall di, (di < n)%nat -> adj di = filter (fun i => memN (g di) (deps (g i))) (seq 0 (length pre))) ->
    (forall i, deg i = if Nat.ltb i (length pre) then in_degree deps ids (g i) else 0) ->
    let st := build_files deps ids rest (length pre) (adj, deg) in
    (forall di, (di < n)%nat -> fst st di = filter (fun i => memN (g di) (deps (g i))) (seq 0 n)) /\
    (forall i, (i < n)%nat -> snd st i = in_degree deps ids (g i)).
  Proof.
    induction rest as [|f r IH]; intros pre adj deg Hids Hadj Hdeg; cbn [build_files].
    - rewrite app_nil_r in Hids. subst pre. cbn [fst snd]. split; [exact Hadj|].
      intros i Hi. rewrite Hdeg. fold n. destruct (Nat.ltb_spec i n); [reflexivity|lia].
    - assert (g (length pre) = f) as Hgf by (unfold g, gidx; rewrite Hids; apply nth_middle).
      destruct (build_deps_spec (length pre) (deps f) adj deg (deps_nodup f)) as [B1 B2].
      destruct (fold_left (build_dep ids (length pre)) (deps f) (adj, deg)) as [adj1 deg1]. cbn [fst snd] in B1, B2.
      assert (S (length pre) = length (pre ++ [f])) as Hl by (rewrite app_length; cbn; lia).
      rewrite Hl. apply IH.
      + rewrite <- app_assoc. exact Hids.
      + intros di Hdi. rewrite <- Hl, seq_S, filter_app. cbn [filter plus]. rewrite Hgf.
        rewrite (B1 di Hdi), (Hadj di Hdi). reflexivity.
      + intros i. rewrite B2, Hdeg, <- Hl.
        destruct (Nat.eqb_spec i (length pre)) as [->|Hne].
        * rewrite Nat.ltb_irrefl. destruct (Nat.ltb_spec (length pre) (S (length pre))); [|lia].
          unfold in_degree. rewrite Hgf. rewrite N.add_0_l. reflexivity.
        * destruct (Nat.ltb_spec i (length pre)); destruct (Nat.ltb_spec i (S (length pre))); try reflexivity; lia.
  Qed.

  (** what the build loop leaves in the two vectors *)
  Lemma build_idx_spec :
    (forall di, (di < n)%nat -> map g (fst (build_idx deps ids) di) = adjacency deps ids (g di)) /\
    (forall di, (di < n)%nat -> Forall (fun i => (i < n)%nat) (fst (build_idx deps ids) di)) /\
    (forall di, (di < n)%nat -> NoDup (fst (build_idx deps ids) di)) /\
    (forall i, (i < n)%nat -> snd (build_idx deps ids) i = in_degree deps ids (g i)).
  Proof.
    unfold build_idx.
    destruct (build_files_spec ids [] (fun _ => []) (fun _ => 0) eq_refl) as [S1 S2].
    { intros di _. reflexivity. }
    { intros i. reflexivity. }
    cbn [length] in S1, S2. split; [|split; [|split]].
    - intros di Hdi. rewrite (S1 di Hdi). unfold adjacency.
      rewrite (map_filter_comm _ _ g (fun f => memN (g di) (deps f))). unfold g, n. rewrite map_gidx_seq. reflexivity.
    - intros di Hdi. rewrite (S1 di Hdi). apply Forall_forall. intros i Hi. apply filter_In in Hi.
      destruct Hi as [Hi _]. apply in_seq in Hi. lia.
    - intros di Hdi. rewrite (S1 di Hdi). apply NoDup_filter. apply seq_NoDup.
    - exact S2.
  Qed.
End Build.
