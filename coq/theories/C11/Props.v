(** C11/Props.v — property theorems only.  Each is closed by [exact] of a lemma of Proofs/BestOrder/Pipeline.
    Reading guide: a "hasher" [h] stands for the iteration order of a HashSet/HashMap — any function whose result
    is a permutation of its argument ([is_hasher]); every theorem quantifies over ALL hashers, i.e. over every hash
    seed, and over EVERY remove/analyze function of the driver. *)
From Coq Require Import List NArith Bool Permutation Sorting.Sorted.
From EV Require Import Base.Perm Gen.C11_Sort C11.Model C11.ModelIdx C11.Proofs C11.BestOrder C11.BestOrderIdx C11.Pipeline.
Import ListNotations.
Local Open Scope N_scope.

(** With the id lists sorted before [remove_index]/[update_index], the result of a batch update (Vfs, index, id list)
    does not depend on the iteration order of the two hash sets — for every [remove_index] and every [analyze]
    (not assumed commutative) — and equals [update_files_spec], a function of the registered files only; the id
    list is strictly ascending, i.e. registration order. *)
Theorem driver_deterministic :
  forall (S : Type) (remove_index analyze : S -> list fid -> S) (h1 h2 h1' h2' : list fid -> list fid)
         (v : vfs) (st : S) (batch : list (uri * bool)),
    is_hasher h1 -> is_hasher h2 -> is_hasher h1' -> is_hasher h2' ->
    update_files_by_uri S remove_index analyze true true h1 h2 v st batch =
    update_files_by_uri S remove_index analyze true true h1' h2' v st batch
    /\ update_files_by_uri S remove_index analyze true true h1 h2 v st batch =
       update_files_spec S remove_index analyze v st batch
    /\ StronglySorted N.lt (snd (update_files_by_uri S remove_index analyze true true h1 h2 v st batch)).
Proof. exact Pipeline.driver_deterministic_full. Qed.

(** The same for the sort flags READ OFF TODAY'S SOURCE (Gen/C11_Sort.v, regenerated on every run): this theorem
    stops compiling when a sort disappears from an update entry point, when [update_files_by_path] stops delegating,
    when the single-file entry point or [reindex] change shape, when a new caller of [update_index] appears, or when
    a HashMap/HashSet iteration site of compilation/, db_index/, semantic/ or diagnostic/ is new (unreviewed) or
    reviewed as order-sensitive ([hash_sites], 60 sites today). *)
Theorem driver_current_source_deterministic :
  forall (S : Type) (remove_index analyze : S -> list fid -> S) (h1 h2 h1' h2' : list fid -> list fid)
         (v : vfs) (st : S) (batch : list (uri * bool)),
    is_hasher h1 -> is_hasher h2 -> is_hasher h1' -> is_hasher h2' ->
    update_files_by_uri S remove_index analyze uri_sorts_removed uri_sorts_updated h1 h2 v st batch =
    update_files_by_uri S remove_index analyze uri_sorts_removed uri_sorts_updated h1' h2' v st batch
    /\ path_delegates_to_uri = true /\ single_update_is_singleton = true /\ reindex_ids_in_vec_order = true
    /\ other_update_index_callers = 0
    /\ best_order_tiebreak_by_file_id = true /\ lua_pipeline_uses_best_order = true
    /\ hash_sites_all_reviewed = true.
Proof. exact Pipeline.driver_current_source_deterministic_full. Qed.

(** Without the sort the property fails: the transcribed "first assignment types the member" step folded in
    best-analysis order over two files that require each other reports the assign-type-mismatch in file 2 under
    one iteration order and in file 1 under another (the witness of the property text, confirmed on the code). *)
Theorem driver_order_dependent_refuted :
  exists h h' : list fid -> list fid,
    is_hasher h /\ is_hasher h' /\ witness_run h <> witness_run h'.
Proof. exact Proofs.driver_order_dependent_refuted. Qed.

(** The per-workspace grouping does not depend on the iteration order of the workspace map (sort flag and workspace-id
    constants read off today's source). *)
Theorem grouping_deterministic :
  forall (file_ws : fid -> option ws) (h h' : list (ws * list fid) -> list (ws * list fid)) (files : list fid),
    is_hasher h -> is_hasher h' ->
    module_analyze_std_removed_first = true /\ is_library_is_ge_start = true /\ is_remote_is_eq_remote = true /\
    module_analyze file_ws module_analyze_sorts_contexts h files =
    module_analyze file_ws module_analyze_sorts_contexts h' files.
Proof. exact Pipeline.grouping_deterministic_full. Qed.

(** The best analysis order is a function of the dependency RELATION and the meta SET (not of the iteration order
    of the hash sets that hold them), and with the sorted id list of the driver a function of the file SET. *)
Theorem best_order_deterministic :
  forall (deps deps' : fid -> list fid) (metas metas' ids ids' : list fid),
    NoDup ids -> Permutation ids ids' ->
    (forall f, Permutation (deps f) (deps' f)) -> Permutation metas metas' ->
    best_order deps metas ids = best_order deps' metas' ids /\
    best_order deps metas (sort_ids ids) = best_order deps' metas' (sort_ids ids').
Proof. exact Pipeline.best_order_deterministic_full. Qed.

(** Permuting the (duplicate-free) input list: the part produced by the queue is unchanged because the tie-break
    (meta first, then FileId) is total; the files left in dependency cycles are the same SET but are emitted in
    input order; when nothing is left over the whole order is unchanged. *)
Theorem best_order_acyclic_permutation_invariant :
  forall (deps : fid -> list fid) (metas ids ids' : list fid),
    NoDup ids -> Permutation ids ids' ->
    (exists p : fid -> bool,
       match best_order_parts deps metas ids, best_order_parts deps metas ids' with
       | Some (top, rest), Some (top', rest') => top = top' /\ rest = filter p ids /\ rest' = filter p ids'
       | None, None => True
       | _, _ => False
       end) /\
    (forall top, best_order_parts deps metas ids = Some (top, []) ->
                 best_order deps metas ids' = best_order deps metas ids).
Proof. exact Pipeline.best_order_acyclic_permutation_invariant_full. Qed.

(** The LITERAL transcription of get_best_analysis_order (ModelIdx.v: file_to_idx map, in_degree / adjacency vectors
    filled by the nested build loop over the HashSets in their iteration order, index queue, sort_by on indices,
    leftover scan over in_degree) computes exactly the closed form used above, for every duplicate-free id list and
    every iteration order of the dependency sets ... *)
Theorem best_order_literal_is_closed_form :
  forall (deps : fid -> list fid) (metas ids : list fid),
    NoDup ids -> (forall f, NoDup (deps f)) ->
    best_order_idx deps metas ids = best_order deps metas ids.
Proof. exact BestOrderIdx.best_order_idx_equiv. Qed.

(** ... so with the driver's sorted id list the literal algorithm is a function of the file set, the dependency
    relation and the meta set. *)
Theorem best_order_literal_deterministic :
  forall (deps deps' : fid -> list fid) (metas metas' ids ids' : list fid),
    NoDup ids -> Permutation ids ids' ->
    (forall f, NoDup (deps f)) -> (forall f, Permutation (deps f) (deps' f)) -> Permutation metas metas' ->
    best_order_idx deps metas (sort_ids ids) = best_order_idx deps' metas' (sort_ids ids').
Proof. exact BestOrderIdx.best_order_idx_deterministic. Qed.

(** ... and with a cycle the input order does show through (why the driver has to sort). *)
Theorem best_order_cycle_input_order_refuted :
  exists (deps : fid -> list fid) (metas ids ids' : list fid),
    NoDup ids /\ Permutation ids ids' /\ best_order deps metas ids <> best_order deps metas ids'.
Proof. exact Pipeline.best_order_cycle_input_order_refuted. Qed.

(** The composed analysis of a batch (grouping, then per group the list-ordered pipelines, the Lua pipeline in
    best-analysis order, the unresolve pipeline) for EVERY per-file step: with the sorted id list it is a function
    of the file set, the dependency relation and the meta set. *)
Theorem pipeline_deterministic :
  forall (S : Type) (file_ws : fid -> option ws) (step_list step_lua : S -> fid -> S) (step_end : S -> list fid -> S)
         (hg hg' : list (ws * list fid) -> list (ws * list fid)) (deps deps' : fid -> list fid)
         (metas metas' : list fid) (st : S) (ids ids' : list fid),
    is_hasher hg -> is_hasher hg' -> NoDup ids -> Permutation ids ids' ->
    (forall f, Permutation (deps f) (deps' f)) -> Permutation metas metas' ->
    analyze_model S file_ws step_list step_lua step_end module_analyze_sorts_contexts hg deps metas st (sort_ids ids) =
    analyze_model S file_ws step_list step_lua step_end module_analyze_sorts_contexts hg' deps' metas' st (sort_ids ids').
Proof. exact Pipeline.pipeline_deterministic. Qed.

(** non-vacuity *)
Example driver_example :
  let batch := [(7, true); (3, true); (7, false); (5, true); (3, true)] in
  update_files_by_uri (list (list fid)) (fun st _ => st) (fun st ids => st ++ [ids]) true true (@rev fid) (@rev fid) [] [] batch
  = ([(7, false); (3, true); (5, true)], [[1; 2]], [0; 1; 2])
  /\ recorded_orders 2 batch = [[0; 1; 2]; [1; 2]].
Proof. exact Pipeline.driver_example. Qed.

Example best_order_example :
  let deps := fun f => if f =? 5 then [3; 1] else if f =? 3 then [1] else if f =? 8 then [9] else if f =? 9 then [8]
                       else if f =? 2 then [8] else [] in
  best_order deps [4] [9; 5; 2; 4; 3; 1; 8] = Some [4; 1; 3; 5; 9; 2; 8]
  /\ best_order deps [4] (sort_ids [9; 5; 2; 4; 3; 1; 8]) = Some [4; 1; 3; 5; 2; 8; 9]
  /\ best_order_parts deps [4] [5; 4; 3; 1] = Some ([4; 1; 3; 5], []).
Proof. exact Pipeline.best_order_example. Qed.

Example grouping_example :
  let file_ws := fun f => if f <? 2 then Some 0 else if f <? 4 then Some 5 else if f <? 5 then Some 3
                          else if f <? 6 then Some 2 else if f <? 8 then Some 1 else None in
  module_analyze file_ws true (@rev (ws * list fid)) [6; 2; 0; 4; 5; 3; 1; 7; 9]
  = [(0, [0; 1]); (2, [5]); (3, [4]); (5, [2; 3]); (1, [6; 7])].
Proof. exact Pipeline.grouping_example. Qed.
