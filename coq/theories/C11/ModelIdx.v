(** C11/ModelIdx.v — get_best_analysis_order transcribed LITERALLY (index based), definitions only.
    crates/emmylua_code_analysis/src/db_index/dependency/file_dependency_relation.rs

    Vectors of length n ([in_degree], [adjacency]) are total functions from the index (every index that is used
    comes from [enumerate] or from [file_to_idx], so it is in range); [file_to_idx] is the map collected from
    [(file_id, idx)] pairs (a later duplicate overwrites an earlier one = last index); [queue], [zero_in_degree],
    [new_zero] hold indices; the result holds [file_ids[idx]].  C11/BestOrderIdx.v proves this equal to the
    closed-form [Model.best_order] that the property theorems use. *)
From Coq Require Import List NArith Bool.
From EV Require Import Base.Perm Gen.C11_Sort C11.Model.
Import ListNotations.
Local Open Scope N_scope.

(** [file_to_idx.get(&f)] *)
Fixpoint idx_last (f : fid) (ids : list fid) (i : nat) : option nat :=
  match ids with
  | [] => None
  | g :: r => match idx_last f r (S i) with
              | Some j => Some j
              | None => if g =? f then Some i else None
              end
  end.

Definition updf {A : Type} (g : nat -> A) (i : nat) (h : A -> A) : nat -> A :=
  fun j => if Nat.eqb j i then h (g j) else g j.

Section BestOrderIdx.
  Variable deps : fid -> list fid.
  Variable metas : list fid.

  (** body of [for &dep in deps]: [adjacency[dep_idx].push(idx); in_degree[idx] += 1] when the dep is listed *)
  Definition build_dep (ids : list fid) (idx : nat) (st : (nat -> list nat) * (nat -> N)) (dep : fid)
      : (nat -> list nat) * (nat -> N) :=
    match idx_last dep ids 0 with
    | Some di => (updf (fst st) di (fun l => l ++ [idx]), updf (snd st) idx (fun d => d + 1))
    | None => st
    end.

  (** [for (idx, &file_id) in file_ids.iter().enumerate()] *)
  Fixpoint build_files (ids rest : list fid) (idx : nat) (st : (nat -> list nat) * (nat -> N))
      : (nat -> list nat) * (nat -> N) :=
    match rest with
    | [] => st
    | f :: r => build_files ids r (S idx) (fold_left (build_dep ids idx) (deps f) st)
    end.

  Definition build_idx (ids : list fid) : (nat -> list nat) * (nat -> N) :=
    build_files ids ids 0 (fun _ => [], fun _ => 0).

  (** the [sort_by] closure compares (is meta, FileId) of [file_ids[a]] *)
  Definition ikey (ids : list fid) (a : nat) : bool * N := mkey metas (nth a ids 0).
  Definition sort_idx (ids : list fid) (l : list nat) : list nat := isort (ikey ids) mcmp l.
  Definition norm_idx (ids : list fid) (l : list nat) : list nat :=
    if 1 <? N.of_nat (length l) then sort_idx ids l else l.

  Fixpoint relax_idx (nbrs : list nat) (deg : nat -> N) : (nat -> N) * list nat :=
    match nbrs with
    | [] => (deg, [])
    | x :: r =>
        let deg' := updf deg x (fun d => d - 1) in
        let '(deg'', nz) := relax_idx r deg' in
        (deg'', if deg' x =? 0 then x :: nz else nz)
    end.

  Fixpoint bfs_idx (fuel : nat) (ids : list fid) (adj : nat -> list nat) (queue : list nat) (deg : nat -> N)
      (acc : list fid) : option (list fid * (nat -> N)) :=
    match queue with
    | [] => Some (acc, deg)
    | i :: q =>
        match fuel with
        | O => None
        | S k => let '(deg', nz) := relax_idx (adj i) deg in
                 bfs_idx k ids adj (q ++ norm_idx ids nz) deg' (acc ++ [nth i ids 0])
        end
    end.

  Definition best_order_idx (ids : list fid) : option (list fid) :=
    let n := length ids in
    if N.of_nat n <? 2 then Some ids else
    let '(adj, deg) := build_idx ids in
    let zero := sort_idx ids (filter (fun i => deg i =? 0) (seq 0 n)) in
    match bfs_idx (2 * n + 2) ids adj zero deg [] with
    | None => None
    | Some (res, deg') =>
        Some (if N.of_nat (length res) <? N.of_nat n
              then res ++ map (fun i => nth i ids 0) (filter (fun i => negb (deg' i =? 0)) (seq 0 n))
              else res)
    end.
End BestOrderIdx.
