(** C11/Pipeline.v — the composed analysis of one batch, and the witnesses of BestOrder *)
From Coq Require Import List NArith Bool Lia Permutation Sorting.Sorted.
From EV Require Import Base.Perm Gen.C11_Sort C11.Model C11.Proofs C11.BestOrder.
Import ListNotations.
Local Open Scope N_scope.

Section PipelineFacts.
  Variable S : Type.
  Variable file_ws : fid -> option ws.
  Variable step_list : S -> fid -> S.
  Variable step_lua : S -> fid -> S.
  Variable step_end : S -> list fid -> S.

  Lemma analyze_groups_ext : forall deps deps' metas metas',
    (forall l, best_order deps metas l = best_order deps' metas' l) ->
    forall gs st,
      analyze_groups S step_list step_lua step_end deps metas st gs =
      analyze_groups S step_list step_lua step_end deps' metas' st gs.
  Proof.
    intros deps deps' metas metas' H. induction gs as [|[w l] r IH]; intros st; cbn [analyze_groups]; [reflexivity|].
    unfold analyze_group. rewrite H. destruct (best_order deps' metas' l); [apply IH|reflexivity].
  Qed.

  Lemma pipeline_deterministic : forall hg hg' deps deps' metas metas' st ids ids',
    is_hasher hg -> is_hasher hg' ->
    NoDup ids -> Permutation ids ids' ->
    (forall f, Permutation (deps f) (deps' f)) -> Permutation metas metas' ->
    analyze_model S file_ws step_list step_lua step_end true hg deps metas st (sort_ids ids) =
    analyze_model S file_ws step_list step_lua step_end true hg' deps' metas' st (sort_ids ids').
  Proof.
    intros hg hg' deps deps' metas metas' st ids ids' Hg Hg' Hnd Hp Hd Hm. unfold analyze_model.
    rewrite (sort_ids_perm ids ids' Hnd Hp).
    rewrite (module_analyze_deterministic file_ws hg hg' (sort_ids ids') Hg Hg').
    apply analyze_groups_ext. intros l. apply best_order_ext; assumption.
  Qed.
End PipelineFacts.

(** two files requiring each other: the order of the pair is the INPUT order *)
Lemma best_order_cycle_input_order_refuted :
  exists (deps : fid -> list fid) (metas ids ids' : list fid),
    NoDup ids /\ Permutation ids ids' /\ best_order deps metas ids <> best_order deps metas ids'.
Proof.
  exists witness_deps, [], [0; 1; 2], [0; 2; 1]. split; [|split].
  - repeat constructor; cbn; intuition discriminate.
  - apply perm_skip. apply perm_swap.
  - vm_compute. discriminate.
Qed.

(** examples (non-vacuity) *)
Lemma driver_example :
  let batch := [(7, true); (3, true); (7, false); (5, true); (3, true)] in
  update_files_by_uri (list (list fid)) (fun st _ => st) (fun st ids => st ++ [ids]) true true (@rev fid) (@rev fid) [] [] batch
  = ([(7, false); (3, true); (5, true)], [[1; 2]], [0; 1; 2])
  /\ recorded_orders 2 batch = [[0; 1; 2]; [1; 2]].
Proof. split; vm_compute; reflexivity. Qed.

Lemma best_order_example :
  (* 5 requires 3 and 1; 3 requires 1; 4 is a meta file; 8 and 9 require each other; 2 requires 8 *)
  let deps := fun f => if f =? 5 then [3; 1] else if f =? 3 then [1] else if f =? 8 then [9] else if f =? 9 then [8]
                       else if f =? 2 then [8] else [] in
  best_order deps [4] [9; 5; 2; 4; 3; 1; 8] = Some [4; 1; 3; 5; 9; 2; 8]
  /\ best_order deps [4] (sort_ids [9; 5; 2; 4; 3; 1; 8]) = Some [4; 1; 3; 5; 2; 8; 9]
  /\ best_order_parts deps [4] [5; 4; 3; 1] = Some ([4; 1; 3; 5], []).
Proof. repeat split; vm_compute; reflexivity. Qed.

Lemma grouping_example :
  let file_ws := fun f => if f <? 2 then Some 0 else if f <? 4 then Some 5 else if f <? 5 then Some 3
                          else if f <? 6 then Some 2 else if f <? 8 then Some 1 else None in
  module_analyze file_ws true (@rev (ws * list fid)) [6; 2; 0; 4; 5; 3; 1; 7; 9]
  = [(0, [0; 1]); (2, [5]); (3, [4]); (5, [2; 3]); (1, [6; 7])].
Proof. vm_compute. reflexivity. Qed.

(** * the property statements in full (Props.v only re-exports them) *)
Lemma driver_deterministic_full :
  forall (S : Type) (remove_index analyze : S -> list fid -> S) (h1 h2 h1' h2' : list fid -> list fid)
         (v : vfs) (st : S) (batch : list (uri * bool)),
    is_hasher h1 -> is_hasher h2 -> is_hasher h1' -> is_hasher h2' ->
    update_files_by_uri S remove_index analyze true true h1 h2 v st batch =
    update_files_by_uri S remove_index analyze true true h1' h2' v st batch
    /\ update_files_by_uri S remove_index analyze true true h1 h2 v st batch =
       update_files_spec S remove_index analyze v st batch
    /\ StronglySorted N.lt (snd (update_files_by_uri S remove_index analyze true true h1 h2 v st batch)).
Proof.
  intros S rm an h1 h2 h1' h2' v st batch H1 H2 H1' H2'. split; [|split].
  - exact (Proofs.driver_deterministic S rm an h1 h2 h1' h2' v st batch H1 H2 H1' H2').
  - exact (Proofs.driver_is_spec S rm an h1 h2 v st batch H1 H2).
  - destruct (update_files_by_uri S rm an true true h1 h2 v st batch) as [[v' st'] ids] eqn:E.
    exact (Proofs.update_order_ascending S rm an h1 h2 v st batch v' st' ids H1 H2 E).
Qed.

Lemma driver_current_source_deterministic_full :
  forall (S : Type) (remove_index analyze : S -> list fid -> S) (h1 h2 h1' h2' : list fid -> list fid)
         (v : vfs) (st : S) (batch : list (uri * bool)),
    is_hasher h1 -> is_hasher h2 -> is_hasher h1' -> is_hasher h2' ->
    update_files_by_uri S remove_index analyze uri_sorts_removed uri_sorts_updated h1 h2 v st batch =
    update_files_by_uri S remove_index analyze uri_sorts_removed uri_sorts_updated h1' h2' v st batch
    /\ path_delegates_to_uri = true /\ single_update_is_singleton = true /\ reindex_ids_in_vec_order = true
    /\ other_update_index_callers = 0
    /\ best_order_tiebreak_by_file_id = true /\ lua_pipeline_uses_best_order = true
    /\ hash_sites_all_reviewed = true.
Proof.
  intros S rm an h1 h2 h1' h2' v st batch H1 H2 H1' H2'.
  split; [exact (Proofs.driver_deterministic S rm an h1 h2 h1' h2' v st batch H1 H2 H1' H2')|].
  repeat split; reflexivity.
Qed.

Lemma grouping_deterministic_full :
  forall (file_ws : fid -> option ws) (h h' : list (ws * list fid) -> list (ws * list fid)) (files : list fid),
    is_hasher h -> is_hasher h' ->
    module_analyze_std_removed_first = true /\ is_library_is_ge_start = true /\ is_remote_is_eq_remote = true /\
    module_analyze file_ws module_analyze_sorts_contexts h files =
    module_analyze file_ws module_analyze_sorts_contexts h' files.
Proof.
  intros file_ws h h' files Hh Hh'. repeat split.
  exact (Proofs.module_analyze_deterministic file_ws h h' files Hh Hh').
Qed.

Lemma best_order_deterministic_full :
  forall (deps deps' : fid -> list fid) (metas metas' ids ids' : list fid),
    NoDup ids -> Permutation ids ids' ->
    (forall f, Permutation (deps f) (deps' f)) -> Permutation metas metas' ->
    best_order deps metas ids = best_order deps' metas' ids /\
    best_order deps metas (sort_ids ids) = best_order deps' metas' (sort_ids ids').
Proof.
  intros deps deps' metas metas' ids ids' Hnd Hp Hd Hm. split.
  - exact (BestOrder.best_order_ext deps deps' metas metas' ids Hd Hm).
  - exact (BestOrder.best_order_sorted_deterministic deps deps' metas metas' ids ids' Hnd Hp Hd Hm).
Qed.

Lemma best_order_acyclic_permutation_invariant_full :
  forall (deps : fid -> list fid) (metas ids ids' : list fid),
    NoDup ids -> Permutation ids ids' ->
    (exists p : fid -> bool,
       match best_order_parts deps metas ids, best_order_parts deps metas ids' with
       | Some (top, rest), Some (top', rest') => top = top' /\ rest = filter p ids /\ rest' = filter p ids'
       | None, None => True
       | _, _ => False
       end) /\
    (forall top, best_order_parts deps metas ids = Some (top, []) ->
                 best_order deps metas ids' = best_order deps metas ids).
Proof.
  intros deps metas ids ids' Hnd Hp. split.
  - exact (BestOrder.best_order_parts_perm deps metas ids ids' Hnd Hp).
  - intros top H. exact (BestOrder.best_order_acyclic_perm deps metas ids ids' top Hnd Hp H).
Qed.

