(** C11/Corr.v — executable comparison of implementation observations with the model
    (the python plugin writes [case] terms from the JSON lines of `c11 corr` and of the search dumps). *)
From Coq Require Import List NArith Bool.
From EV Require Import Base.Perm Gen.C11_Sort C11.Model C11.ModelIdx.
Import ListNotations.
Local Open Scope N_scope.

Inductive case :=
| Drv (mode : N) (batch : list (N * bool)) (orders : list (list N))
    (* update entry point (see [recorded_orders]), the batch (uri key, has text), what the hook recorded *)
| BO (ids : list N) (edges : list (N * N)) (metas : list N) (out : list N).
    (* get_best_analysis_order: id list, (file, dependency) pairs, meta files, result *)

Fixpoint list_eqb (a b : list N) : bool :=
  match a, b with
  | [], [] => true
  | x :: a', y :: b' => (x =? y) && list_eqb a' b'
  | _, _ => false
  end.

Fixpoint list_list_eqb (a b : list (list N)) : bool :=
  match a, b with
  | [], [] => true
  | x :: a', y :: b' => list_eqb x y && list_list_eqb a' b'
  | _, _ => false
  end.

(** the HashSet of dependencies of [f] built by [add_required_file] *)
Definition deps_of (edges : list (N * N)) (f : fid) : list fid :=
  fold_left (fun s e => if fst e =? f then set_insert (snd e) s else s) edges [].

Definition check_case (c : case) : bool :=
  match c with
  | Drv mode batch orders => list_list_eqb (recorded_orders mode batch) orders
  | BO ids edges metas out =>
      (* both the literal (index based) transcription and the closed form must give the implementation's answer *)
      match best_order_idx (deps_of edges) metas ids, best_order (deps_of edges) metas ids with
      | Some r, Some r' => list_eqb r out && list_eqb r' out
      | _, _ => false
      end
  end.
