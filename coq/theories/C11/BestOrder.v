(** C11/BestOrder.v — lemmas about the transcription of get_best_analysis_order *)
From Coq Require Import List NArith Bool Lia Permutation Sorting.Sorted.
From EV Require Import Base.Perm Gen.C11_Sort C11.Model C11.Proofs.
Import ListNotations.
Local Open Scope N_scope.

Lemma mcmp_order : total_order mcmp.
Proof. unfold mcmp. apply pair_total_order; [exact bool_total_order|exact N_total_order]. Qed.

Lemma insert_ext : forall A K (key key' : A -> K) cmp, (forall x, key x = key' x) ->
  forall x l, insert key cmp x l = insert key' cmp x l.
Proof.
  intros A K key key' cmp H x. induction l as [|y r IH]; cbn [insert]; [reflexivity|].
  rewrite <- !H. destruct (cmp (key x) (key y)); try reflexivity. rewrite IH. reflexivity.
Qed.

Lemma isort_ext : forall A K (key key' : A -> K) cmp, (forall x, key x = key' x) ->
  forall l, isort key cmp l = isort key' cmp l.
Proof.
  intros A K key key' cmp H. induction l as [|x r IH]; cbn [isort]; [reflexivity|].
  rewrite IH. apply insert_ext. exact H.
Qed.

Lemma sort_meta_ext : forall metas metas' l, Permutation metas metas' -> sort_meta metas l = sort_meta metas' l.
Proof.
  intros metas metas' l Hp. unfold sort_meta. apply isort_ext. intros x. unfold mkey.
  rewrite (memN_perm x _ _ Hp). reflexivity.
Qed.

Lemma mkey_nodup : forall metas l, NoDup l -> NoDup (map (mkey metas) l).
Proof.
  induction l as [|x r IH]; intros Hnd; cbn [map]; [constructor|].
  inversion Hnd as [|? ? Hx Hr]; subst. constructor; [|apply IH; exact Hr].
  intros Hin. apply in_map_iff in Hin. destruct Hin as (z & Hz1 & Hz2).
  unfold mkey in Hz1. inversion Hz1; subst. contradiction.
Qed.

Lemma sort_meta_perm : forall metas l l', NoDup l -> Permutation l l' -> sort_meta metas l = sort_meta metas l'.
Proof.
  intros metas l l' Hnd Hp. unfold sort_meta.
  apply (isort_perm_invariant _ _ _ _ mcmp_order); [apply mkey_nodup; exact Hnd|exact Hp].
Qed.

Lemma norm_ext : forall metas metas' l, Permutation metas metas' -> norm metas l = norm metas' l.
Proof. intros. unfold norm. rewrite (sort_meta_ext metas metas'); [reflexivity|assumption]. Qed.

Lemma norm_perm : forall metas l l', NoDup l -> Permutation l l' -> norm metas l = norm metas l'.
Proof.
  intros metas l l' Hnd Hp. unfold norm. rewrite <- (Permutation_length Hp).
  destruct (N.ltb_spec 1 (N.of_nat (length l))) as [H|H].
  - apply sort_meta_perm; assumption.
  - apply perm_short; [lia|exact Hp].
Qed.

(** * the relaxation loop *)
Definition dec1 (deg : fid -> N) (x : fid) : fid -> N := fun y => if y =? x then deg y - 1 else deg y.

Lemma relax_cons : forall x r deg,
  relax (x :: r) deg =
  (fst (relax r (dec1 deg x)),
   if dec1 deg x x =? 0 then x :: snd (relax r (dec1 deg x)) else snd (relax r (dec1 deg x))).
Proof. intros. unfold dec1. cbn [relax]. destruct (relax r _). reflexivity. Qed.

Lemma relax_ext : forall l deg deg', (forall x, deg x = deg' x) ->
  (forall y, fst (relax l deg) y = fst (relax l deg') y) /\ snd (relax l deg) = snd (relax l deg').
Proof.
  induction l as [|x r IH]; intros deg deg' H.
  - cbn [relax fst snd]. split; [exact H|reflexivity].
  - rewrite !relax_cons. cbn [fst snd].
    assert (forall y, dec1 deg x y = dec1 deg' x y) as H1 by (intros y; unfold dec1; rewrite H; reflexivity).
    destruct (IH _ _ H1) as [I1 I2].
    split; [exact I1|]. rewrite H1, I2. reflexivity.
Qed.

Lemma relax_spec : forall l deg, NoDup l ->
  (forall y, fst (relax l deg) y = if memN y l then deg y - 1 else deg y) /\
  snd (relax l deg) = filter (fun y => deg y - 1 =? 0) l.
Proof.
  induction l as [|x r IH]; intros deg Hnd.
  - cbn [relax fst snd memN existsb filter]. split; reflexivity.
  - inversion Hnd as [|? ? Hx Hr]; subst.
    rewrite relax_cons. cbn [fst snd].
    destruct (IH (dec1 deg x) Hr) as [I1 I2]. split.
    + intros y. rewrite I1. unfold memN. cbn [existsb]. fold (memN y r). unfold dec1.
      destruct (N.eqb_spec y x) as [E|E].
      * subst y. destruct (memN x r) eqn:M; [apply memN_In in M; contradiction|]. reflexivity.
      * cbn [orb]. reflexivity.
    + cbn [filter]. assert (dec1 deg x x = deg x - 1) as -> by (unfold dec1; rewrite N.eqb_refl; reflexivity).
      assert (snd (relax r (dec1 deg x)) = filter (fun y => deg y - 1 =? 0) r) as ->.
      { rewrite I2. apply filter_ext_in. intros y Hy. unfold dec1.
        destruct (N.eqb_spec y x) as [E|E]; [subst; contradiction|reflexivity]. }
      reflexivity.
Qed.

Lemma relax_perm : forall l l' deg deg', NoDup l -> Permutation l l' -> (forall x, deg x = deg' x) ->
  (forall y, fst (relax l deg) y = fst (relax l' deg') y) /\
  Permutation (snd (relax l deg)) (snd (relax l' deg')) /\ NoDup (snd (relax l deg)).
Proof.
  intros l l' deg deg' Hnd Hp H.
  assert (NoDup l') as Hnd' by (eapply Permutation_NoDup; eassumption).
  destruct (relax_spec l deg Hnd) as [A1 A2]. destruct (relax_spec l' deg' Hnd') as [B1 B2].
  split; [|split].
  - intros y. rewrite A1, B1, (memN_perm y l l' Hp), H. reflexivity.
  - rewrite A2, B2. rewrite (filter_ext (fun y => deg y - 1 =? 0) (fun y => deg' y - 1 =? 0)) by (intros; rewrite H; reflexivity).
    apply perm_filter. exact Hp.
  - rewrite A2. apply NoDup_filter. exact Hnd.
Qed.

(** * the queue loop respects every relation that the relaxation respects *)
Definition res_rel (a b : option (list fid * (fid -> N))) : Prop :=
  match a, b with
  | Some (r, d), Some (r', d') => r = r' /\ forall x, d x = d' x
  | None, None => True
  | _, _ => False
  end.

Lemma bfs_rel : forall metas metas' (adj adj' : fid -> list fid),
  (forall d deg deg', (forall x, deg x = deg' x) ->
     (forall y, fst (relax (adj d) deg) y = fst (relax (adj' d) deg') y) /\
     norm metas (snd (relax (adj d) deg)) = norm metas' (snd (relax (adj' d) deg'))) ->
  forall fuel queue deg deg' acc, (forall x, deg x = deg' x) ->
  res_rel (bfs metas fuel adj queue deg acc) (bfs metas' fuel adj' queue deg' acc).
Proof.
  intros metas metas' adj adj' Hr. induction fuel as [|k IH]; intros queue deg deg' acc H.
  - destruct queue; cbn [bfs res_rel]; [split; [reflexivity|exact H]|exact I].
  - destruct queue as [|f q]; cbn [bfs res_rel]; [split; [reflexivity|exact H]|].
    destruct (Hr f deg deg' H) as [H1 H2].
    destruct (relax (adj f) deg) as [d1 nz]. destruct (relax (adj' f) deg') as [d1' nz']. cbn [fst snd] in *.
    rewrite H2. apply IH. exact H1.
Qed.

(** * independence from the iteration order of the inner hash sets and of the meta set *)
Lemma best_order_parts_ext : forall deps deps' metas metas' ids,
  (forall f, Permutation (deps f) (deps' f)) -> Permutation metas metas' ->
  best_order_parts deps metas ids = best_order_parts deps' metas' ids.
Proof.
  intros deps deps' metas metas' ids Hd Hm. unfold best_order_parts.
  destruct (N.of_nat (length ids) <? 2); [reflexivity|].
  assert (forall f, in_degree deps ids f = in_degree deps' ids f) as Hdeg.
  { intros f. unfold in_degree. f_equal. apply Permutation_length. apply perm_filter. apply Hd. }
  assert (forall d, adjacency deps ids d = adjacency deps' ids d) as Hadj.
  { intros d. unfold adjacency. apply filter_ext. intros f. apply memN_perm. apply Hd. }
  rewrite (filter_ext (fun f => in_degree deps ids f =? 0) (fun f => in_degree deps' ids f =? 0))
    by (intros; rewrite Hdeg; reflexivity).
  rewrite (sort_meta_ext metas metas') by exact Hm.
  pose proof (bfs_rel metas metas' (adjacency deps ids) (adjacency deps' ids)) as B.
  specialize (B ltac:(intros d deg deg' H; rewrite <- Hadj;
                       destruct (relax_ext (adjacency deps ids d) deg deg' H) as [E1 E2];
                       split; [exact E1|rewrite E2; apply norm_ext; exact Hm])).
  specialize (B (2 * length ids + 2)%nat
                (sort_meta metas' (filter (fun f => in_degree deps' ids f =? 0) ids))
                (in_degree deps ids) (in_degree deps' ids) [] Hdeg).
  destruct (bfs metas (2 * length ids + 2) (adjacency deps ids) _ (in_degree deps ids) []) as [[r d]|];
  destruct (bfs metas' (2 * length ids + 2) (adjacency deps' ids) _ (in_degree deps' ids) []) as [[r' d']|];
  cbn [res_rel] in B; try contradiction; [|reflexivity].
  destruct B as [-> B2].
  rewrite (filter_ext (fun f => negb (d f =? 0)) (fun f => negb (d' f =? 0))) by (intros; rewrite B2; reflexivity).
  reflexivity.
Qed.

Lemma best_order_ext : forall deps deps' metas metas' ids,
  (forall f, Permutation (deps f) (deps' f)) -> Permutation metas metas' ->
  best_order deps metas ids = best_order deps' metas' ids.
Proof. intros. unfold best_order. rewrite (best_order_parts_ext deps deps' metas metas'); auto. Qed.

(** * permuting the input list: the queue part is invariant, the cyclic rest keeps the input order *)
Lemma filter_false : forall A (l : list A), filter (fun _ => false) l = [].
Proof. induction l; cbn [filter]; auto. Qed.

Lemma best_order_parts_perm : forall deps metas ids ids',
  NoDup ids -> Permutation ids ids' ->
  exists p : fid -> bool,
  match best_order_parts deps metas ids, best_order_parts deps metas ids' with
  | Some (top, rest), Some (top', rest') => top = top' /\ rest = filter p ids /\ rest' = filter p ids'
  | None, None => True
  | _, _ => False
  end.
Proof.
  intros deps metas ids ids' Hnd Hp. unfold best_order_parts.
  assert (NoDup ids') as Hnd' by (eapply Permutation_NoDup; eassumption).
  rewrite <- (Permutation_length Hp).
  destruct (N.ltb_spec (N.of_nat (length ids)) 2) as [Hn|Hn].
  - exists (fun _ => false). rewrite !filter_false.
    split; [apply perm_short; [lia|exact Hp]|split; reflexivity].
  - assert (forall f, in_degree deps ids f = in_degree deps ids' f) as Hdeg.
    { intros f. unfold in_degree. f_equal. f_equal. apply filter_ext. intros d. apply memN_perm. exact Hp. }
    assert (sort_meta metas (filter (fun f => in_degree deps ids f =? 0) ids) =
            sort_meta metas (filter (fun f => in_degree deps ids' f =? 0) ids')) as Ez.
    { rewrite (filter_ext (fun f => in_degree deps ids' f =? 0) (fun f => in_degree deps ids f =? 0))
        by (intros; rewrite Hdeg; reflexivity).
      apply sort_meta_perm; [apply NoDup_filter; exact Hnd|apply perm_filter; exact Hp]. }
    rewrite <- Ez.
    pose proof (bfs_rel metas metas (adjacency deps ids) (adjacency deps ids')) as B.
    specialize (B ltac:(intros d deg deg' H;
       assert (NoDup (adjacency deps ids d)) as Hn1 by (unfold adjacency; apply NoDup_filter; exact Hnd);
       assert (Permutation (adjacency deps ids d) (adjacency deps ids' d)) as Hp1
         by (unfold adjacency; apply perm_filter; exact Hp);
       destruct (relax_perm _ _ deg deg' Hn1 Hp1 H) as (E1 & E2 & E3);
       split; [exact E1|apply norm_perm; assumption])).
    specialize (B (2 * length ids + 2)%nat
                  (sort_meta metas (filter (fun f => in_degree deps ids f =? 0) ids))
                  (in_degree deps ids) (in_degree deps ids') [] Hdeg).
    destruct (bfs metas (2 * length ids + 2) (adjacency deps ids) _ (in_degree deps ids) []) as [[r d]|];
    destruct (bfs metas (2 * length ids + 2) (adjacency deps ids') _ (in_degree deps ids') []) as [[r' d']|];
    cbn [res_rel] in B; try contradiction; [|exists (fun _ => false); exact I].
    destruct B as [-> B2].
    destruct (N.of_nat (length r') <? N.of_nat (length ids)).
    + exists (fun f => negb (d f =? 0)). split; [reflexivity|split; [reflexivity|]].
      apply filter_ext. intros f. rewrite B2. reflexivity.
    + exists (fun _ => false). rewrite !filter_false. split; [reflexivity|split; reflexivity].
Qed.

(** when no file is left over (no dependency cycle among the listed files) the whole order is invariant *)
Lemma best_order_acyclic_perm : forall deps metas ids ids' top,
  NoDup ids -> Permutation ids ids' ->
  best_order_parts deps metas ids = Some (top, []) ->
  best_order deps metas ids' = best_order deps metas ids.
Proof.
  intros deps metas ids ids' top Hnd Hp H.
  destruct (best_order_parts_perm deps metas ids ids' Hnd Hp) as [p Hm].
  unfold best_order. rewrite H in *.
  destruct (best_order_parts deps metas ids') as [[top' rest']|]; [|contradiction].
  destruct Hm as (-> & E1 & ->).
  assert (filter p ids' = []) as ->; [|reflexivity].
  apply Permutation_nil. rewrite E1. apply perm_filter. exact Hp.
Qed.

(** with the sorted id list the order is a function of the file SET, the dependency relation and the meta set *)
Lemma best_order_sorted_deterministic : forall deps deps' metas metas' ids ids',
  NoDup ids -> Permutation ids ids' ->
  (forall f, Permutation (deps f) (deps' f)) -> Permutation metas metas' ->
  best_order deps metas (sort_ids ids) = best_order deps' metas' (sort_ids ids').
Proof.
  intros deps deps' metas metas' ids ids' Hnd Hp Hd Hm.
  rewrite (sort_ids_perm ids ids' Hnd Hp). apply best_order_ext; assumption.
Qed.
