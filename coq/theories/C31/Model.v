(** C31/Model.v — transcription of the configuration loader of emmylua_code_analysis (shared by C31 and C32):
      crates/emmylua_code_analysis/src/config/flatten_config/mod.rs   flatten_object, to_emmyrc_json
      crates/emmylua_code_analysis/src/config/config_loader.rs        merge_values, load_configs_raw, load_configs
      crates/emmylua_code_analysis/src/config/pre_process.rs          pre_process_path and the de-duplicating maps
      crates/emmylua_code_analysis/src/config/mod.rs                  Emmyrc::pre_process_emmyrc
    Executable definitions only.  Every Rust operation that can panic ([current[key] = v] on a value that is
    neither null nor an object, [.expect("always an object")], [&path[2..]]) is a [Panic] here; the theorems
    show it is unreachable.  The iteration order of the [hashbrown::HashMap] built by [flatten_object] is an
    explicit argument ([iter]): any permutation of the map's content. *)
From EV Require Export Base.Json.
From Coq Require Export Permutation.
Local Open Scope N_scope.

Definition DOT : cp := 46.
Definition DOLLAR : cp := 36.
Definition LBRACE : cp := 123.
Definition RBRACE : cp := 125.
Definition TILDE : cp := 126.
Definition SLASH : cp := 47.
Definition BSLASH : cp := 92.

(* ================================================================== flatten_config/mod.rs *)

(** content of a [hashbrown::HashMap<String, Value>]: association list with unique keys
    (the order of this list is NOT the iteration order) *)
Definition hmap := list (text * json).

(** [HashMap::insert] *)
Fixpoint hm_insert (k : text) (v : json) (m : hmap) : hmap :=
  match m with
  | [] => [(k, v)]
  | (k', v') :: r => if text_eqb k k' then (k, v) :: r else (k', v') :: hm_insert k v r
  end.

(** [if prefix.is_empty() { k } else { format!("{}.{}", prefix, k) }] *)
Definition new_key (prefix k : text) : text :=
  match prefix with [] => k | _ :: _ => prefix ++ DOT :: k end.

(** [flatten_object]: objects are walked in key order ([serde_json::Map] is a [BTreeMap]); every other
    value (empty objects are dropped: the loop body never runs) is inserted under the dotted key *)
Fixpoint flatten_object (prefix : text) (v : json) (cfg : hmap) : hmap :=
  match v with
  | JObj m =>
      (fix go (m : list (text * json)) (cfg : hmap) : hmap :=
         match m with
         | [] => cfg
         | (k, x) :: r => go r (flatten_object (new_key prefix k) x cfg)
         end) m cfg
  | _ => hm_insert prefix v cfg
  end.

(** [FlattenConfigObject::parse] *)
Definition parse (v : json) : hmap := flatten_object [] v [].

(** [k.split('.')] (never empty) *)
Fixpoint split_dot (t : text) : list text :=
  match t with
  | [] => [[]]
  | c :: r =>
      if c =? DOT then [] :: split_dot r
      else match split_dot r with
           | [] => [[c]]
           | s :: ss => (c :: s) :: ss
           end
  end.

(** [current[key] = v] : [IndexMut<&str> for Value] turns [Null] into an object, inserts into an object,
    and panics ("cannot access key {:?} in JSON {}") on anything else *)
Definition index_assign (cur : json) (k : text) (v : json) : res json :=
  match cur with
  | JNull => Val (JObj [(k, v)])
  | JObj m => Val (JObj (bt_insert k v m))
  | _ => Panic
  end.

(** the body of [for i in 0..keys.len()] of [to_emmyrc_json] for the remaining segments [ks]; [cur] is the
    value the cursor [current] points to, the result is that value after the loop (the cursor only moves
    down, so the whole tree is rebuilt on the way back).
      last segment:   if !current.get(key).is_some_and(|old| old.is_object()) { current[key] = v.clone() }
      other segments: next = current.as_object_mut().expect("always an object").entry(key).or_insert({});
                      if !next.is_object() { *next = {} }; current = next *)
Fixpoint set_path (ks : list text) (v : json) (cur : json) : res json :=
  match ks with
  | [] => Val cur
  | k :: rest =>
      match rest with
      | [] =>
          if match val_get cur k with Some old => is_obj old | None => false end
          then Val cur
          else index_assign cur k v
      | _ :: _ =>
          match cur with
          | JObj m =>
              let next := match bt_get k m with Some x => x | None => JObj [] end in
              let next := if is_obj next then next else JObj [] in
              match set_path rest v next with
              | Val r => Val (JObj (bt_insert k r m))
              | Nothing => Nothing
              | Panic => Panic
              end
          | _ => Panic
          end
      end
  end.

(** [to_emmyrc_json]; [iter] is the order in which [for (k, v) in &config.config] visits the hash map *)
Definition to_emmyrc_json (iter : hmap) : res json :=
  fold_left (fun acc kv => match acc with
                           | Val e => set_path (split_dot (fst kv)) (snd kv) e
                           | Nothing => Nothing
                           | Panic => Panic
                           end) iter (Val (JObj [])).

(* ================================================================== config_loader.rs *)

(** [base_array.extend(overlay.into_iter().filter(|item| seen.insert(item.clone())))] with
    [seen] a [HashSet<Value>] (only membership is used, so its iteration order is irrelevant) *)
Fixpoint filter_unseen (seen : list json) (ov : list json) : list json :=
  match ov with
  | [] => []
  | x :: r => if json_mem x seen then filter_unseen seen r else x :: filter_unseen (x :: seen) r
  end.

(** [merge_values]: object/object recursively (the overlay is walked in key order), array/array append
    without duplicates ([seen] starts with the items of the base), otherwise the overlay replaces the base *)
Fixpoint merge_values (base overlay : json) {struct overlay} : json :=
  match base, overlay with
  | JObj bm, JObj om =>
      JObj ((fix go (om : list (text * json)) (bm : list (text * json)) : list (text * json) :=
               match om with
               | [] => bm
               | (k, ov) :: r =>
                   go r (match bt_get k bm with
                         | Some bv => bt_insert k (merge_values bv ov) bm
                         | None => bt_insert k ov bm
                         end)
               end) om bm)
  | JArr ba, JArr oa => JArr (ba ++ filter_unseen ba oa)
  | _, _ => overlay
  end.

(** a configuration file as [load_configs_raw] sees it: unreadable (missing, not UTF-8), invalid (JSON syntax
    error, Lua that fails or does not return a table), or parsed to a value — for a [.lua] file the value
    is the table the script returns ([load_lua_config] is not modelled).  [iter] is the iteration order of
    the hash map [parse v]. *)
Inductive file : Type :=
| Unreadable
| Invalid
| Parsed (v : json) (iter : hmap).

(** a file that cannot be read or is not valid JSON / Lua *)
Definition bad (f : file) : Prop := f = Unreadable \/ f = Invalid.

Definition cfg_json : Type := (json * hmap)%type.

Definition file_jsons (f : file) : list cfg_json :=
  match f with Parsed v it => [(v, it)] | _ => [] end.

(** the [config_jsons] vector: readable, valid files in order, then the client's partial configurations *)
Definition config_jsons (files : list file) (partials : list cfg_json) : list cfg_json :=
  flat_map file_jsons files ++ partials.

Definition load_step (acc : res json) (c : cfg_json) : res json :=
  match acc with
  | Val a => match to_emmyrc_json (snd c) with
             | Val n => Val (merge_values a n)
             | Nothing => Nothing
             | Panic => Panic
             end
  | Nothing => Nothing
  | Panic => Panic
  end.

(** [load_configs_raw]: no valid file -> [{}]; otherwise every file is brought to nested form and merged
    into [{}] in order *)
Definition load_configs_raw (files : list file) (partials : list cfg_json) : res json :=
  match config_jsons files partials with
  | [] => Val (JObj [])
  | cs => fold_left load_step cs (Val (JObj []))
  end.

(** [load_configs]: [serde_json::from_value(..).unwrap_or_else(|_| Emmyrc::default())]; the deserialiser is
    a parameter ([None] = deserialisation error) *)
Definition load_configs {C : Type} (decode : json -> option C) (dflt : C)
    (files : list file) (partials : list cfg_json) : res C :=
  match load_configs_raw files partials with
  | Val j => match decode j with Some c => Val c | None => Val dflt end
  | Nothing => Nothing
  | Panic => Panic
  end.

(** the iteration orders carried by the inputs are iteration orders of the right maps *)
Definition iter_ok (c : cfg_json) : Prop := Permutation (snd c) (parse (fst c)).
Definition file_ok (f : file) : Prop :=
  match f with Parsed v it => Permutation it (parse v) | _ => True end.

(* ================================================================== pre_process.rs *)

(** the process environment: variables, home directory, [luarocks config deploy_lua_dir], and the regex
    class [\w] (Unicode; a parameter, the theorems hold for every choice) *)
Record penv : Type := {
  p_env : text -> option text;
  p_home : option text;
  p_luarocks : text;
  p_word : cp -> bool
}.

Definition env_or_empty (E : penv) (name : text) : text :=
  match p_env E name with Some v => v | None => [] end.

Definition flush_var (E : penv) (acc : option text) : text :=
  match acc with
  | None => []
  | Some [] => [DOLLAR]
  | Some (c :: n) => env_or_empty E (c :: n)
  end.

(** [replace_env_var]: [Regex::new(r"\$(\w+)").replace_all] as a left-to-right scan; [acc] is the name
    being collected after a [$] *)
Fixpoint replace_env_var (E : penv) (t : text) (acc : option text) : text :=
  match t with
  | [] => flush_var E acc
  | c :: r =>
      match acc with
      | Some name =>
          if p_word E c then replace_env_var E r (Some (name ++ [c]))
          else flush_var E acc ++
               (if c =? DOLLAR then replace_env_var E r (Some []) else c :: replace_env_var E r None)
      | None =>
          if c =? DOLLAR then replace_env_var E r (Some []) else c :: replace_env_var E r None
      end
  end.

(** [path.replace("$", "")] *)
Definition remove_dollar (t : text) : text := filter (fun c => negb (c =? DOLLAR)) t.

Fixpoint starts_with (p t : text) : bool :=
  match p, t with
  | [], _ => true
  | a :: p', b :: t' => (a =? b) && starts_with p' t'
  | _ :: _, [] => false
  end.

Fixpoint strip_prefix (p t : text) : option text :=
  match p, t with
  | [], _ => Some t
  | a :: p', b :: t' => if a =? b then strip_prefix p' t' else None
  | _ :: _, [] => None
  end.

Definition s_workspaceFolder : text := [119;111;114;107;115;112;97;99;101;70;111;108;100;101;114].
Definition s_env_colon : text := [101;110;118;58].
Definition s_luarocks : text := [108;117;97;114;111;99;107;115].

(** the closure of [replace_placeholders] for the captured [key] *)
Definition placeholder (E : penv) (ws key : text) : text :=
  if text_eqb key s_workspaceFolder then ws
  else match strip_prefix s_env_colon key with
       | Some name => env_or_empty E name
       | None => if text_eqb key s_luarocks then p_luarocks E else LBRACE :: key ++ [RBRACE]
       end.

(** [replace_placeholders]: [Regex::new(r"\{([^}]+)\}").replace_all]; [acc] is the text after an open brace *)
Fixpoint replace_placeholders (E : penv) (ws t : text) (acc : option text) : text :=
  match t with
  | [] => match acc with None => [] | Some key => LBRACE :: key end
  | c :: r =>
      match acc with
      | None => if c =? LBRACE then replace_placeholders E ws r (Some [])
                else c :: replace_placeholders E ws r None
      | Some key =>
          if c =? RBRACE then
            match key with
            | [] => LBRACE :: RBRACE :: replace_placeholders E ws r None
            | _ :: _ => placeholder E ws key ++ replace_placeholders E ws r None
            end
          else replace_placeholders E ws r (Some (key ++ [c]))
      end
  end.

(** [Path::is_absolute] / [PathBuf::join] on Unix *)
Definition is_absolute (t : text) : bool := match t with c :: _ => c =? SLASH | [] => false end.

Definition need_sep (base : text) : bool :=
  match rev base with c :: _ => negb (c =? SLASH) | [] => false end.

Definition path_join (base p : text) : text :=
  if is_absolute p then p
  else if need_sep base then base ++ SLASH :: p
  else base ++ p.

(** [pre_process_path] (the workspace is valid UTF-8) *)
Definition pre_process_path (E : penv) (ws path : text) : res text :=
  let path := replace_env_var E path None in
  let path := remove_dollar path in
  let path := replace_placeholders E ws path None in
  if text_eqb path [TILDE] || starts_with [TILDE; SLASH] path || starts_with [TILDE; BSLASH] path then
    match p_home E with
    | None => Val path
    | Some home =>
        (* match path.get(2..) { Some(rest) => home.join(rest), None => home } *)
        match drop_bytes path 2 with
        | Some rest => Val (path_join home rest)
        | None => Val home
        end
    end
  else if starts_with [DOT; SLASH] path then
    (* self.workspace.join(&path[2..]) : the slice panics off a boundary / out of bounds *)
    match drop_bytes path 2 with
    | Some rest => Val (path_join ws rest)
    | None => Panic
    end
  else if is_absolute path then Val path
  else Val (path_join ws path).

Fixpoint list_eqb {A} (eqb : A -> A -> bool) (x y : list A) : bool :=
  match x, y with
  | [], [] => true
  | a :: x', b :: y' => eqb a b && list_eqb eqb x' y'
  | _, _ => false
  end.

(** [.filter(|p| seen.insert(p.clone()))]: keep first occurrences *)
Fixpoint dedup {A} (eqb : A -> A -> bool) (seen : list A) (l : list A) : list A :=
  match l with
  | [] => []
  | x :: r => if existsb (eqb x) seen then dedup eqb seen r else x :: dedup eqb (x :: seen) r
  end.

(** [iter.map(f)] where [f] may panic *)
Fixpoint map_res {A B} (f : A -> res B) (l : list A) : res (list B) :=
  match l with
  | [] => Val []
  | x :: r => match f x with
              | Val y => match map_res f r with
                         | Val ys => Val (y :: ys)
                         | Nothing => Nothing
                         | Panic => Panic
                         end
              | Nothing => Nothing
              | Panic => Panic
              end
  end.

Definition process_and_dedup_string (E : penv) (ws : text) (l : list text) : res (list text) :=
  match map_res (pre_process_path E ws) l with
  | Val ps => Val (dedup text_eqb [] ps)
  | Nothing => Nothing
  | Panic => Panic
  end.

(** [EmmyrcWorkspacePathItem] *)
Inductive item : Type :=
| IPath (p : text)
| IConfig (path : text) (ignore_dir ignore_globs : list text).

Definition item_eqb (a b : item) : bool :=
  match a, b with
  | IPath p, IPath q => text_eqb p q
  | IConfig p d g, IConfig q e h => text_eqb p q && list_eqb text_eqb d e && list_eqb text_eqb g h
  | _, _ => false
  end.

(** [pre_process_workspace_path_item]: the ignore directories of a [Config] item are processed with the
    item's processed path as the workspace *)
Definition pre_process_item (E : penv) (ws : text) (it : item) : res item :=
  match it with
  | IPath p => match pre_process_path E ws p with
               | Val p' => Val (IPath p')
               | Nothing => Nothing
               | Panic => Panic
               end
  | IConfig p d g =>
      match pre_process_path E ws p with
      | Val p' => match map_res (pre_process_path E p') d with
                  | Val d' => Val (IConfig p' d' g)
                  | Nothing => Nothing
                  | Panic => Panic
                  end
      | Nothing => Nothing
      | Panic => Panic
      end
  end.

Definition process_and_dedup_items (E : penv) (ws : text) (l : list item) : res (list item) :=
  match map_res (pre_process_item E ws) l with
  | Val is => Val (dedup item_eqb [] is)
  | Nothing => Nothing
  | Panic => Panic
  end.

(** the path-carrying part of [Emmyrc] *)
Record paths_cfg : Type := {
  workspace_roots : list text;
  library : list item;
  packages : list item;
  ignore_dir : list text;
  resource_paths : list text
}.

(** [Emmyrc::pre_process_emmyrc] *)
Definition pre_process_emmyrc (E : penv) (ws : text) (c : paths_cfg) : res paths_cfg :=
  match process_and_dedup_string E ws (workspace_roots c) with
  | Val r =>
    match process_and_dedup_items E ws (library c) with
    | Val l =>
      match process_and_dedup_items E ws (packages c) with
      | Val p =>
        match process_and_dedup_string E ws (ignore_dir c) with
        | Val i =>
          match process_and_dedup_string E ws (resource_paths c) with
          | Val s => Val {| workspace_roots := r; library := l; packages := p; ignore_dir := i; resource_paths := s |}
          | Nothing => Nothing
          | Panic => Panic
          end
        | Nothing => Nothing
        | Panic => Panic
        end
      | Nothing => Nothing
      | Panic => Panic
      end
    | Nothing => Nothing
    | Panic => Panic
    end
  | Nothing => Nothing
  | Panic => Panic
  end.
