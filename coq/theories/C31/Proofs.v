(** C31/Proofs.v — lemmas: no input of the configuration loader reaches a panic; bad files are skipped. *)
From EV Require Import Base.JsonFacts C31.Model.
Local Open Scope N_scope.

(* ------------------------------------------------------------------ to_emmyrc_json *)

(** the cursor always points to an object, so neither [expect("always an object")] nor the indexing
    [current[key] = v] can fail *)
Lemma set_path_obj : forall ks v m, exists m', set_path ks v (JObj m) = Val (JObj m').
Proof.
  induction ks as [|k rest IH]; intros v m; cbn [set_path].
  - eexists. reflexivity.
  - destruct rest as [|k2 rest'].
    + destruct (match val_get (JObj m) k with Some old => is_obj old | None => false end).
      * eexists. reflexivity.
      * cbn [index_assign]. eexists. reflexivity.
    + set (next := if is_obj (match bt_get k m with Some x => x | None => JObj [] end)
                   then match bt_get k m with Some x => x | None => JObj [] end else JObj []).
      assert (Hn : exists o, next = JObj o).
      { subst next. destruct (match bt_get k m with Some x => x | None => JObj [] end); cbn [is_obj]; eexists; reflexivity. }
      destruct Hn as [o Ho]. rewrite Ho.
      destruct (IH v o) as [m' Hm']. rewrite Hm'. eexists. reflexivity.
Qed.

Lemma to_emmyrc_json_from : forall it m0, exists m,
  fold_left (fun acc kv => match acc with
                           | Val e => set_path (split_dot (fst kv)) (snd kv) e
                           | Nothing => Nothing
                           | Panic => Panic
                           end) it (Val (JObj m0)) = Val (JObj m).
Proof.
  induction it as [|[k v] it IH]; intros m0; cbn [fold_left].
  - eexists. reflexivity.
  - cbn [fst snd]. destruct (set_path_obj (split_dot k) v m0) as [m1 H1]. rewrite H1. apply IH.
Qed.

Lemma to_emmyrc_json_total : forall it, exists m, to_emmyrc_json it = Val (JObj m).
Proof. intros it. unfold to_emmyrc_json. apply to_emmyrc_json_from. Qed.

(* ------------------------------------------------------------------ load_configs_raw *)
Lemma load_fold_total : forall cs a, exists j, fold_left load_step cs (Val a) = Val j.
Proof.
  induction cs as [|c cs IH]; intros a; cbn [fold_left].
  - eexists. reflexivity.
  - unfold load_step at 2. destruct (to_emmyrc_json_total (snd c)) as [m Hm]. rewrite Hm. apply IH.
Qed.

Lemma load_configs_raw_total : forall files partials, exists j, load_configs_raw files partials = Val j.
Proof.
  intros files partials. unfold load_configs_raw.
  destruct (config_jsons files partials) as [|c cs] eqn:E.
  - eexists. reflexivity.
  - apply load_fold_total.
Qed.

Lemma load_configs_total : forall (C : Type) (decode : json -> option C) (dflt : C) files partials,
  exists c, load_configs decode dflt files partials = Val c.
Proof.
  intros C decode dflt files partials. unfold load_configs.
  destruct (load_configs_raw_total files partials) as [j Hj]. rewrite Hj.
  destruct (decode j); eexists; reflexivity.
Qed.

(* ------------------------------------------------------------------ paths *)
Lemma starts_with_dot_slash : forall path,
  starts_with [DOT; SLASH] path = true -> exists rest, drop_bytes path 2 = Some rest.
Proof.
  intros [|c1 [|c2 r]]; cbn [starts_with]; intros H; try discriminate.
  - rewrite Bool.andb_false_r in H. discriminate.
  - apply andb_prop in H. destruct H as [H1 H2]. apply andb_prop in H2. destruct H2 as [H2 _].
    apply N.eqb_eq in H1. apply N.eqb_eq in H2. subst c1 c2. exists r. destruct r; reflexivity.
Qed.

Lemma pre_process_path_total : forall E ws path, exists p, pre_process_path E ws path = Val p.
Proof.
  intros E ws path. unfold pre_process_path.
  set (p := replace_placeholders E ws (remove_dollar (replace_env_var E path None)) None).
  destruct (text_eqb p [TILDE] || starts_with [TILDE; SLASH] p || starts_with [TILDE; BSLASH] p).
  - destruct (p_home E); [destruct (drop_bytes p 2)|]; eexists; reflexivity.
  - destruct (starts_with [DOT; SLASH] p) eqn:Hd.
    + destruct (starts_with_dot_slash p Hd) as [rest Hr]. rewrite Hr. eexists. reflexivity.
    + destruct (is_absolute p); eexists; reflexivity.
Qed.

Lemma map_res_total : forall A B (f : A -> res B), (forall x, exists y, f x = Val y) ->
  forall l, exists ys, map_res f l = Val ys.
Proof.
  intros A B f Hf. induction l as [|x l IH]; cbn [map_res].
  - eexists. reflexivity.
  - destruct (Hf x) as [y Hy]. rewrite Hy. destruct IH as [ys Hys]. rewrite Hys. eexists. reflexivity.
Qed.

Lemma process_and_dedup_string_total : forall E ws l, exists r, process_and_dedup_string E ws l = Val r.
Proof.
  intros E ws l. unfold process_and_dedup_string.
  destruct (map_res_total _ _ (pre_process_path E ws) (pre_process_path_total E ws) l) as [ys H]. rewrite H.
  eexists. reflexivity.
Qed.

Lemma pre_process_item_total : forall E ws it, exists r, pre_process_item E ws it = Val r.
Proof.
  intros E ws [p|p d g]; cbn [pre_process_item].
  - destruct (pre_process_path_total E ws p) as [p' H]. rewrite H. eexists. reflexivity.
  - destruct (pre_process_path_total E ws p) as [p' H]. rewrite H.
    destruct (map_res_total _ _ (pre_process_path E p') (pre_process_path_total E p') d) as [d' H']. rewrite H'.
    eexists. reflexivity.
Qed.

Lemma process_and_dedup_items_total : forall E ws l, exists r, process_and_dedup_items E ws l = Val r.
Proof.
  intros E ws l. unfold process_and_dedup_items.
  destruct (map_res_total _ _ (pre_process_item E ws) (pre_process_item_total E ws) l) as [ys H]. rewrite H.
  eexists. reflexivity.
Qed.

Lemma pre_process_emmyrc_total : forall E ws c, exists c', pre_process_emmyrc E ws c = Val c'.
Proof.
  intros E ws c. unfold pre_process_emmyrc.
  destruct (process_and_dedup_string_total E ws (workspace_roots c)) as [r Hr]. rewrite Hr.
  destruct (process_and_dedup_items_total E ws (library c)) as [l Hl]. rewrite Hl.
  destruct (process_and_dedup_items_total E ws (packages c)) as [p Hp]. rewrite Hp.
  destruct (process_and_dedup_string_total E ws (ignore_dir c)) as [i Hi]. rewrite Hi.
  destruct (process_and_dedup_string_total E ws (resource_paths c)) as [s Hs]. rewrite Hs.
  eexists. reflexivity.
Qed.

(** the property theorem: nothing reaches a panic, whatever the values, iteration orders and path strings *)
Lemma load_total : forall (C : Type) (decode : json -> option C) (dflt : C)
    (files : list file) (partials : list cfg_json) (E : penv) (ws : text) (pc : paths_cfg),
  (exists j, load_configs_raw files partials = Val j) /\
  (exists c, load_configs decode dflt files partials = Val c) /\
  (exists pc', pre_process_emmyrc E ws pc = Val pc').
Proof.
  intros. split; [apply load_configs_raw_total|]. split; [apply load_configs_total|apply pre_process_emmyrc_total].
Qed.

(* ------------------------------------------------------------------ bad files *)
Lemma config_jsons_skip : forall pre f post partials, bad f ->
  config_jsons (pre ++ f :: post) partials = config_jsons (pre ++ post) partials.
Proof.
  intros pre f post partials Hb. unfold config_jsons. rewrite !flat_map_app. cbn [flat_map].
  destruct Hb as [-> | ->]; reflexivity.
Qed.

Lemma bad_file_skipped : forall (C : Type) (decode : json -> option C) (dflt : C) pre f post partials, bad f ->
  load_configs_raw (pre ++ f :: post) partials = load_configs_raw (pre ++ post) partials /\
  load_configs decode dflt (pre ++ f :: post) partials = load_configs decode dflt (pre ++ post) partials.
Proof.
  intros C decode dflt pre f post partials Hb.
  assert (H : load_configs_raw (pre ++ f :: post) partials = load_configs_raw (pre ++ post) partials).
  { unfold load_configs_raw. rewrite (config_jsons_skip pre f post partials Hb). reflexivity. }
  split; [exact H|]. unfold load_configs. rewrite H. reflexivity.
Qed.

Lemma all_bad_jsons : forall files, Forall bad files -> config_jsons files [] = [].
Proof.
  intros files H. unfold config_jsons. rewrite app_nil_r.
  induction H as [|f l Hf Hl IH]; [reflexivity|]. cbn [flat_map]. rewrite IH.
  destruct Hf as [-> | ->]; reflexivity.
Qed.

(** only unreadable / invalid files and no client configuration: the empty object, i.e. the defaults
    (or [Emmyrc::default()] when even that does not deserialise) *)
Lemma all_bad_default : forall (C : Type) (decode : json -> option C) (dflt : C) files, Forall bad files ->
  load_configs_raw files [] = Val (JObj []) /\
  load_configs decode dflt files [] = Val (match decode (JObj []) with Some c => c | None => dflt end).
Proof.
  intros C decode dflt files H.
  assert (Hr : load_configs_raw files [] = Val (JObj [])).
  { unfold load_configs_raw. rewrite (all_bad_jsons files H). reflexivity. }
  split; [exact Hr|]. unfold load_configs. rewrite Hr. destruct (decode (JObj [])); reflexivity.
Qed.

(** a configuration that does not deserialise falls back to the default configuration *)
Lemma decode_error_default : forall (C : Type) (decode : json -> option C) (dflt : C) files partials j,
  load_configs_raw files partials = Val j -> decode j = None ->
  load_configs decode dflt files partials = Val dflt.
Proof. intros C decode dflt files partials j H1 H2. unfold load_configs. rewrite H1, H2. reflexivity. Qed.

(* ------------------------------------------------------------------ examples *)
Definition ex_env : penv :=
  {| p_env := fun _ => None; p_home := Some [47;104]; p_luarocks := []; p_word := fun c => (97 <=? c) && (c <=? 122) |}.

(** the two inputs that used to panic: a key that is a value and a prefix (both iteration orders), and
    the paths "~" and "~é" *)
Lemma load_total_example :
  let v := JObj [([97], JNum 1); ([97;46;98], JNum 2)] in
  load_configs_raw [Parsed v (parse v)] [] = Val (JObj [([97], JObj [([98], JNum 2)])]) /\
  load_configs_raw [Parsed v (rev (parse v))] [] = Val (JObj [([97], JObj [([98], JNum 2)])]) /\
  pre_process_path ex_env [47;119] [126] = Val [47;104] /\
  pre_process_path ex_env [47;119] [126;233] = Val [47;119;47;126;233] /\
  pre_process_path ex_env [47;119] [126;47;120] = Val [47;104;47;120] /\
  pre_process_path ex_env [47;119] [46;47;120] = Val [47;119;47;120].
Proof. vm_compute. repeat split. Qed.

Lemma bad_file_example :
  let v := JObj [([97], JNum 1)] in
  load_configs_raw [Unreadable; Parsed v (parse v); Invalid] [] = Val v /\
  load_configs_raw [Unreadable; Invalid] [] = Val (JObj []).
Proof. vm_compute. split; reflexivity. Qed.
