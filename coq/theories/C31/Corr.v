(** C31/Corr.v — executable comparison of implementation observations with the model (C31 and C32).
    The harness (harness/vh_analysis/src/bin/c31.rs, sub-command [corr]) writes [case] terms. *)
From EV Require Import C31.Model.
Local Open Scope N_scope.

Definition res_eqb {A} (eqb : A -> A -> bool) (x y : res A) : bool :=
  match x, y with
  | Val a, Val b => eqb a b
  | Nothing, Nothing => true
  | Panic, Panic => true
  | _, _ => false
  end.

(** a file as the harness wrote it: bad (missing, not UTF-8, syntax error, failing Lua) or a JSON value *)
Inductive file_in : Type :=
| FBad
| FJson (v : json).

Definition ascii_word (c : cp) : bool :=
  ((48 <=? c) && (c <=? 57)) || ((65 <=? c) && (c <=? 90)) || ((97 <=? c) && (c <=? 122)) || (c =? 95).

Fixpoint assoc (k : text) (l : list (text * text)) : option text :=
  match l with
  | [] => None
  | (k', v) :: r => if text_eqb k k' then Some v else assoc k r
  end.

Record paths_in : Type := {
  pi_vars : list (text * text);   (* environment variables that are set *)
  pi_home : option text;
  pi_luarocks : text;
  pi_word : list cp;              (* non-ASCII characters of the generator's alphabet that are in \w *)
  pi_ws : text;
  pi_cfg : paths_cfg
}.

Inductive case : Type :=
| CLoad (files : list file_in) (partials : list json) (raw : res json)
| CPaths (i : paths_in) (out : res paths_cfg).

Definition mk_env (i : paths_in) : penv :=
  {| p_env := fun n => assoc n (pi_vars i);
     p_home := pi_home i;
     p_luarocks := pi_luarocks i;
     p_word := fun c => ascii_word c || existsb (N.eqb c) (pi_word i) |}.

Definition paths_cfg_eqb (a b : paths_cfg) : bool :=
  list_eqb text_eqb (workspace_roots a) (workspace_roots b)
  && list_eqb item_eqb (library a) (library b)
  && list_eqb item_eqb (packages a) (packages b)
  && list_eqb text_eqb (ignore_dir a) (ignore_dir b)
  && list_eqb text_eqb (resource_paths a) (resource_paths b).

(** the model is evaluated with two different iteration orders of every hash map (the content order and
    its reverse); both must give the implementation's answer *)
Definition to_file (order : hmap -> hmap) (f : file_in) : file :=
  match f with
  | FBad => Invalid
  | FJson v => Parsed v (order (parse v))
  end.

Definition check_case (c : case) : bool :=
  match c with
  | CLoad files partials raw =>
      let run order :=
        load_configs_raw (map (to_file order) files) (map (fun v => (v, order (parse v))) partials) in
      res_eqb json_eqb (run (fun m => m)) raw && res_eqb json_eqb (run (@rev _)) raw
  | CPaths i out =>
      res_eqb paths_cfg_eqb (pre_process_emmyrc (mk_env i) (pi_ws i) (pi_cfg i)) out
  end.
