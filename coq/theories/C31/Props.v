(** C31/Props.v — property theorems only: loading any configuration never crashes.
    Each is closed by [exact] of a lemma of Proofs.v. *)
From EV Require Import C31.Model C31.Proofs.
Local Open Scope N_scope.

(** No input reaches a panic: any list of files (unreadable, invalid, or parsed to ANY JSON value, with ANY
    iteration order of the flattened hash map — not even required to be a permutation of the map), any
    client partial configurations, any deserialiser, any environment, workspace and path strings.
    [load_configs_raw], [load_configs] and [Emmyrc::pre_process_emmyrc] all return a value. *)
Theorem load_total : forall (C : Type) (decode : json -> option C) (dflt : C)
    (files : list file) (partials : list cfg_json) (E : penv) (ws : text) (pc : paths_cfg),
  (exists j, load_configs_raw files partials = Val j) /\
  (exists c, load_configs decode dflt files partials = Val c) /\
  (exists pc', pre_process_emmyrc E ws pc = Val pc').
Proof. exact Proofs.load_total. Qed.

(** one path string, any text (["~"], ["~é"], non-ASCII, placeholders, env vars): never a panic *)
Theorem path_total : forall (E : penv) (ws path : text), exists p, pre_process_path E ws path = Val p.
Proof. exact Proofs.pre_process_path_total. Qed.

(** the nested form of one file is always an object, whatever is iterated *)
Theorem nested_form_total : forall (it : hmap), exists m, to_emmyrc_json it = Val (JObj m).
Proof. exact Proofs.to_emmyrc_json_total. Qed.

(** an unreadable or invalid file is skipped: it changes neither the raw nor the typed configuration *)
Theorem bad_file_skipped : forall (C : Type) (decode : json -> option C) (dflt : C)
    (pre : list file) (f : file) (post : list file) (partials : list cfg_json),
  bad f ->
  load_configs_raw (pre ++ f :: post) partials = load_configs_raw (pre ++ post) partials /\
  load_configs decode dflt (pre ++ f :: post) partials = load_configs decode dflt (pre ++ post) partials.
Proof. exact Proofs.bad_file_skipped. Qed.

(** only bad files and no client configuration: the empty object, i.e. every default *)
Theorem all_bad_default : forall (C : Type) (decode : json -> option C) (dflt : C) (files : list file),
  Forall bad files ->
  load_configs_raw files [] = Val (JObj []) /\
  load_configs decode dflt files [] = Val (match decode (JObj []) with Some c => c | None => dflt end).
Proof. exact Proofs.all_bad_default. Qed.

(** a merged configuration that does not deserialise falls back to the default configuration *)
Theorem decode_error_default : forall (C : Type) (decode : json -> option C) (dflt : C)
    (files : list file) (partials : list cfg_json) (j : json),
  load_configs_raw files partials = Val j -> decode j = None ->
  load_configs decode dflt files partials = Val dflt.
Proof. exact Proofs.decode_error_default. Qed.

(** non-vacuity: the two inputs that used to panic ([{"a":1,"a.b":2}] in both iteration orders, the paths
    ["~"] and ["~é"]), a home expansion and a [./] expansion *)
Example load_total_example :
  let v := JObj [([97], JNum 1); ([97;46;98], JNum 2)] in
  load_configs_raw [Parsed v (parse v)] [] = Val (JObj [([97], JObj [([98], JNum 2)])]) /\
  load_configs_raw [Parsed v (rev (parse v))] [] = Val (JObj [([97], JObj [([98], JNum 2)])]) /\
  pre_process_path ex_env [47;119] [126] = Val [47;104] /\
  pre_process_path ex_env [47;119] [126;233] = Val [47;119;47;126;233] /\
  pre_process_path ex_env [47;119] [126;47;120] = Val [47;104;47;120] /\
  pre_process_path ex_env [47;119] [46;47;120] = Val [47;119;47;120].
Proof. exact Proofs.load_total_example. Qed.

Example bad_file_example :
  let v := JObj [([97], JNum 1)] in
  load_configs_raw [Unreadable; Parsed v (parse v); Invalid] [] = Val v /\
  load_configs_raw [Unreadable; Invalid] [] = Val (JObj []).
Proof. exact Proofs.bad_file_example. Qed.
