(** C18/Spec.v — the declarative reading of generic call inference: which components of the argument types
    a signature's parameters bind to which template parameter ("T := the argument component"), the
    first-binding-wins substitution, and the declared return type with it applied.  Definitions only,
    plus the template family. *)
From EV Require Export C18.Model.
Local Open Scope N_scope.

(** the components a pattern picks out of an argument type, in traversal order; [BErr] when the call's
    inference fails (with what was collected before), [BOutside] for the shapes the model leaves out *)
Inductive bres : Set :=
| BOk (l : list (nat * ty))
| BErr (l : list (nat * ty))
| BOutside.

Definition bapp (l : list (nat * ty)) (r : bres) : bres :=
  match r with BOk l' => BOk (l ++ l') | BErr l' => BErr (l ++ l') | BOutside => BOutside end.

(** sequencing: continue after a success, stop at a failure *)
Definition bseq (r : bres) (k : bres) : bres :=
  match r with BOk l => bapp l k | BErr l => BErr l | BOutside => BOutside end.

Fixpoint bind_list (e : env) (pattern target : ty) {struct pattern} : bres :=
  let target := escape_alias e target in
  if negb (contains_tpl pattern) then BOk [] else
  match pattern with
  | TTpl i => BOk [(i, target)]
  | TArray pb =>
      match target with
      | TArray tb => bind_list e pb tb
      | TTuple _ => BOutside
      | _ => BOk []
      end
  | TTableGeneric pps =>
      match pps with
      | [pk; pv] =>
          match target with
          | TTableGeneric tps =>
              match tps with
              | [] => BOk []
              | [tk] => bind_list e pk tk
              | tk :: tv :: _ => bseq (bind_list e pk tk) (bind_list e pv tv)
              end
          | TArray tb => bseq (bind_list e pk (TPrim PInteger)) (bind_list e pv tb)
          | TTuple _ | TRef _ | TTableConst => BOutside
          | _ => if is_any_like_table target
                 then bseq (bind_list e pk (TPrim PAny)) (bind_list e pv (TPrim PAny))
                 else BOk []
          end
      | _ => BErr []
      end
  | TUnion _ pms =>
      (* every member is tried; a member's failure is ignored unless all of them fail *)
      (fix go (l : list ty) (acc : list (nat * ty)) (errs n : nat) : bres :=
         match l with
         | [] => if (0 <? n)%nat && (errs =? n)%nat then BErr acc else BOk acc
         | u :: r =>
             match bind_list e u target with
             | BOk l' => go r (acc ++ l') errs (S n)
             | BErr l' => go r (acc ++ l') (S errs) (S n)
             | BOutside => BOutside
             end
         end) pms [] O O
  | TFun pps pret =>
      match target with
      | TFun tps tret =>
          bseq
            ((fix go (l : list (text * option ty)) (tl : list (text * option ty)) : bres :=
                match l with
                | [] => BOk []
                | (_, osrc) :: r =>
                    match tl with
                    | [] => BOk []
                    | (_, otgt) :: tr =>
                        let tgt := match otgt with Some t => t | None => TPrim PAny end in
                        match osrc with
                        | Some src => bseq (bind_list e src tgt) (go r tr)
                        | None => go r tr
                        end
                    end
                end) pps tps)
            (bind_list e pret tret)
      | TPrim PFunction => BOutside
      | _ => BOk []
      end
  | TTuple pts =>
      match target with
      | TTuple tts =>
          (fix go (l : list ty) (tl : list ty) : bres :=
             match l with
             | [] => BOk []
             | p :: r =>
                 match tl with
                 | [] => BOk []
                 | t :: tr => bseq (bind_list e p t) (go r tr)
                 end
             end) pts tts
      | _ => BOk []
      end
  | _ => BOk []
  end.

(** feeding the collected components to the substitutor: only the first one for each parameter sticks *)
Definition feed (s : subst) (l : list (nat * ty)) : subst :=
  fold_left (fun s b => infer_value s (fst b) (snd b)) l s.

Definition apply_bres (s : subst) (r : bres) : mres :=
  match r with BOk l => MOk (feed s l) | BErr l => MErr (feed s l) | BOutside => MOutside end.

(** the first component bound to template parameter [i] *)
Fixpoint first_binding (l : list (nat * ty)) (i : nat) : option ty :=
  match l with
  | [] => None
  | (j, c) :: r => if (j =? i)%nat then Some c else first_binding r i
  end.

(** the components of a whole call: every parameter that mentions a template must be decided *)
Fixpoint all_bindings (e : env) (ps args : list ty) : option (list (nat * ty)) :=
  match ps, args with
  | [], [] => Some []
  | p :: pr, a :: ar =>
      if negb (contains_tpl p) then all_bindings e pr ar
      else if two_sided_callback p || callback_arg_outside p a then None
      else match bind_list e p a, all_bindings e pr ar with
           | BOk l, Some l' => Some (l ++ l')
           | _, _ => None
           end
  | _, _ => None
  end.

(** the declared return type with [T_i := widen (first component bound to T_i)], [unknown] when nothing was
    bound; [None] for return shapes outside the family (unions, function types) *)
Fixpoint subst_ret (n : nat) (l : list (nat * ty)) (t : ty) {struct t} : option ty :=
  match t with
  | TTpl i => Some (if (i <? n)%nat
                    then match first_binding l i with Some c => widen c | None => TPrim PUnknown end
                    else TTpl i)
  | TArray b => option_map TArray (subst_ret n l b)
  | TTableGeneric ps =>
      option_map TTableGeneric
        (fold_right (fun p acc => match subst_ret n l p, acc with
                                  | Some x, Some r => Some (x :: r)
                                  | _, _ => None
                                  end) (Some []) ps)
  | TTuple ts =>
      option_map TTuple
        (fold_right (fun p acc => match subst_ret n l p, acc with
                                  | Some x, Some r => Some (x :: r)
                                  | _, _ => None
                                  end) (Some []) ts)
  | TUnion _ _ | TFun _ _ => None
  | _ => Some t
  end.

(* ------------------------------------------------------------------------------------------ *)
(** * The template family (the order is the order of the harness) *)

Definition T0 := TTpl 0.
Definition T1 := TTpl 1.
Definition opt (t : ty) : ty := TUnion UNullable [t; TPrim PNil].   (* what `T?` denotes for a template T *)

Definition tpl_identity     := {| t_ntpl := 1; t_params := [T0]; t_ret := T0 |}.
Definition tpl_array_elem   := {| t_ntpl := 1; t_params := [TArray T0]; t_ret := T0 |}.
Definition tpl_array_id     := {| t_ntpl := 1; t_params := [TArray T0]; t_ret := TArray T0 |}.
Definition tpl_wrap_array   := {| t_ntpl := 1; t_params := [T0]; t_ret := TArray T0 |}.
Definition tpl_map_value    := {| t_ntpl := 2; t_params := [TTableGeneric [T0; T1]]; t_ret := T1 |}.
Definition tpl_map_key      := {| t_ntpl := 2; t_params := [TTableGeneric [T0; T1]]; t_ret := T0 |}.
Definition tpl_map_swap     := {| t_ntpl := 2; t_params := [TTableGeneric [T0; T1]]; t_ret := TTableGeneric [T1; T0] |}.
Definition tpl_optional     := {| t_ntpl := 1; t_params := [opt T0]; t_ret := T0 |}.
Definition tpl_pair_map     := {| t_ntpl := 2; t_params := [T0; T1]; t_ret := TTableGeneric [T0; T1] |}.
Definition tpl_same_twice   := {| t_ntpl := 1; t_params := [T0; T0]; t_ret := T0 |}.
Definition tpl_callback_ret := {| t_ntpl := 1; t_params := [TFun [] T0]; t_ret := T0 |}.
Definition tpl_callback_arg := {| t_ntpl := 1; t_params := [TFun [([120], Some T0)] (TPrim PNil)]; t_ret := T0 |}.
Definition tpl_nested_array := {| t_ntpl := 1; t_params := [TArray (TArray T0)]; t_ret := T0 |}.
Definition tpl_tuple_fst    := {| t_ntpl := 2; t_params := [TTuple [T0; T1]]; t_ret := T0 |}.
Definition tpl_tuple_mk     := {| t_ntpl := 2; t_params := [T0; T1]; t_ret := TTuple [T0; T1] |}.

Definition family : list template :=
  [tpl_identity; tpl_array_elem; tpl_array_id; tpl_wrap_array; tpl_map_value; tpl_map_key; tpl_map_swap;
   tpl_optional; tpl_pair_map; tpl_same_twice; tpl_callback_ret; tpl_callback_arg; tpl_nested_array;
   tpl_tuple_fst; tpl_tuple_mk].
