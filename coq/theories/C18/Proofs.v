(** C18/Proofs.v — the stateful matcher collects exactly the structural components (first binding wins), and
    the inferred call type is the declared return type with them substituted. *)
From EV Require Import C18.Model C18.Spec.
From Coq Require Import Lia.
Local Open Scope N_scope.

(* ------------------------------------------------------------------------------------------ *)
(** * Induction principle for the nested type [ty] *)

Section TyInd.
  Variable P : ty -> Prop.
  Hypothesis HPrim : forall p, P (TPrim p).
  Hypothesis HStr : forall s, P (TStr s).
  Hypothesis HInt : forall z, P (TInt z).
  Hypothesis HBool : forall b, P (TBool b).
  Hypothesis HRef : forall n, P (TRef n).
  Hypothesis HTC : P TTableConst.
  Hypothesis HArray : forall b, P b -> P (TArray b).
  Hypothesis HTG : forall ps, Forall P ps -> P (TTableGeneric ps).
  Hypothesis HTuple : forall ts, Forall P ts -> P (TTuple ts).
  Hypothesis HFun : forall ps r,
    Forall (fun p => match snd p with Some t => P t | None => True end) ps -> P r -> P (TFun ps r).
  Hypothesis HUnion : forall k ms, Forall P ms -> P (TUnion k ms).
  Hypothesis HTpl : forall i, P (TTpl i).

  Fixpoint ty_ind' (t : ty) : P t :=
    match t with
    | TPrim p => HPrim p
    | TStr s => HStr s
    | TInt z => HInt z
    | TBool b => HBool b
    | TRef n => HRef n
    | TTableConst => HTC
    | TArray b => HArray b (ty_ind' b)
    | TTableGeneric ps =>
        HTG ps ((fix go (l : list ty) : Forall P l :=
                   match l with [] => Forall_nil _ | x :: r => Forall_cons x (ty_ind' x) (go r) end) ps)
    | TTuple ts =>
        HTuple ts ((fix go (l : list ty) : Forall P l :=
                      match l with [] => Forall_nil _ | x :: r => Forall_cons x (ty_ind' x) (go r) end) ts)
    | TFun ps r =>
        HFun ps r
          ((fix go (l : list (text * option ty))
              : Forall (fun p => match snd p with Some t => P t | None => True end) l :=
              match l with
              | [] => Forall_nil _
              | (n, Some t) :: r' =>
                  Forall_cons (P := fun p => match snd p with Some t => P t | None => True end)
                    (n, Some t) (ty_ind' t) (go r')
              | (n, None) :: r' =>
                  Forall_cons (P := fun p => match snd p with Some t => P t | None => True end)
                    (n, None) I (go r')
              end) ps)
          (ty_ind' r)
    | TUnion k ms =>
        HUnion k ms ((fix go (l : list ty) : Forall P l :=
                        match l with [] => Forall_nil _ | x :: r => Forall_cons x (ty_ind' x) (go r) end) ms)
    | TTpl i => HTpl i
    end.
End TyInd.

(* ------------------------------------------------------------------------------------------ *)
(** * The matcher against the declarative components *)

Lemma feed_app : forall s l l', feed s (l ++ l') = feed (feed s l) l'.
Proof. intros. unfold feed. apply fold_left_app. Qed.

Lemma feed_nil : forall s, feed s [] = s.
Proof. reflexivity. Qed.

Lemma apply_bapp : forall s l r, apply_bres s (bapp l r) = apply_bres (feed s l) r.
Proof. intros s l [l'|l'|]; cbn [bapp apply_bres]; rewrite ?feed_app; reflexivity. Qed.

Lemma mbind_bseq : forall s r k,
  mbind (apply_bres s r) (fun s' => apply_bres s' k) = apply_bres s (bseq r k).
Proof.
  intros s [l|l|] k; cbn [apply_bres mbind bseq]; [|reflexivity|reflexivity].
  rewrite apply_bapp. reflexivity.
Qed.

Definition Pm (e : env) (p : ty) : Prop :=
  forall a s, tpl_match e p a s = apply_bres s (bind_list e p a).

Lemma tpl_match_eq : forall e p a s,
  tpl_match e p a s =
  (let target := escape_alias e a in
   if negb (contains_tpl p) then MOk s else
   match p with
   | TTpl i => MOk (infer_value s i target)
   | TArray pb =>
       match target with
       | TArray tb => tpl_match e pb tb s
       | TTuple _ => MOutside
       | _ => MOk s
       end
   | TTableGeneric pps =>
       match pps with
       | [pk; pv] =>
           match target with
           | TTableGeneric tps =>
               match tps with
               | [] => MOk s
               | [tk] => tpl_match e pk tk s
               | tk :: tv :: _ => mbind (tpl_match e pk tk s) (tpl_match e pv tv)
               end
           | TArray tb => mbind (tpl_match e pk (TPrim PInteger) s) (tpl_match e pv tb)
           | TTuple _ | TRef _ | TTableConst => MOutside
           | _ => if is_any_like_table target
                  then mbind (tpl_match e pk (TPrim PAny) s) (tpl_match e pv (TPrim PAny))
                  else MOk s
           end
       | _ => MErr s
       end
   | TUnion _ pms =>
       (fix go (l : list ty) (s : subst) (errs : nat) (n : nat) : mres :=
          match l with
          | [] => if (0 <? n)%nat && (errs =? n)%nat then MErr s else MOk s
          | u :: r =>
              match tpl_match e u target s with
              | MOk s' => go r s' errs (S n)
              | MErr s' => go r s' (S errs) (S n)
              | MOutside => MOutside
              end
          end) pms s O O
   | TFun pps pret =>
       match target with
       | TFun tps tret =>
           mbind
             ((fix go (l : list (text * option ty)) (tl : list (text * option ty)) (s : subst) : mres :=
                 match l with
                 | [] => MOk s
                 | (_, osrc) :: r =>
                     match tl with
                     | [] => MOk s
                     | (_, otgt) :: tr =>
                         let tgt := match otgt with Some t => t | None => TPrim PAny end in
                         match osrc with
                         | Some src => mbind (tpl_match e src tgt s) (go r tr)
                         | None => go r tr s
                         end
                     end
                 end) pps tps s)
             (tpl_match e pret tret)
       | TPrim PFunction => MOutside
       | _ => MOk s
       end
   | TTuple pts =>
       match target with
       | TTuple tts =>
           (fix go (l : list ty) (tl : list ty) (s : subst) : mres :=
              match l with
              | [] => MOk s
              | p :: r =>
                  match tl with
                  | [] => MOk s
                  | t :: tr => mbind (tpl_match e p t s) (go r tr)
                  end
              end) pts tts s
       | _ => MOk s
       end
   | _ => MOk s
   end).
Proof. intros e p a s. destruct p; reflexivity. Qed.

Lemma bind_list_eq : forall e p a,
  bind_list e p a =
  (let target := escape_alias e a in
   if negb (contains_tpl p) then BOk [] else
   match p with
   | TTpl i => BOk [(i, target)]
   | TArray pb =>
       match target with
       | TArray tb => bind_list e pb tb
       | TTuple _ => BOutside
       | _ => BOk []
       end
   | TTableGeneric pps =>
       match pps with
       | [pk; pv] =>
           match target with
           | TTableGeneric tps =>
               match tps with
               | [] => BOk []
               | [tk] => bind_list e pk tk
               | tk :: tv :: _ => bseq (bind_list e pk tk) (bind_list e pv tv)
               end
           | TArray tb => bseq (bind_list e pk (TPrim PInteger)) (bind_list e pv tb)
           | TTuple _ | TRef _ | TTableConst => BOutside
           | _ => if is_any_like_table target
                  then bseq (bind_list e pk (TPrim PAny)) (bind_list e pv (TPrim PAny))
                  else BOk []
           end
       | _ => BErr []
       end
   | TUnion _ pms =>
       (fix go (l : list ty) (acc : list (nat * ty)) (errs n : nat) : bres :=
          match l with
          | [] => if (0 <? n)%nat && (errs =? n)%nat then BErr acc else BOk acc
          | u :: r =>
              match bind_list e u target with
              | BOk l' => go r (acc ++ l') errs (S n)
              | BErr l' => go r (acc ++ l') (S errs) (S n)
              | BOutside => BOutside
              end
          end) pms [] O O
   | TFun pps pret =>
       match target with
       | TFun tps tret =>
           bseq
             ((fix go (l : list (text * option ty)) (tl : list (text * option ty)) : bres :=
                 match l with
                 | [] => BOk []
                 | (_, osrc) :: r =>
                     match tl with
                     | [] => BOk []
                     | (_, otgt) :: tr =>
                         let tgt := match otgt with Some t => t | None => TPrim PAny end in
                         match osrc with
                         | Some src => bseq (bind_list e src tgt) (go r tr)
                         | None => go r tr
                         end
                     end
                 end) pps tps)
             (bind_list e pret tret)
       | TPrim PFunction => BOutside
       | _ => BOk []
       end
   | TTuple pts =>
       match target with
       | TTuple tts =>
           (fix go (l : list ty) (tl : list ty) : bres :=
              match l with
              | [] => BOk []
              | p :: r =>
                  match tl with
                  | [] => BOk []
                  | t :: tr => bseq (bind_list e p t) (go r tr)
                  end
              end) pts tts
       | _ => BOk []
       end
   | _ => BOk []
   end).
Proof. intros e p a. destruct p; reflexivity. Qed.

Lemma mbind_ext : forall r f g, (forall s, f s = g s) -> mbind r f = mbind r g.
Proof. intros [s|s|] f g H; cbn [mbind]; auto. Qed.

Theorem tpl_match_spec : forall e p, Pm e p.
Proof.
  intros e. induction p using ty_ind'; intros a st; rewrite tpl_match_eq, bind_list_eq; cbv zeta;
    try (destruct (negb (contains_tpl _)); reflexivity).
  - (* TArray *)
    destruct (negb (contains_tpl (TArray p))); [reflexivity|].
    destruct (escape_alias e a); try reflexivity. apply IHp.
  - (* TTableGeneric *)
    destruct (negb (contains_tpl (TTableGeneric ps))); [reflexivity|].
    destruct ps as [|pk [|pv [|x r]]]; try reflexivity.
    inversion H as [|? ? Hk Hr]; subst. inversion Hr as [|? ? Hv _]; subst.
    assert (Hseq : forall tk tv st0,
              mbind (tpl_match e pk tk st0) (tpl_match e pv tv)
              = apply_bres st0 (bseq (bind_list e pk tk) (bind_list e pv tv))).
    { intros tk tv st0. rewrite Hk. rewrite <- mbind_bseq. apply mbind_ext. intros s'. apply Hv. }
    destruct (escape_alias e a) as [pp| | | | | |tb|tps|tts|fps fr|k ms|i] eqn:Ea; try reflexivity;
      try (cbn [is_any_like_table]; reflexivity).
    + destruct pp; cbn [is_any_like_table]; try reflexivity; apply Hseq.
    + apply Hseq.
    + destruct tps as [|tk [|tv r]]; [reflexivity|apply Hk|apply Hseq].
  - (* TTuple *)
    destruct (negb (contains_tpl (TTuple ts))); [reflexivity|].
    destruct (escape_alias e a) as [pp| | | | | |tb|tps|tts|fps fr|k ms|i]; try reflexivity.
    clear a. revert tts st. induction H as [|p r Hp Hr IH]; intros tts s; [reflexivity|].
    destruct tts as [|t tr]; [reflexivity|].
    rewrite Hp. rewrite <- mbind_bseq. apply mbind_ext. intros s'. apply IH.
  - (* TFun *)
    destruct (negb (contains_tpl (TFun ps p))); [reflexivity|].
    destruct (escape_alias e a) as [pp| | | | | |tb|tps|tts|fps fr|k ms|i]; try reflexivity.
    + destruct pp; reflexivity.
    + rewrite <- mbind_bseq.
      assert (Hps : forall tl st,
                (fix go (l : list (text * option ty)) (tl : list (text * option ty)) (s : subst) : mres :=
                   match l with
                   | [] => MOk s
                   | (_, osrc) :: r =>
                       match tl with
                       | [] => MOk s
                       | (_, otgt) :: tr =>
                           let tgt := match otgt with Some t => t | None => TPrim PAny end in
                           match osrc with
                           | Some src => mbind (tpl_match e src tgt s) (go r tr)
                           | None => go r tr s
                           end
                       end
                   end) ps tl st
                = apply_bres st
                    ((fix go (l : list (text * option ty)) (tl : list (text * option ty)) : bres :=
                        match l with
                        | [] => BOk []
                        | (_, osrc) :: r =>
                            match tl with
                            | [] => BOk []
                            | (_, otgt) :: tr =>
                                let tgt := match otgt with Some t => t | None => TPrim PAny end in
                                match osrc with
                                | Some src => bseq (bind_list e src tgt) (go r tr)
                                | None => go r tr
                                end
                            end
                        end) ps tl)).
      { clear a st. induction H as [|[n osrc] r Hp Hr IH]; intros tl st; [reflexivity|].
        destruct tl as [|[n' otgt] tr]; [reflexivity|]. cbv zeta.
        destruct osrc as [src|]; cbn [snd] in Hp.
        - rewrite Hp. rewrite <- mbind_bseq. apply mbind_ext. intros s'. apply IH.
        - apply IH. }
      rewrite Hps. apply mbind_ext. intros s'. apply IHp.
  - (* TUnion *)
    destruct (negb (contains_tpl (TUnion k ms))); [reflexivity|].
    set (target := escape_alias e a).
    assert (G : forall l, Forall (Pm e) l -> forall acc errs n,
              (fix go (l : list ty) (s : subst) (errs : nat) (n : nat) : mres :=
                 match l with
                 | [] => if (0 <? n)%nat && (errs =? n)%nat then MErr s else MOk s
                 | u :: r =>
                     match tpl_match e u target s with
                     | MOk s' => go r s' errs (S n)
                     | MErr s' => go r s' (S errs) (S n)
                     | MOutside => MOutside
                     end
                 end) l (feed st acc) errs n
              = apply_bres st
                  ((fix go (l : list ty) (acc : list (nat * ty)) (errs n : nat) : bres :=
                      match l with
                      | [] => if (0 <? n)%nat && (errs =? n)%nat then BErr acc else BOk acc
                      | u :: r =>
                          match bind_list e u target with
                          | BOk l' => go r (acc ++ l') errs (S n)
                          | BErr l' => go r (acc ++ l') (S errs) (S n)
                          | BOutside => BOutside
                          end
                      end) l acc errs n)).
    { intros l HF. induction HF as [|u r Hu Hr IH]; intros acc errs n.
      - destruct ((0 <? n)%nat && (errs =? n)%nat); reflexivity.
      - rewrite Hu. destruct (bind_list e u target) as [l'|l'|]; cbn [apply_bres].
        + rewrite <- feed_app. apply IH.
        + rewrite <- feed_app. apply IH.
        + reflexivity. }
    apply (G ms H [] O O).
Qed.

(* ------------------------------------------------------------------------------------------ *)
(** * First binding wins *)

Lemma infer_value_length : forall s i c, List.length (infer_value s i c) = List.length s.
Proof.
  induction s as [|x r IH]; intros i c; [reflexivity|].
  destruct i as [|i']; cbn [infer_value].
  - destruct x; reflexivity.
  - destruct x; cbn [List.length]; rewrite IH; reflexivity.
Qed.

Lemma infer_value_nth_same : forall s i c,
  nth_error (infer_value s i c) i =
  match nth_error s i with Some None => Some (Some c) | o => o end.
Proof.
  induction s as [|x r IH]; intros i c; [destruct i; reflexivity|].
  destruct i as [|i']; cbn [infer_value nth_error].
  - destruct x; reflexivity.
  - destruct x; cbn [nth_error]; apply IH.
Qed.

Lemma infer_value_nth_other : forall s i j c, i <> j ->
  nth_error (infer_value s i c) j = nth_error s j.
Proof.
  induction s as [|x r IH]; intros i j c Hne; [destruct i; reflexivity|].
  destruct i as [|i']; destruct j as [|j']; cbn [infer_value nth_error]; try congruence.
  - destruct x; reflexivity.
  - destruct x; reflexivity.
  - destruct x; cbn [nth_error]; apply IH; congruence.
Qed.

(** once a parameter has a candidate, feeding more components does not change it *)
Lemma feed_keeps : forall l s i c, nth_error s i = Some (Some c) -> nth_error (feed s l) i = Some (Some c).
Proof.
  induction l as [|[j d] r IH]; intros s i c H; [exact H|].
  unfold feed in *. cbn [fold_left fst snd]. apply IH.
  destruct (Nat.eq_dec j i) as [->|Hne].
  - rewrite infer_value_nth_same, H. reflexivity.
  - rewrite infer_value_nth_other by exact Hne. exact H.
Qed.

Lemma feed_first : forall l s i, nth_error s i = Some None ->
  nth_error (feed s l) i = Some (first_binding l i).
Proof.
  induction l as [|[j d] r IH]; intros s i H; [exact H|].
  unfold feed in *. cbn [fold_left fst snd first_binding].
  destruct (Nat.eqb_spec j i) as [->|Hne].
  - apply feed_keeps. rewrite infer_value_nth_same, H. reflexivity.
  - apply IH. rewrite infer_value_nth_other by exact Hne. exact H.
Qed.

Lemma nth_repeat_none : forall n i, (i < n)%nat -> nth_error (repeat (@None ty) n) i = Some None.
Proof.
  induction n as [|n IH]; intros i H; [lia|]. destruct i as [|i']; [reflexivity|]. cbn. apply IH. lia.
Qed.

Lemma nth_repeat_out : forall n i, (n <= i)%nat -> nth_error (repeat (@None ty) n) i = None.
Proof. intros n i H. apply nth_error_None. rewrite repeat_length. exact H. Qed.

Lemma feed_length : forall l s, List.length (feed s l) = List.length s.
Proof.
  induction l as [|b r IH]; intros s; [reflexivity|]. unfold feed in *. cbn [fold_left].
  rewrite IH. apply infer_value_length.
Qed.

Lemma resolve_feed : forall n l i,
  resolve (feed (repeat None n) l) i =
  if (i <? n)%nat then match first_binding l i with Some c => widen c | None => TPrim PUnknown end
  else TTpl i.
Proof.
  intros n l i. unfold resolve. destruct (Nat.ltb_spec i n).
  - rewrite feed_first by (apply nth_repeat_none; assumption). destruct (first_binding l i); reflexivity.
  - assert (E : nth_error (feed (repeat None n) l) i = None).
    { apply nth_error_None. rewrite feed_length, repeat_length. assumption. }
    rewrite E. reflexivity.
Qed.

Lemma instantiate_feed : forall n l t, instantiate (feed (repeat None n) l) t = subst_ret n l t.
Proof.
  intros n l. induction t using ty_ind'; try reflexivity.
  - cbn [instantiate subst_ret]. rewrite IHt. reflexivity.
  - cbn [instantiate subst_ret]. f_equal.
    induction H as [|p r Hp Hr IH]; [reflexivity|]. cbn [fold_right]. rewrite Hp, IH. reflexivity.
  - cbn [instantiate subst_ret]. f_equal.
    induction H as [|p r Hp Hr IH]; [reflexivity|]. cbn [fold_right]. rewrite Hp, IH. reflexivity.
  - cbn [instantiate subst_ret]. rewrite resolve_feed. reflexivity.
Qed.

(* ------------------------------------------------------------------------------------------ *)
(** * The driver loop *)

Lemma feed_all_inferred : forall l s, all_inferred s = true -> feed s l = s.
Proof.
  induction l as [|[j d] r IH]; intros s H; [reflexivity|].
  unfold feed in *. cbn [fold_left fst snd].
  assert (E : infer_value s j d = s).
  { clear -H. revert j. induction s as [|x s IHs]; intros j; [destruct j; reflexivity|].
    cbn [all_inferred forallb] in H. apply andb_true_iff in H as [Hx Hs].
    destruct x as [c|]; [|discriminate]. destruct j as [|j']; cbn [infer_value]; [reflexivity|].
    f_equal. apply IHs. exact Hs. }
  rewrite E. apply IH. exact H.
Qed.

Lemma match_args_spec : forall e ps args l s,
  all_bindings e ps args = Some l -> match_args e ps args s = MOk (feed s l).
Proof.
  intros e. induction ps as [|p pr IH]; intros args l s H.
  - destruct args; [|discriminate]. injection H as <-. reflexivity.
  - destruct args as [|a ar]; [discriminate|]. cbn [all_bindings] in H. cbn [match_args].
    destruct (all_inferred s) eqn:Eall; [rewrite feed_all_inferred by exact Eall; reflexivity|].
    destruct (negb (contains_tpl p)); [apply IH; exact H|].
    destruct (two_sided_callback p || callback_arg_outside p a); [discriminate|].
    destruct (bind_list e p a) as [lp| |] eqn:Eb; try discriminate.
    destruct (all_bindings e pr ar) as [lr|] eqn:Er; [|discriminate]. injection H as <-.
    rewrite tpl_match_spec, Eb. cbn [apply_bres mbind]. rewrite (IH _ _ _ Er). rewrite feed_app. reflexivity.
Qed.

Lemma all_bindings_length : forall e ps args l, all_bindings e ps args = Some l ->
  List.length args = List.length ps.
Proof.
  intros e. induction ps as [|p pr IH]; intros [|a ar] l H; try discriminate; [reflexivity|].
  cbn [all_bindings] in H. cbn [List.length]. f_equal.
  destruct (negb (contains_tpl p)); [eapply IH; exact H|].
  destruct (two_sided_callback p || callback_arg_outside p a); [discriminate|].
  destruct (bind_list e p a); try discriminate.
  destruct (all_bindings e pr ar) eqn:Er; [|discriminate]. eapply IH. exact Er.
Qed.

(** ** Generic functions return their instantiated argument types *)
Theorem instantiate_subst : forall (e : env) (tp : template) (args : list ty) (l : list (nat * ty)) (r : ty),
  all_bindings e (t_params tp) args = Some l ->
  subst_ret (t_ntpl tp) l (t_ret tp) = Some r ->
  call_ret e tp args = COk (unwrap_return r).
Proof.
  intros e tp args l r Hb Hr. unfold call_ret.
  rewrite (all_bindings_length _ _ _ _ Hb), Nat.eqb_refl. cbn [negb].
  rewrite (match_args_spec _ _ _ _ _ Hb). rewrite instantiate_feed, Hr. reflexivity.
Qed.

(* ------------------------------------------------------------------------------------------ *)
(** * The family, template by template (every argument type) *)

Definition wide (e : env) (a : ty) : ty := widen (escape_alias e a).

Lemma identity_ok : forall e a, call_ret e tpl_identity [a] = COk (unwrap_return (wide e a)).
Proof. reflexivity. Qed.

Lemma wrap_array_ok : forall e a, call_ret e tpl_wrap_array [a] = COk (TArray (wide e a)).
Proof. reflexivity. Qed.

Lemma array_elem_ok : forall e b, call_ret e tpl_array_elem [TArray b] = COk (unwrap_return (wide e b)).
Proof. reflexivity. Qed.

Lemma array_id_ok : forall e b, call_ret e tpl_array_id [TArray b] = COk (TArray (wide e b)).
Proof. reflexivity. Qed.

Lemma nested_array_ok : forall e b, call_ret e tpl_nested_array [TArray (TArray b)] = COk (unwrap_return (wide e b)).
Proof. reflexivity. Qed.

(** an argument that is not an array leaves [T] without a candidate: the result is [unknown] *)
Lemma array_elem_other : forall e a,
  match escape_alias e a with
  | TArray _ | TTuple _ => True
  | _ => call_ret e tpl_array_elem [a] = COk (TPrim PUnknown)
  end.
Proof.
  intros e a. unfold call_ret. cbn [t_params List.length Nat.eqb negb t_ntpl repeat match_args all_inferred forallb
                                     contains_tpl two_sided_callback callback_arg_outside orb tpl_array_elem T0].
  rewrite tpl_match_eq. cbv zeta. cbn [contains_tpl negb].
  destruct (escape_alias e a); try exact I; reflexivity.
Qed.

Lemma map_value_ok : forall e k v, call_ret e tpl_map_value [TTableGeneric [k; v]] = COk (unwrap_return (wide e v)).
Proof. reflexivity. Qed.

Lemma map_key_ok : forall e k v, call_ret e tpl_map_key [TTableGeneric [k; v]] = COk (unwrap_return (wide e k)).
Proof. reflexivity. Qed.

Lemma map_swap_ok : forall e k v,
  call_ret e tpl_map_swap [TTableGeneric [k; v]] = COk (TTableGeneric [wide e v; wide e k]).
Proof. reflexivity. Qed.

(** an array is a table from integers to its elements *)
Lemma map_of_array_ok : forall e b,
  call_ret e tpl_map_swap [TArray b] = COk (TTableGeneric [wide e b; TPrim PInteger]).
Proof. reflexivity. Qed.

(** [T?] binds [T] to the whole argument, optional or not (the union pattern escapes an alias once more) *)
Lemma optional_ok : forall e a,
  call_ret e tpl_optional [a] = COk (unwrap_return (widen (escape_alias e (escape_alias e a)))).
Proof. reflexivity. Qed.

Lemma pair_map_ok : forall e a b, call_ret e tpl_pair_map [a; b] = COk (TTableGeneric [wide e a; wide e b]).
Proof. reflexivity. Qed.

Lemma tuple_mk_ok : forall e a b, call_ret e tpl_tuple_mk [a; b] = COk (TTuple [wide e a; wide e b]).
Proof. reflexivity. Qed.

(** the same parameter twice: the first argument decides *)
Lemma same_twice_ok : forall e a b, call_ret e tpl_same_twice [a; b] = COk (unwrap_return (wide e a)).
Proof. reflexivity. Qed.

Lemma callback_ret_ok : forall e ps r, call_ret e tpl_callback_ret [TFun ps r] = COk (unwrap_return (wide e r)).
Proof. reflexivity. Qed.

Lemma callback_arg_ok : forall e n t ps r,
  call_ret e tpl_callback_arg [TFun ((n, Some t) :: ps) r] = COk (unwrap_return (wide e t)).
Proof. reflexivity. Qed.

Lemma tuple_fst_ok : forall e a b r, call_ret e tpl_tuple_fst [TTuple (a :: b :: r)] = COk (unwrap_return (wide e a)).
Proof. reflexivity. Qed.

(** non-vacuity of the general theorem: a two-parameter call with literals, an alias and a nested array *)
Example subst_example :
  let e : env := [([65], TPrim PString)] in                      (* alias A = string *)
  let args := [TTableGeneric [TInt 1; TArray (TRef [65])]] in
  all_bindings e (t_params tpl_map_swap) args = Some [(0%nat, TInt 1); (1%nat, TArray (TRef [65]))]
  /\ subst_ret 2 [(0%nat, TInt 1); (1%nat, TArray (TRef [65]))] (t_ret tpl_map_swap)
     = Some (TTableGeneric [TArray (TRef [65]); TPrim PInteger])
  /\ call_ret e tpl_map_swap args = COk (TTableGeneric [TArray (TRef [65]); TPrim PInteger]).
Proof. vm_compute. repeat split. Qed.
