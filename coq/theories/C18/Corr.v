(** C18/Corr.v — executable comparison of implementation observations with the model
    (the harness c18 writes the observations, checks/C18.py turns them into [case] terms). *)
From EV Require Import C18.Model C18.Spec.
Local Open Scope N_scope.

Definition ukind_eqb (a b : ukind) : bool :=
  match a, b with UBasic, UBasic | UNullable, UNullable | UMulti, UMulti => true | _, _ => false end.

Definition prim_idx (p : prim) : N :=
  match p with
  | PUnknown => 0 | PAny => 1 | PNil => 2 | PTable => 3 | PUserdata => 4 | PFunction => 5
  | PThread => 6 | PBoolean => 7 | PString => 8 | PInteger => 9 | PNumber => 10 | PIo => 11
  | PSelf => 12 | PGlobal => 13 | PNever => 14
  end.

Fixpoint ty_eqb (a b : ty) {struct a} : bool :=
  let list_eqb := fix go (xs ys : list ty) : bool :=
                    match xs, ys with
                    | [], [] => true
                    | x :: xs', y :: ys' => ty_eqb x y && go xs' ys'
                    | _, _ => false
                    end in
  match a, b with
  | TPrim p, TPrim q => prim_idx p =? prim_idx q
  | TStr s, TStr s' => text_eqb s s'
  | TInt z, TInt z' => Z.eqb z z'
  | TBool x, TBool y => Bool.eqb x y
  | TRef n, TRef n' => text_eqb n n'
  | TTableConst, TTableConst => true
  | TArray x, TArray y => ty_eqb x y
  | TTableGeneric xs, TTableGeneric ys => list_eqb xs ys
  | TTuple xs, TTuple ys => list_eqb xs ys
  | TFun xs r, TFun ys r' =>
      (fix go (xs ys : list (text * option ty)) : bool :=
         match xs, ys with
         | [], [] => true
         | (n, ox) :: xs', (n', oy) :: ys' =>
             text_eqb n n'
             && match ox, oy with
                | Some x, Some y => ty_eqb x y
                | None, None => true
                | _, _ => false
                end
             && go xs' ys'
         | _, _ => false
         end) xs ys
      && ty_eqb r r'
  | TUnion k xs, TUnion k' ys => ukind_eqb k k' && list_eqb xs ys
  | TTpl i, TTpl j => Nat.eqb i j
  | _, _ => false
  end.

Record case := {
  c_env : env;                 (* the aliases of the harness prelude *)
  c_tpl : nat;                 (* index into [family] *)
  c_args : option (list ty);   (* the analyzer's types of the argument locals (None: outside the modelled types) *)
  c_ret : option ty            (* the analyzer's type of [local r = f(args)] *)
}.

(** the model may decline; when it answers, the implementation must have inferred exactly that type *)
Definition check_case (c : case) : bool :=
  match nth_error family (c_tpl c), c_args c with
  | Some tp, Some args =>
      match call_ret (c_env c) tp args with
      | COk t => match c_ret c with Some r => ty_eqb t r | None => false end
      | CErr | COutside => true
      end
  | None, _ => false
  | _, None => true
  end.

Definition defined_case (c : case) : bool :=
  match nth_error family (c_tpl c), c_args c with
  | Some tp, Some args => match call_ret (c_env c) tp args with COk _ => true | _ => false end
  | _, _ => false
  end.
