(** C18/Props.v — property theorems only.  Each is closed by [exact] of a lemma of Proofs.v. *)
From EV Require Import C18.Model C18.Spec C18.Proofs.
Local Open Scope N_scope.

(** The matcher ([tpl_pattern_match] with its in-place substitutor) collects exactly the structural
    components of the argument type that the pattern's template parameters stand for, in traversal order,
    and only the first candidate for each parameter is kept — for EVERY pattern built from [T], [T[]],
    [table<K,V>], [T?] (unions), tuples and function types, every argument type and every substitutor state. *)
Theorem matcher_collects_components : forall (e : env) (p a : ty) (s : subst),
  tpl_match e p a s = apply_bres s (bind_list e p a).
Proof. exact Proofs.tpl_match_spec. Qed.

(** Calling a function annotated with type parameters infers the declared return type with every type
    parameter replaced by the widened first argument component bound to it ([unknown] when nothing was bound):
    for every signature (any number of parameters of the pattern grammar, a return type built from parameters,
    arrays, [table<..>] and tuples) and every argument list whose components are decided. *)
Theorem instantiate_subst : forall (e : env) (tp : template) (args : list ty) (l : list (nat * ty)) (r : ty),
  all_bindings e (t_params tp) args = Some l ->
  subst_ret (t_ntpl tp) l (t_ret tp) = Some r ->
  call_ret e tp args = COk (unwrap_return r).
Proof. exact Proofs.instantiate_subst. Qed.

(** An identity-like function returns its argument's type (literals widened, aliases resolved one level). *)
Theorem identity_returns_argument : forall e a,
  call_ret e tpl_identity [a] = COk (unwrap_return (widen (escape_alias e a))).
Proof. exact Proofs.identity_ok. Qed.

(** Containers are instantiated element-wise. *)
Theorem array_element : forall e b,
  call_ret e tpl_array_elem [TArray b] = COk (unwrap_return (widen (escape_alias e b)))
  /\ call_ret e tpl_array_id [TArray b] = COk (TArray (widen (escape_alias e b)))
  /\ call_ret e tpl_nested_array [TArray (TArray b)] = COk (unwrap_return (widen (escape_alias e b))).
Proof. exact (fun e b => conj (Proofs.array_elem_ok e b) (conj (Proofs.array_id_ok e b) (Proofs.nested_array_ok e b))). Qed.

Theorem table_key_value : forall e k v,
  call_ret e tpl_map_value [TTableGeneric [k; v]] = COk (unwrap_return (widen (escape_alias e v)))
  /\ call_ret e tpl_map_key [TTableGeneric [k; v]] = COk (unwrap_return (widen (escape_alias e k)))
  /\ call_ret e tpl_map_swap [TTableGeneric [k; v]]
     = COk (TTableGeneric [widen (escape_alias e v); widen (escape_alias e k)]).
Proof. exact (fun e k v => conj (Proofs.map_value_ok e k v) (conj (Proofs.map_key_ok e k v) (Proofs.map_swap_ok e k v))). Qed.

Theorem optional_parameter : forall e a,
  call_ret e tpl_optional [a] = COk (unwrap_return (widen (escape_alias e (escape_alias e a)))).
Proof. exact Proofs.optional_ok. Qed.

Theorem pairs : forall e a b,
  call_ret e tpl_pair_map [a; b] = COk (TTableGeneric [widen (escape_alias e a); widen (escape_alias e b)])
  /\ call_ret e tpl_tuple_mk [a; b] = COk (TTuple [widen (escape_alias e a); widen (escape_alias e b)])
  /\ call_ret e tpl_same_twice [a; b] = COk (unwrap_return (widen (escape_alias e a))).
Proof. exact (fun e a b => conj (Proofs.pair_map_ok e a b) (conj (Proofs.tuple_mk_ok e a b) (Proofs.same_twice_ok e a b))). Qed.

Theorem function_typed_parameter : forall e n t ps r,
  call_ret e tpl_callback_ret [TFun ps r] = COk (unwrap_return (widen (escape_alias e r)))
  /\ call_ret e tpl_callback_arg [TFun ((n, Some t) :: ps) r] = COk (unwrap_return (widen (escape_alias e t))).
Proof. exact (fun e n t ps r => conj (Proofs.callback_ret_ok e ps r) (Proofs.callback_arg_ok e n t ps r)). Qed.

(** non-vacuity: the hypotheses of [instantiate_subst] are satisfied by a call with a literal key, an alias
    and a nested array, and its conclusion is the expected instantiated table type *)
Example subst_example :
  let e : env := [([65], TPrim PString)] in
  let args := [TTableGeneric [TInt 1; TArray (TRef [65])]] in
  all_bindings e (t_params tpl_map_swap) args = Some [(0%nat, TInt 1); (1%nat, TArray (TRef [65]))]
  /\ subst_ret 2 [(0%nat, TInt 1); (1%nat, TArray (TRef [65]))] (t_ret tpl_map_swap)
     = Some (TTableGeneric [TArray (TRef [65]); TPrim PInteger])
  /\ call_ret e tpl_map_swap args = COk (TTableGeneric [TArray (TRef [65]); TPrim PInteger]).
Proof. exact Proofs.subst_example. Qed.
