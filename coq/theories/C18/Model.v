(** C18/Model.v — executable transcription of generic call inference for a family of signature templates:
      * [tpl_pattern_match] and its helpers (semantic/generic/tpl_pattern/mod.rs): collecting substitutions for
        [T], [T[]], [table<K,V>], [T?], tuples and function-typed parameters, with [escape_alias];
      * [TypeSubstitutor::infer_value] (first candidate wins), [GenericCandidate::resolve] with the
        literal-widening rule [widen_literal_type] (semantic/generic/{type_substitutor,widening}.rs);
      * [instantiate_type_generic] on the declared return type (semantic/generic/instantiate_type/mod.rs);
      * the driver loop of [infer_generic_types_from_call] (semantic/generic/infer_call_generic.rs) and
        [unwrapp_return_type] (semantic/infer/infer_call/mod.rs).
    Definitions only.  Whatever the model does not cover answers [Outside], never a guess. *)
From EV Require Export Base.Text.
From Coq Require Export ZArith.
Local Open Scope N_scope.

Fixpoint text_eqb (a b : text) : bool :=
  match a, b with
  | [], [] => true
  | x :: a', y :: b' => (x =? y) && text_eqb a' b'
  | _, _ => false
  end.

(** [BasicTypeKind] *)
Inductive prim : Set :=
| PUnknown | PAny | PNil | PTable | PUserdata | PFunction | PThread | PBoolean
| PString | PInteger | PNumber | PIo | PSelf | PGlobal | PNever.

Inductive ukind : Set := UBasic | UNullable | UMulti.

Inductive ty : Set :=
| TPrim (p : prim)
| TStr (s : text)                              (* DocStringConst *)
| TInt (z : Z)                                 (* DocIntegerConst *)
| TBool (b : bool)                             (* DocBooleanConst *)
| TRef (n : text)                              (* Ref(id): class or alias *)
| TTableConst                                  (* TableConst(_): what a call returning [table] is given *)
| TArray (t : ty)
| TTableGeneric (ps : list ty)
| TTuple (ts : list ty)
| TFun (ps : list (text * option ty)) (ret : ty)   (* DocFunction, dot-defined, not variadic *)
| TUnion (k : ukind) (ms : list ty)            (* [ms] = into_vec *)
| TTpl (i : nat).                              (* TplRef of the i-th [---@generic] parameter, not const *)

(** [LuaTypeNode::contains_tpl_node] *)
Fixpoint contains_tpl (t : ty) : bool :=
  match t with
  | TTpl _ => true
  | TArray b => contains_tpl b
  | TTableGeneric ps => existsb contains_tpl ps
  | TTuple ts => existsb contains_tpl ts
  | TFun ps r => existsb (fun p => match snd p with Some pt => contains_tpl pt | None => false end) ps
                 || contains_tpl r
  | TUnion _ ms => existsb contains_tpl ms
  | _ => false
  end.

(** the environment: alias name -> the type it stands for *)
Definition env := list (text * ty).

Fixpoint lookup (e : env) (n : text) : option ty :=
  match e with
  | [] => None
  | (k, v) :: r => if text_eqb k n then Some v else lookup r n
  end.

(** [escape_alias]: one level *)
Definition escape_alias (e : env) (t : ty) : ty :=
  match t with
  | TRef n => match lookup e n with Some o => o | None => t end
  | _ => t
  end.

(** [widen_literal_type] *)
Definition widen (t : ty) : ty :=
  match t with
  | TInt _ => TPrim PInteger
  | TStr _ => TPrim PString
  | TBool _ => TPrim PBoolean
  | _ => t
  end.

(** the substitutor: per template parameter, [None] = still to infer ([SubstitutorValue::None]),
    [Some c] = the candidate type (policy FreshWidening: the parameters are not [const]) *)
Definition subst := list (option ty).

(** [TypeSubstitutor::infer_value]: only a pending entry is filled *)
Fixpoint infer_value (s : subst) (i : nat) (c : ty) : subst :=
  match s, i with
  | [], _ => []
  | None :: r, O => Some c :: r
  | x :: r, O => x :: r
  | x :: r, S i' => x :: infer_value r i' c
  end.

Inductive mres : Set :=
| MOk (s : subst)
| MErr (s : subst)     (* InferFailReason (the substitutor keeps what was inferred before the failure) *)
| MOutside.            (* a target shape the model does not cover *)

Definition mbind (r : mres) (f : subst -> mres) : mres :=
  match r with MOk s => f s | MErr s => MErr s | MOutside => MOutside end.

Definition is_any_like_table (t : ty) : bool :=
  match t with TPrim PGlobal | TPrim PAny | TPrim PTable | TPrim PUserdata => true | _ => false end.

(** [tpl_pattern_match] *)
Fixpoint tpl_match (e : env) (pattern target : ty) (s : subst) {struct pattern} : mres :=
  let target := escape_alias e target in
  if negb (contains_tpl pattern) then MOk s else
  match pattern with
  | TTpl i => MOk (infer_value s i target)
  | TArray pb =>                                               (* array_tpl_pattern_match *)
      match target with
      | TArray tb => tpl_match e pb tb s
      | TTuple _ => MOutside                                   (* collapse_to_union: not modelled *)
      | _ => MOk s
      end
  | TTableGeneric pps =>                                       (* table_generic_tpl_pattern_match *)
      match pps with
      | [pk; pv] =>
          match target with
          | TTableGeneric tps =>
              match tps with
              | [] => MOk s
              | [tk] => tpl_match e pk tk s
              | tk :: tv :: _ => mbind (tpl_match e pk tk s) (tpl_match e pv tv)
              end
          | TArray tb => mbind (tpl_match e pk (TPrim PInteger) s) (tpl_match e pv tb)
          | TTuple _ | TRef _ | TTableConst => MOutside        (* member maps: not modelled *)
          | _ => if is_any_like_table target
                 then mbind (tpl_match e pk (TPrim PAny) s) (tpl_match e pv (TPrim PAny))
                 else MOk s
          end
      | _ => MErr s
      end
  | TUnion _ pms =>                                            (* union_tpl_pattern_match *)
      (fix go (l : list ty) (s : subst) (errs : nat) (n : nat) : mres :=
         match l with
         | [] => if (0 <? n)%nat && (errs =? n)%nat then MErr s else MOk s
         | u :: r =>
             match tpl_match e u target s with
             | MOk s' => go r s' errs (S n)
             | MErr s' => go r s' (S errs) (S n)
             | MOutside => MOutside
             end
         end) pms s O O
  | TFun pps pret =>                                           (* func_tpl_pattern_match *)
      match target with
      | TFun tps tret =>
          mbind
            ((fix go (l : list (text * option ty)) (tl : list (text * option ty)) (s : subst) : mres :=
                match l with
                | [] => MOk s
                | (_, osrc) :: r =>
                    match tl with
                    | [] => MOk s                                (* `None => break` *)
                    | (_, otgt) :: tr =>
                        let tgt := match otgt with Some t => t | None => TPrim PAny end in
                        match osrc with
                        | Some src => mbind (tpl_match e src tgt s) (go r tr)
                        | None => go r tr s                     (* source Any: no template inside *)
                        end
                    end
                end) pps tps s)
            (tpl_match e pret tret)                             (* return_type_pattern_match_target_type *)
      | TPrim PFunction => MOutside                             (* erased callable: not modelled *)
      | _ => MOk s
      end
  | TTuple pts =>                                              (* tuple_tpl_pattern_match *)
      match target with
      | TTuple tts =>
          (fix go (l : list ty) (tl : list ty) (s : subst) : mres :=
             match l with
             | [] => MOk s
             | p :: r =>
                 match tl with
                 | [] => MOk s
                 | t :: tr => mbind (tpl_match e p t s) (go r tr)
                 end
             end) pts tts s
      | _ => MOk s
      end
  | _ => MOk s
  end.

(** [instantiate_tpl_ref] + [GenericCandidate::resolve] in Value mode: the candidate is widened;
    a parameter nothing was inferred for falls back to [unknown] (no default, no constraint) *)
Definition resolve (s : subst) (i : nat) : ty :=
  match nth_error s i with
  | Some (Some c) => widen c
  | Some None => TPrim PUnknown
  | None => TTpl i
  end.

(** [instantiate_type_generic_inner] on a declared return type (unions, which go through
    [LuaType::from_vec], are outside the model) *)
Fixpoint instantiate (s : subst) (t : ty) {struct t} : option ty :=
  match t with
  | TTpl i => Some (resolve s i)
  | TArray b => option_map TArray (instantiate s b)
  | TTableGeneric ps =>
      option_map TTableGeneric
        (fold_right (fun p acc => match instantiate s p, acc with
                                  | Some x, Some r => Some (x :: r)
                                  | _, _ => None
                                  end) (Some []) ps)
  | TTuple ts =>
      option_map TTuple
        (fold_right (fun p acc => match instantiate s p, acc with
                                  | Some x, Some r => Some (x :: r)
                                  | _, _ => None
                                  end) (Some []) ts)
  | TUnion _ _ | TFun _ _ => None
  | _ => Some t
  end.

(** a signature template: number of [---@generic] parameters, parameter types, return type *)
Record template := { t_ntpl : nat; t_params : list ty; t_ret : ty }.

(** [subst.is_infer_all_tpl] *)
Definition all_inferred (s : subst) : bool :=
  forallb (fun o => match o with Some _ => true | None => false end) s.

(** a function-typed parameter mentioning templates both in its parameters and in its return: the driver
    first matches the return pattern against the callable's inferred return
    ([infer_callable_return_from_remaining_args]), which can change which occurrence comes first — not modelled *)
Definition two_sided_callback (p : ty) : bool :=
  match p with
  | TFun ps r => contains_tpl r
                 && existsb (fun q => match snd q with Some pt => contains_tpl pt | None => false end) ps
  | _ => false
  end.

(** for a function-typed parameter the driver also asks which callables the argument type offers
    ([collect_callable_overload_groups]: members of a union, the [__call] operator of a class, an alias) and
    treats [any] / [unknown] specially; only a plain function type or a type that is not callable at all is
    modelled *)
Definition callback_arg_outside (p a : ty) : bool :=
  match p with
  | TFun _ _ =>
      match a with
      | TUnion _ _ | TRef _ | TPrim PAny | TPrim PUnknown | TPrim PFunction | TTableConst => true
      | _ => false
      end
  | _ => false
  end.

(** the loop of [infer_generic_types_from_call] over (parameter, argument) pairs *)
Fixpoint match_args (e : env) (ps : list ty) (args : list ty) (s : subst) : mres :=
  match ps, args with
  | p :: pr, a :: ar =>
      if all_inferred s then MOk s
      else if negb (contains_tpl p) then match_args e pr ar s
      else if two_sided_callback p || callback_arg_outside p a then MOutside
      else mbind (tpl_match e p a s) (match_args e pr ar)
  | _, _ => MOk s
  end.

(** [unwrapp_return_type] *)
Definition unwrap_return (t : ty) : ty :=
  match t with TPrim PTable => TTableConst | _ => t end.

Inductive cres : Set :=
| COk (t : ty)        (* the inferred type of [local r = f(args)] *)
| CErr
| COutside.

(** the inferred type of a call of a template with arguments of the given types *)
Definition call_ret (e : env) (tp : template) (args : list ty) : cres :=
  if negb (List.length args =? List.length (t_params tp))%nat then COutside else
  match match_args e (t_params tp) args (repeat None (t_ntpl tp)) with
  | MOk s => match instantiate s (t_ret tp) with
             | Some t => COk (unwrap_return t)
             | None => COutside
             end
  | MErr _ => CErr
  | MOutside => COutside
  end.
