(** C23/Spec.v — the LSP specification of positions, written independently of the line index:
    a direct walk over the text.  Columns count UTF-16 code units; a line ends after ["\n"],
    after ["\r\n"] (the break is at the ["\n"]) and after a lone ["\r"].  Executable. *)
From EV Require Export Base.Text.
Local Open Scope N_scope.

Definition lsp_break (c : cp) (r : text) : bool :=
  (c =? 10) || ((c =? 13) && negb (match r with c' :: _ => c' =? 10 | [] => false end)).

(** position of byte offset [o]; [None] when [o] is not a character boundary of the text *)
Fixpoint spec_pos (t : text) (o line col : N) : option (N * N) :=
  if o =? 0 then Some (line, col)
  else match t with
       | [] => None
       | c :: r =>
           if o <? blen c then None
           else if lsp_break c r then spec_pos r (o - blen c) (line + 1) 0
                else spec_pos r (o - blen c) line (col + u16len c)
       end.

(** offset of position [(line, col)]: [None] when the line does not exist; a column past the
    end of the line is clamped to the line's terminator (or the end of the text); a column
    inside a surrogate pair rounds down. *)
Fixpoint spec_off (t : text) (line col : N) : option N :=
  match t with
  | [] => if line =? 0 then Some 0 else None
  | c :: r =>
      if line =? 0 then
        if lsp_break c r then Some 0
        else if col <? u16len c then Some 0
             else option_map (N.add (blen c)) (spec_off r 0 (col - u16len c))
      else option_map (N.add (blen c))
             (if lsp_break c r then spec_off r (line - 1) col else spec_off r line col)
  end.

(** number of lines of a document: one more than the number of line terminators *)
Fixpoint lsp_line_count (t : text) : N :=
  match t with
  | [] => 1
  | c :: r => (if lsp_break c r then 1 else 0) + lsp_line_count r
  end.
