(** C23/Proofs.v — the line index (C22/Model.v) computes the LSP specification (C23/Spec.v).
    Structure lemmas about [scan] live here; C22/Proofs.v derives the round-trip properties. *)
From EV Require Import Base.TextFacts C22.Model C23.Spec.
Local Open Scope N_scope.

(** * [scan] split into its two components *)

Fixpoint starts (t : text) (off : N) : list N :=
  match t with
  | [] => []
  | c :: r => if is_break c r then (off + blen c) :: starts r (off + blen c)
              else starts r (off + blen c)
  end.

Fixpoint flags (t : text) (asc : bool) : list bool :=
  match t with
  | [] => [asc]
  | c :: r => if is_break c r then asc :: flags r true
              else flags r (asc && (c <? 128))
  end.

Lemma scan_eq : forall t off asc, scan t off asc = (starts t off, flags t asc).
Proof.
  induction t as [|c r IH]; intros off asc; cbn [scan starts flags]; [reflexivity|].
  destruct (is_break c r); rewrite IH; reflexivity.
Qed.

Lemma parse_eq : forall t,
  parse t = {| line_offsets := 0 :: starts t 0; line_ascii := flags t true |}.
Proof. intros t. unfold parse. rewrite scan_eq. reflexivity. Qed.

Lemma lsp_break_eq : forall c r, lsp_break c r = is_break c r.
Proof. reflexivity. Qed.

Lemma break_blen : forall c r, is_break c r = true -> blen c = 1.
Proof.
  intros c r H. unfold is_break in H. apply orb_true_iff in H.
  destruct H as [H|H].
  - apply N.eqb_eq in H. subst. reflexivity.
  - apply andb_true_iff in H. destruct H as [H _]. apply N.eqb_eq in H. subst. reflexivity.
Qed.

(** * partition point as a [nat] *)

Fixpoint ppn (l : list N) (o : N) : nat :=
  match l with
  | [] => O
  | s :: r => if s <=? o then S (ppn r o) else O
  end.

Lemma pp_ppn : forall l o, partition_point_le l o = N.of_nat (ppn l o).
Proof.
  induction l as [|s r IH]; intros o; cbn [partition_point_le ppn]; [reflexivity|].
  destruct (s <=? o); [|reflexivity]. rewrite IH. lia.
Qed.

Lemma ppn_starts_0 : forall t off o, o <= off -> ppn (starts t off) o = O.
Proof.
  induction t as [|c r IH]; intros off o H; cbn [starts ppn]; [reflexivity|].
  pose proof (blen_pos c) as Hc.
  destruct (is_break c r).
  - cbn [ppn]. destruct (N.leb_spec (off + blen c) o) as [L|L]; [lia|reflexivity].
  - apply IH. lia.
Qed.

Lemma get_line_parse : forall t o,
  get_line (parse t) o = Some (N.of_nat (ppn (starts t 0) o)).
Proof.
  intros t o. rewrite parse_eq. unfold get_line. cbn [line_offsets partition_point_le].
  destruct (N.leb_spec 0 o) as [_|L]; [|lia].
  rewrite pp_ppn.
  destruct (N.eqb_spec (1 + N.of_nat (ppn (starts t 0) o)) 0) as [E|_]; [lia|].
  f_equal. lia.
Qed.

Lemma flags_hd : forall t asc, nth 0 (flags t asc) false = true -> asc = true.
Proof.
  induction t as [|c r IH]; intros asc H; cbn [flags] in H.
  - exact H.
  - destruct (is_break c r).
    + exact H.
    + apply IH in H. apply andb_true_iff in H. tauto.
Qed.

(** * offset -> position *)

Lemma locate : forall t p0 q asc o pre line cur off col,
  take_bytes t o = Some pre ->
  (asc = true -> all_ascii q = true) ->
  cur = bytes p0 -> off = bytes p0 + bytes q -> col = u16s q ->
  exists p1 s,
    nth_error (cur :: starts t off) (ppn (starts t off) (off + o)) = Some (bytes p1) /\
    p0 ++ q ++ pre = p1 ++ s /\
    (nth (ppn (starts t off) (off + o)) (flags t asc) false = true -> all_ascii s = true) /\
    spec_pos t o line col = Some (line + N.of_nat (ppn (starts t off) (off + o)), u16s s).
Proof.
  induction t as [|c r IH]; intros p0 q asc o pre line cur off col HT HA Hcur Hoff Hcol.
  - cbn [take_bytes] in HT. destruct (N.eqb_spec o 0) as [E|E]; [|discriminate].
    inversion HT; subst pre o. cbn [starts ppn flags nth nth_error spec_pos].
    exists p0, q. split; [subst; reflexivity|]. split; [rewrite app_nil_r; reflexivity|].
    split; [exact HA|]. rewrite N.eqb_refl. subst col. f_equal. f_equal. cbn. lia.
  - pose proof (blen_pos c) as Hc.
    cbn [take_bytes] in HT. destruct (N.eqb_spec o 0) as [E|E].
    + inversion HT; subst pre o.
      rewrite (ppn_starts_0 (c :: r) off (off + 0)) by lia.
      exists p0, q. cbn [nth_error].
      split; [subst; reflexivity|]. split; [rewrite app_nil_r; reflexivity|].
      split; [intros F; apply HA; eapply flags_hd; exact F|].
      cbn [spec_pos]. rewrite N.eqb_refl. subst col. f_equal. f_equal. cbn. lia.
    + destruct (N.ltb_spec o (blen c)) as [L|L]; [discriminate|].
      destruct (take_bytes r (o - blen c)) as [pre'|] eqn:T; [|discriminate].
      inversion HT; subst pre. clear HT.
      cbn [spec_pos starts flags].
      destruct (N.eqb_spec o 0) as [E'|_]; [lia|].
      destruct (N.ltb_spec o (blen c)) as [L'|_]; [lia|].
      change (lsp_break c r) with (is_break c r).
      destruct (is_break c r) eqn:B.
      * cbn [ppn]. destruct (N.leb_spec (off + blen c) (off + o)) as [_|L']; [|lia].
        destruct (IH (p0 ++ q ++ [c]) [] true (o - blen c) pre' (line + 1)
                     (off + blen c) (off + blen c) 0 T)
          as [p1 [s [H1 [H2 [H3 H4]]]]].
        { intros _. reflexivity. }
        { rewrite !bytes_app. cbn [bytes]. lia. }
        { rewrite !bytes_app. cbn [bytes]. lia. }
        { reflexivity. }
        replace (off + blen c + (o - blen c)) with (off + o) in * by lia.
        exists p1, s. cbn [nth_error nth].
        split; [exact H1|].
        split; [rewrite <- H2; rewrite <- !app_assoc; reflexivity|].
        split; [exact H3|].
        rewrite H4. f_equal. f_equal. lia.
      * destruct (IH p0 (q ++ [c]) (asc && (c <? 128)) (o - blen c) pre' line
                     cur (off + blen c) (col + u16len c) T)
          as [p1 [s [H1 [H2 [H3 H4]]]]].
        { intros F. apply andb_true_iff in F. destruct F as [F1 F2].
          rewrite all_ascii_app, (HA F1). cbn. rewrite F2. reflexivity. }
        { exact Hcur. }
        { rewrite bytes_app. cbn [bytes]. lia. }
        { rewrite u16s_app. cbn [u16s]. lia. }
        replace (off + blen c + (o - blen c)) with (off + o) in * by lia.
        exists p1, s.
        split; [exact H1|].
        split; [rewrite <- H2; rewrite <- !app_assoc; reflexivity|].
        split; [exact H3|exact H4].
Qed.

Lemma pos_is_lsp_pos : forall (t : text) (o : N),
  boundaryb t o = true ->
  exists p, spec_pos t o 0 0 = Some p /\ get_line_col (parse t) t o = Val p.
Proof.
  intros t o HB. destruct (boundaryb_spec _ _ HB) as [pre [suf [HT [Ht Ho]]]].
  destruct (locate t [] [] true o pre 0 0 0 0 HT) as [p1 [s [H1 [H2 [H3 H4]]]]];
    try reflexivity.
  cbn [app] in H2. replace (0 + o) with o in * by lia.
  set (k := ppn (starts t 0) o) in *.
  exists (0 + N.of_nat k, u16s s). split; [exact H4|].
  unfold get_line_col. rewrite get_line_parse. fold k.
  rewrite parse_eq. unfold get_line_offset, is_ascii_line. cbn [line_offsets line_ascii].
  rewrite Nat2N.id. rewrite H1.
  assert (Hob : o = bytes p1 + bytes s).
  { rewrite <- Ho, H2, bytes_app. reflexivity. }
  destruct (nth k (flags t true) false) eqn:F.
  - rewrite <- (all_ascii_bytes s (H3 eq_refl)). f_equal. f_equal; lia.
  - assert (Et : t = p1 ++ s ++ suf).
    { rewrite Ht, H2, <- app_assoc. reflexivity. }
    replace (slice t (bytes p1) o) with (Some s).
    + reflexivity.
    + symmetry. rewrite Et. apply slice_app; [reflexivity|exact Hob].
Qed.
