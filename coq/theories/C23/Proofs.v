(** C23/Proofs.v — the line index (C22/Model.v) computes the LSP specification (C23/Spec.v).
    Structure lemmas about [scan] live here; C22/Proofs.v derives the round-trip properties. *)
From EV Require Import Base.TextFacts C22.Model C23.Spec.
Local Open Scope N_scope.

(** * [scan] split into its two components *)

Fixpoint starts (t : text) (off : N) : list N :=
  match t with
  | [] => []
  | c :: r => if is_break c r then (off + blen c) :: starts r (off + blen c)
              else starts r (off + blen c)
  end.

Fixpoint flags (t : text) (asc : bool) : list bool :=
  match t with
  | [] => [asc]
  | c :: r => if is_break c r then asc :: flags r true
              else flags r (asc && (c <? 128))
  end.

Lemma scan_eq : forall t off asc, scan t off asc = (starts t off, flags t asc).
Proof.
  induction t as [|c r IH]; intros off asc; cbn [scan starts flags]; [reflexivity|].
  destruct (is_break c r); rewrite IH; reflexivity.
Qed.

Lemma parse_eq : forall t,
  parse t = {| line_offsets := 0 :: starts t 0; line_ascii := flags t true |}.
Proof. intros t. unfold parse. rewrite scan_eq. reflexivity. Qed.

Lemma lsp_break_eq : forall c r, lsp_break c r = is_break c r.
Proof. reflexivity. Qed.

Lemma break_blen : forall c r, is_break c r = true -> blen c = 1.
Proof.
  intros c r H. unfold is_break in H. apply orb_true_iff in H.
  destruct H as [H|H].
  - apply N.eqb_eq in H. subst. reflexivity.
  - apply andb_true_iff in H. destruct H as [H _]. apply N.eqb_eq in H. subst. reflexivity.
Qed.

(** * partition point as a [nat] *)

Fixpoint ppn (l : list N) (o : N) : nat :=
  match l with
  | [] => O
  | s :: r => if s <=? o then S (ppn r o) else O
  end.

Lemma pp_ppn : forall l o, partition_point_le l o = N.of_nat (ppn l o).
Proof.
  induction l as [|s r IH]; intros o; cbn [partition_point_le ppn]; [reflexivity|].
  destruct (s <=? o); [|reflexivity]. rewrite IH. lia.
Qed.

Lemma ppn_starts_0 : forall t off o, o <= off -> ppn (starts t off) o = O.
Proof.
  induction t as [|c r IH]; intros off o H; cbn [starts ppn]; [reflexivity|].
  pose proof (blen_pos c) as Hc.
  destruct (is_break c r).
  - cbn [ppn]. destruct (N.leb_spec (off + blen c) o) as [L|L]; [lia|reflexivity].
  - apply IH. lia.
Qed.

Lemma get_line_parse : forall t o,
  get_line (parse t) o = Some (N.of_nat (ppn (starts t 0) o)).
Proof.
  intros t o. rewrite parse_eq. unfold get_line. cbn [line_offsets partition_point_le].
  destruct (N.leb_spec 0 o) as [_|L]; [|lia].
  rewrite pp_ppn.
  destruct (N.eqb_spec (1 + N.of_nat (ppn (starts t 0) o)) 0) as [E|_]; [lia|].
  f_equal. lia.
Qed.

Lemma flags_hd : forall t asc, nth 0 (flags t asc) false = true -> asc = true.
Proof.
  induction t as [|c r IH]; intros asc H; cbn [flags] in H.
  - exact H.
  - destruct (is_break c r).
    + exact H.
    + apply IH in H. apply andb_true_iff in H. tauto.
Qed.

(** * offset -> position *)

Lemma locate : forall t p0 q asc o pre line cur off col,
  take_bytes t o = Some pre ->
  (asc = true -> all_ascii q = true) ->
  cur = bytes p0 -> off = bytes p0 + bytes q -> col = u16s q ->
  exists p1 s,
    nth_error (cur :: starts t off) (ppn (starts t off) (off + o)) = Some (bytes p1) /\
    p0 ++ q ++ pre = p1 ++ s /\
    (nth (ppn (starts t off) (off + o)) (flags t asc) false = true -> all_ascii s = true) /\
    spec_pos t o line col = Some (line + N.of_nat (ppn (starts t off) (off + o)), u16s s).
Proof.
  induction t as [|c r IH]; intros p0 q asc o pre line cur off col HT HA Hcur Hoff Hcol.
  - cbn [take_bytes] in HT. destruct (N.eqb_spec o 0) as [E|E]; [|discriminate].
    inversion HT; subst pre o. cbn [starts ppn flags nth nth_error spec_pos].
    exists p0, q. split; [subst; reflexivity|]. split; [rewrite app_nil_r; reflexivity|].
    split; [exact HA|]. rewrite N.eqb_refl. subst col. f_equal. f_equal. cbn. lia.
  - pose proof (blen_pos c) as Hc.
    cbn [take_bytes] in HT. destruct (N.eqb_spec o 0) as [E|E].
    + inversion HT; subst pre o.
      rewrite (ppn_starts_0 (c :: r) off (off + 0)) by lia.
      exists p0, q. cbn [nth_error].
      split; [subst; reflexivity|]. split; [rewrite app_nil_r; reflexivity|].
      split; [intros F; apply HA; eapply flags_hd; exact F|].
      cbn [spec_pos]. rewrite N.eqb_refl. subst col. f_equal. f_equal. cbn. lia.
    + destruct (N.ltb_spec o (blen c)) as [L|L]; [discriminate|].
      destruct (take_bytes r (o - blen c)) as [pre'|] eqn:T; [|discriminate].
      inversion HT; subst pre. clear HT.
      cbn [spec_pos starts flags].
      destruct (N.eqb_spec o 0) as [E'|_]; [lia|].
      destruct (N.ltb_spec o (blen c)) as [L'|_]; [lia|].
      change (lsp_break c r) with (is_break c r).
      destruct (is_break c r) eqn:B.
      * cbn [ppn]. destruct (N.leb_spec (off + blen c) (off + o)) as [_|L']; [|lia].
        destruct (IH (p0 ++ q ++ [c]) [] true (o - blen c) pre' (line + 1)
                     (off + blen c) (off + blen c) 0 T)
          as [p1 [s [H1 [H2 [H3 H4]]]]].
        { intros _. reflexivity. }
        { rewrite !bytes_app. cbn [bytes]. lia. }
        { rewrite !bytes_app. cbn [bytes]. lia. }
        { reflexivity. }
        replace (off + blen c + (o - blen c)) with (off + o) in * by lia.
        exists p1, s. cbn [nth_error nth].
        split; [exact H1|].
        split; [rewrite <- H2; rewrite <- !app_assoc; reflexivity|].
        split; [exact H3|].
        rewrite H4. f_equal. f_equal. lia.
      * destruct (IH p0 (q ++ [c]) (asc && (c <? 128)) (o - blen c) pre' line
                     cur (off + blen c) (col + u16len c) T)
          as [p1 [s [H1 [H2 [H3 H4]]]]].
        { intros F. apply andb_true_iff in F. destruct F as [F1 F2].
          rewrite all_ascii_app, (HA F1). cbn. rewrite F2. reflexivity. }
        { exact Hcur. }
        { rewrite bytes_app. cbn [bytes]. lia. }
        { rewrite u16s_app. cbn [u16s]. lia. }
        replace (off + blen c + (o - blen c)) with (off + o) in * by lia.
        exists p1, s.
        split; [exact H1|].
        split; [rewrite <- H2; rewrite <- !app_assoc; reflexivity|].
        split; [exact H3|exact H4].
Qed.

Lemma pos_is_lsp_pos : forall (t : text) (o : N),
  boundaryb t o = true ->
  exists p, spec_pos t o 0 0 = Some p /\ get_line_col (parse t) t o = Val p.
Proof.
  intros t o HB. destruct (boundaryb_spec _ _ HB) as [pre [suf [HT [Ht Ho]]]].
  destruct (locate t [] [] true o pre 0 0 0 0 HT) as [p1 [s [H1 [H2 [H3 H4]]]]];
    try reflexivity.
  cbn [app] in H2. replace (0 + o) with o in * by lia.
  set (k := ppn (starts t 0) o) in *.
  exists (0 + N.of_nat k, u16s s). split; [exact H4|].
  unfold get_line_col. rewrite get_line_parse. fold k.
  rewrite parse_eq. unfold get_line_offset, is_ascii_line. cbn [line_offsets line_ascii].
  rewrite Nat2N.id. rewrite H1.
  assert (Hob : o = bytes p1 + bytes s).
  { rewrite <- Ho, H2, bytes_app. reflexivity. }
  destruct (nth k (flags t true) false) eqn:F.
  - rewrite <- (all_ascii_bytes s (H3 eq_refl)). f_equal. f_equal; lia.
  - assert (Et : t = p1 ++ s ++ suf).
    { rewrite Ht, H2, <- app_assoc. reflexivity. }
    replace (slice t (bytes p1) o) with (Some s).
    + reflexivity.
    + symmetry. rewrite Et. apply slice_app; [reflexivity|exact Hob].
Qed.

(** * position -> offset *)

(** the characters of the current line before its terminator *)
Fixpoint line_body (t : text) : text :=
  match t with
  | [] => []
  | c :: r => if is_break c r then [] else c :: line_body r
  end.

Lemma walk16_0 : forall s, walk16 s 0 = 0.
Proof.
  destruct s as [|c r]; cbn [walk16]; [reflexivity|].
  pose proof (u16len_pos c) as Hc.
  destruct (N.ltb_spec 0 (u16len c)) as [_|L]; [reflexivity|lia].
Qed.

Lemma walk16_le : forall s col, walk16 s col <= bytes s.
Proof.
  induction s as [|c r IH]; intros col; cbn [walk16 bytes]; [lia|].
  destruct (col <? u16len c); [lia|]. specialize (IH (col - u16len c)). lia.
Qed.

Lemma walk16_prefix : forall s col, exists a b, s = a ++ b /\ walk16 s col = bytes a.
Proof.
  induction s as [|c r IH]; intros col; cbn [walk16].
  - exists [], []. split; reflexivity.
  - destruct (col <? u16len c).
    + exists [], (c :: r). split; reflexivity.
    + destruct (IH (col - u16len c)) as [a [b [E1 E2]]].
      exists (c :: a), b. split; [cbn [app]; f_equal; exact E1|].
      cbn [bytes]. rewrite E2. reflexivity.
Qed.

Lemma walk16_ascii : forall s col, all_ascii s = true -> walk16 s col = N.min col (bytes s).
Proof.
  induction s as [|c r IH]; intros col H; cbn [walk16 bytes]; [lia|].
  cbn [all_ascii forallb] in H. apply andb_true_iff in H. destruct H as [Hc Hr].
  fold (all_ascii r) in Hr.
  rewrite (ascii_blen _ Hc), (ascii_u16len _ Hc).
  destruct (N.ltb_spec col 1) as [L|L]; [lia|].
  rewrite (IH _ Hr). lia.
Qed.

Lemma spec_off_body : forall t col, spec_off t 0 col = Some (walk16 (line_body t) col).
Proof.
  induction t as [|c r IH]; intros col; cbn [spec_off line_body].
  - reflexivity.
  - change (0 =? 0) with true. cbv iota.
    change (lsp_break c r) with (is_break c r).
    destruct (is_break c r); cbn [walk16]; [reflexivity|].
    destruct (col <? u16len c); [reflexivity|].
    rewrite IH. reflexivity.
Qed.

Lemma starts_body : forall t off,
  match starts t off with
  | next :: _ => next = off + bytes (line_body t) + 1
  | [] => line_body t = t
  end.
Proof.
  induction t as [|c r IH]; intros off; cbn [starts line_body]; [reflexivity|].
  destruct (is_break c r) eqn:B.
  - cbn [bytes]. rewrite (break_blen _ _ B). lia.
  - specialize (IH (off + blen c)). destruct (starts r (off + blen c)) as [|next l].
    + rewrite IH. reflexivity.
    + cbn [bytes]. lia.
Qed.

Lemma flags_body : forall t asc,
  nth 0 (flags t asc) false = true -> all_ascii (line_body t) = true.
Proof.
  induction t as [|c r IH]; intros asc H; cbn [flags line_body] in *; [reflexivity|].
  destruct (is_break c r); [reflexivity|].
  pose proof (flags_hd _ _ H) as HA. apply andb_true_iff in HA. destruct HA as [_ Hc].
  cbn [all_ascii forallb]. rewrite Hc. cbn [andb]. exact (IH _ H).
Qed.

Lemma body_prefix : forall t, exists tail, t = line_body t ++ tail.
Proof.
  induction t as [|c r IH]; cbn [line_body].
  - exists []. reflexivity.
  - destruct (is_break c r).
    + exists (c :: r). reflexivity.
    + destruct IH as [tail E]. exists tail. cbn [app]. f_equal. exact E.
Qed.

Lemma nth_error_skipn : forall (A : Type) (n m : nat) (l : list A),
  nth_error l (n + m) = nth_error (skipn n l) m.
Proof.
  induction n as [|n IH]; intros m l; [reflexivity|].
  destruct l as [|x l]; cbn [Nat.add skipn nth_error].
  - destruct m; reflexivity.
  - apply IH.
Qed.

Lemma nth_skipn : forall (A : Type) (n m : nat) (l : list A) (d : A),
  nth (n + m) l d = nth m (skipn n l) d.
Proof.
  induction n as [|n IH]; intros m l d; [reflexivity|].
  destruct l as [|x l]; cbn [Nat.add skipn nth].
  - destruct m; reflexivity.
  - apply IH.
Qed.

Lemma spec_off_missing : forall t off cur line col,
  nth_error (cur :: starts t off) (N.to_nat line) = None -> spec_off t line col = None.
Proof.
  induction t as [|c r IH]; intros off cur line col H; cbn [starts spec_off] in *.
  - destruct (N.eqb_spec line 0) as [E|E]; [|reflexivity].
    subst line. discriminate.
  - destruct (N.eqb_spec line 0) as [E|E]; [subst line; discriminate|].
    replace (N.to_nat line) with (S (N.to_nat (line - 1))) in H by lia.
    change (lsp_break c r) with (is_break c r).
    destruct (is_break c r).
    + cbn [nth_error] in H. rewrite (IH _ _ _ col H). reflexivity.
    + cbn [nth_error] in H.
      assert (H' : nth_error (cur :: starts r (off + blen c)) (N.to_nat line) = None).
      { replace (N.to_nat line) with (S (N.to_nat (line - 1))) by lia. exact H. }
      rewrite (IH _ _ _ col H'). reflexivity.
Qed.

(** the [S k]-th line start of a suffix [t] (at offset [off] of [p0 ++ t]) *)
Lemma nth_line : forall t p0 off cur asc k start,
  off = bytes p0 ->
  nth_error (cur :: starts t off) (S k) = Some start ->
  exists p1 t1,
    p0 ++ t = p1 ++ t1 /\ start = bytes p1 /\ off < start /\
    skipn (S k) (cur :: starts t off) = start :: starts t1 start /\
    skipn (S k) (flags t asc) = flags t1 true /\
    (forall col, spec_off t (N.of_nat (S k)) col =
                 option_map (N.add (start - off)) (spec_off t1 0 col)).
Proof.
  induction t as [|c r IH]; intros p0 off cur asc k start Hoff H.
  - cbn [starts nth_error] in H. destruct k; discriminate.
  - pose proof (blen_pos c) as Hc.
    cbn [starts flags] in *.
    assert (Hp : off + blen c = bytes (p0 ++ [c])).
    { rewrite bytes_app. cbn [bytes]. lia. }
    assert (Happ : forall x, (p0 ++ [c]) ++ x = p0 ++ c :: x).
    { intros x. rewrite <- app_assoc. reflexivity. }
    destruct (is_break c r) eqn:B.
    + cbn [nth_error] in H. destruct k as [|k].
      * cbn [nth_error] in H. inversion H; subst start. clear H.
        exists (p0 ++ [c]), r.
        split; [symmetry; apply Happ|]. split; [exact Hp|]. split; [lia|].
        split; [reflexivity|]. split; [reflexivity|].
        intros col. cbn [spec_off].
        change (N.of_nat 1 =? 0) with false. cbv iota.
        change (lsp_break c r) with (is_break c r). rewrite B.
        change (N.of_nat 1 - 1) with 0.
        replace (off + blen c - off) with (blen c) by lia. reflexivity.
      * destruct (IH (p0 ++ [c]) (off + blen c) (off + blen c) true k start Hp H)
          as [p1 [t1 [E1 [E2 [E3 [E4 [E5 E6]]]]]]].
        exists p1, t1.
        split; [rewrite <- E1; symmetry; apply Happ|]. split; [exact E2|]. split; [lia|].
        split; [exact E4|]. split; [exact E5|].
        intros col. cbn [spec_off].
        destruct (N.eqb_spec (N.of_nat (S (S k))) 0) as [E|_]; [lia|].
        change (lsp_break c r) with (is_break c r). rewrite B.
        replace (N.of_nat (S (S k)) - 1) with (N.of_nat (S k)) by lia.
        rewrite E6. destruct (spec_off t1 0 col) as [x|]; cbn [option_map]; [|reflexivity].
        f_equal. lia.
    + destruct (IH (p0 ++ [c]) (off + blen c) cur (asc && (c <? 128)) k start Hp H)
        as [p1 [t1 [E1 [E2 [E3 [E4 [E5 E6]]]]]]].
      exists p1, t1.
      split; [rewrite <- E1; symmetry; apply Happ|]. split; [exact E2|]. split; [lia|].
      split; [exact E4|]. split; [exact E5|].
      intros col. cbn [spec_off].
      destruct (N.eqb_spec (N.of_nat (S k)) 0) as [E|_]; [lia|].
      change (lsp_break c r) with (is_break c r). rewrite B.
      rewrite E6. destruct (spec_off t1 0 col) as [x|]; cbn [option_map]; [|reflexivity].
      f_equal. lia.
Qed.

(** the [k]-th line of a whole text *)
Lemma line_struct : forall t k start,
  nth_error (0 :: starts t 0) k = Some start ->
  exists p1 t1,
    t = p1 ++ t1 /\ start = bytes p1 /\
    skipn k (0 :: starts t 0) = start :: starts t1 start /\
    skipn k (flags t true) = flags t1 true /\
    (forall col, spec_off t (N.of_nat k) col = option_map (N.add start) (spec_off t1 0 col)).
Proof.
  intros t k start H. destruct k as [|k].
  - cbn [nth_error] in H. inversion H; subst start. exists [], t.
    split; [reflexivity|]. split; [reflexivity|]. split; [reflexivity|].
    split; [reflexivity|]. intros col. cbn [N.of_nat].
    destruct (spec_off t 0 col); reflexivity.
  - destruct (nth_line t [] 0 0 true k start eq_refl H)
      as [p1 [t1 [E1 [E2 [E3 [E4 [E5 E6]]]]]]].
    exists p1, t1. split; [exact E1|]. split; [exact E2|]. split; [exact E4|].
    split; [exact E5|]. intros col. rewrite E6.
    replace (start - 0) with start by lia. reflexivity.
Qed.

Lemma line_end_struct : forall t line start p1 t1,
  t = p1 ++ t1 -> start = bytes p1 ->
  skipn (N.to_nat line) (0 :: starts t 0) = start :: starts t1 start ->
  line_end (parse t) t line = start + bytes (line_body t1).
Proof.
  intros t line start p1 t1 Et Es Hsk.
  unfold line_end, get_line_offset. rewrite parse_eq. cbn [line_offsets].
  replace (N.to_nat (line + 1)) with (N.to_nat line + 1)%nat by lia.
  rewrite nth_error_skipn, Hsk. cbn [nth_error].
  pose proof (starts_body t1 start) as HB.
  destruct (starts t1 start) as [|next l].
  - rewrite HB. rewrite Et, bytes_app. lia.
  - lia.
Qed.

Lemma offset_struct : forall t line start,
  nth_error (0 :: starts t 0) (N.to_nat line) = Some start ->
  exists p1 t1,
    t = p1 ++ t1 /\ start = bytes p1 /\
    line_end (parse t) t line = start + bytes (line_body t1) /\
    forall col,
      get_offset (parse t) t line col = Val (start + walk16 (line_body t1) col) /\
      spec_off t line col = Some (start + walk16 (line_body t1) col).
Proof.
  intros t line start H.
  destruct (line_struct t (N.to_nat line) start H) as [p1 [t1 [E1 [E2 [E3 [E4 E5]]]]]].
  rewrite N2Nat.id in E5.
  pose proof (line_end_struct t line start p1 t1 E1 E2 E3) as Hle.
  exists p1, t1. split; [exact E1|]. split; [exact E2|]. split; [exact Hle|].
  intros col. split.
  - unfold get_offset, get_col_offset_at_line. rewrite Hle.
    unfold get_line_offset, is_ascii_line. rewrite parse_eq. cbn [line_offsets line_ascii].
    rewrite H.
    destruct (N.eqb_spec col 0) as [C|C].
    + subst col. rewrite walk16_0. reflexivity.
    + replace (N.to_nat line) with (N.to_nat line + 0)%nat by lia.
      rewrite nth_skipn, E4.
      destruct (nth 0 (flags t1 true) false) eqn:F.
      * rewrite (walk16_ascii _ col (flags_body _ _ F)).
        replace (start + bytes (line_body t1) - start) with (bytes (line_body t1)) by lia.
        reflexivity.
      * destruct (body_prefix t1) as [tail Etail].
        replace (slice t start (start + bytes (line_body t1))) with (Some (line_body t1)).
        { reflexivity. }
        symmetry. rewrite E1. rewrite Etail at 1.
        apply slice_app; [exact E2|rewrite E2; reflexivity].
  - rewrite E5, spec_off_body. reflexivity.
Qed.

Lemma off_is_lsp_off : forall (t : text) (line col : N),
  get_offset (parse t) t line col =
  match spec_off t line col with Some o => Val o | None => Nothing end.
Proof.
  intros t line col.
  destruct (nth_error (0 :: starts t 0) (N.to_nat line)) as [start|] eqn:H.
  - destruct (offset_struct t line start H) as [p1 [t1 [_ [_ [_ HO]]]]].
    destruct (HO col) as [H1 H2]. rewrite H1, H2. reflexivity.
  - rewrite (spec_off_missing t 0 0 line col H).
    unfold get_offset, get_line_offset. rewrite parse_eq. cbn [line_offsets].
    rewrite H. reflexivity.
Qed.

Lemma starts_count : forall t off, N.of_nat (length (starts t off)) + 1 = lsp_line_count t.
Proof.
  induction t as [|c r IH]; intros off; cbn [starts lsp_line_count]; [reflexivity|].
  change (lsp_break c r) with (is_break c r).
  destruct (is_break c r); cbn [length]; rewrite <- (IH (off + blen c)); lia.
Qed.

Lemma lines_match_lsp : forall (t : text), line_count (parse t) = lsp_line_count t.
Proof.
  intros t. unfold line_count. rewrite parse_eq. cbn [line_offsets length].
  rewrite <- (starts_count t 0). lia.
Qed.

Lemma spec_pos_nobreak : forall t line col,
  (forall c, In c t -> c <> 10 /\ c <> 13) ->
  spec_pos t (bytes t) line col = Some (line, col + u16s t).
Proof.
  induction t as [|c r IH]; intros line col H; cbn [spec_pos bytes u16s].
  - change (0 =? 0) with true. cbv iota. f_equal. f_equal. lia.
  - pose proof (blen_pos c) as Hc.
    destruct (N.eqb_spec (blen c + bytes r) 0) as [E|_]; [lia|].
    destruct (N.ltb_spec (blen c + bytes r) (blen c)) as [L|_]; [lia|].
    assert (B : lsp_break c r = false).
    { destruct (H c (or_introl eq_refl)) as [H1 H2]. unfold lsp_break.
      destruct (N.eqb_spec c 10) as [E|_]; [contradiction|].
      destruct (N.eqb_spec c 13) as [E|_]; [contradiction|]. reflexivity. }
    rewrite B. replace (blen c + bytes r - blen c) with (bytes r) by lia.
    rewrite IH.
    + f_equal. f_equal. lia.
    + intros c' Hin. apply H. right. exact Hin.
Qed.

Lemma col_is_utf16 : forall (t : text),
  (forall c, In c t -> c <> 10 /\ c <> 13) ->
  get_line_col (parse t) t (bytes t) = Val (0, u16s t).
Proof.
  intros t H.
  assert (HB : boundaryb t (bytes t) = true).
  { rewrite <- (app_nil_r t) at 1. apply boundaryb_app. }
  destruct (pos_is_lsp_pos t (bytes t) HB) as [p [H1 H2]].
  rewrite (spec_pos_nobreak t 0 0 H) in H1. inversion H1; subst p.
  rewrite H2. reflexivity.
Qed.

Lemma utf16_example :
  get_line_col (parse [97; 128512; 98]) [97; 128512; 98] 5 = Val (0, 3)
  /\ get_line_col (parse [97; 13; 98]) [97; 13; 98] 2 = Val (1, 0).
Proof. split; vm_compute; reflexivity. Qed.
