(** C23/Props.v — the line index agrees with the LSP specification of positions (C23/Spec.v):
    UTF-16 columns; lines end at "\n", "\r\n", lone "\r". *)
From EV Require Import C22.Model C23.Spec C23.Proofs.
Local Open Scope N_scope.

(** the position computed for every boundary offset is the LSP position *)
Theorem pos_is_lsp_pos : forall (t : text) (o : N),
  boundaryb t o = true ->
  exists p, spec_pos t o 0 0 = Some p /\ get_line_col (parse t) t o = Val p.
Proof. exact Proofs.pos_is_lsp_pos. Qed.

(** the offset computed for every position is the LSP offset (clamped), and a missing line is
    missing in both *)
Theorem off_is_lsp_off : forall (t : text) (line col : N),
  get_offset (parse t) t line col =
  match spec_off t line col with Some o => Val o | None => Nothing end.
Proof. exact Proofs.off_is_lsp_off. Qed.

(** the number of lines is one more than the number of LSP line terminators *)
Theorem lines_match_lsp : forall (t : text), line_count (parse t) = lsp_line_count t.
Proof. exact Proofs.lines_match_lsp. Qed.

(** columns are UTF-16: on a one-line text the column of the end is the UTF-16 length *)
Theorem col_is_utf16 : forall (t : text),
  (forall c, In c t -> c <> 10 /\ c <> 13) ->
  get_line_col (parse t) t (bytes t) = Val (0, u16s t).
Proof. exact Proofs.col_is_utf16. Qed.

Example utf16_example :
  get_line_col (parse [97; 128512; 98]) [97; 128512; 98] 5 = Val (0, 3)
  /\ get_line_col (parse [97; 13; 98]) [97; 13; 98] 2 = Val (1, 0).
Proof. exact Proofs.utf16_example. Qed.
