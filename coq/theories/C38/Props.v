(** C38/Props.v — property theorems only.

    What a Gallina model can carry of "concurrent read-only queries are race-free": the
    auto-trait obligation over the struct/enum field type graph of [EmmyLuaAnalysis],
    regenerated from the source on every run (Gen/C38_TyGraph.v).  A data race as such cannot
    be exhibited by this model; rustc checks the compile-time assertions of hook H3, and the
    multi-threaded differential run is exploration. *)
From EV Require Import C38.Model C38.Proofs Gen.C38_TyGraph.
Local Open Scope N_scope.

(** Soundness of the solver, for EVERY type graph, fuel and type: if it accepts [t] as Sync,
    then no goal reachable from "[t]: Sync" through owned fields (instantiated generics,
    Arc/Mutex/RwLock/reference pointees with the trait each of them demands) is a leaf that is
    not thread-safe: no Rc, raw pointer, rowan cursor node, guard; no Cell/RefCell required to be
    Sync; no dyn Trait lacking the bound; no unknown type; no definition that has the trait only
    by an [unsafe impl].  (Running out of fuel rejects, so acceptance never relies on it.) *)
Theorem sync_ok_sound : forall (defs : list def) (fuel : nat) (t : ty),
  sync_ok defs fuel t = true ->
  forall h, reach defs (true, t) h -> ~ unsafe_leaf defs h.
Proof. exact Proofs.sync_ok_sound. Qed.

Theorem send_ok_sound : forall (defs : list def) (fuel : nat) (t : ty),
  send_ok defs fuel t = true ->
  forall h, reach defs (false, t) h -> ~ unsafe_leaf defs h.
Proof. exact Proofs.send_ok_sound. Qed.

(** the same for all components (fields) of one definition at once *)
Theorem components_sync_sound : forall (defs : list def) (fuel : nat) (id : N),
  components_sync defs fuel id = true ->
  forall g h, In g (component_goals defs id) -> reach defs g h -> ~ unsafe_leaf defs h.
Proof. exact Proofs.components_sync_sound. Qed.

Definition FUEL : nat := N.to_nat 400000.

(** THE OBLIGATION on today's source: every component of [EmmyLuaAnalysis] (not the struct
    itself, which carries an [unsafe impl Send/Sync]) is Send and Sync on its own. *)
Theorem analysis_components_sync : components_sync defs FUEL root_id = true.
Proof. vm_compute. reflexivity. Qed.

(** hence nothing the shared analysis owns is a non-thread-safe leaf or relies on an
    unchecked assertion *)
Theorem analysis_holds_no_unsafe_leaf :
  forall g h, In g (component_goals defs root_id) -> reach defs g h -> ~ unsafe_leaf defs h.
Proof. exact (Proofs.components_sync_sound defs FUEL root_id analysis_components_sync). Qed.

(** the root of the generated graph is the struct the property is about *)
Example root_is_analysis :
  option_map d_name (nth_error defs (N.to_nat root_id)) = Some "EmmyLuaAnalysis"%string.
Proof. vm_compute. reflexivity. Qed.

(** non-vacuity of the solver on a small graph: 0 = struct Good { a: Arc<Node>, m: Mutex<RefCell<u8>> },
    1 = enum Node { Leaf, Cons(Box<Node>, Wrapper<u8>) } (recursive), 2 = struct Wrapper<T>(T),
    3 = struct HasRc { r: Rc<u8> }, 4 = struct HasCell { c: Wrapper<RefCell<u8>> },
    5 = struct Asserted { x: Rc<u8> } with unsafe impl Send + Sync, 6 = struct UsesAsserted { a: Asserted } *)
Definition demo : list def :=
  [ {| d_name := "Good"; d_unsafe_send := false; d_unsafe_sync := false;
       d_fields := [TArc (TPair (TNamed 1 TPrim) TPrim); TMutex (TPair (TCell (TPair TPrim TPrim)) TPrim)] |};
    {| d_name := "Node"; d_unsafe_send := false; d_unsafe_sync := false;
       d_fields := [TPair (TNamed 1 TPrim) TPrim; TNamed 2 (TPair TPrim TPrim)] |};
    {| d_name := "Wrapper"; d_unsafe_send := false; d_unsafe_sync := false; d_fields := [TParam 0] |};
    {| d_name := "HasRc"; d_unsafe_send := false; d_unsafe_sync := false; d_fields := [TBad 1] |};
    {| d_name := "HasCell"; d_unsafe_send := false; d_unsafe_sync := false;
       d_fields := [TNamed 2 (TPair (TCell (TPair TPrim TPrim)) TPrim)] |};
    {| d_name := "Asserted"; d_unsafe_send := true; d_unsafe_sync := true; d_fields := [TBad 1] |};
    {| d_name := "UsesAsserted"; d_unsafe_send := false; d_unsafe_sync := false; d_fields := [TNamed 5 TPrim] |} ].

Example solver_example :
  map (fun id => (sync_ok demo 1000 (TNamed id TPrim), send_ok demo 1000 (TNamed id TPrim))) [0; 1; 3; 4; 6]
  = [(true, true); (true, true); (false, false); (false, true); (false, false)].
Proof. vm_compute. reflexivity. Qed.
