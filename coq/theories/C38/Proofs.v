(** C38/Proofs.v — soundness of the work-list trait solver of Model.v. *)
From EV Require Import C38.Model.
Local Open Scope N_scope.

Lemma ty_eqb_eq : forall a b, ty_eqb a b = true -> a = b.
Proof.
  induction a; destruct b; cbn [ty_eqb]; intros H; try discriminate; try reflexivity.
  - apply N.eqb_eq in H. subst. reflexivity.
  - apply N.eqb_eq in H. subst. reflexivity.
  - apply andb_true_iff in H. destruct H as [H1 H2]. rewrite (IHa1 _ H1), (IHa2 _ H2). reflexivity.
  - apply andb_true_iff in H. destruct H as [H1 H2]. apply N.eqb_eq in H1. subst. rewrite (IHa _ H2). reflexivity.
  - rewrite (IHa _ H). reflexivity.
  - rewrite (IHa _ H). reflexivity.
  - rewrite (IHa _ H). reflexivity.
  - rewrite (IHa _ H). reflexivity.
  - rewrite (IHa _ H). reflexivity.
  - rewrite (IHa _ H). reflexivity.
  - apply andb_true_iff in H. destruct H as [H1 H2].
    apply Bool.eqb_prop in H1. apply Bool.eqb_prop in H2. subst. reflexivity.
Qed.

Lemma goal_eqb_eq : forall g h, goal_eqb g h = true -> g = h.
Proof.
  intros [s t] [s' t'] H. unfold goal_eqb in H. cbn [fst snd] in H.
  apply andb_true_iff in H. destruct H as [H1 H2].
  apply Bool.eqb_prop in H1. apply ty_eqb_eq in H2. subst. reflexivity.
Qed.

Lemma mem_In : forall g l, mem g l = true -> In g l.
Proof.
  induction l as [|h l IH]; cbn [mem]; intros H; [discriminate|].
  apply orb_true_iff in H. destruct H as [H|H].
  - left. symmetry. apply goal_eqb_eq. exact H.
  - right. apply IH. exact H.
Qed.

Section Sound.
  Variable defs : list def.

  (** [h] is an immediate requirement of [g]: what [g]'s type owns (its fields after
      instantiation, the pointee of an Arc/Mutex/reference …) under the trait it needs *)
  Inductive requires : goal -> goal -> Prop :=
  | requires_intro : forall g subs h, expand defs g = Some subs -> In h subs -> requires g h.

  Inductive reach : goal -> goal -> Prop :=
  | reach_refl : forall g, reach g g
  | reach_step : forall g h k, reach g h -> requires h k -> reach g k.

  (** every seen goal expands, into goals that are seen or still to do *)
  Definition closedish (seen todo : list goal) : Prop :=
    forall s, In s seen ->
      exists subs, expand defs s = Some subs /\ forall x, In x subs -> In x seen \/ In x todo.

  Lemma check_sound : forall fuel todo seen,
    check defs fuel todo seen = true -> closedish seen todo ->
    exists seen', (forall x, In x seen -> In x seen') /\ (forall x, In x todo -> In x seen') /\
                  closedish seen' [].
  Proof.
    induction fuel as [|f IH]; intros todo seen H C; cbn [check] in H; [discriminate|].
    destruct todo as [|g rest].
    - exists seen. split; [auto|]. split; [intros x []|exact C].
    - destruct (mem g seen) eqn:M.
      + apply mem_In in M.
        destruct (IH rest seen H) as [seen' [S1 [S2 S3]]].
        { intros s Hs. destruct (C s Hs) as [subs [E Hsub]]. exists subs. split; [exact E|].
          intros x Hx. destruct (Hsub x Hx) as [Hx'|[Hx'|Hx']]; [left; exact Hx'|subst x; left; exact M|right; exact Hx']. }
        exists seen'. split; [exact S1|]. split; [|exact S3].
        intros x [Hx|Hx]; [subst x; apply S1; exact M|apply S2; exact Hx].
      + destruct (expand defs g) as [subs|] eqn:E; [|discriminate].
        destruct (IH (subs ++ rest) (g :: seen) H) as [seen' [S1 [S2 S3]]].
        { intros s [Hs|Hs].
          - subst s. exists subs. split; [exact E|]. intros x Hx. right. apply in_or_app. left. exact Hx.
          - destruct (C s Hs) as [subs' [E' Hsub]]. exists subs'. split; [exact E'|].
            intros x Hx. destruct (Hsub x Hx) as [Hx'|[Hx'|Hx']].
            + left. right. exact Hx'.
            + subst x. left. left. reflexivity.
            + right. apply in_or_app. right. exact Hx'. }
        exists seen'. split; [intros x Hx; apply S1; right; exact Hx|]. split; [|exact S3].
        intros x [Hx|Hx]; [subst x; apply S1; left; reflexivity|apply S2; apply in_or_app; right; exact Hx].
  Qed.

  Lemma closed_reach : forall seen g h,
    closedish seen [] -> In g seen -> reach g h -> In h seen.
  Proof.
    intros seen g h C Hg R. induction R as [g|g h k R IH Q]; [exact Hg|].
    specialize (IH Hg). destruct Q as [h' subs k E Hk].
    destruct (C h' IH) as [subs' [E' Hsub]]. rewrite E in E'. inversion E'; subst subs'.
    destruct (Hsub k Hk) as [X|[]]. exact X.
  Qed.

  (** if the solver accepts the goals [todo], every goal reachable from them through owned
      fields is one the solver can discharge: none is a non-thread-safe leaf *)
  Lemma check_no_bad_reachable : forall fuel todo,
    check defs fuel todo [] = true ->
    forall g h, In g todo -> reach g h -> expand defs h <> None.
  Proof.
    intros fuel todo H g h Hg R.
    destruct (check_sound fuel todo [] H) as [seen' [_ [S2 S3]]]; [intros s []|].
    pose proof (closed_reach seen' g h S3 (S2 g Hg) R) as Hh.
    destruct (S3 h Hh) as [subs [E _]]. rewrite E. discriminate.
  Qed.

  (** the leaves that are not thread-safe for the trait asked *)
  Inductive unsafe_leaf : goal -> Prop :=
  | ul_bad : forall s w, unsafe_leaf (s, TBad w)                    (* Rc, raw pointer, cursor node, guard *)
  | ul_cell : forall x, unsafe_leaf (true, TCell x)                  (* Cell / RefCell shared between threads *)
  | ul_unknown : forall s, unsafe_leaf (s, TUnknown)
  | ul_param : forall s i, unsafe_leaf (s, TParam i)
  | ul_dyn_send : forall y, unsafe_leaf (false, TDyn false y)        (* dyn Trait without + Send *)
  | ul_dyn_sync : forall s, unsafe_leaf (true, TDyn s false)         (* dyn Trait without + Sync *)
  | ul_unchecked : forall s id args d,
      nth_error defs (N.to_nat id) = Some d -> d_unsafe_send d || d_unsafe_sync d = true ->
      unsafe_leaf (s, TNamed id args)                                (* only thread-safe by [unsafe impl] *)
  | ul_dangling : forall s id args,
      nth_error defs (N.to_nat id) = None -> unsafe_leaf (s, TNamed id args).

  Lemma unsafe_leaf_expand : forall g, unsafe_leaf g -> expand defs g = None.
  Proof.
    intros g H. destruct H; cbn [expand]; try reflexivity.
    - rewrite H, H0. reflexivity.
    - rewrite H. reflexivity.
  Qed.

  Lemma sync_ok_sound : forall fuel t,
    sync_ok defs fuel t = true -> forall h, reach (true, t) h -> ~ unsafe_leaf h.
  Proof.
    intros fuel t H h R U. unfold sync_ok in H.
    apply (check_no_bad_reachable fuel [(true, t)] H (true, t) h); [left; reflexivity|exact R|].
    apply unsafe_leaf_expand. exact U.
  Qed.

  Lemma send_ok_sound : forall fuel t,
    send_ok defs fuel t = true -> forall h, reach (false, t) h -> ~ unsafe_leaf h.
  Proof.
    intros fuel t H h R U. unfold send_ok in H.
    apply (check_no_bad_reachable fuel [(false, t)] H (false, t) h); [left; reflexivity|exact R|].
    apply unsafe_leaf_expand. exact U.
  Qed.

  Lemma components_sync_sound : forall fuel id,
    components_sync defs fuel id = true ->
    forall g h, In g (component_goals defs id) -> reach g h -> ~ unsafe_leaf h.
  Proof.
    intros fuel id H g h Hg R U. unfold components_sync in H.
    apply (check_no_bad_reachable fuel _ H g h Hg R). apply unsafe_leaf_expand. exact U.
  Qed.
End Sound.
