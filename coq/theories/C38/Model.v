(** C38/Model.v — auto-trait ([Send] / [Sync]) reasoning over a struct/enum field type graph.
    Executable definitions only.

    Rust derives [Send] and [Sync] structurally: a struct/enum has the trait iff all its
    fields have it (coinductively for recursive types); the library types below are the
    leaves with their documented impls.  An [unsafe impl Send/Sync] is an UNCHECKED
    assertion: the model never trusts it — a definition carrying one fails the obligation. *)
From Coq Require Export List NArith Bool String.
Export ListNotations.
Local Open Scope N_scope.

Inductive ty :=
| TPrim                       (* reviewed plain-data leaf, Send + Sync; also the end of an argument pack *)
| TBad (why : N)              (* Rc, raw pointer, rowan cursor node, guard …: neither Send nor Sync *)
| TUnknown                    (* unparsable / unclassified: fails *)
| TParam (i : N)              (* generic parameter [i] of the enclosing definition *)
| TPair (a b : ty)            (* transparent product: Vec/Option/HashMap/Box/tuple/PhantomData … of the packed arguments *)
| TNamed (id : N) (args : ty) (* definition [id] of the graph applied to the packed arguments *)
| TArc (t : ty)               (* Arc / ArcIntern:      Send + Sync  iff  T: Send + Sync *)
| TCell (t : ty)              (* Cell / RefCell / UnsafeCell / OnceCell: Send iff T: Send; never Sync *)
| TMutex (t : ty)             (* Mutex:                Send iff T: Send;  Sync iff T: Send *)
| TRwLock (t : ty)            (* RwLock / OnceLock:    Send iff T: Send;  Sync iff T: Send + Sync *)
| TRef (t : ty)               (* &T:                   Send iff T: Sync;  Sync iff T: Sync *)
| TRefMut (t : ty)            (* &mut T:               Send iff T: Send;  Sync iff T: Sync *)
| TDyn (send sync : bool).    (* dyn Trait [+ Send] [+ Sync] *)

Record def := {
  d_name : string;
  d_unsafe_send : bool;       (* carries [unsafe impl Send] *)
  d_unsafe_sync : bool;       (* carries [unsafe impl Sync] *)
  d_fields : list ty          (* all field types of all variants *)
}.

(** a proof goal of the trait solver: [true] = Sync, [false] = Send *)
Definition goal := (bool * ty)%type.

Fixpoint ty_eqb (a b : ty) : bool :=
  match a, b with
  | TPrim, TPrim => true
  | TBad x, TBad y => x =? y
  | TUnknown, TUnknown => true
  | TParam x, TParam y => x =? y
  | TPair a1 a2, TPair b1 b2 => ty_eqb a1 b1 && ty_eqb a2 b2
  | TNamed x a1, TNamed y b1 => (x =? y) && ty_eqb a1 b1
  | TArc x, TArc y => ty_eqb x y
  | TCell x, TCell y => ty_eqb x y
  | TMutex x, TMutex y => ty_eqb x y
  | TRwLock x, TRwLock y => ty_eqb x y
  | TRef x, TRef y => ty_eqb x y
  | TRefMut x, TRefMut y => ty_eqb x y
  | TDyn s1 y1, TDyn s2 y2 => Bool.eqb s1 s2 && Bool.eqb y1 y2
  | _, _ => false
  end.

Definition goal_eqb (g h : goal) : bool := Bool.eqb (fst g) (fst h) && ty_eqb (snd g) (snd h).

Fixpoint mem (g : goal) (l : list goal) : bool :=
  match l with
  | [] => false
  | h :: r => goal_eqb g h || mem g r
  end.

(** the [i]-th argument of a pack *)
Fixpoint nth_arg (i : nat) (args : ty) : ty :=
  match args, i with
  | TPair a _, O => a
  | TPair _ b, S k => nth_arg k b
  | _, _ => TUnknown
  end.

(** instantiate the generic parameters of a field type *)
Fixpoint subst (args : ty) (t : ty) : ty :=
  match t with
  | TParam i => nth_arg (N.to_nat i) args
  | TPair a b => TPair (subst args a) (subst args b)
  | TNamed id a => TNamed id (subst args a)
  | TArc x => TArc (subst args x)
  | TCell x => TCell (subst args x)
  | TMutex x => TMutex (subst args x)
  | TRwLock x => TRwLock (subst args x)
  | TRef x => TRef (subst args x)
  | TRefMut x => TRefMut (subst args x)
  | other => other
  end.

(** one step of the trait solver: the sub-goals that [g] reduces to, or [None] when [g]
    cannot hold (a leaf that is not thread-safe for that trait, an unknown type, an
    un-instantiated parameter, a definition that only has the trait by [unsafe impl]) *)
Definition expand (defs : list def) (g : goal) : option (list goal) :=
  let '(sync, t) := g in
  match t with
  | TPrim => Some []
  | TBad _ => None
  | TUnknown => None
  | TParam _ => None
  | TPair a b => Some [(sync, a); (sync, b)]
  | TNamed id args =>
      match nth_error defs (N.to_nat id) with
      | None => None
      | Some d =>
          if d_unsafe_send d || d_unsafe_sync d then None
          else Some (map (fun f => (sync, subst args f)) (d_fields d))
      end
  | TArc x => Some [(false, x); (true, x)]
  | TCell x => if sync then None else Some [(false, x)]
  | TMutex x => Some [(false, x)]
  | TRwLock x => if sync then Some [(false, x); (true, x)] else Some [(false, x)]
  | TRef x => Some [(true, x)]
  | TRefMut x => Some [(sync, x)]
  | TDyn s y => if (if sync then y else s) then Some [] else None
  end.

(** the solver: a work-list traversal; a goal already seen is assumed (auto traits of
    recursive types are resolved coinductively).  Out of fuel = failure. *)
Fixpoint check (defs : list def) (fuel : nat) (todo seen : list goal) : bool :=
  match fuel with
  | O => false
  | S f =>
      match todo with
      | [] => true
      | g :: rest =>
          if mem g seen then check defs f rest seen
          else match expand defs g with
               | None => false
               | Some subs => check defs f (subs ++ rest) (g :: seen)
               end
      end
  end.

(** [sync_ok fuel t]: [t] is Sync (and [send_ok]: Send) according to the graph *)
Definition sync_ok (defs : list def) (fuel : nat) (t : ty) : bool := check defs fuel [(true, t)] [].
Definition send_ok (defs : list def) (fuel : nat) (t : ty) : bool := check defs fuel [(false, t)] [].

(** the components of definition [id]: its fields, each required to be Send and Sync *)
Definition component_goals (defs : list def) (id : N) : list goal :=
  match nth_error defs (N.to_nat id) with
  | None => [(true, TUnknown)]
  | Some d => flat_map (fun f => [(false, f); (true, f)]) (d_fields d)
  end.

Definition components_sync (defs : list def) (fuel : nat) (id : N) : bool :=
  check defs fuel (component_goals defs id) [].

(** diagnostics for the report: the first goal that fails, with the path of definitions *)
Fixpoint first_failure (defs : list def) (fuel : nat) (todo seen : list goal) : option goal :=
  match fuel with
  | O => None
  | S f =>
      match todo with
      | [] => None
      | g :: rest =>
          if mem g seen then first_failure defs f rest seen
          else match expand defs g with
               | None => Some g
               | Some subs => first_failure defs f (subs ++ rest) (g :: seen)
               end
      end
  end.
