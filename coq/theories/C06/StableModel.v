(** C06/StableModel.v — definitions for [print_stable]: what the printer (EV.C05.Model) looks at in
    an atom text, IRs of the same shape whose atoms agree on it, and the layout events of a run.
    Definitions only. *)
From EV Require Export C05.Model.
Local Open Scope N_scope.

(** the printer reads of an atom text only: its byte width ([s.len()]), the width after its last
    newline ([s.len() - s.rfind('\n') - 1]) and whether it is empty (pending indent is flushed by
    the first non-empty text) *)
Definition metrics (s : text) : N * option N * bool := (bytes s, after_last_nl s None, isnil s).

(** same shape, atoms with the same metrics *)
Inductive MS : doc -> doc -> Prop :=
| MS_atom : forall k k' s s', metrics s = metrics s' -> MS (Atom k s) (Atom k' s')
| MS_hard : MS HardLine HardLine
| MS_soft : MS SoftLine SoftLine
| MS_softe : MS SoftLineOrEmpty SoftLineOrEmpty
| MS_space : MS Space Space
| MS_indent : forall ds ds', MSL ds ds' -> MS (Indent ds) (Indent ds')
| MS_group : forall ds ds' sb id, MSL ds ds' -> MS (Group ds sb id) (Group ds' sb id)
| MS_list : forall ds ds', MSL ds ds' -> MS (DList ds) (DList ds')
| MS_ifb : forall b b' f f' g, MS b b' -> MS f f' -> MS (IfBreak b f g) (IfBreak b' f' g)
| MS_fill : forall ds ds', MSL ds ds' -> MS (Fill ds) (Fill ds')
| MS_ls : forall ds ds', MSL ds ds' -> MS (LineSuffix ds) (LineSuffix ds')
| MS_ag : forall es es', MSE es es' -> MS (AlignGroup es) (AlignGroup es')
with MSL : list doc -> list doc -> Prop :=
| MSL_nil : MSL [] []
| MSL_cons : forall d d' r r', MS d d' -> MSL r r' -> MSL (d :: r) (d' :: r')
with MSO : option (list doc) -> option (list doc) -> Prop :=
| MSO_none : MSO None None
| MSO_some : forall l l', MSL l l' -> MSO (Some l) (Some l')
with MSE : list entry -> list entry -> Prop :=
| MSE_nil : MSE [] []
| MSE_aligned : forall b b' a a' t t' r r',
    MSL b b' -> MSL a a' -> MSO t t' -> MSE r r' -> MSE (Aligned b a t :: r) (Aligned b' a' t' :: r')
| MSE_line : forall ct ct' t t' r r',
    MSL ct ct' -> MSO t t' -> MSE r r' -> MSE (ALine ct t :: r) (ALine ct' t' :: r').

(** a layout event: an atom (only its metrics), blanks pushed by the printer (indent, spaces,
    padding), a newline (which also trims the trailing spaces of the line) *)
Inductive lev := LAtom (m : N * option N * bool) | LBlank (s : text) | LNewline.

Definition erase (e : ev) : lev :=
  match e with EvAtom s => LAtom (metrics s) | EvBlank s => LBlank s | EvNewline => LNewline end.

(** the layout of a run: every decision of the printer (modes of groups, fill, IfBreak branches,
    indentation, alignment padding, line breaks) shows in it *)
Definition layout (c : cfg) (ds : list doc) : option (list lev) :=
  do st <- run c ds; Some (rev (map erase (evs st))).

(** the printed text is a function of the events: atoms and blanks are appended, a newline trims
    the trailing spaces first ([evs] latest first, result reversed) *)
Fixpoint rrender (c : cfg) (l : list ev) : text :=
  match l with
  | [] => []
  | EvAtom s :: r => rev_append s (rrender c r)
  | EvBlank s :: r => rev_append s (rrender c r)
  | EvNewline :: r => rev_append (newline_str c) (drop_spaces (rrender c r))
  end.
